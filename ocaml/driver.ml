(* driver.ml -- generic driver of the extracted model: one s-expression per input line,
   one s-expression per output line.  Only tokenising, decimal <-> Z conversion and printing
   live here; all decoding of scenarios is done by the extracted Gallina code (Model.run). *)
open Model

let rec pos_of_int n =
  if n = 1 then XH else if n land 1 = 1 then XI (pos_of_int (n lsr 1)) else XO (pos_of_int (n lsr 1))
let z_of_int n = if n = 0 then Z0 else if n > 0 then Zpos (pos_of_int n) else Zneg (pos_of_int (-n))
let ten = z_of_int 10

let z_of_string s =
  let neg = String.length s > 0 && s.[0] = '-' in
  let start = if neg then 1 else 0 in
  let len = String.length s - start in
  if len <= 17 then z_of_int (int_of_string s)
  else begin
    let acc = ref Z0 in
    for i = start to String.length s - 1 do
      acc := Z.add (Z.mul !acc ten) (z_of_int (Char.code s.[i] - 48))
    done;
    if neg then Z.opp !acc else !acc
  end

(* int of positive if it has at most 60 bits *)
let int_of_pos p =
  let rec go p bit acc depth =
    if depth > 60 then None else
    match p with
    | XH -> Some (acc lor bit)
    | XO p' -> go p' (bit lsl 1) acc (depth + 1)
    | XI p' -> go p' (bit lsl 1) (acc lor bit) (depth + 1)
  in go p 1 0 0

let rec string_of_pos_big p =
  (* p > 0, arbitrary size: peel 9 decimal digits at a time *)
  let chunk = z_of_int 1000000000 in
  match int_of_pos p with
  | Some n -> string_of_int n
  | None ->
    let (q, r) = Z.div_eucl (Zpos p) chunk in
    let rs = (match r with Z0 -> 0 | Zpos rp -> (match int_of_pos rp with Some n -> n | None -> assert false) | Zneg _ -> assert false) in
    (match q with
     | Zpos qp -> string_of_pos_big qp ^ Printf.sprintf "%09d" rs
     | _ -> string_of_int rs)

let string_of_z = function
  | Z0 -> "0"
  | Zpos p -> string_of_pos_big p
  | Zneg p -> "-" ^ string_of_pos_big p

(* tokeniser / parser *)
let parse (line : string) : sx =
  let n = String.length line in
  let pos = ref 0 in
  let rec skip () = if !pos < n && (line.[!pos] = ' ' || line.[!pos] = '\t' || line.[!pos] = '\r') then (incr pos; skip ()) in
  let rec item () : sx =
    skip ();
    if !pos >= n then failwith "unexpected end"
    else if line.[!pos] = '(' then begin
      incr pos;
      let items = ref [] in
      let rec loop () =
        skip ();
        if !pos >= n then failwith "unclosed"
        else if line.[!pos] = ')' then incr pos
        else (items := item () :: !items; loop ())
      in loop (); L (List.rev !items)
    end else begin
      let st = !pos in
      while !pos < n && line.[!pos] <> ' ' && line.[!pos] <> '(' && line.[!pos] <> ')' do incr pos done;
      A (z_of_string (String.sub line st (!pos - st)))
    end
  in item ()

let rec print_sx buf = function
  | A z -> Buffer.add_string buf (string_of_z z)
  | L l ->
    Buffer.add_char buf '(';
    List.iteri (fun i x -> if i > 0 then Buffer.add_char buf ' '; print_sx buf x) l;
    Buffer.add_char buf ')'

let () =
  let buf = Buffer.create 65536 in
  (try
    while true do
      let line = input_line stdin in
      if String.length line > 0 then begin
        Buffer.clear buf;
        (try print_sx buf (run (parse line))
         with Failure m -> Buffer.clear buf; Buffer.add_string buf ("(-998) ; " ^ m)
            | Stack_overflow -> Buffer.clear buf; Buffer.add_string buf "(-997)");
        print_string (Buffer.contents buf); print_newline ()
      end else print_newline ()
    done
  with End_of_file -> ())
