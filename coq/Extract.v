(* Extract.v -- extraction of the executable model to OCaml.
   Only ExtrOcamlBasic is used (bool, option, prod, list, unit, sumbool, sumor mapped to OCaml's);
   no Extract Constant, no further Extract Inductive: Z, positive, Q, nat stay Coq datatypes. *)
From Coq Require Import Extraction ExtrOcamlBasic.
From LNN Require Import Num Sx Main.
Extraction Language OCaml.
Extraction "model.ml" Main.run Sx.A Sx.L Z.add Z.mul Z.opp Z.div_eucl Z.eqb Z.ltb.
