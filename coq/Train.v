(* Train.v -- M9b: Model.train as a state machine around an ARBITRARY optimiser (propositional models).
   epoch:  (reset_bounds unless first) ; infer ; losses ; optimiser step ; projection ; stop test
   end:    reset_bounds ; infer.
   Mirrors lnn/model.py:train/loss_fn/_project_params, lnn/neural/parameters/neuron.py:project_params,
   lnn/symbolic/logic/formula.py:_contradiction_loss/_supervised_loss.  The optimiser is a Section variable
   (never an axiom): any function that returns a knowledge base differing from its input only in weights and
   biases.  Not modelled: float arithmetic of real optimisers (Adam), NaN/inf, first-order models, alpha learning,
   the `loss.grad_fn is None` early exit (scenarios always have a differentiable loss). *)
From LNN Require Export Num Neuron Node PropEngine.
From LNN.Generated Require Import Tables.
Open Scope Q_scope.

(* per-object projection settings: w_max, b_max, negative_weights *)
Record pcfg := PC { p_wmax : option Q; p_bmax : option Q; p_negw : bool }.
Definition default_pcfg : pcfg := PC None None false.

Definition project_w (c : pcfg) (w : Q) : Q :=
  if p_negw c then match p_wmax c with Some m => qmax (- m) (qmin m w) | None => w end
  else match p_wmax c with Some m => qmax project_weight_min (qmin m w) | None => qmax project_weight_min w end.
Definition project_b (c : pcfg) (b : Q) : Q :=
  match p_bmax c with Some m => qmax project_bias_min (qmin m b) | None => qmax project_bias_min b end.
Definition project_obj (c : pcfg) (o : obj) : obj :=
  match okind o with
  | KConn _ | KIff | KXor =>
      Obj (okind o) (oops o) (NP (alpha (opar o)) (project_b c (bias (opar o))) (map (project_w c) (weights (opar o))) (nvar (opar o))) (oaux o)
  | _ => o
  end.
Definition project_kb (cfg : nat -> pcfg) (k : kb) : kb :=
  map (fun io => project_obj (cfg (fst io)) (snd io)) (combine (seq 0 (length k)) k).

(* losses *)
Definition labels := nat -> option bnd.
Definition contradiction_loss (k : kb) (s : state) : Q :=
  qsum (map (fun i => if obj_contra k s i then lo (s i) - hi (s i) else 0) (seq 0 (length k))).
Definition sq (x : Q) : Q := x * x.
Definition supervised_loss (k : kb) (lab : labels) (s : state) : Q :=
  qsum (map (fun i => match lab i with
                      | Some l => (sq (lo (s i) - lo l) + sq (hi (s i) - hi l)) / 2
                      | None => 0 end) (seq 0 (length k))).
Definition total_loss (k : kb) (lab : labels) (use_sup use_con : bool) (s : state) : Q :=
  (if use_sup then supervised_loss k lab s else 0) + (if use_con then contradiction_loss k s else 0).

Definition loss_eps : Q := infer_eps.   (* `loss <= 1e-7` uses the same literal *)

Section Train.
Variable opt : nat -> kb -> state -> kb.
Variable cfg : nat -> pcfg.
Variable roots : list nat.
Variable lab : labels.
Variables use_sup use_con stop_at_convergence : bool.
Variable fuel : nat.       (* bound on reasoning steps of one infer() call; C06_terminates says which fuel suffices *)

Definition run_infer (k : kb) (s : state) : state := ir_state (infer fuel k roots None None None 0 s).

(* returns the knowledge base with the learned parameters and the per-epoch record (losses, bounds after inference) *)
Fixpoint train_loop (n epoch : nat) (k : kb) (leaves cur : state) (hist : list (Q * kb)) : kb * state * list (Q * kb) :=
  match n with
  | O => (k, cur, hist)
  | S n' =>
      let s0 := if Nat.eqb epoch 0 then cur else leaves in
      let s1 := run_infer k s0 in
      let loss := total_loss k lab use_sup use_con s1 in
      let k1 := project_kb cfg (opt epoch k s1) in
      let hist' := hist ++ [(loss, k1)] in
      if (stop_at_convergence && qleb loss loss_eps)%bool then (k1, s1, hist')
      else train_loop n' (S epoch) k1 leaves s1 hist'
  end.

Definition train (epochs : nat) (k : kb) (leaves cur : state) : kb * state * list (Q * kb) :=
  let r := train_loop epochs 0 k leaves cur [] in
  let kf := fst (fst r) in
  (kf, run_infer kf leaves, snd r).
End Train.
