(* Run.v -- scenario dispatcher of the extracted model: sx -> sx. *)
From LNN Require Import Num Neuron Node Sx Grad PropEngine PropRun Registry Fol FolRun Quant QuantRun Train TrainRun.
Open Scope Z_scope.

Definition dwhich (s : sx) : which :=
  match dz s with 0 => WBoth | 1 => WLower | _ => WUpper end.
Definition escode (o : option scode) : sx :=
  match o with Some c => enat (scode_num c) | None => A (-1) end.
Definition ddual (s : sx) : dual :=
  match s with L [v; t] => D (dq v) (dq t) | _ => D 0 0 end.

(* K1: (1 conn params y (x...)) -> (up (down...)) *)
Definition run_k1 (args : list sx) : sx :=
  match args with
  | [c; p; y; xs] =>
      let c := dconn c in let p := dparams p in let xs := dlist dbnd xs in
      L [ebnd (act_up c p xs); L (map ebnd (act_down c p (dbnd y) xs))]
  | _ => bad
  end.

(* K2: (2 alpha which old new) -> (agg moved region_lo region_hi contra state) on `old`,
   plus contra/state of the aggregate *)
Definition run_k2 (args : list sx) : sx :=
  match args with
  | [al; w; old; new] =>
      let al := dq al in let old := dbnd old in let new := dbnd new in
      let r := aggregate (dwhich w) old new in
      L [ebnd (fst r); eq_ (snd r);
         A (region_of al (lo old)); A (region_of al (hi old));
         ebool (is_contra al old); escode (state_code al old);
         ebool (is_contra al (fst r)); escode (state_code al (fst r))]
  | _ => bad
  end.

(* K8: (8 conn b (w...) (x...)) with duals -> (value tangent) of the transparent upward
   activation and (value tangent) of val_clamp applied to b alone *)
Definition run_k8 (args : list sx) : sx :=
  match args with
  | [c; b; ws; xs] =>
      let r := act_up_d (dconn c) (ddual b) (dlist ddual ws) (dlist ddual xs) in
      let v := val_clamp_d (ddual b) in
      L [eq_ (dv r); eq_ (dt r); eq_ (dv v); eq_ (dt v)]
  | _ => bad
  end.

(* K8b: (9 mode conn b (w...) ((row of operand bounds) ...) lower) with dual parameters -> (value tangent) of the bound a
   connective formula (mode 0, first row) or a Forall (1) / Exists (2) over it stores after upward() *)
Definition run_k9 (args : list sx) : sx :=
  match args with
  | [mode; c; b; ws; rows; lower] =>
      let rows := dlist (dlist dbnd) rows in
      let r := match dz mode with
               | 0 => body_bound_d (dconn c) (ddual b) (dlist ddual ws) (dbool lower) (hd [] rows)
               | 1 => quant_bound_d true (dconn c) (ddual b) (dlist ddual ws) (dbool lower) rows
               | _ => quant_bound_d false (dconn c) (ddual b) (dlist ddual ws) (dbool lower) rows
               end in
      L [eq_ (dv r); eq_ (dt r)]
  | _ => bad
  end.

(* K8c: (10 ((x t) ...)) -> ((value tangent) ...) of val_clamp applied to a whole tensor (elementwise) *)
Definition run_k10 (args : list sx) : sx :=
  match args with
  | [xs] => L (map (fun x => let r := val_clamp_d (ddual x) in L [eq_ (dv r); eq_ (dt r)]) (match xs with L l => l | _ => [] end))
  | _ => bad
  end.

(* K30: (30 kb (roots-of-call ...)) -> per add_knowledge call: num_formulae, formula_number of every
   object (-1 = none), Model.nodes as key -> object for key < num_formulae, len(Model.nodes), and how
   often each object's parameters occur in Model.parameters() *)
Definition run_k30 (args : list sx) : sx :=
  match args with
  | [kbs; calls] =>
      let k := dlist dobj kbs in
      if negb (wf_kbb k) then L [A (-996)] else
      let n := length k in
      let step (acc : reg * list sx) (c : sx) :=
        let r := add_knowledge k (fst acc) (dlist dnat c) in
        (r, L [enat (num_formulae r);
               L (map (fun i => match formula_number r i with Some m => enat m | None => A (-1) end) (seq 0 n));
               L (map (fun key => match dget (r_nodes r) key with Some o => enat o | None => A (-1) end) (seq 0 (num_formulae r)));
               enat (num_formulae r);
               L (map (fun i => match formula_number r i with Some _ => enat 1 | None => enat 0 end) (seq 0 n))] :: snd acc) in
      L (rev (snd (fold_left step (match calls with L l => l | _ => [] end) (reg_empty, []))))
  | _ => bad
  end.

Definition run_base (tag : Z) (args : list sx) : option sx :=
  match tag with
  | 1 => Some (run_k1 args)
  | 2 => Some (run_k2 args)
  | 3 => Some (run_k3 args)
  | 4 => Some (run_k4 args)
  | 8 => Some (run_k8 args)
  | 9 => Some (run_k9 args)
  | 10 => Some (run_k10 args)
  | 30 => Some (run_k30 args)
  | 40 => Some (run_k40 args)
  | 41 => Some (run_k41 args)
  | 50 => Some (run_k50 args)
  | 60 => Some (run_k60 args)
  | _ => None
  end.
