(* StateCodes.v -- the eight state codes of lnn/_utils.py:node_state (fixed vocabulary the
   table extractor maps the code's string literals onto; an unknown literal fails the extractor). *)
Inductive scode := SU | ST | SF | SC | SAF | SAU | SEU | SAT.
Definition scode_eqb (a b : scode) : bool :=
  match a, b with
  | SU, SU | ST, ST | SF, SF | SC, SC | SAF, SAF | SAU, SAU | SEU, SEU | SAT, SAT => true
  | _, _ => false
  end.
Definition scode_num (a : scode) : nat :=
  match a with SU => 0 | ST => 1 | SF => 2 | SC => 3 | SAF => 4 | SAU => 5 | SEU => 6 | SAT => 7 end.
