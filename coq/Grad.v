(* Grad.v -- M9a: dual-number (forward-mode) reading of autograd for val_clamp and the
   transparent activations.  A dual carries a value and the derivative along ONE arbitrary
   direction in parameter/input space; `detach` zeroes the tangent (torch semantics, tied by
   the K8 correspondence against torch.autograd).  Mirrors lnn/_utils.py:val_clamp and
   lukasiewicztransparent.py:_and_upward/_or_upward/_implies_upward. *)
From LNN Require Import Num Neuron.
From LNN.Generated Require Import Tables.

Record dual := D { dv : Q; dt : Q }.
Definition dconst (q : Q) : dual := D q 0.
Definition dadd (a b : dual) := D (dv a + dv b) (dt a + dt b).
Definition dsub (a b : dual) := D (dv a - dv b) (dt a - dt b).
Definition dmul (a b : dual) := D (dv a * dv b) (dt a * dv b + dv a * dt b).
Definition detach (a : dual) := D (dv a) 0.
(* Tensor.clamp(min=m) / clamp(max=m): value clamp, gradient masked where clamped *)
Definition dclamp_min (m : Q) (a : dual) := D (qmax m (dv a)) (if qleb (dv a) m then 0 else dt a).
Definition dclamp_max (m : Q) (a : dual) := D (qmin m (dv a)) (if qleb m (dv a) then 0 else dt a).

(* val_clamp(x) = x - (x.detach() - _max).clamp(min=0) - (x.detach() - _min).clamp(max=0) *)
Definition val_clamp_d (x : dual) : dual :=
  let clamp_min := dclamp_max 0 (dsub (detach x) (dconst val_clamp_min)) in
  let clamp_max := dclamp_min 0 (dsub (detach x) (dconst val_clamp_max)) in
  dsub (dsub x clamp_max) clamp_min.

Fixpoint dtsum (ws xs : list dual) : dual :=   (* (1 - x) @ w *)
  match ws, xs with
  | w :: ws', x :: xs' => dadd (dmul (dsub (dconst 1) x) w) (dtsum ws' xs')
  | _, _ => dconst 0
  end.
Fixpoint ddot (ws xs : list dual) : dual :=
  match ws, xs with
  | w :: ws', x :: xs' => dadd (dmul x w) (ddot ws' xs')
  | _, _ => dconst 0
  end.
(* weights.minimum(0): value min(w,0); gradient passes where w < 0; torch.minimum splits the
   gradient evenly at a tie (observed: 0.5 at w = 0) *)
Definition dmin0 (w : dual) : dual :=
  D (qmin 0 (dv w)) (if qltb (dv w) 0 then dt w else if qeqb (dv w) 0 then dt w / 2 else 0).
Fixpoint dsum (l : list dual) : dual :=
  match l with [] => dconst 0 | x :: r => dadd x (dsum r) end.

Definition and_pre_d (b : dual) (ws xs : list dual) : dual := dsub b (dtsum ws xs).
Definition or_pre_d (b : dual) (ws xs : list dual) : dual :=
  dadd (dsub (dsub (dconst 1) b) (dsum (map dmin0 ws))) (ddot ws xs).
Definition imp_pre_d (b : dual) (ws xs : list dual) : dual :=
  match ws, xs with
  | [w0; w1], [x0; x1] =>
      dadd (dadd (dsub (dconst 1) b) (dmul w0 (dsub (dconst 1) x0))) (dmul w1 x1)
  | _, _ => dconst 0
  end.
Definition pre_d (c : conn) := match c with CAnd => and_pre_d | COr => or_pre_d | CImp => imp_pre_d end.
(* one bound of the transparent upward activation, as a dual *)
Definition act_up_d (c : conn) (b : dual) (ws xs : list dual) : dual := val_clamp_d (pre_d c b ws xs).
