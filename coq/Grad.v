(* Grad.v -- M9a: dual-number (forward-mode) reading of autograd for val_clamp and the
   transparent activations.  A dual carries a value and the derivative along ONE arbitrary
   direction in parameter/input space; `detach` zeroes the tangent (torch semantics, tied by
   the K8 correspondence against torch.autograd).  Mirrors lnn/_utils.py:val_clamp and
   lukasiewicztransparent.py:_and_upward/_or_upward/_implies_upward. *)
From LNN Require Import Num Neuron.
From LNN.Generated Require Import Tables.

Record dual := D { dv : Q; dt : Q }.
Definition dconst (q : Q) : dual := D q 0.
Definition dadd (a b : dual) := D (dv a + dv b) (dt a + dt b).
Definition dsub (a b : dual) := D (dv a - dv b) (dt a - dt b).
Definition dmul (a b : dual) := D (dv a * dv b) (dt a * dv b + dv a * dt b).
Definition detach (a : dual) := D (dv a) 0.
(* Tensor.clamp(min=m) / clamp(max=m): value clamp, gradient masked where clamped *)
Definition dclamp_min (m : Q) (a : dual) := D (qmax m (dv a)) (if qleb (dv a) m then 0 else dt a).
Definition dclamp_max (m : Q) (a : dual) := D (qmin m (dv a)) (if qleb m (dv a) then 0 else dt a).

(* val_clamp(x) = x - (x.detach() - _max).clamp(min=0) - (x.detach() - _min).clamp(max=0) *)
Definition val_clamp_d (x : dual) : dual :=
  let clamp_min := dclamp_max 0 (dsub (detach x) (dconst val_clamp_min)) in
  let clamp_max := dclamp_min 0 (dsub (detach x) (dconst val_clamp_max)) in
  dsub (dsub x clamp_max) clamp_min.

Fixpoint dtsum (ws xs : list dual) : dual :=   (* (1 - x) @ w *)
  match ws, xs with
  | w :: ws', x :: xs' => dadd (dmul (dsub (dconst 1) x) w) (dtsum ws' xs')
  | _, _ => dconst 0
  end.
Fixpoint ddot (ws xs : list dual) : dual :=
  match ws, xs with
  | w :: ws', x :: xs' => dadd (dmul x w) (ddot ws' xs')
  | _, _ => dconst 0
  end.
(* weights.minimum(0): value min(w,0); gradient passes where w < 0; torch.minimum splits the
   gradient evenly at a tie (observed: 0.5 at w = 0) *)
Definition dmin0 (w : dual) : dual :=
  D (qmin 0 (dv w)) (if qltb (dv w) 0 then dt w else if qeqb (dv w) 0 then dt w / 2 else 0).
Fixpoint dsum (l : list dual) : dual :=
  match l with [] => dconst 0 | x :: r => dadd x (dsum r) end.

Definition and_pre_d (b : dual) (ws xs : list dual) : dual := dsub b (dtsum ws xs).
Definition or_pre_d (b : dual) (ws xs : list dual) : dual :=
  dadd (dsub (dsub (dconst 1) b) (dsum (map dmin0 ws))) (ddot ws xs).
Definition imp_pre_d (b : dual) (ws xs : list dual) : dual :=
  match ws, xs with
  | [w0; w1], [x0; x1] =>
      dadd (dadd (dsub (dconst 1) b) (dmul w0 (dsub (dconst 1) x0))) (dmul w1 x1)
  | _, _ => dconst 0
  end.
Definition pre_d (c : conn) := match c with CAnd => and_pre_d | COr => or_pre_d | CImp => imp_pre_d end.
(* one bound of the transparent upward activation, as a dual *)
Definition act_up_d (c : conn) (b : dual) (ws xs : list dual) : dual := val_clamp_d (pre_d c b ws xs).

(* ---------- formula level: what a connective formula / a quantifier STORES after upward() ----------
   torch.max / torch.min of two tensors pass the gradient to the larger / smaller argument and split it evenly at a
   tie; node.py:aggregate_bounds takes max(previous lower, new lower), min(previous upper, new upper), then val_clamp. *)
Definition dmax2 (a b : dual) : dual :=
  D (qmax (dv a) (dv b)) (if qltb (dv b) (dv a) then dt a else if qltb (dv a) (dv b) then dt b else (dt a + dt b) / 2).
Definition dmin2 (a b : dual) : dual :=
  D (qmin (dv a) (dv b)) (if qltb (dv a) (dv b) then dt a else if qltb (dv b) (dv a) then dt b else (dt a + dt b) / 2).
Definition agg_lower_d (prev new : dual) : dual := val_clamp_d (dmax2 prev new).
Definition agg_upper_d (prev new : dual) : dual := val_clamp_d (dmin2 prev new).

(* operand values one bound of the upward activation reads (Implies reads the first operand flipped) *)
Definition sel_in (c : conn) (lower : bool) (row : list bnd) : list Q :=
  match c, row with
  | CImp, [x0; x1] => if lower then [hi x0; lo x1] else [lo x0; hi x1]
  | CImp, _ => []
  | _, _ => map (fun x => if lower then lo x else hi x) row
  end.
(* the bound a connective formula under the OPEN world stores after one upward() over facts `row` *)
Definition body_bound_d (c : conn) (b : dual) (ws : list dual) (lower : bool) (row : list bnd) : dual :=
  let new := act_up_d c b ws (map dconst (sel_in c lower row)) in
  if lower then agg_lower_d (dconst 0) new else agg_upper_d (dconst 1) new.
(* the bound a fully quantified OPEN-world Forall / Exists over that body stores after Model.upward(): the unit-weight
   And / Or neuron over the instances; a Forall computes its upper, an Exists its lower bound only *)
Definition quant_bound_d (is_forall : bool) (c : conn) (b : dual) (ws : list dual) (lower : bool) (rows : list (list bnd)) : dual :=
  let ones := repeat (dconst 1) (length rows) in
  if is_forall then
    if lower then dconst 0
    else agg_upper_d (dconst 1) (act_up_d CAnd (dconst 1) ones (map (body_bound_d c b ws false) rows))
  else
    if lower then agg_lower_d (dconst 0) (act_up_d COr (dconst 1) ones (map (body_bound_d c b ws true) rows))
    else dconst 1.
