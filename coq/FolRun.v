(* FolRun.v -- scenario decoding / observation encoding for the first-order engine (K5/K6). *)
From LNN Require Import Num Neuron Node Sx PropEngine PropRun Fol.
Open Scope Z_scope.

Definition dfkind (s : sx) : fkind :=
  match dz s with 0 => FPred | 1 => FNot | 2 => FConn CAnd | 3 => FConn COr | _ => FConn CImp end.
(* (kind ops maps nv params ovars) ; ovars (variable names per operand) is only used by the implementation runner *)
Definition dfobj (s : sx) : fobj :=
  match s with
  | L (kd :: ops :: maps :: nv :: p :: _) => FObj (dfkind kd) (dlist dnat ops) (dlist (dlist dnat) maps) (dnat nv) (dparams p)
  | _ => dummy_fobj
  end.
Definition dgnd (s : sx) : gnd := dlist dnat s.
Definition egnd (g : gnd) : sx := L (map enat g).

Fixpoint gleb (a b : gnd) : bool :=
  match a, b with
  | [], _ => true
  | _ :: _, [] => false
  | x :: a', y :: b' => if Nat.ltb x y then true else if Nat.ltb y x then false else gleb a' b'
  end.
Fixpoint ins_row (r : row) (l : list row) : list row :=
  match l with [] => [r] | h :: t => if gleb (rg r) (rg h) then r :: l else h :: ins_row r t end.
Definition sort_rows (t : table) : list row := fold_right ins_row [] t.
Definition etable (t : table) : sx := L (map (fun r => L [egnd (rg r); ebnd (rcur r)]) (sort_rows t)).
Definition efstate (n : nat) (s : fstate) : sx := L (map (fun i => etable (ftab s i)) (seq 0 n)).

Definition ddata (s : sx) : list (gnd * bnd) :=
  dlist (fun x => match x with L [g; b] => (dgnd g, dbnd b) | _ => ([], unknown) end) s.

Definition frun_op (k : fkb) (roots : list nat) (s : fstate) (op : sx) : fstate * sx :=
  let n := length k in
  let reg := postorder (fshadow k) roots in
  match op with
  | L [A 1; i] =>
      let r := f_node_up k s (dnat i) in (fst r, L [eq_ (snd r); efstate n (fst r)])
  | L [A 2; i; idx] =>
      let r := f_node_down k s (dnat i) (dopti idx) in (fst r, L [eq_ (snd r); efstate n (fst r)])
  | L [A 3; src] =>
      let r := f_infer_loop 1 k roots (Some Up) (dopti src) 0 s 0 0%Q in
      (fir_state r, L [enat (fir_steps r); eq_ (fir_amount r); efstate n (fir_state r)])
  | L [A 4; src] =>
      let r := f_infer_loop 1 k roots (Some Down) (dopti src) 0 s 0 0%Q in
      (fir_state r, L [enat (fir_steps r); eq_ (fir_amount r); efstate n (fir_state r)])
  | L [A 5; src; ms] =>
      let r := f_infer_loop (S (dnat ms)) k roots None (dopti src) (dnat ms) s 0 0%Q in
      (fir_state r, L [enat (fir_steps r); eq_ (fir_amount r); efstate n (fir_state r)])
  | L [A 7] => let s' := f_reset_bounds reg s in (s', L [efstate n s'])
  | L [A 8; i; d] => let s' := f_add_data s (dnat i) (ddata d) in (s', L [efstate n s'])
  | L [A 9] => (s, L [ebool (f_has_contradiction k reg s)])
  | L [A 10] => let s' := f_flush reg s in (s', L [efstate n s'])
  | L [A 11; i; w] => let s' := f_reset_world s (dnat i) (dbnd w) in (s', L [efstate n s'])
  | L [A 16] => (s, L [efstate n s])   (* read-only calls: print(), state(), is_contradiction(): nothing changes, no row appears *)
  | L [A 18] => (s, L [eq_ (Qred (f_uncertainty_loss k reg s))])
  | L [A 14] => (s, L [eq_ (Qred (f_contradiction_loss k reg s))])
  | L [A 17; labs] =>   (* labels per object -> per object: (sum of squared errors, labelled rows present) or -1 *)
      let lab := dlist (fun x => match x with L [i; d] => (dnat i, ddata d) | _ => (0%nat, []) end) labs in
      let of_obj i := flat_map (fun e => if Nat.eqb (fst e) i then snd e else []) lab in
      (s, L (map (fun i => match f_supervised_loss s i (of_obj i) with
                           | None => A (-1)
                           | Some _ => L [eq_ (Qred (f_sse s i (of_obj i))); enat (length (f_labelled s i (of_obj i)))]
                           end) (seq 0 n)))
  | L [A 12; i; g] => (s, L [ebnd (fget s (dnat i) (dgnd g)); efstate n s])
  | _ => (s, bad)
  end.

(* (40 fkb roots worlds data ops) *)
Definition run_k40 (args : list sx) : sx :=
  match args with
  | kbs :: roots :: worlds :: data :: ops :: _ =>
      let k := dlist dfobj kbs in
      if negb (wf_fkbb k && shape_okb k) then L [A (-996)] else
      let roots := dlist dnat roots in
      let ws := dlist dbnd worlds in
      let s0 := FS (fun _ => []) (fun i => nth i ws unknown) in
      let s1 := fold_left (fun s d => match d with L [i; dd] => f_add_data s (dnat i) (ddata dd) | _ => s end)
                          (match data with L l => l | _ => [] end) s0 in
      let ops := match ops with L l => l | _ => [] end in
      L (rev (snd (fold_left (fun (acc : fstate * list sx) op =>
                                let r := frun_op k roots (fst acc) op in (fst r, snd r :: snd acc))
                             ops (s1, []))))
  | _ => bad
  end.

(* ---------- K5 validation scenarios: (41 target value) ---------- *)
From LNN Require Import Store.
Open Scope Z_scope.
Fixpoint dvalue (fuel : nat) (s : sx) : value :=
  match fuel with
  | O => VOther
  | S f =>
      match s with
      | L (A 0 :: l :: u :: _) => VFact (dq l, dq u)
      | L [A 1; b] => VBool (dbool b)
      | L [A 2; x] => VFloat (dq x)
      | L [A 3; l; u] => VPair (dq l) (dq u)
      | L [A 4; n] => VTuple (dnat n)
      | L [A 5] => VStrPair
      | L [A 6; L inner] => VDict (map (dvalue f) inner)
      | _ => VOther
      end
  end.
Definition dtarget (s : sx) : target :=
  match dz s with 0 => TPropMember | 1 => TPropOutsider | 2 => TFolMember | _ => TFolOutsider end.
Definition everr (e : verr) : sx := A (match e with ETypeError => 4 | EIndexError => 3 | EException => 7 end).
(* output: (error-code-or-0  stored-bounds  read-back of the data that was there before) *)
Definition run_k41 (args : list sx) : sx :=
  match args with
  | [t; v] =>
      let before := B (1 # 4)%Q (3 # 4)%Q in
      match validate (dtarget t) (dvalue 3 v) with
      | inl e => L [everr e; L []; ebnd before]
      | inr bs => L [A 0; L (map ebnd bs);
                     ebnd (match dtarget t, bs with TPropMember, b :: _ => b | _, _ => before end)]
      end
  | _ => bad
  end.
