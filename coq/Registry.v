(* Registry.v -- M5 registry: Model._add_knowledge numbering and Model.nodes (after the `fix:`
   commits: formula objects are keyed by identity, a registered formula keeps its number).
   Formula.set_formula_number numbers a root and then, recursively and in operand order, every
   operand that has no number yet: a pre-order depth-first visit that skips numbered objects.
   The LOG is the list of objects in the order they were numbered; formula_number = position in
   the log; Model.num_formulae = length of the log.  Mirrors lnn/model.py:_add_knowledge,
   lnn/symbolic/logic/formula.py:set_formula_number.  Not modelled: formula objects shared
   between two Model instances. *)
From LNN Require Export Num Neuron Node PropEngine.
Open Scope nat_scope.

Fixpoint visit (fuel : nat) (k : kb) (log : list nat) (o : nat) : list nat :=
  match fuel with
  | O => log
  | S f => if memb o log then log else fold_left (visit f k) (children k o) (log ++ [o])
  end.

Fixpoint index_of (x : nat) (l : list nat) : option nat :=
  match l with
  | [] => None
  | y :: r => if Nat.eqb x y then Some 0 else option_map S (index_of x r)
  end.

(* Python dict assignment / lookup on an association list key -> object *)
Definition dset (m : list (nat * nat)) (key v : nat) : list (nat * nat) :=
  (key, v) :: filter (fun p => negb (Nat.eqb (fst p) key)) m.
Fixpoint dget (m : list (nat * nat)) (key : nat) : option nat :=
  match m with [] => None | (k', v) :: r => if Nat.eqb k' key then Some v else dget r key end.

Record reg := Reg { r_log : list nat; r_nodes : list (nat * nat) }.
Definition reg_empty : reg := Reg [] [].

(* one add_knowledge( roots ) call: number, then `for node in graph.nodes: nodes[node.formula_number] = node` *)
Definition add_knowledge (k : kb) (r : reg) (roots : list nat) : reg :=
  let log := fold_left (visit (S (length k)) k) roots (r_log r) in
  Reg log (fold_left (fun nd p => dset nd (fst p) (snd p)) (combine (seq 0 (length log)) log) (r_nodes r)).

Definition formula_number (r : reg) (x : nat) : option nat := index_of x (r_log r).
Definition num_formulae (r : reg) : nat := length (r_log r).
