(* Fol.v -- M6/M7: first-order tables, data API, joins, connective upward/downward, Not, passes.

   Constants are numbers, a grounding is a tuple (list) of constants.  Every formula object owns
   a TABLE: rows (grounding, current bounds, stored data) in insertion order; a grounding that
   has no row reads as the object's WORLD default.  Row order is kept (it is the order Python
   happens to iterate its sets in) but nothing observable depends on it -- that is C10's theorem.

   Mirrors lnn/symbolic/logic/formula.py (add_data/get_data/_add_groundings/reset_world),
   lnn/neural/parameters/node.py (extend_groundings/update_bounds/flush/reset_bounds),
   lnn/symbolic/_gm.py (_fol_bounds,_hash_join,_get_operand_dfs,_full_outer_join,_operator_groundings,
   _operand_groundings, upward_bounds, downward_bounds), lnn/symbolic/logic/connective_neuron.py
   (upward/downward), lnn/neural/activations/node.py (aggregate_bounds incl. duplicates=True),
   lnn/symbolic/logic/unary_operator.py:Not (after the row-alignment fix), lnn/model.py traversal.
   Not modelled: bindings (constants in calls), propositions mixed into first-order connectives,
   repeated variables inside one call (P(x,x)), Congruent, negative-weight absorption. *)
From LNN Require Export Num Neuron Node PropEngine.
Open Scope Q_scope.

Definition gnd := list nat.
Fixpoint geqb (a b : gnd) : bool :=
  match a, b with
  | [], [] => true
  | x :: a', y :: b' => Nat.eqb x y && geqb a' b'
  | _, _ => false
  end.
Fixpoint gmem (g : gnd) (l : list gnd) : bool :=
  match l with [] => false | h :: r => geqb g h || gmem g r end.
Fixpoint gdedup_acc (seen : list gnd) (l : list gnd) : list gnd :=
  match l with
  | [] => []
  | g :: r => if gmem g seen then gdedup_acc seen r else g :: gdedup_acc (g :: seen) r
  end.
Definition gdedup (l : list gnd) : list gnd := gdedup_acc [] l.

(* ---------- tables ---------- *)
Record row := Row { rg : gnd; rcur : bnd; rleaf : bnd }.
Definition table := list row.
Fixpoint tfind (t : table) (g : gnd) : option row :=
  match t with [] => None | r :: t' => if geqb g (rg r) then Some r else tfind t' g end.
Definition tmem (t : table) (g : gnd) : bool := match tfind t g with Some _ => true | None => false end.
(* get_data(g) with default=True *)
Definition tcur (w : bnd) (t : table) (g : gnd) : bnd := match tfind t g with Some r => rcur r | None => w end.
Definition tkeys (t : table) : list gnd := map rg t.
Fixpoint tset_cur (t : table) (g : gnd) (b : bnd) : table :=
  match t with
  | [] => []
  | r :: t' => if geqb g (rg r) then Row (rg r) b (rleaf r) :: t' else r :: tset_cur t' g b
  end.
Fixpoint tset_data (t : table) (g : gnd) (b : bnd) : table :=
  match t with
  | [] => []
  | r :: t' => if geqb g (rg r) then Row (rg r) b b :: t' else r :: tset_data t' g b
  end.
(* _add_groundings: rows for the missing groundings, created at the world default *)
Definition textend (w : bnd) (t : table) (gs : list gnd) : table :=
  fold_left (fun t g => if tmem t g then t else t ++ [Row g w w]) gs t.

(* ---------- formula objects ---------- *)
Inductive fkind := FPred | FNot | FConn (c : conn).
(* fops: operand object ids; fmaps: for each operand, the slots of the operator's variable tuple
   it is called with (operand_map); fnv: number of distinct variables of the object *)
Record fobj := FObj { fkd : fkind; fops : list nat; fmaps : list (list nat); fnv : nat; fpar : nparams }.
Definition fkb := list fobj.
Definition dummy_fobj : fobj := FObj FPred [] [] 0 (NP 1 1 [] VTransparent).
Definition getf (k : fkb) (i : nat) : fobj := nth i k dummy_fobj.
Definition falpha (o : fobj) : Q := alpha (fpar o).

(* state: a table and a world default per object *)
Record fstate := FS { ftab : nat -> table; fwld : nat -> bnd }.
Definition set_tab (s : fstate) (i : nat) (t : table) : fstate :=
  FS (fun j => if Nat.eqb j i then t else ftab s j) (fwld s).
Definition set_wld (s : fstate) (i : nat) (w : bnd) : fstate :=
  FS (ftab s) (fun j => if Nat.eqb j i then w else fwld s j).
Definition fget (s : fstate) (i : nat) (g : gnd) : bnd := tcur (fwld s i) (ftab s i) g.
Definition fextend (s : fstate) (i : nat) (gs : list gnd) : fstate :=
  set_tab s i (textend (fwld s i) (ftab s i) gs).

(* ---------- data API ---------- *)
Definition f_add_data (s : fstate) (i : nat) (d : list (gnd * bnd)) : fstate :=
  let s1 := fextend s i (map fst d) in
  set_tab s1 i (fold_left (fun t gb => tset_data t (fst gb) (snd gb)) d (ftab s1 i)).
Definition t_reset (t : table) : table := map (fun r => Row (rg r) (rleaf r) (rleaf r)) t.
Definition t_fill (b : bnd) (t : table) : table := map (fun r => Row (rg r) b (rleaf r)) t.
Definition f_reset_world (s : fstate) (i : nat) (w : bnd) : fstate :=
  let s1 := set_wld s i w in set_tab s1 i (t_fill w (ftab s1 i)).

(* ---------- joins (list model of the pandas fragment) ---------- *)
Definition project (m : list nat) (g : gnd) : gnd := map (fun slot => nth slot g 0%nat) m.
Definition df := (list nat * list gnd)%type.   (* columns (slots), rows *)
Fixpoint col_index (c : nat) (cols : list nat) : nat :=
  match cols with [] => 0%nat | h :: r => if Nat.eqb c h then 0%nat else S (col_index c r) end.
Definition cell (cols : list nat) (r : gnd) (c : nat) : nat := nth (col_index c cols) r 0%nat.
Fixpoint insert_sorted (x : nat) (l : list nat) : list nat :=
  match l with [] => [x] | h :: r => if Nat.leb x h then x :: l else h :: insert_sorted x r end.
Definition sort_nat (l : list nat) : list nat := fold_right insert_sorted [] l.
Definition same_cols (a b : list nat) : bool :=
  forallb (fun c => memb c b) a && forallb (fun c => memb c a) b.

(* _full_outer_join *)
Definition foj (A B : df) : df :=
  let (ca, ra) := A in let (cb, rb) := B in
  match ra, rb with
  | [], _ | _, [] =>
      (* the cross product is empty: concat + dropna keeps the rows of a side that has every column *)
      let cols := ca ++ filter (fun c => negb (memb c ca)) cb in
      let side (c : list nat) (rws : list gnd) :=
        if same_cols c cols then map (fun r => map (cell c r) cols) rws else [] in
      (cols, side ca ra ++ side cb rb)
  | _, _ =>
      let shared := filter (fun c => memb c cb) ca in
      match shared with
      | [] => (ca ++ cb, flat_map (fun x => map (fun y => x ++ y) rb) ra)
      | _ =>
          let uniq := sort_nat (filter (fun c => negb (memb c cb)) ca ++ filter (fun c => negb (memb c ca)) cb) in
          let cols := uniq ++ shared in
          let u (x y : gnd) := map (fun c => if memb c ca then cell ca x c else cell cb y c) uniq in
          let rows1 := flat_map (fun x => map (fun y => u x y ++ map (cell ca x) shared) rb) ra in
          let rows2 := flat_map (fun x => map (fun y => u x y ++ map (cell cb y) shared) rb) ra in
          (cols, gdedup (rows1 ++ rows2))
      end
  end.
(* _operator_groundings: columns sorted by slot *)
Definition op_groundings (J : df) : list gnd :=
  let (cols, rows) := J in map (fun r => map (cell cols r) (sort_nat cols)) rows.

Definition identity_map (n : nat) : list nat := seq 0 n.
Fixpoint list_nat_eqb (a b : list nat) : bool :=
  match a, b with [] , [] => true | x :: a', y :: b' => Nat.eqb x y && list_nat_eqb a' b' | _, _ => false end.
Definition is_homog (o : fobj) : bool :=
  match fmaps o with [] => true | m :: r => forallb (list_nat_eqb m) r end.

Inductive dir2 := DUp | DDown.

(* _operational_bounds for first-order connectives: the operator groundings to evaluate and the
   state after groundings have been propagated; None = nothing to do *)
Definition oper_groundings (k : fkb) (s : fstate) (i : nat) (d : dir2) : option (list gnd * fstate) :=
  let o := getf k i in
  if is_homog o then
    let G0 := flat_map (fun j => tkeys (ftab s j)) (fops o) ++ match d with DDown => tkeys (ftab s i) | DUp => [] end in
    let G := gdedup G0 in
    let s1 := fold_left (fun st j => fextend st j G) (fops o) s in
    let s2 := fextend s1 i G in
    match G with [] => None | _ => Some (G, s2) end
  else
    let dfs := map (fun jm => (snd jm, tkeys (ftab s (fst jm)))) (combine (fops o) (fmaps o)) in
    match dfs with
    | [] => None
    | d0 :: rest =>
        let ogs := op_groundings (fold_left foj rest d0) in
        match ogs with
        | [] => None
        | _ =>
            let s1 := fold_left (fun st jm => fextend st (fst jm) (map (project (snd jm)) ogs)) (combine (fops o) (fmaps o)) s in
            Some (ogs, fextend s1 i ogs)
        end
    end.

Definition op_inputs (k : fkb) (s : fstate) (i : nat) (g : gnd) : list bnd :=
  let o := getf k i in map (fun jm => fget s (fst jm) (project (snd jm) g)) (combine (fops o) (fmaps o)).
(* contradicting_bounds(input_bounds, stacked=True): only the first two operand columns *)
Definition inputs_contra (al : Q) (inb : list bnd) : bool :=
  existsb (is_contra al) (firstn 2 inb).

(* one aggregated write of a row; returns new state and amount *)
Definition f_write (sa : fstate * Q) (i : nat) (g : gnd) (new : bnd) : fstate * Q :=
  let s := fst sa in
  let old := fget s i g in
  let r := aggregate WBoth old new in
  (set_tab s i (tset_cur (ftab s i) g (bred (fst r))), Qred (snd sa + snd r)).

Definition fconn (o : fobj) : conn := match fkd o with FConn c => c | _ => CAnd end.

Definition f_conn_up (k : fkb) (s : fstate) (i : nat) : fstate * Q :=
  let o := getf k i in
  match oper_groundings k s i DUp with
  | None => (s, 0)
  | Some (gs, s1) =>
      let keep := filter (fun g => negb (inputs_contra (falpha o) (op_inputs k s1 i g))) gs in
      let news := map (fun g => (g, act_up (fconn o) (fpar o) (op_inputs k s1 i g))) keep in
      fold_left (fun sa gn => f_write sa i (fst gn) (snd gn)) news (s1, 0)
  end.

(* aggregate_bounds(rows, new, duplicates): every proposal is first aggregated against the row's
   previous bounds, proposals for the same row are merged by max/min, the amount is counted once per row *)
Definition merge_dups (props : list (gnd * bnd)) : list (gnd * bnd) :=
  fold_left (fun acc gb =>
               if gmem (fst gb) (map fst acc)
               then map (fun a => if geqb (fst a) (fst gb) then (fst a, merge_bnd (snd a) (snd gb)) else a) acc
               else acc ++ [gb]) props [].
Definition f_write_many (sa : fstate * Q) (j : nat) (props : list (gnd * bnd)) : fstate * Q :=
  let s := fst sa in
  let agg := map (fun gb => (fst gb, agg_bnd WBoth (fget s j (fst gb)) (snd gb))) props in
  fold_left (fun sa' gb =>
               let s' := fst sa' in
               let old := fget s j (fst gb) in   (* prev_bounds are read before any row is written *)
               (set_tab s' j (tset_cur (ftab s' j) (fst gb) (bred (snd gb))), Qred (snd sa' + moved old (snd gb))))
            (merge_dups agg) sa.

Definition f_conn_down (k : fkb) (s : fstate) (i : nat) (idx : option nat) : fstate * Q :=
  let o := getf k i in
  match oper_groundings k s i DDown with
  | None => (s, 0)
  | Some (gs, s1) =>
      let keep := filter (fun g => negb (inputs_contra (falpha o) (op_inputs k s1 i g) || is_contra (falpha o) (fget s1 i g))) gs in
      let news := map (fun g => (g, act_down (fconn o) (fpar o) (fget s1 i g) (op_inputs k s1 i g))) keep in
      let targets := select idx (combine (fops o) (fmaps o)) in
      fold_left (fun sa pjm =>
                   let pos := fst pjm in let j := fst (snd pjm) in let m := snd (snd pjm) in
                   f_write_many sa j (map (fun gn => (project m (fst gn), nth pos (snd gn) unknown)) news))
                targets (s1, 0)
  end.

Definition f_not_up (k : fkb) (s : fstate) (i : nat) : fstate * Q :=
  match fops (getf k i) with
  | j :: _ =>
      let gs := tkeys (ftab s j) in
      let s1 := fextend s i gs in
      f_write_many (s1, 0) i (map (fun g => (g, neg (fget s1 j g))) gs)
  | [] => (s, 0)
  end.
Definition f_not_down (k : fkb) (s : fstate) (i : nat) : fstate * Q :=
  match fops (getf k i) with
  | j :: _ =>
      let gs := tkeys (ftab s i) in
      let s1 := fextend s j gs in
      f_write_many (s1, 0) j (map (fun g => (g, neg (fget s1 i g))) gs)
  | [] => (s, 0)
  end.

Definition f_node_up (k : fkb) (s : fstate) (i : nat) : fstate * Q :=
  match fkd (getf k i) with
  | FPred => (s, 0)
  | FNot => f_not_up k s i
  | FConn _ => f_conn_up k s i
  end.
Definition f_node_down (k : fkb) (s : fstate) (i : nat) (idx : option nat) : fstate * Q :=
  match fkd (getf k i) with
  | FPred => (s, 0)
  | FNot => f_not_down k s i
  | FConn _ => f_conn_down k s i idx
  end.

(* ---------- model-level passes: same traversal as the propositional engine ---------- *)
Definition fshadow (k : fkb) : kb := map (fun o => Obj KProp (fops o) (fpar o) []) k.
Definition f_traversal (k : fkb) (roots : list nat) (d : dir) (src : option nat) : list nat :=
  traversal (fshadow k) roots d src.
Definition f_pass (k : fkb) (roots : list nat) (d : dir) (src : option nat) (s : fstate) : fstate * Q :=
  fold_left (fun sa i =>
               let r := match d with Up => f_node_up k (fst sa) i | Down => f_node_down k (fst sa) i None end in
               (fst r, Qred (snd sa + snd r)))
            (f_traversal k roots d src) (s, 0).

Record finfer_result := FIR { fir_state : fstate; fir_steps : nat; fir_amount : Q; fir_fuel_out : bool }.
(* Model.shape[1]: number of groundings over all registered formula objects *)
Definition total_rows (reg : list nat) (s : fstate) : nat := fold_left (fun n i => (n + length (ftab s i))%nat) reg 0%nat.
Fixpoint f_infer_loop (fuel : nat) (k : fkb) (roots : list nat) (dirs : option dir) (src : option nat)
         (max_steps : nat) (s : fstate) (steps : nat) (total : Q) : finfer_result :=
  match fuel with
  | O => FIR s steps total true
  | S f =>
      let reg := postorder (fshadow k) roots in
      let r := match dirs with
               | None => let r1 := f_pass k roots Up src s in
                         let r2 := f_pass k roots Down src (fst r1) in
                         (fst r2, snd r1 + snd r2)
               | Some d => f_pass k roots d src s
               end in
      (* convergence: nothing moved AND (after the fix) no grounding was created during the step *)
      let converged := match dirs with
                       | Some _ => true
                       | None => infer_converged (snd r) &&
                                 (negb infer_requires_stable_groundings || Nat.eqb (total_rows reg (fst r)) (total_rows reg s))
                       end in
      let total' := total + snd r in
      let steps' := S steps in
      if converged then FIR (fst r) steps' total' false
      else if (negb (Nat.eqb max_steps 0) && Nat.leb max_steps steps')%bool then FIR (fst r) steps' total' false
      else f_infer_loop f k roots dirs src max_steps (fst r) steps' total'
  end.

Definition f_has_contradiction (k : fkb) (registered : list nat) (s : fstate) : bool :=
  existsb (fun i => existsb (fun r => is_contra (falpha (getf k i)) (rcur r)) (ftab s i)) registered.
(* formula.py:_contradiction_loss summed by Model.loss_fn over the model's nodes: every ROW whose bounds cross outside the
   tolerance adds L - U; rows that do not cross add nothing (contradicting_bounds() is per grounding) *)
Definition row_closs (al : Q) (r : row) : Q := if is_contra al (rcur r) then lo (rcur r) - hi (rcur r) else 0.
Definition f_contradiction_loss (k : fkb) (registered : list nat) (s : fstate) : Q :=
  qsum (map (fun i => qsum (map (row_closs (falpha (getf k i))) (ftab s i))) registered).
(* formula.py:_uncertainty_loss summed over the model's nodes (with a coefficient of 1): a node one of whose rows is a
   contradiction contributes nothing (is_contradiction() is node-wide), any other node the total width U - L of its rows,
   a row crossed inside the tolerance (alpha < 1) counting as zero width (clamp(min=0)) *)
Definition row_width (r : row) : Q := qmax 0 (hi (rcur r) - lo (rcur r)).
Definition f_uncertainty_loss (k : fkb) (registered : list nat) (s : fstate) : Q :=
  qsum (map (fun i => if existsb (fun r => is_contra (falpha (getf k i)) (rcur r)) (ftab s i) then 0
                      else qsum (map row_width (ftab s i))) registered).
(* formula.py:_supervised_loss of a first-order formula: torch MSELoss (the MEAN over rows x 2 entries) between the rows of
   the labelled groundings that are present in the table and their labels; None when no labelled grounding is present *)
Definition fsq (x : Q) : Q := x * x.
Definition f_labelled (s : fstate) (i : nat) (labs : list (gnd * bnd)) : list (gnd * bnd) :=
  filter (fun gb => tmem (ftab s i) (fst gb)) labs.
Definition f_sse (s : fstate) (i : nat) (labs : list (gnd * bnd)) : Q :=
  qsum (map (fun gb => fsq (lo (fget s i (fst gb)) - lo (snd gb)) + fsq (hi (fget s i (fst gb)) - hi (snd gb))) (f_labelled s i labs)).
Definition f_supervised_loss (s : fstate) (i : nat) (labs : list (gnd * bnd)) : option Q :=
  match f_labelled s i labs with
  | [] => None
  | L => Some (f_sse s i labs / (2 * inject_Z (Z.of_nat (length L))))
  end.
Definition f_reset_bounds (registered : list nat) (s : fstate) : fstate :=
  fold_left (fun st i => set_tab st i (t_reset (ftab st i))) registered s.
Definition f_flush (registered : list nat) (s : fstate) : fstate :=
  fold_left (fun st i => set_tab st i (t_fill unknown (ftab st i))) registered s.

(* ---------- well-formedness ---------- *)
Fixpoint nodupb (l : list nat) : bool :=
  match l with [] => true | x :: r => negb (memb x r) && nodupb r end.
Definition wf_fobjb (k : fkb) (i : nat) (o : fobj) : bool :=
  forallb (fun j => Nat.ltb j i) (fops o) &&
  Nat.eqb (length (fmaps o)) (length (fops o)) &&
  forallb (fun jm => Nat.eqb (length (snd jm)) (fnv (getf k (fst jm))) && forallb (fun sl => Nat.ltb sl (fnv o)) (snd jm)
                     && nodupb (snd jm))
          (combine (fops o) (fmaps o)) &&
  qltb (1 # 2) (falpha o) && qleb (falpha o) 1 &&
  match fkd o with
  | FPred => match fops o with [] => true | _ => false end
  | FNot => Nat.eqb (length (fops o)) 1 && list_nat_eqb (hd [] (fmaps o)) (identity_map (fnv o))
  | FConn CImp => Nat.eqb (length (fops o)) 2 && Nat.eqb (length (weights (fpar o))) 2 && forallb (qleb 0) (weights (fpar o))
  | FConn _ => Nat.leb 2 (length (fops o)) && Nat.eqb (length (weights (fpar o))) (length (fops o)) && forallb (qleb 0) (weights (fpar o))
  end.
Definition wf_fkbb (k : fkb) : bool :=
  forallb (fun p => wf_fobjb k (fst p) (snd p)) (combine (seq 0 (length k)) k).

(* shape facts about how the library builds formulae (checked on every scenario next to wf_fkbb): operand maps have the
   operand's arity, no repeated slot, slots below the operator's number of variables; the operator's variables are the union
   of its operands' variables; operands that all use one map use the identity map (the variable tuple is collected in order
   of first appearance); a negation has the variables of its operand *)
Definition shape_objb (k : fkb) (o : fobj) : bool :=
  Nat.eqb (length (fmaps o)) (length (fops o)) &&
  forallb (fun jm => Nat.eqb (length (snd jm)) (fnv (getf k (fst jm))) && nodupb (snd jm) && forallb (fun sl => Nat.ltb sl (fnv o)) (snd jm))
          (combine (fops o) (fmaps o)) &&
  (if is_homog o then forallb (fun m => list_nat_eqb m (identity_map (fnv o))) (fmaps o)
   else forallb (fun sl => existsb (memb sl) (fmaps o)) (seq 0 (fnv o))) &&
  match fkd o with FNot => is_homog o | _ => true end.
Definition shape_okb (k : fkb) : bool := forallb (shape_objb k) k.

(* ---------- public inference operations (between two data updates) ---------- *)
Inductive fpubop :=
| FNodeUp (i : nat)
| FNodeDown (i : nat) (idx : option nat)
| FModelUp (src : option nat)
| FModelDown (src : option nat)
| FInfer (src : option nat) (max_steps : nat) (fuel : nat).
Definition fexec_op (k : fkb) (roots : list nat) (s : fstate) (o : fpubop) : fstate * Q :=
  match o with
  | FNodeUp i => f_node_up k s i
  | FNodeDown i idx => f_node_down k s i idx
  | FModelUp src => f_pass k roots Up src s
  | FModelDown src => f_pass k roots Down src s
  | FInfer src ms fuel => let r := f_infer_loop fuel k roots None src ms s 0 0 in (fir_state r, fir_amount r)
  end.
Definition fexec_ops (k : fkb) (roots : list nat) (s : fstate) (ops : list fpubop) : fstate :=
  fold_left (fun st o => fst (fexec_op k roots st o)) ops s.
