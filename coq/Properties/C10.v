(* C10 -- Results are deterministic and independent of hash seed and fact order.
   In the model the iteration order of every Python set is the ROW ORDER of a table and the order of the
   grounding lists derived from it.  PROVED: the three mechanisms through which that order could become visible
   are order-free -- (1) rows are read by key: any permutation of a table's rows gives the same readings;
   (2) groundings are added by key: adding them in any order / with any repetition gives the same readings and
   the same key set; (3) proposals for the same row are merged by max/min: the merged bounds depend only on the
   SET of proposals.  The model is a deterministic function (Gallina), so equal inputs give equal outputs.
   NOT PROVED (partial): the end-to-end congruence "every operation maps order-equivalent states to
   order-equivalent states" -- checked on the implementation under many PYTHONHASHSEEDs and permuted fact lists. *)
From Coq Require Import Permutation.
From LNN Require Import Num Neuron Node PropEngine Fol.
From LNN.proofs Require Import NodeProofs NeuronProofs PropProofs DfsProofs MonoProofs EvalProofs FolProofs StoreProofs ConnProofs OrderProofs.
Open Scope Q_scope.

Theorem C10_reads_row_order_free_partial : forall s s', (forall i, Permutation (ftab s i) (ftab s' i)) ->
  (forall i, NoDup (tkeys (ftab s i))) -> fwld s = fwld s' -> forall i g, fget s i g = fget s' i g.
Proof. exact reads_row_order_free. Qed.
Print Assumptions C10_reads_row_order_free_partial.

Theorem C10_extension_order_free_partial : forall w t gs gs', (forall g, In g gs <-> In g gs') ->
  (forall h, tcur w (textend w t gs) h = tcur w (textend w t gs') h) /\
  (forall h, tmem (textend w t gs) h = tmem (textend w t gs') h).
Proof. exact extension_order_free. Qed.
Print Assumptions C10_extension_order_free_partial.

Theorem C10_merge_order_free_partial : forall p1 p2, (forall x, In x p1 <-> In x p2) ->
  forall h v1 v2, In (h, v1) (merge_dups p1) -> In (h, v2) (merge_dups p2) -> bnd_eq v1 v2.
Proof. exact merge_order_free. Qed.
Print Assumptions C10_merge_order_free_partial.

(* facts listed in another order: add_data with distinct keys reads back the same whatever the order *)
Theorem C10_fact_order_free_partial : forall s i d d' g b, NoDup (map fst d) -> NoDup (map fst d') ->
  In (g, b) d -> In (g, b) d' -> fget (f_add_data s i d) i g = fget (f_add_data s i d') i g.
Proof.
  intros s i d d' g b N N' H H'.
  rewrite (proj1 (add_data_roundtrip s i d g b N H)), (proj1 (add_data_roundtrip s i d' g b N' H')). reflexivity.
Qed.
Print Assumptions C10_fact_order_free_partial.

Example C10_example :
  let p1 := [([1%nat], B 0 (1 # 2)); ([2%nat], B 0 1); ([1%nat], B (1 # 4) 1)] in
  let p2 := [([1%nat], B (1 # 4) 1); ([1%nat], B 0 (1 # 2)); ([2%nat], B 0 1)] in
  In ([1%nat], B (1 # 4) (1 # 2)) (merge_dups p1) /\ In ([1%nat], B (1 # 4) (1 # 2)) (merge_dups p2).
Proof. vm_compute. split; [left; reflexivity | left; reflexivity]. Qed.
Print Assumptions C10_example.
