(* C08 -- Every sub-formula object is a full member of the model.
   Objects are identities (indices): structurally equal formulae written twice, and the private
   sub-formulae Iff and XOr create, are distinct objects.  `calls` is ANY sequence of add_knowledge
   calls (roots repeated, inner formulae added again as roots, set_query on a member...). *)
From LNN Require Import Num Neuron Node PropEngine Registry.
From LNN.proofs Require Import NodeProofs NeuronProofs PropProofs DfsProofs FrameProofs RegistryProofs.
Open Scope nat_scope.

(* registered exactly once, under its own formula number; numbers are never re-assigned *)
Theorem C08_registered_exactly_once : forall k calls call root x,
  wf_kb k -> Forall (roots_ok k) calls -> In call calls -> In root call -> desc k root x ->
  let r := add_all k reg_empty calls in
  exists n, formula_number r x = Some n /\ dget (r_nodes r) n = Some x /\
            (forall n', dget (r_nodes r) n' = Some x -> n' = n) /\ n < num_formulae r.
Proof.
  intros k calls call root x Hwf Hc Hin Hroot Hd r.
  pose proof (proj1 (add_all_inv k Hwf calls Hc reg_empty (reg_inv_empty k))) as Hinv.
  pose proof (add_all_covers k Hwf calls Hc reg_empty call root x (reg_inv_empty k) Hin Hroot Hd) as Hx.
  destruct (registered_exactly_once k r x Hinv Hx) as (n & H1 & H2 & H3).
  exists n. repeat split; try assumption. exact (proj2 (nodes_only_members k r n x Hinv H2)).
Qed.
Print Assumptions C08_registered_exactly_once.

Theorem C08_numbers_stable : forall k r roots x n, wf_kb k -> roots_ok k roots -> reg_inv k r ->
  formula_number r x = Some n -> formula_number (add_knowledge k r roots) x = Some n.
Proof. intros k r roots x n Hwf. apply add_knowledge_stable; exact Hwf. Qed.
Print Assumptions C08_numbers_stable.

Theorem C08_nothing_else_registered : forall k calls n x, wf_kb k -> Forall (roots_ok k) calls ->
  let r := add_all k reg_empty calls in
  dget (r_nodes r) n = Some x -> formula_number r x = Some n /\ n < num_formulae r.
Proof.
  intros k calls n x Hwf Hc r H. apply (nodes_only_members k r n x); [|exact H].
  exact (proj1 (add_all_inv k Hwf calls Hc reg_empty (reg_inv_empty k))).
Qed.
Print Assumptions C08_nothing_else_registered.

(* every model-wide operation (upward, downward, infer, flush, reset_bounds, projection) visits the
   traversal of the graph: every sub-formula object of every root exactly once, nothing else *)
Theorem C08_traversal_reaches_once : forall k roots d root x, wf_kb k -> roots_ok k roots -> In root roots -> desc k root x ->
  In x (traversal k roots d None) /\ NoDup (traversal k roots d None).
Proof.
  intros k roots d root x Hwf Hr Hin Hd. unfold traversal.
  pose proof (postorder_complete k Hwf roots root x Hr Hin Hd) as H1.
  pose proof (postorder_nodup k Hwf roots) as H2.
  destruct d; split; try assumption; [apply -> in_rev; exact H1 | apply NoDup_rev; exact H2].
Qed.
Print Assumptions C08_traversal_reaches_once.

(* the step a traversal executes at object i reads and writes i itself and its own operands:
   the objects the formula was built from, not structurally equal stand-ins *)
Theorem C08_same_object : forall k s i jb, wf_kb k ->
  (forall p, In p (node_up k i) -> In jb (plan k s p) -> desc k i (fst jb)) /\
  (forall p idx, In p (node_down k i idx) -> In jb (plan k s p) -> desc k i (fst jb)).
Proof.
  intros k s i jb Hwf. split.
  - intros p Hp Hj. eapply desc_trans; [eapply node_up_desc; eauto | eapply plan_targets_desc; eauto].
  - intros p idx Hp Hj. eapply desc_trans; [eapply node_down_desc; eauto | eapply plan_targets_desc; eauto].
Qed.
Print Assumptions C08_same_object.

(* non-vacuity: f1 = And(A,B), f2 = And(A,B) (a twin), r = Implies(f2, C); add_knowledge(f1, r) then
   add_knowledge(f2) again then set_query(A): five objects... all six registered once, numbers 0..5 *)
Definition c08_kb : kb :=
  [ Obj KProp [] (NP 1 1 [] VTransparent) []; Obj KProp [] (NP 1 1 [] VTransparent) [];
    Obj KProp [] (NP 1 1 [] VTransparent) [];
    Obj (KConn CAnd) [0; 1] (NP 1 1 [1%Q; 1%Q] VTransparent) [];
    Obj (KConn CAnd) [0; 1] (NP 1 1 [1%Q; 1%Q] VTransparent) [];
    Obj (KConn CImp) [4; 2] (NP 1 1 [1%Q; 1%Q] VTransparent) [] ].
Example C08_example :
  let r := add_all c08_kb reg_empty [[3; 5]; [4]; [0]] in
  r_log r = [3; 0; 1; 5; 4; 2] /\ num_formulae r = 6 /\ formula_number r 4 = Some 4 /\ dget (r_nodes r) 4 = Some 4 /\
  traversal c08_kb [3; 5] Up None = [0; 1; 3; 4; 2; 5].
Proof. vm_compute. repeat split; reflexivity. Qed.
Print Assumptions C08_example.
