(* C11 -- Quantifiers aggregate their instances exactly and respect the open world.
   `rows` is the table of the quantified formula (a predicate, a connective nest, or another quantifier: nested
   quantifiers compose because the outer one reads the inner one's table); the grounding g ranges over the
   groundings of the FREE variables (the empty tuple when nothing is free). *)
From LNN Require Import Num Neuron Node PropEngine Fol Quant.
From LNN.proofs Require Import NodeProofs NeuronProofs PropProofs DfsProofs MonoProofs EvalProofs TruthProofs FolProofs JoinProofs ConnProofs QuantProofs.
Open Scope Q_scope.

(* upward stores, for EVERY grounding of the free variables that has an instance, the aggregate of that group *)
Theorem C11_every_group_evaluated : forall q s rows g, rows <> [] -> In g (group_keys q rows) ->
  qfind (qneu (fst (q_up q s rows))) g = Some (group_result q s rows g) /\
  qfind (qtab (fst (q_up q s rows))) g = Some (snd (group_result q s rows g)).
Proof. exact q_up_group. Qed.
Print Assumptions C11_every_group_evaluated.
Theorem C11_every_instance_grouped : forall q rows r, In r rows -> In (project (qfree q) (fst r)) (group_keys q rows).
Proof. exact every_instance_grouped. Qed.
Print Assumptions C11_every_instance_grouped.

(* Forall: upper bound = min(previous upper, Lukasiewicz conjunction of the instance upper bounds); the lower bound is
   never raised (unless fully_grounded) *)
Theorem C11_forall : forall q s rows g, qk q = QForall -> qfull q = false ->
  let old := neuron_bounds q s g (length (group_rows q rows g)) in
  let his := map hi (map snd (group_rows q rows g)) in
  wf_bnd old ->
  bnd_eq (snd (group_result q s rows g)) (B (lo old) (qmin (hi old) (and_f (unit_np (length his)) his))).
Proof. exact forall_up_bounds. Qed.
Print Assumptions C11_forall.

(* Exists: lower bound = max(previous lower, Lukasiewicz disjunction of the instance lower bounds); the upper bound is
   never lowered *)
Theorem C11_exists : forall q s rows g, qk q = QExists -> qfull q = false ->
  let old := neuron_bounds q s g (length (group_rows q rows g)) in
  let los := map lo (map snd (group_rows q rows g)) in
  wf_bnd old ->
  bnd_eq (snd (group_result q s rows g)) (B (qmax (lo old) (or_f (unit_np (length los)) los)) (hi old)).
Proof. exact exists_up_bounds. Qed.
Print Assumptions C11_exists.

(* one FALSE instance refutes a Forall; (finitely many TRUE instances never prove it: C11_forall leaves lo untouched) *)
Theorem C11_one_false_refutes_forall : forall q s rows g, qk q = QForall -> qfull q = false ->
  wf_bnd (neuron_bounds q s g (length (group_rows q rows g))) ->
  (exists r, In r (group_rows q rows g) /\ hi (snd r) == 0) ->
  (forall r, In r (group_rows q rows g) -> hi (snd r) <= 1) ->
  hi (snd (group_result q s rows g)) == 0.
Proof. exact forall_refuted_by_one_false. Qed.
Print Assumptions C11_one_false_refutes_forall.

(* non-vacuity: Forall_x over rows {(a,m): TRUE, (b,m): FALSE, (a,c): TRUE, (b,c): TRUE}, free variable = 2nd position *)
Example C11_example :
  let q := QObj QForall 0 [1%nat] false unknown in
  let rows := [([1; 9]%nat, B 1 1); ([2; 9]%nat, B 0 0); ([1; 3]%nat, B 1 1); ([2; 3]%nat, B 1 1)] in
  let r := q_up q qempty rows in
  qfind (qtab (fst r)) [9%nat] = Some (B 0 0) /\ qfind (qtab (fst r)) [3%nat] = Some (B 0 1) /\ snd r == 1.
Proof. vm_compute. repeat split; reflexivity. Qed.
Print Assumptions C11_example.
