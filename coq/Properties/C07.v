(* C07 -- The inferred fixpoint does not depend on traversal or insertion order.
   `ops1`, `ops2` are ARBITRARY sequences of public calls (node-level upward/downward(index),
   model-level upward/downward/infer with any source/max_steps) run under ARBITRARY root orders
   `roots1`, `roots2` (= add_knowledge permutations, which only change the traversal).
   A state is a fixpoint when no upward/downward step of any formula changes it; `clean` = no
   formula is in contradiction (so nothing is arrested). *)
From LNN Require Import Num Neuron Node PropEngine.
From LNN.proofs Require Import NodeProofs NeuronProofs PropProofs FixpointProofs MonoProofs SchedProofs.
Open Scope Q_scope.

Theorem C07_confluent : forall k roots1 roots2 ops1 ops2 s0,
  wf_kb k -> Range s0 ->
  let s1 := exec_ops k roots1 s0 ops1 in
  let s2 := exec_ops k roots2 s0 ops2 in
  clean k s1 -> fixpoint k s1 -> fixpoint k s2 ->
  clean k s2 /\ forall i, bnd_eq (s1 i) (s2 i).
Proof.
  intros k roots1 roots2 ops1 ops2 s0 Hwf HR s1 s2 Hc Hf1 Hf2.
  destruct (exec_ops_as_prims k roots1 ops1 s0) as [ps [Hps E1]].
  destruct (exec_ops_as_prims k roots2 ops2 s0) as [qs [Hqs E2]].
  subst s1 s2. rewrite E1, E2 in *. apply confluence; assumption.
Qed.
Print Assumptions C07_confluent.

(* whether a contradiction is found is order-independent: if SOME schedule ends in a
   contradiction-free fixpoint, then EVERY state reachable by ANY schedule is contradiction-free
   and never tighter than that fixpoint *)
Theorem C07_contradiction_order_free : forall k roots1 roots2 ops1 ops2 s0,
  wf_kb k -> Range s0 ->
  let s1 := exec_ops k roots1 s0 ops1 in
  clean k s1 -> fixpoint k s1 ->
  clean k (exec_ops k roots2 s0 ops2) /\ sle (exec_ops k roots2 s0 ops2) s1.
Proof.
  intros k roots1 roots2 ops1 ops2 s0 Hwf HR s1 Hc Hf1.
  destruct (exec_ops_as_prims k roots1 ops1 s0) as [ps [Hps E1]].
  destruct (exec_ops_as_prims k roots2 ops2 s0) as [qs [Hqs E2]].
  subst s1. rewrite E1, E2 in *. apply reachable_clean; assumption.
Qed.
Print Assumptions C07_contradiction_order_free.

(* the engine of the proof: every primitive step is monotone w.r.t. tightening between
   contradiction-free states *)
Theorem C07_step_monotone : forall k s t a b p, wf_kb k -> valid_prim k p -> Range s -> Range t ->
  sle s t -> clean k t -> sle (fst (run_prim k (s, a) p)) (fst (run_prim k (t, b) p)).
Proof. intros. apply run_prim_mono; assumption. Qed.
Print Assumptions C07_step_monotone.

(* non-vacuity: a KB, a start state, two different schedules reaching the same clean fixpoint *)
Definition c07_kb : kb :=
  [ Obj KProp [] (NP 1 1 [] VTransparent) []; Obj KProp [] (NP 1 1 [] VTransparent) [];
    Obj KProp [] (NP 1 1 [] VTransparent) [];
    Obj (KConn CImp) [0; 1]%nat (NP 1 1 [1; 1] VTransparent) [];
    Obj (KConn CImp) [1; 2]%nat (NP 1 1 [1; 1] VTransparent) [] ].
Definition c07_s0 : state :=
  fun i => match i with 0%nat => B 1 1 | 3%nat => B 1 1 | 4%nat => B 1 1 | _ => unknown end.
Example C07_example :
  let s1 := exec_ops c07_kb [3; 4]%nat c07_s0 [OInfer None 0 10] in
  let s2 := exec_ops c07_kb [4; 3]%nat c07_s0 [ONodeDown 4 None; ONodeDown 3 None; ONodeDown 4 None; ONodeUp 3; ONodeUp 4] in
  (forall i, (i < 5)%nat -> s1 i = s2 i) /\ lo (s1 2%nat) == 1 /\
  forallb (fun i => negb (arrested c07_kb s1 i)) (seq 0 5) = true.
Proof.
  cbn zeta. split; [|split; vm_compute; reflexivity].
  intros i Hi. do 5 (destruct i as [|i]; [vm_compute; reflexivity|]). lia.
Qed.
Print Assumptions C07_example.
