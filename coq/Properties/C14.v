(* C14 -- World assumptions define the default of everything not asserted.
   Tables are those of the first-order model; `fexec_ops` is ANY sequence of node-level
   upward/downward(index) and model-level upward/downward/infer calls on ANY knowledge base
   (homogeneous or heterogeneous joins, nests, Not). *)
From LNN Require Import Num Neuron Node PropEngine Fol FolRun Sx.
From LNN.proofs Require Import NodeProofs NeuronProofs PropProofs MonoProofs FolProofs StoreProofs.
Open Scope Q_scope.

(* a grounding that has no row reads as its formula's world default ... *)
Theorem C14_unknown_reads_default : forall s i g, tmem (ftab s i) g = false -> fget s i g = fwld s i.
Proof. exact unknown_reads_default. Qed.
Print Assumptions C14_unknown_reads_default.

(* ... and querying it does not create it (the get_data probe of the executable model) *)
Theorem C14_query_does_not_create : forall k roots s i g, fst (frun_op k roots s (L [A 12%Z; i; g])) = s.
Proof. reflexivity. Qed.
Print Assumptions C14_query_does_not_create.

(* a row introduced by a join, a propagation of groundings or a downward step starts at the default:
   the extension creates it AT the default (current bounds and stored data) ... *)
Theorem C14_extension_creates_default : forall w t gs g r, tfind t g = None -> tfind (textend w t gs) g = Some r -> r = Row g w w.
Proof. intros w t gs g r. apply tfind_textend_new. Qed.
Print Assumptions C14_extension_creates_default.
(* ... and no grounding's reading is changed by an extension (so introducing rows is invisible) *)
Theorem C14_extension_invisible : forall s i gs j g, fget (fextend s i gs) j g = fget s j g.
Proof. exact fget_fextend. Qed.
Print Assumptions C14_extension_invisible.
(* end to end: after any inference, a row that did not exist before holds the default as its data and reads
   at least as tight as the default *)
Theorem C14_new_rows_from_default : forall k roots ops s i g b, FRange s -> fleaf s i g = None ->
  fleaf (fexec_ops k roots s ops) i g = Some b -> b = fwld s i /\ tighter (fwld s i) (fget (fexec_ops k roots s ops) i g).
Proof. exact new_rows_from_default. Qed.
Print Assumptions C14_new_rows_from_default.

(* formulae added as axioms start TRUE and stay TRUE (lower bound 1) through every inference; they can
   only become contradictions, never anything weaker *)
Theorem C14_axiom_stays_true : forall k roots ops s i, FRange s -> lo (fwld s i) == 1 ->
  (forall r, In r (ftab s i) -> lo (rcur r) == 1) -> forall g, lo (fget (fexec_ops k roots s ops) i g) == 1.
Proof. exact axiom_stays_true. Qed.
Print Assumptions C14_axiom_stays_true.

(* add_knowledge(f, world = w) / reset_world on a formula that already has rows: every grounding of f then
   reads w (existing rows are overwritten, missing ones read the new default), its stored data and every other
   formula are untouched -- this branch is covered, not assumed away *)
Theorem C14_reset_world : forall s i w g, fget (f_reset_world s i w) i g = w /\ fleaf (f_reset_world s i w) i g = fleaf s i g /\
  forall j, j <> i -> ftab (f_reset_world s i w) j = ftab s j /\ fwld (f_reset_world s i w) j = fwld s j.
Proof. exact reset_world_reads. Qed.
Print Assumptions C14_reset_world.

(* non-vacuity: CLOSED predicate P (default FALSE), OPEN Q; And(P(x),Q(x)) upward after Q(a)=TRUE introduces P(a) at FALSE *)
Definition c14_kb : fkb :=
  [ FObj FPred [] [] 1 (NP 1 1 [] VTransparent); FObj FPred [] [] 1 (NP 1 1 [] VTransparent);
    FObj (FConn CAnd) [0; 1]%nat [[0%nat]; [0%nat]] 1 (NP 1 1 [1; 1] VTransparent) ].
Definition c14_s0 : fstate := f_add_data (FS (fun _ => []) (fun i => match i with 0%nat => B 0 0 | _ => unknown end)) 1 [([7%nat], B 1 1)].
Example C14_example :
  let s := fexec_ops c14_kb [2%nat] c14_s0 [FModelUp None] in
  tmem (ftab c14_s0 0) [7%nat] = false /\ fget c14_s0 0 [7%nat] = B 0 0 /\
  tfind (ftab s 0) [7%nat] = Some (Row [7%nat] (B 0 0) (B 0 0)) /\ fget s 2 [7%nat] = B 0 0.
Proof. vm_compute. repeat split; reflexivity. Qed.
Print Assumptions C14_example.
