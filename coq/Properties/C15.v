(* C15 -- Asserted data is stored, returned and validated faithfully. *)
From LNN Require Import Num Neuron Node PropEngine Fol Store.
From LNN.proofs Require Import NodeProofs NeuronProofs PropProofs MonoProofs FolProofs StoreProofs.
Open Scope Q_scope.

(* add_data makes get_data return exactly the asserted bounds for exactly the asserted groundings
   (a data dictionary has distinct keys); they are also what is stored as data *)
Theorem C15_roundtrip : forall s i d g b, NoDup (map fst d) -> In (g, b) d ->
  fget (f_add_data s i d) i g = b /\ fleaf (f_add_data s i d) i g = Some b.
Proof. exact add_data_roundtrip. Qed.
Print Assumptions C15_roundtrip.

(* other groundings are untouched (reading, stored data, and no row is created for them) *)
Theorem C15_other_groundings_untouched : forall s i d g, ~ In g (map fst d) ->
  fget (f_add_data s i d) i g = fget s i g /\
  (fleaf s i g <> None -> fleaf (f_add_data s i d) i g = fleaf s i g) /\
  (tmem (ftab s i) g = false -> tmem (ftab (f_add_data s i d) i) g = false).
Proof. exact add_data_other_grounding. Qed.
Print Assumptions C15_other_groundings_untouched.

Theorem C15_other_formulae_untouched : forall s i d j, j <> i ->
  ftab (f_add_data s i d) j = ftab s j /\ fwld (f_add_data s i d) = fwld s.
Proof. exact add_data_other_object. Qed.
Print Assumptions C15_other_formulae_untouched.

(* later assertions overwrite earlier ones *)
Theorem C15_later_overwrites : forall s i d1 d2 g b, NoDup (map fst d2) -> In (g, b) d2 ->
  fget (f_add_data (f_add_data s i d1) i d2) i g = b.
Proof. intros s i d1 d2 g b HN Hin. apply (add_data_roundtrip (f_add_data s i d1) i d2 g b HN Hin). Qed.
Print Assumptions C15_later_overwrites.

(* reset_bounds() returns to exactly the data, whatever inference ran in between: asserted groundings read their
   assertion, everything else its world default *)
Theorem C15_reset_returns_to_data : forall k roots ops reg s i g, FRange s -> memb i reg = true ->
  fget (f_reset_bounds reg (fexec_ops k roots s ops)) i g = match fleaf s i g with Some b => b | None => fwld s i end.
Proof. exact reset_after_inference. Qed.
Print Assumptions C15_reset_returns_to_data.

(* validation: whatever add_data accepts (other than a Fact/World constant) lies in [0,1]; pairs of the wrong
   length, non-numbers, values of the wrong type for the formula and formulae outside the model are rejected *)
Theorem C15_accepted_in_range : forall v b, validate_bounds v = inr b -> (exists f, v = VFact f) \/ wf_bnd b.
Proof. exact accepted_in_range. Qed.
Print Assumptions C15_accepted_in_range.
Theorem C15_rejects : forall x l u n inner,
  (~ (0 <= x <= 1) -> validate TPropMember (VFloat x) = inl EIndexError) /\
  (~ (0 <= l <= 1 /\ 0 <= u <= 1) -> validate TPropMember (VPair l u) = inl EIndexError) /\
  validate TPropMember (VTuple n) = inl EIndexError /\
  validate TPropMember VStrPair = inl ETypeError /\ validate TPropMember VOther = inl ETypeError /\
  validate TPropMember (VDict inner) = inl ETypeError /\
  validate TFolMember (VFloat x) = inl EException /\ validate TFolMember (VPair l u) = inl EException /\
  (forall v, validate TPropOutsider v = inl EException /\ validate TFolOutsider v = inl EException).
Proof.
  intros x l u n inner. repeat split; try reflexivity.
  - intros H. cbn [validate validate_bounds]. destruct (in_unit x) eqn:E; [apply in_unit_spec in E; contradiction | reflexivity].
  - intros H. cbn [validate validate_bounds]. destruct (in_unit l) eqn:E1; destruct (in_unit u) eqn:E2; cbn [andb]; try reflexivity.
    apply in_unit_spec in E1. apply in_unit_spec in E2. exfalso. apply H. tauto.
Qed.
Print Assumptions C15_rejects.

(* non-vacuity *)
Example C15_example :
  let s0 := FS (fun _ => []) (fun _ => unknown) in
  let s1 := f_add_data s0 0 [([1; 2]%nat, B (1 # 4) (3 # 4)); ([2; 2]%nat, B 1 1)] in
  let s2 := f_add_data s1 0 [([1; 2]%nat, B 0 0)] in
  fget s2 0 [1; 2]%nat = B 0 0 /\ fget s2 0 [2; 2]%nat = B 1 1 /\ fget s2 0 [3; 3]%nat = unknown /\
  validate TPropMember (VFloat (3 # 2)) = inl EIndexError.
Proof. vm_compute. repeat split; reflexivity. Qed.
Print Assumptions C15_example.
