(* C17 -- Bounds stay in [0,1]; contradiction means crossed bounds; state() is total.
   The region thresholds, the contradiction rule and the state table are the generated ones
   (Generated/Tables.v), so every theorem here is re-checked against the current source. *)
From LNN Require Import Num Neuron Node PropEngine.
From LNN.proofs Require Import NodeProofs NeuronProofs PropProofs.
Open Scope Q_scope.

(* every bound produced by aggregation or by an activation lies in [0,1] *)
Theorem C17_aggregate_range : forall w old new,
  in01 (lo (agg_bnd w old new)) /\ in01 (hi (agg_bnd w old new)).
Proof. exact agg_range. Qed.
Print Assumptions C17_aggregate_range.

Theorem C17_activation_range : forall c p bs, wf_bnd (act_up c p bs).
Proof. exact act_up_range. Qed.
Print Assumptions C17_activation_range.

(* contradiction <-> lower exceeds upper, outside the same-classical-region tolerance *)
Theorem C17_contra_iff : forall al b, alpha_ok al -> in01 (lo b) -> in01 (hi b) ->
  (is_contra al b = true <-> crossed_outside_tolerance al b).
Proof. exact is_contra_iff. Qed.
Print Assumptions C17_contra_iff.

Corollary C17_contra_default_alpha : forall b, in01 (lo b) -> in01 (hi b) ->
  (is_contra 1 b = true <-> hi b < lo b /\ ~ (lo b <= 0 /\ hi b <= 0) /\ ~ (1 <= lo b /\ 1 <= hi b)).
Proof.
  intros b Hl Hu. rewrite (is_contra_iff 1 b) by (auto; unfold alpha_ok; lra).
  unfold crossed_outside_tolerance.
  split; intros (H1 & H2 & H3); (split; [exact H1|]); split; intros [? ?];
  first [apply H2; split; lra | apply H3; split; lra].
Qed.
Print Assumptions C17_contra_default_alpha.

(* state() is total and (being a function) unique; its value is the documented table *)
Theorem C17_state_total : forall al b, alpha_ok al -> in01 (lo b) -> in01 (hi b) ->
  exists c, state_code al b = Some c /\
            state_code al b = ref_state (region_of al (lo b)) (region_of al (hi b)) (qltb (hi b) (lo b)).
Proof.
  intros al b Ha Hl Hu. destruct (state_total al b Ha Hl Hu) as [c Hc].
  exists c. split; [exact Hc | apply state_code_ref; assumption].
Qed.
Print Assumptions C17_state_total.

Theorem C17_state_characterisation : forall al b, alpha_ok al -> in01 (lo b) -> in01 (hi b) ->
  (state_code al b = Some SC <-> is_contra al b = true) /\
  (state_code al b = Some ST <-> al <= lo b /\ al <= hi b) /\
  (state_code al b = Some SF <-> lo b <= 1 - al /\ hi b <= 1 - al) /\
  (state_code al b = Some SU <-> lo b <= 1 - al /\ al <= hi b).
Proof.
  intros al b Ha Hl Hu.
  split; [apply state_C_iff; assumption|]. split; [apply state_T_iff; assumption|].
  split; [apply state_F_iff; assumption | apply state_U_iff; assumption].
Qed.
Print Assumptions C17_state_characterisation.

Theorem C17_regions_partition : forall al y, alpha_ok al -> in01 y -> (1 <= region_of al y <= 5)%Z.
Proof. exact region_total. Qed.
Print Assumptions C17_regions_partition.

(* every bound reachable by any sequence of public inference calls stays in [0,1] *)
Theorem C17_reachable_range : forall k roots s ops, Range s -> Range (exec_ops k roots s ops).
Proof. intros. apply exec_ops_range; assumption. Qed.
Print Assumptions C17_reachable_range.

(* has_contradiction() is true exactly when some registered formula is a contradiction *)
Theorem C17_has_contradiction_iff : forall k reg s,
  has_contradiction k reg s = true <-> exists i, In i reg /\ obj_contra k s i = true.
Proof. intros. unfold has_contradiction. apply existsb_exists. Qed.
Print Assumptions C17_has_contradiction_iff.

(* non-vacuity *)
Example C17_examples :
  state_code 1 (B 0 1) = Some SU /\ state_code 1 (B 1 1) = Some ST /\ state_code 1 (B 0 0) = Some SF /\
  state_code 1 (B 1 0) = Some SC /\ state_code (7#8) (B (1#4) (3#4)) = Some SAU /\
  state_code (7#8) (B (1#2) (1#2)) = Some SEU /\ state_code (7#8) (B (1#16) (1#4)) = Some SAF /\
  state_code (7#8) (B (3#4) (1#1)) = Some SAT /\ is_contra (7#8) (B (1#8) (1#16)) = false /\
  is_contra (7#8) (B (1#4) (1#16)) = true.
Proof. vm_compute. repeat split; reflexivity. Qed.
Print Assumptions C17_examples.

(* ---------- first-order tables: every stored bound stays in [0,1] through any inference ---------- *)
From LNN Require Import Fol.
From LNN.proofs Require Import FolProofs StoreProofs.
Theorem C17_fol_range : forall k roots s ops, FRange s -> FRange (fexec_ops k roots s ops).
Proof. intros k roots s ops HR. apply (fexec_ops_ok k roots ops s HR). Qed.
Print Assumptions C17_fol_range.
Theorem C17_fol_reads_in_range : forall k roots s ops i g, FRange s -> wf_bnd (fget (fexec_ops k roots s ops) i g).
Proof. intros k roots s ops i g HR. apply FRange_fget. apply (fexec_ops_ok k roots ops s HR). Qed.
Print Assumptions C17_fol_reads_in_range.
