(* C06 -- infer() terminates at a genuine fixpoint (propositional knowledge bases).
   Termination: the reported amount of a pass is exactly the interval width it removes
   (C13), the total width is bounded, and a non-converged step removes more than infer_eps
   (the threshold extracted from model.py).  Fixpoint: a step that reports exactly zero leaves
   every bound unchanged and so does every single upward/downward step of every traversed
   formula; running the step again reports zero again.
   PARTIAL (named so): `C06_fixpoint` needs the last step to report EXACTLY zero.  infer() stops
   at amount <= infer_eps (1e-7): on knowledge bases whose reachable bounds stay on a grid
   coarser than 1e-7 (unit weights, dyadic data: the default LNN) "<= eps" implies "== 0";
   weighted KBs can converge only asymptotically (recorded in DESIGN.md, D9). *)
From LNN Require Import Num Neuron Node PropEngine.
From LNN.proofs Require Import NodeProofs NeuronProofs PropProofs FixpointProofs.
Open Scope Q_scope.

Theorem C06_terminates : forall k roots src query ms fuel s,
  wf_kb k -> Range s ->
  2 * inject_Z (Z.of_nat (length k)) < inject_Z (Z.of_nat fuel) * infer_eps ->
  ir_fuel_out (infer fuel k roots None src query ms s) = false.
Proof.
  intros k roots src query ms fuel s Hwf HR Hf. unfold infer.
  apply infer_loop_terminates; [exact Hwf | exact HR|].
  pose proof (phi_bounds (length k) s HR) as [_ H2]. lra.
Qed.
Print Assumptions C06_terminates.

(* one reasoning step of infer() = an upward pass followed by a downward pass *)
Definition step_steps (k : kb) (roots : list nat) (src : option nat) : list pstep :=
  pass_steps k roots Up src ++ pass_steps k roots Down src.

Theorem C06_fixpoint_partial : forall k roots src s,
  wf_kb k -> Range s -> Canon s ->
  snd (run_prims k (s, 0) (step_steps k roots src)) == 0 ->
  (* the step changed nothing *)
  (forall i, fst (run_prims k (s, 0) (step_steps k roots src)) i = s i) /\
  (* no single upward or downward step of any traversed formula changes anything *)
  (forall p, In p (step_steps k roots src) ->
     (forall i, fst (run_prim k (s, 0) p) i = s i) /\ snd (run_prim k (s, 0) p) == 0) /\
  (* running the step again reports zero again and changes nothing *)
  (let s' := fst (run_prims k (s, 0) (step_steps k roots src)) in
   snd (run_prims k (s', 0) (step_steps k roots src)) == 0 /\
   forall i, fst (run_prims k (s', 0) (step_steps k roots src)) i = s i).
Proof.
  intros k roots src s Hwf HR HC Hz.
  assert (Hv : Forall (valid_prim k) (step_steps k roots src)).
  { unfold step_steps. apply Forall_app. split; apply pass_steps_valid. }
  destruct (zero_amount_steps k Hwf _ Hv s HR HC Hz) as [X Hall].
  split; [exact X|]. split; [exact Hall|]. cbn zeta.
  destruct (run_prims_ext k (step_steps k roots src) _ s 0 X) as [E1 E2].
  split; [rewrite E2; exact Hz|]. intros i. rewrite (E1 i). apply X.
Qed.
Print Assumptions C06_fixpoint_partial.

(* non-vacuity: modus ponens KB converges in 2 steps, second step reports 0 *)
Example C06_example :
  let k := [ Obj KProp [] (NP 1 1 [] VTransparent) []; Obj KProp [] (NP 1 1 [] VTransparent) [];
             Obj (KConn CImp) [0; 1]%nat (NP 1 1 [1; 1] VTransparent) [] ] in
  let s := fun i => match i with 0%nat => B 1 1 | 2%nat => B 1 1 | _ => unknown end in
  let r := infer 10 k [2%nat] None None None 0 s in
  ir_steps r = 2%nat /\ ir_fuel_out r = false /\ lo (ir_state r 1%nat) == 1 /\
  snd (run_prims k (ir_state r, 0) (step_steps k [2%nat] None)) == 0.
Proof. vm_compute. repeat split; reflexivity. Qed.
Print Assumptions C06_example.
