(* C04 -- Formulae are truth-functional on point inputs and classical on classical inputs.
   `pass k roots Up None` is Model.upward(); objects are indices (shared objects, twins, the
   private sub-formulae of Iff and XOr are all covered); every nesting depth (induction over the
   topological order of the traversal, no size bound). *)
From LNN Require Import Num Neuron Node PropEngine.
From LNN.proofs Require Import NodeProofs NeuronProofs PropProofs DfsProofs MonoProofs SchedProofs EvalProofs TruthProofs.
Open Scope Q_scope.

(* point inputs: every traversed sub-formula ends at the point value of its truth function, for all
   weights >= 0, biases, alpha, both variants; non-leaf objects may start anywhere around it *)
Theorem C04_point : forall k vals roots s,
  wf_kb k -> consistent k vals -> roots_ok k roots -> Range s ->
  (forall i, inb (s i) (vals i)) ->
  (forall i, okind (getobj k i) = KProp -> bnd_eq (s i) (point (vals i))) ->
  forall i, In i (postorder k roots) -> bnd_eq (fst (pass k roots Up None s) i) (point (vals i)).
Proof. exact point_upward. Qed.
Print Assumptions C04_point.

(* the interpretation the theorem talks about exists for every atom assignment: recursive
   evaluation of the weighted Lukasiewicz truth functions *)
Theorem C04_interpretation_exists : forall k v, wf_kb k -> (forall i, 0 <= v i <= 1) ->
  consistent k (eval k v) /\ forall i, okind (getobj k i) = KProp -> eval k v i = v i.
Proof. intros k v Hwf Hv. split; [apply eval_consistent; assumption | intros i; apply eval_atom]. Qed.
Print Assumptions C04_interpretation_exists.

(* the general form: interval inputs are propagated exactly by the upward rules *)
Theorem C04_upward_exact : forall k e roots s, wf_kb k -> iinterp k e -> roots_ok k roots -> Range s ->
  Loose s e -> (forall i, okind (getobj k i) = KProp -> bnd_eq (s i) (e i)) ->
  forall i, In i (postorder k roots) -> bnd_eq (fst (pass k roots Up None s) i) (e i).
Proof. intros k e roots s Hwf He. exact (upward_pass_eval k Hwf e He roots s). Qed.
Print Assumptions C04_upward_exact.

(* classical inputs, default parameters (unit weights, bias 1), every arity *)
Theorem C04_classical_and : forall p bs, unit_params p (length bs) -> and_f p (map b2q bs) == b2q (forallb (fun b => b) bs).
Proof. exact and_f_bool. Qed.
Theorem C04_classical_or : forall p bs, unit_params p (length bs) -> or_f p (map b2q bs) == b2q (existsb (fun b => b) bs).
Proof. exact or_f_bool. Qed.
Theorem C04_classical_implies : forall p a b, unit_params p 2 -> imp_f p [b2q a; b2q b] == b2q (implb a b).
Proof. exact imp_f_bool. Qed.
Theorem C04_classical_not : forall b, 1 - b2q b == b2q (negb b).
Proof. exact not_bool. Qed.
(* Iff(a,b) = And(Implies(a,b), Implies(b,a)) is equivalence; XOr(x..) = And(Not(And(x_i,x_j)) i<j, Or(x..))
   is exactly-one *)
Theorem C04_classical_iff : forall a b, (implb a b && implb b a)%bool = Bool.eqb a b.
Proof. exact iff_bool. Qed.
Theorem C04_classical_xor : forall bs,
  (forallb (fun ab => negb (fst ab && snd ab)) (pairs bs) && existsb (fun b => b) bs)%bool = Nat.eqb (count_true bs) 1.
Proof. exact exactly_one_bool. Qed.
Print Assumptions C04_classical_and. Print Assumptions C04_classical_or. Print Assumptions C04_classical_implies.
Print Assumptions C04_classical_not. Print Assumptions C04_classical_iff. Print Assumptions C04_classical_xor.

(* three-valued inputs: bounds from {FALSE, UNKNOWN, TRUE} stay in that set through every nesting and
   follow the strong Kleene tables (min / max / involution on F < U < T) *)
Theorem C04_kleene : forall k kv roots s, wf_kb k -> unit_kb k -> kleene_consistent k kv -> roots_ok k roots -> Range s ->
  (forall i, tighter (s i) (enc (kv i))) ->
  (forall i, okind (getobj k i) = KProp -> bnd_eq (s i) (enc (kv i))) ->
  forall i, In i (postorder k roots) -> bnd_eq (fst (pass k roots Up None s) i) (enc (kv i)).
Proof. exact kleene_upward. Qed.
Print Assumptions C04_kleene.
Theorem C04_kleene_tables :
  (forall xs, t3_pair (fold_right t3_min K_T xs) = (forallb (fun b => b) (map fst (map t3_pair xs)), forallb (fun b => b) (map snd (map t3_pair xs)))) /\
  (forall xs, t3_pair (fold_right t3_max K_F xs) = (existsb (fun b => b) (map fst (map t3_pair xs)), existsb (fun b => b) (map snd (map t3_pair xs)))) /\
  (forall a b, t3_pair (t3_max (t3_neg a) b) = (implb (snd (t3_pair a)) (fst (t3_pair b)), implb (fst (t3_pair a)) (snd (t3_pair b)))) /\
  (forall a, t3_pair (t3_neg a) = (negb (snd (t3_pair a)), negb (fst (t3_pair a)))).
Proof. repeat split; [apply kleene_and_table | apply kleene_or_table | apply kleene_imp_table | apply kleene_not_table]. Qed.
Print Assumptions C04_kleene_tables.

(* dual formulations agree in both directions (activation level; the engine applies exactly these) *)
Theorem C04_dual_or_upward : forall p bs, nonneg (weights p) -> length (weights p) = length bs ->
  bnd_eq (or_up p bs) (neg (and_up p (map neg bs))).
Proof. exact dual_or_up. Qed.
Theorem C04_dual_or_downward : forall p y bs, or_down p y bs = map neg (and_down p (neg y) (map neg bs)).
Proof. exact dual_or_down. Qed.
Theorem C04_dual_implies_upward : forall p a b w0 w1, weights p = [w0; w1] -> 0 <= w0 -> 0 <= w1 ->
  bnd_eq (imp_up p [a; b]) (or_up p [neg a; b]).
Proof. exact dual_imp_up. Qed.
Print Assumptions C04_dual_or_upward. Print Assumptions C04_dual_or_downward. Print Assumptions C04_dual_implies_upward.

(* non-vacuity: weighted nested KB  r = Implies(And(A,B), Not(A))  evaluated at A = 3/4, B = 1/2 *)
Definition c04_kb : kb :=
  [ Obj KProp [] (NP 1 1 [] VTransparent) []; Obj KProp [] (NP 1 1 [] VTransparent) [];
    Obj (KConn CAnd) [0; 1]%nat (NP 1 1 [1; 1 # 2] VTransparent) [];
    Obj KNot [0]%nat (NP 1 1 [] VTransparent) [];
    Obj (KConn CImp) [2; 3]%nat (NP 1 1 [1; 1] VPlain) [] ].
Definition c04_v (i : nat) : Q := match i with 0%nat => 3 # 4 | 1%nat => 1 # 2 | _ => 0 end.
Definition c04_s (i : nat) : bnd := match i with 0%nat => B (3 # 4) (3 # 4) | 1%nat => B (1 # 2) (1 # 2) | _ => unknown end.
Example C04_example :
  wf_kbb c04_kb = true /\ eval c04_kb c04_v 2%nat == 1 # 2 /\ eval c04_kb c04_v 4%nat == 3 # 4 /\
  fst (pass c04_kb [4%nat] Up None c04_s) 4%nat = B (3 # 4) (3 # 4).
Proof. vm_compute. repeat split; reflexivity. Qed.
Print Assumptions C04_example.
