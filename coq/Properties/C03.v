(* C03 -- A single connective infers exactly the feasible interval hull (default alpha = 1).
   F = assignments inside the operand bounds whose (weighted Lukasiewicz) truth value lies inside the connective's
   bounds; the step = upward, then downward from the updated connective bounds.
   PROVED for And, Or and Implies, every arity, all weights >= 0, any bias, alpha = 1:
     (a) not tighter: every feasible assignment survives the step, for the connective and for every operand;
     (b) not looser, connective: both ends of the connective's new interval are attained by feasible assignments
         (explicit witnesses on the segment between the corners of the operand box; Or / Implies by duality);
     (b') not looser, operands: both ends of EVERY operand's new interval are attained (zero-weight operands included);
     (c) no feasible assignment (operand box non-empty): the connective's new bounds are crossed and is_contradiction
         reports it. *)
From LNN Require Import Num Neuron Node PropEngine.
From LNN.proofs Require Import NodeProofs NeuronProofs PropProofs MonoProofs EvalProofs HullProofs HullOperandProofs HullDualProofs.
Open Scope Q_scope.

Theorem C03_not_tighter : forall c p y bs xs, conn_wf c p (length xs) -> wf_bnd y -> Forall (fun x => 0 <= x <= 1) xs ->
  feasible c p y bs xs ->
  inb (step_y c p y bs) (act_f c p xs) /\ Forall2 inb (step_x c p y bs) xs.
Proof. exact step_sound. Qed.
Print Assumptions C03_not_tighter.

Theorem C03_and_connective_exact : forall p y bs, nonneg (weights p) -> wf_bnd y -> Forall (fun b => lo b <= hi b) bs ->
  (exists xs, feasible CAnd p y bs xs) ->
  (exists xs, feasible CAnd p y bs xs /\ and_f p xs == lo (step_y CAnd p y bs)) /\
  (exists xs, feasible CAnd p y bs xs /\ and_f p xs == hi (step_y CAnd p y bs)).
Proof. exact and_connective_hull. Qed.
Print Assumptions C03_and_connective_exact.

Theorem C03_or_connective_exact : forall p y bs, nonneg (weights p) -> length (weights p) = length bs -> wf_bnd y ->
  Forall (fun b => lo b <= hi b) bs -> (exists xs, feasible COr p y bs xs) ->
  (exists xs, feasible COr p y bs xs /\ or_f p xs == lo (step_y COr p y bs)) /\
  (exists xs, feasible COr p y bs xs /\ or_f p xs == hi (step_y COr p y bs)).
Proof. exact or_connective_hull. Qed.
Print Assumptions C03_or_connective_exact.

Theorem C03_and_infeasible_contradiction : forall p y bs, nonneg (weights p) -> wf_bnd y ->
  Forall (fun b => lo b <= hi b) bs -> (forall xs, ~ feasible CAnd p y bs xs) ->
  hi (step_y CAnd p y bs) < lo (step_y CAnd p y bs).
Proof. exact and_infeasible_contradiction. Qed.
Print Assumptions C03_and_infeasible_contradiction.

(* (b) and (c) for ALL three connectives (Or and Implies by duality with And, HullDualProofs.v): the connective's new
   interval is exactly the hull of its feasible values, and when no assignment satisfies every given bound the step
   leaves crossed bounds at the connective *)
Theorem C03_connective_exact : forall c p y bs, conn_wf c p (length bs) -> wf_bnd y -> Forall (fun b => lo b <= hi b) bs ->
  (exists xs, feasible c p y bs xs) ->
  (exists xs, feasible c p y bs xs /\ act_f c p xs == lo (step_y c p y bs)) /\
  (exists xs, feasible c p y bs xs /\ act_f c p xs == hi (step_y c p y bs)).
Proof.
  intros c p y bs (Ha & Hw & Hl & Hi) Hy Ho Hf. destruct c; cbn [act_f].
  - apply and_connective_hull; assumption.
  - apply or_connective_hull; assumption.
  - specialize (Hi eq_refl). destruct bs as [|b0 [|b1 [|? ?]]]; cbn [length] in Hi; try discriminate.
    destruct (weights p) as [|w0 [|w1 [|? ?]]] eqn:Hws; cbn [length] in Hl; try discriminate.
    inversion Hw as [|? ? H0 Hw']; subst. inversion Hw' as [|? ? H1 _]; subst.
    apply (imp_connective_hull p w0 w1 Hws H0 H1 y Hy b0 b1 Ho Hf).
Qed.
Print Assumptions C03_connective_exact.

Theorem C03_infeasible_contradiction : forall c p y bs, conn_wf c p (length bs) -> wf_bnd y -> Forall (fun b => lo b <= hi b) bs ->
  (forall xs, ~ feasible c p y bs xs) -> hi (step_y c p y bs) < lo (step_y c p y bs).
Proof.
  intros c p y bs (Ha & Hw & Hl & Hi) Hy Ho Hn. destruct c.
  - apply and_infeasible_contradiction; assumption.
  - apply or_infeasible_contradiction; assumption.
  - specialize (Hi eq_refl). destruct bs as [|b0 [|b1 [|? ?]]]; cbn [length] in Hi; try discriminate.
    destruct (weights p) as [|w0 [|w1 [|? ?]]] eqn:Hws; cbn [length] in Hl; try discriminate.
    inversion Hw as [|? ? H0 Hw']; subst. inversion Hw' as [|? ? H1 _]; subst.
    apply (imp_infeasible_contradiction p w0 w1 Hws H0 H1 y Hy b0 b1 Ho Hn).
Qed.
Print Assumptions C03_infeasible_contradiction.

(* ... and that crossing is REPORTED: at the default alpha = 1 there is no same-region tolerance, so is_contradiction()
   of the connective (hence has_contradiction() of a model containing it) is true *)
Theorem C03_infeasible_reported : forall c p y bs, conn_wf c p (length bs) -> wf_bnd y -> Forall (fun b => lo b <= hi b) bs ->
  (forall xs, ~ feasible c p y bs xs) -> is_contra 1 (step_y c p y bs) = true.
Proof.
  intros c p y bs Hc Hy Ho Hn.
  pose proof (C03_infeasible_contradiction c p y bs Hc Hy Ho Hn) as Hx.
  assert (Hw : wf_bnd (step_y c p y bs)).
  { unfold step_y, agg_bnd, wf_bnd; cbn [lo hi]. split; apply clamp01_range. }
  destruct Hw as [[? ?] [? ?]].
  apply is_contra_iff; [unfold alpha_ok; lra | split; assumption | split; assumption |].
  unfold crossed_outside_tolerance. split; [exact Hx|]. split; intros [? ?]; lra.
Qed.
Print Assumptions C03_infeasible_reported.

(* every value between the truth values of the two corners of the operand box is attained inside the box *)
Theorem C03_segment : forall p bs v, nonneg (weights p) -> Forall (fun b => lo b <= hi b) bs ->
  and_f p (los bs) <= v <= and_f p (his bs) -> exists xs, boxed bs xs /\ and_f p xs == v.
Proof. exact and_f_segment. Qed.
Print Assumptions C03_segment.

(* (b) for the OPERANDS of an And: both ends of every positively weighted operand's new interval are attained by
   feasible assignments (every arity, weights >= 0, any bias, alpha = 1) *)
Theorem C03_and_operand_lower_attained : forall p y bs x0 k, nonneg (weights p) -> wf_bnd y -> ordered_all bs ->
  length (weights p) = length bs -> feasible CAnd p y bs x0 -> (k < length bs)%nat -> 0 < nth k (weights p) 0 -> alpha p == 1 ->
  exists xs, feasible CAnd p y bs xs /\ nth k xs 0 == lo (nth k (step_x CAnd p y bs) unknown).
Proof. intros. eapply operand_lower_attained; eassumption. Qed.
Print Assumptions C03_and_operand_lower_attained.
Theorem C03_and_operand_upper_attained : forall p y bs x0 k, nonneg (weights p) -> wf_bnd y -> ordered_all bs ->
  length (weights p) = length bs -> feasible CAnd p y bs x0 -> (k < length bs)%nat -> 0 < nth k (weights p) 0 -> alpha p == 1 ->
  exists xs, feasible CAnd p y bs xs /\ nth k xs 0 == hi (nth k (step_x CAnd p y bs) unknown).
Proof. intros. eapply operand_upper_attained; eassumption. Qed.
Print Assumptions C03_and_operand_upper_attained.

(* the general statement (all three connectives, every arity, weights >= 0, any bias, alpha = 1): both ends of the new
   interval of EVERY operand (also zero-weight ones, whose interval the step leaves alone) are attained by assignments
   satisfying every given bound.
   Or and Implies follow from And by duality (HullDualProofs.v) *)
Definition C03_operands_attained_statement : Prop :=
  forall c p y bs k, conn_wf c p (length bs) -> alpha p == 1 -> wf_bnd y -> ordered_all bs ->
  (exists xs, feasible c p y bs xs) -> (k < length bs)%nat ->
  (exists xs, feasible c p y bs xs /\ nth k xs 0 == lo (nth k (step_x c p y bs) unknown)) /\
  (exists xs, feasible c p y bs xs /\ nth k xs 0 == hi (nth k (step_x c p y bs) unknown)).
Theorem C03_operands_attained : C03_operands_attained_statement.
Proof.
  intros c p y bs k (Ha & Hw & Hl & Hi) Hal Hy Hord [x0 Hf] Hk. destruct c.
  - eapply and_operand_attained; eassumption.
  - split; [eapply or_operand_lower_attained | eapply or_operand_upper_attained]; eassumption.
  - specialize (Hi eq_refl). destruct bs as [|b0 [|b1 [|? ?]]]; cbn [length] in Hi; try discriminate.
    destruct (weights p) as [|w0 [|w1 [|? ?]]] eqn:Hws; cbn [length] in Hl; try discriminate.
    inversion Hw as [|? ? H0 Hw']; subst. inversion Hw' as [|? ? H1 _]; subst.
    destruct Hf as [Hb Hf]. pose proof Hb as Hb'. inversion Hb' as [|? a0 ? r I0 Hb1]; subst. inversion Hb1 as [|? a1 ? r' I1 Hb2]; subst. inversion Hb2; subst.
    destruct (imp_operands_attained p w0 w1 Hws H0 H1 y Hy b0 b1 Hord a0 a1 (conj Hb Hf) Hal) as [K0 K1].
    destruct k as [|[|k]]; cbn [length] in Hk; [exact K0 | exact K1 | lia].
Qed.
Print Assumptions C03_operands_attained.

(* non-vacuity: And(A,B) weights (1, 1/2), bias 1, A in [1/2,1], B in [0,1], And in [3/4,1]:
   the step leaves And = [3/4, 1], A = [3/4, 1], B = [1/2, 1] *)
Example C03_example :
  let p := NP 1 1 [1; 1 # 2] VTransparent in
  let bs := [B (1 # 2) 1; B 0 1] in
  bred (step_y CAnd p (B (3 # 4) 1) bs) = B (3 # 4) 1 /\
  map bred (step_x CAnd p (B (3 # 4) 1) bs) = [B (3 # 4) 1; B (1 # 2) 1] /\
  feasible CAnd p (B (3 # 4) 1) bs [3 # 4; 1].
Proof.
  split; [vm_compute; reflexivity|]. split; [vm_compute; reflexivity|].
  split; [repeat constructor; vm_compute; discriminate | vm_compute; split; discriminate].
Qed.
Print Assumptions C03_example.
