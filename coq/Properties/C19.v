(* C19 -- Clamping is value-exact and gradient-transparent.
   Model: dual numbers (Grad.v); val_clamp's body and limits are taken from the current source
   by the table extractor (matched verbatim, fail-closed). *)
From LNN Require Import Num Neuron Grad.
From LNN.proofs Require Import GradProofs.
Open Scope Q_scope.

(* value-exact: val_clamp returns min(1, max(0, x)) *)
Theorem C19_value : forall x : dual, dv (val_clamp_d x) == qmin 1 (qmax 0 (dv x)).
Proof. exact val_clamp_value. Qed.
Print Assumptions C19_value.

(* derivative one everywhere: along every direction the tangent passes unchanged *)
Theorem C19_transparent : forall x : dual, dt (val_clamp_d x) == dt x.
Proof. exact val_clamp_transparent. Qed.
Print Assumptions C19_transparent.

(* a (possibly strictly saturated) And / Or / Implies upward output has, along every direction in
   (bias, weights, inputs)-space, exactly the derivative of its unclamped pre-activation *)
Theorem C19_neuron_transparent : forall c b ws xs,
  dt (act_up_d c b ws xs) == dt (pre_d c b ws xs) /\
  dv (act_up_d c b ws xs) == clamp01 (dv (pre_d c b ws xs)).
Proof. intros; split; [apply act_up_transparent | apply act_up_value]. Qed.
Print Assumptions C19_neuron_transparent.

(* explicit partial derivatives of a (saturated or not) And neuron: 1 w.r.t. the bias,
   x_k - 1 w.r.t. weight k, w_k w.r.t. input k -- those of  b - sum_j w_j (1 - x_j) *)
Theorem C19_and_gradients : forall b ws xs k, (k < length ws)%nat -> length ws = length xs ->
  dt (act_up_d CAnd (D b 1) (cst ws) (cst xs)) == 1 /\
  dt (act_up_d CAnd (dconst b) (seed_at k ws) (cst xs)) == nth k xs 0 - 1 /\
  dt (act_up_d CAnd (dconst b) (cst ws) (seed_at k xs)) == nth k ws 0.
Proof.
  intros b ws xs k Hk Hl. split; [apply and_grad_bias|]. split; [apply and_grad_weight; assumption|].
  apply and_grad_input; [rewrite <- Hl|]; assumption.
Qed.
Print Assumptions C19_and_gradients.

(* non-vacuity: a strictly saturated neuron (pre-activation 3 > 1) still has gradient 1 w.r.t. its bias *)
Example C19_saturated_example :
  dv (act_up_d CAnd (D 3 1) (cst [1; 1]) (cst [1; 1])) == 1 /\
  dt (act_up_d CAnd (D 3 1) (cst [1; 1]) (cst [1; 1])) == 1.
Proof. vm_compute. split; reflexivity. Qed.
Print Assumptions C19_saturated_example.

(* ---- formula level: the bounds that formulae and quantifiers STORE (activation + aggregate_bounds) ----
   A connective formula's stored upper (lower) bound, and the upper bound of a Forall / lower bound of an Exists over it,
   carry exactly the derivative of the unclamped chain of linear forms, whenever no max/min of the aggregation ties with
   the world bound -- in particular when body or quantifier are STRICTLY saturated at 0 (Forall) / 1 (Exists). *)
From LNN.proofs Require Import GradFormulaProofs.
Theorem C19_formula_upper_gradient : forall c b ws row, clamp01 (dv (inst_pre c b ws false row)) < 1 ->
  dt (body_bound_d c b ws false row) == dt (inst_pre c b ws false row).
Proof. exact body_upper_gradient. Qed.
Print Assumptions C19_formula_upper_gradient.
Theorem C19_formula_lower_gradient : forall c b ws row, 0 < clamp01 (dv (inst_pre c b ws true row)) ->
  dt (body_bound_d c b ws true row) == dt (inst_pre c b ws true row).
Proof. exact body_lower_gradient. Qed.
Print Assumptions C19_formula_lower_gradient.
Theorem C19_forall_gradient : forall c b ws rows,
  (forall row, In row rows -> clamp01 (dv (inst_pre c b ws false row)) < 1) ->
  dv (act_up_d CAnd (dconst 1) (repeat (dconst 1) (length rows)) (map (body_bound_d c b ws false) rows)) < 1 ->
  dt (quant_bound_d true c b ws false rows) == dt (dsum (map (inst_pre c b ws false) rows)).
Proof. exact forall_upper_gradient. Qed.
Print Assumptions C19_forall_gradient.
Theorem C19_exists_gradient : forall c b ws rows,
  (forall row, In row rows -> 0 < clamp01 (dv (inst_pre c b ws true row))) ->
  0 < dv (act_up_d COr (dconst 1) (repeat (dconst 1) (length rows)) (map (body_bound_d c b ws true) rows)) ->
  dt (quant_bound_d false c b ws true rows) == dt (dsum (map (inst_pre c b ws true) rows)).
Proof. exact exists_lower_gradient. Qed.
Print Assumptions C19_exists_gradient.

(* non-vacuity: Forall over three FALSE-ish instances of And(P,Q) with weights (1, 2): conjunction strictly saturated at 0
   (pre-activation 1 - 3 = -2), yet the stored upper bound has derivative 3 w.r.t. the body's bias *)
Example C19_forall_saturated_example :
  let rows := [[B 0 (1#4); B 0 (1#2)]; [B 0 0; B 0 (1#2)]; [B 0 (1#4); B 0 (1#4)]] in
  dv (quant_bound_d true CAnd (D 1 1) (cst [1; 2]) false rows) == 0 /\
  dt (quant_bound_d true CAnd (D 1 1) (cst [1; 2]) false rows) == 3.
Proof. vm_compute. split; reflexivity. Qed.
