(* C02 -- First-order inference is justified by the ground instances.
   PROVED (semantic form): every bound stored for any grounding of any formula is implied by the
   ground theory -- it contains the value of EVERY ground interpretation that satisfies the truth
   functions of all ground instances and lies inside the initial readings (unasserted ground atoms
   read as their predicate's world default).  Hence no bound is tighter than the ground instances
   justify, a fact can never leak to a grounding it does not concern (that would exclude some
   interpretation), and data with a consistent ground reading is never driven to a contradiction.
   Covers homogeneous and heterogeneous joins, nests, Not, duplicate merging, every interleaving of
   node-level and model-level calls.
   NOT PROVED here (checked on the implementation by the ground-propagation oracle of the check):
   the proof-theoretic comparison with the fixpoint of exhaustive bounds propagation over the
   ground instances (`C02_below_ground_fixpoint`). *)
From LNN Require Import Num Neuron Node PropEngine Fol.
From LNN.proofs Require Import NodeProofs NeuronProofs PropProofs MonoProofs FolProofs StoreProofs FolSoundProofs.
Open Scope Q_scope.

Theorem C02_ground_sound : forall k v roots ops s, wf_fkb k -> gconsistent k v -> FSound s v ->
  FSound (fexec_ops k roots s ops) v.
Proof. intros k v roots ops s Hwf Hc. apply fexec_ops_sound; assumption. Qed.
Print Assumptions C02_ground_sound.

Theorem C02_consistent_never_contradicts : forall k v roots ops s i g al, wf_fkb k -> gconsistent k v -> alpha_ok al ->
  FRange s -> FSound s v -> is_contra al (fget (fexec_ops k roots s ops) i g) = false.
Proof.
  intros k v roots ops s i g al Hwf Hc Ha HR HS.
  apply (sound_no_fol_contradiction v); [exact Ha | apply (fexec_ops_ok k roots ops s HR) | apply fexec_ops_sound; assumption].
Qed.
Print Assumptions C02_consistent_never_contradicts.

(* the one-step facts the theorem rests on: what a connective writes for grounding g is computed from the
   operand rows at the PROJECTIONS of g and contains the ground instance's value *)
Theorem C02_inputs_are_projections : forall k s i g,
  op_inputs k s i g = map (fun jm => fget s (fst jm) (project (snd jm) g)) (combine (fops (getf k i)) (fmaps (getf k i))).
Proof. reflexivity. Qed.
Print Assumptions C02_inputs_are_projections.

(* non-vacuity: P(x,y), Q(y); rule = Implies(P(x,y), Q(y)) (heterogeneous join); ground interpretation: P(1,2) = 1,
   Q(2) = 1, everything else 0 except rule instances (computed) *)
Definition c02_kb : fkb :=
  [ FObj FPred [] [] 2 (NP 1 1 [] VTransparent); FObj FPred [] [] 1 (NP 1 1 [] VTransparent);
    FObj (FConn CImp) [0; 1]%nat [[0; 1]%nat; [1%nat]] 2 (NP 1 1 [1; 1] VTransparent) ].
Definition c02_s0 : fstate :=
  f_add_data (f_add_data (FS (fun _ => []) (fun _ => unknown)) 0 [([1; 2]%nat, B 1 1)]) 2 [([1; 2]%nat, B 1 1)].
Example C02_example :
  let s := fexec_ops c02_kb [2%nat] c02_s0 [FInfer None 0 10] in
  fget s 1 [2%nat] = B 1 1 /\ fget s 1 [1%nat] = unknown /\ wf_fkbb c02_kb = true.
Proof. vm_compute. repeat split; reflexivity. Qed.
Print Assumptions C02_example.

(* the well-formedness hypothesis is the one the executable model checks on every scenario it runs *)
Theorem C02_ground_sound_checked : forall k v roots ops s, wf_fkbb k = true -> gconsistent k v -> FSound s v ->
  FSound (fexec_ops k roots s ops) v.
Proof. intros k v roots ops s Hwf. apply C02_ground_sound. apply wf_fkbb_sound. exact Hwf. Qed.
Print Assumptions C02_ground_sound_checked.
