(* C12 -- Quantifier downward inference is sound instantiation (holds for the tree after fix commit 17358dd: the
   fully quantified inverse ranges over all instances). *)
From LNN Require Import Num Neuron Node PropEngine Fol Quant.
From LNN.proofs Require Import NodeProofs NeuronProofs PropProofs DfsProofs MonoProofs EvalProofs TruthProofs FolProofs JoinProofs ConnProofs QuantProofs.
Open Scope Q_scope.

(* the proposals for a group of instances are those of the n-ary And (Forall) / Or (Exists) inverse with unit weights;
   for ANY values of the instances inside their bounds whose conjunction/disjunction lies inside the quantifier's
   bounds, every proposal still contains its instance's value: an instance is tightened only as far as the bounds of
   all the other instances force it, so a table that has a consistent reading keeps it (a FALSE Forall does not make
   all instances FALSE, a TRUE Exists does not make all instances TRUE) *)
Theorem C12_sound_instantiation : forall q y bs xs, length bs = length xs -> Forall2 inb bs xs ->
  Forall (fun x => 0 <= x <= 1) xs -> inb y (act_f (qconn q) (unit_np (length xs)) xs) ->
  Forall2 inb (act_down (qconn q) (unit_np (length xs)) y bs) xs.
Proof. exact q_group_down_sound. Qed.
Print Assumptions C12_sound_instantiation.

(* a universal formula's lower bound is passed to every known instance (an axiom Forall makes each instance TRUE) *)
Theorem C12_forall_lower_reaches_instances : forall y bs k, (k < length bs)%nat -> 0 < lo y -> lo y <= 1 ->
  (forall b, In b bs -> hi b <= 1) ->
  lo y <= lo (nth k (act_down CAnd (unit_np (length bs)) y bs) unknown).
Proof. exact forall_lower_reaches_instances. Qed.
Print Assumptions C12_forall_lower_reaches_instances.

(* what q_down proposes IS that inverse, group by group (fully quantified: one group of all instances) *)
Theorem C12_fully_quantified_is_nary : forall q s rows, rows <> [] -> fully_quantified q = true ->
  q_down q s rows = Some (s, combine (map fst rows)
     (act_down (qconn q) (unit_np (length rows)) (match qfind (qneu s) [] with Some (_, b) => b | None => qworld q end) (map snd rows))).
Proof. intros q s rows Hne Hf. unfold q_down. destruct rows; [congruence|]. rewrite Hf. reflexivity. Qed.
Print Assumptions C12_fully_quantified_is_nary.

(* non-vacuity: FALSE Forall over {TRUE, FALSE}: the TRUE instance stays TRUE; axiom Forall over {U, [1/4,1]}: both TRUE *)
Example C12_example :
  let q := QObj QForall 0 [] false unknown in
  let rows := [([1%nat], B 1 1); ([2%nat], B 0 0)] in
  (match q_down q (QS [([], (2%nat, B 0 0))] []) rows with
   | Some (_, props) => qfind props [1%nat] = Some (B 0 1) | None => False end) /\
  (match q_down q (QS [([], (2%nat, B 1 1))] []) [([1%nat], B 0 1); ([2%nat], B (1 # 4) 1)] with
   | Some (_, props) => qfind props [1%nat] = Some (B 1 1) /\ qfind props [2%nat] = Some (B 1 1) | None => False end).
Proof. vm_compute. repeat split; reflexivity. Qed.
Print Assumptions C12_example.

(* nested quantifiers (Forall(x, y, f) nests; any explicit nest): the outer quantifier's downward step is the same n-ary
   inverse over the inner quantifier's groundings (C12_sound_instantiation applies with the inner bounds as `bs`; a fully
   quantified outer formula reads all of them: C12_fully_quantified_is_nary), and aggregating its proposals into the inner
   quantifier's per-grounding neurons keeps every consistent reading of the inner groundings *)
Theorem C12_nested_push_sound : forall inner props v, (forall g, 0 <= v g <= 1) -> qneu_sound inner v ->
  (forall g p, In (g, p) props -> inb p (v g)) ->
  qneu_sound (fst (q_push_inner inner props)) v /\ qtab (fst (q_push_inner inner props)) = qtab inner /\
  0 <= snd (q_push_inner inner props).
Proof. exact q_push_inner_sound. Qed.
Print Assumptions C12_nested_push_sound.
