(* C13 -- Reported update amounts are zero exactly when nothing changed (propositional part:
   connectives, Not, Iff, XOr; node-level calls and model passes).  Stronger: the amount is
   exactly the total interval width removed (potential function). *)
From LNN Require Import Num Neuron Node PropEngine.
From LNN.proofs Require Import NodeProofs NeuronProofs PropProofs.
Open Scope Q_scope.

Definition reports_exactly (k : kb) (s : state) (r : state * Q) : Prop :=
  snd r == phi (length k) s - phi (length k) (fst r) /\
  (snd r == 0 <-> forall i, bnd_eq (fst r i) (s i)).

Lemma prims_report k ps s : wf_kb k -> Forall (valid_prim k) ps -> Range s ->
  reports_exactly k s (run_prims k (s, 0) ps).
Proof.
  intros Hwf Hv HR. split; [|apply run_prims_zero_iff; assumption].
  pose proof (run_prims_phi k ps Hwf Hv (s, 0) HR) as H. cbn [fst snd] in H. lra.
Qed.

Theorem C13_node_upward : forall k s i, wf_kb k -> Range s ->
  reports_exactly k s (exec_op k [] s (ONodeUp i)).
Proof. intros. apply prims_report; [assumption | apply node_up_valid | assumption]. Qed.
Print Assumptions C13_node_upward.

Theorem C13_node_downward : forall k s i idx, wf_kb k -> Range s ->
  reports_exactly k s (exec_op k [] s (ONodeDown i idx)).
Proof. intros. apply prims_report; [assumption | apply node_down_valid | assumption]. Qed.
Print Assumptions C13_node_downward.

Theorem C13_model_pass : forall k roots s d src, wf_kb k -> Range s ->
  reports_exactly k s (pass k roots d src s).
Proof. intros. apply prims_report; [assumption | apply pass_steps_valid | assumption]. Qed.
Print Assumptions C13_model_pass.

Theorem C13_nonneg : forall k roots s d src, wf_kb k -> Range s -> 0 <= snd (pass k roots d src s).
Proof. intros. apply run_prims_amount_nonneg; [assumption | apply pass_steps_valid | assumption]. Qed.
Print Assumptions C13_nonneg.

(* non-vacuity: Iff(A,B) TRUE, A TRUE: the downward pass moves B and reports exactly 1 *)
Example C13_iff_example :
  let k := [ Obj KProp [] (NP 1 1 [] VTransparent) []; Obj KProp [] (NP 1 1 [] VTransparent) [];
             Obj (KConn CImp) [0; 1]%nat (NP 1 1 [1; 1] VTransparent) [];
             Obj (KConn CImp) [1; 0]%nat (NP 1 1 [1; 1] VTransparent) [];
             Obj KIff [2; 3]%nat (NP 1 1 [1; 1] VTransparent) [] ] in
  let s := fun i => match i with 0%nat => B 1 1 | 2%nat => B 1 1 | 3%nat => B 1 1 | 4%nat => B 1 1 | _ => unknown end in
  snd (pass k [4%nat] Down None s) == 1 /\ lo (fst (pass k [4%nat] Down None s) 1%nat) == 1.
Proof. vm_compute. split; reflexivity. Qed.
Print Assumptions C13_iff_example.

(* ---------- first-order tables (partial, named so): every amount the first-order engine reports is produced by one of
   two aggregation functions; each reports exactly the movement of the rows it writes, every row counted once
   (duplicate proposals merged first), all terms non-negative -- hence zero exactly when no written row moved.
   The lifting to whole node calls and passes (sums of these amounts) is checked on the implementation by the
   `fol_c13` monitor and the exact correspondence, not proved. ---------- *)
From LNN Require Import Fol.
From LNN.proofs Require Import FolProofs ConnProofs AmountProofs.
Theorem C13_fol_single_row_partial : forall s a i g new, FRange s -> tmem (ftab s i) g = true ->
  let r := f_write (s, a) i g new in
  snd r == a + moved (fget s i g) (fget (fst r) i g) /\
  0 <= moved (fget s i g) (fget (fst r) i g) /\
  (moved (fget s i g) (fget (fst r) i g) == 0 <-> bnd_eq (fget (fst r) i g) (fget s i g)) /\
  (forall j h, (j <> i \/ h <> g) -> fget (fst r) j h = fget s j h).
Proof. exact f_write_amount. Qed.
Print Assumptions C13_fol_single_row_partial.
Theorem C13_fol_merged_rows_partial : forall s a j props, FRange s -> (forall g, In g (map fst props) -> tmem (ftab s j) g = true) ->
  let r := f_write_many (s, a) j props in
  let rows := merged_rows s j props in
  NoDup (map fst rows) /\
  snd r == a + qsum (map (fun gb => moved (fget s j (fst gb)) (snd gb)) rows) /\
  (forall g v, In (g, v) rows -> fget (fst r) j g = bred v) /\
  (forall g v, In (g, v) rows -> 0 <= moved (fget s j g) v).
Proof. exact f_write_many_amount. Qed.
Print Assumptions C13_fol_merged_rows_partial.

(* every public inference operation of the first-order engine (node-level upward/downward of predicates, Not and
   connectives over any variable arrangement, model passes, infer with any source / max_steps): the amount is >= 0 and a
   reported ZERO means that no formula reads differently at any grounding afterwards -- "nothing reported" is never a
   silent change.  (The converse needs every written row to exist; it is covered by the row-level theorems above and
   by the monitor on the implementation.) *)
From LNN.proofs Require Import AmountFolProofs.
Theorem C13_fol_zero_means_unchanged : forall k roots s o,
  0 <= snd (fexec_op k roots s o) /\
  (snd (fexec_op k roots s o) == 0 -> forall i g, bnd_eq (fget s i g) (fget (fst (fexec_op k roots s o)) i g)).
Proof. intros k roots s o. apply fexec_op_zero_sound. Qed.
Print Assumptions C13_fol_zero_means_unchanged.

(* ... and the converse, hence the full statement, for every public first-order inference operation: on a knowledge base
   that passes the executable shape check `shape_okb` (how the library builds variable tuples; checked on every scenario of
   the correspondence) and a state whose row keys have the arity of their formulae (true of the empty state, kept by every
   operation: C13_fol_arity_kept), the reported amount is zero EXACTLY when no formula reads differently anywhere *)
From LNN.proofs Require Import ArityProofs AmountFolIffProofs.
Theorem C13_fol_zero_iff : forall k roots s o, shape_okb k = true -> FRange s -> arity_ok k s ->
  0 <= snd (fexec_op k roots s o) /\
  (snd (fexec_op k roots s o) == 0 <-> forall i g, bnd_eq (fget s i g) (fget (fst (fexec_op k roots s o)) i g)).
Proof.
  intros k roots s o Hs HR HA. destruct (shape_okb_sound k Hs) as (H1 & H2 & H3 & H4 & H5).
  apply (fexec_op_zero_iff k H1 H2 H3 H4 H5 roots s o). split; assumption.
Qed.
Print Assumptions C13_fol_zero_iff.
Theorem C13_fol_arity_kept : forall k roots s o, shape_okb k = true -> FRange s -> arity_ok k s ->
  FRange (fst (fexec_op k roots s o)) /\ arity_ok k (fst (fexec_op k roots s o)).
Proof.
  intros k roots s o Hs HR HA. destruct (shape_okb_sound k Hs) as (H1 & H2 & H3 & H4 & H5).
  apply (fexec_op_inv k H1 H2 H3 H4 H5 roots s o). split; assumption.
Qed.
Print Assumptions C13_fol_arity_kept.
(* non-vacuity: And(P(x), Q(x, y)) -- operands with different variable tuples -- passes the shape check *)
Example C13_fol_shape_example :
  shape_okb [FObj FPred [] [] 1 (NP 1 1 [] VTransparent); FObj FPred [] [] 2 (NP 1 1 [] VTransparent);
             FObj (FConn CAnd) [0%nat; 1%nat] [[0%nat]; [0%nat; 1%nat]] 2 (NP 1 1 [1; 1] VTransparent)] = true.
Proof. vm_compute. reflexivity. Qed.

(* quantifiers: the amount an upward call of Forall / Exists returns (any free variables, fully_grounded or not, any
   stored neurons -- also groups whose neuron is rebuilt because the number of instances changed) is non-negative and zero
   EXACTLY when no group's bounds move *)
From LNN Require Import Quant.
From LNN.proofs Require Import QuantProofs AmountQuantProofs.
Theorem C13_quantifier_upward_amount : forall q s rows, rows <> [] ->
  0 <= snd (q_up q s rows) /\
  (snd (q_up q s rows) == 0 <->
   forall g, In g (group_keys q rows) ->
     let inst := map snd (group_rows q rows g) in
     let old := neuron_bounds q s g (length inst) in
     bnd_eq (agg_bnd (qwhich q) old (act_up (qconn q) (unit_np (length inst)) inst)) old).
Proof. intros q s rows Hne. split; [apply q_up_amount_nonneg | apply q_up_amount_zero_iff; exact Hne]. Qed.
Print Assumptions C13_quantifier_upward_amount.
(* non-vacuity: a Forall over one free variable, one stored group at UNKNOWN, an instance that tightens it: amount 1/2 *)
Example C13_quantifier_amount_example :
  Qred (snd (q_up (QObj QForall 0 [0%nat] false (B 0 1)) qempty [([0%nat; 1%nat], B (1#4) (1#2))])) = 1#2.
Proof. vm_compute. reflexivity. Qed.
