(* C01 -- Propositional inference is sound for every (rational) real-valued interpretation.
   Quantifies over: every knowledge base (objects = indices, so shared objects and structurally
   equal twins are covered), all weights >= 0, biases, both variants, every alpha in (1/2,1],
   all initial bounds, every sequence of node-level / model-level calls (incl. infer). *)
From LNN Require Import Num Neuron Node PropEngine.
From LNN.proofs Require Import NodeProofs NeuronProofs PropProofs.
Open Scope Q_scope.

Theorem C01_sound : forall k roots vals s ops,
  wf_kb k -> consistent k vals -> Sound (length k) s vals ->
  Sound (length k) (exec_ops k roots s ops) vals.
Proof. intros. apply exec_ops_sound; assumption. Qed.
Print Assumptions C01_sound.

(* data with a consistent interpretation is never driven to a contradiction *)
Theorem C01_no_contradiction : forall k roots vals s ops i,
  wf_kb k -> consistent k vals -> Range s -> Sound (length k) s vals -> (i < length k)%nat ->
  obj_contra k (exec_ops k roots s ops) i = false.
Proof.
  intros k roots vals s ops i Hwf Hc HR HS Hi.
  apply (sound_no_contra k _ vals i Hwf); [apply exec_ops_range; exact HR | apply exec_ops_sound; assumption | exact Hi].
Qed.
Print Assumptions C01_no_contradiction.

(* one-step lemmas the theorem rests on, stated for every arity *)
Theorem C01_neuron_up : forall c p bs xs, conn_wf c p (length xs) -> Forall2 inb bs xs ->
  inb (act_up c p bs) (act_f c p xs).
Proof. exact act_up_sound. Qed.
Print Assumptions C01_neuron_up.
Theorem C01_neuron_down : forall c p y bs xs, conn_wf c p (length xs) -> Forall2 inb bs xs ->
  Forall (fun x => 0 <= x <= 1) xs -> inb y (act_f c p xs) -> Forall2 inb (act_down c p y bs) xs.
Proof. exact act_down_sound. Qed.
Print Assumptions C01_neuron_down.

(* non-vacuity: a weighted KB  r = Implies(And(A,B), C)  with twins, an interpretation, bounds *)
Definition ex_kb : kb :=
  [ Obj KProp [] (NP 1 1 [] VTransparent) [];
    Obj KProp [] (NP 1 1 [] VTransparent) [];
    Obj KProp [] (NP 1 1 [] VTransparent) [];
    Obj (KConn CAnd) [0; 1]%nat (NP (7#8) 1 [1; 1#2] VTransparent) [];
    Obj (KConn CAnd) [0; 1]%nat (NP (7#8) 1 [1; 1#2] VTransparent) [];
    Obj (KConn CImp) [4; 2]%nat (NP 1 1 [1; 1] VPlain) [] ].
Definition ex_vals (i : nat) : Q :=
  match i with 0%nat => 3#4 | 1%nat => 1#2 | 2%nat => 1#4 | 3%nat => 1#2 | 4%nat => 1#2 | 5%nat => 3#4 | _ => 0 end.
Definition ex_state (i : nat) : bnd :=
  match i with 0%nat => B (1#2) 1 | 1%nat => B (1#2) (1#2) | 5%nat => B (3#4) 1 | _ => unknown end.
Example C01_example :
  wf_kbb ex_kb = true /\
  (forall i, (i < 6)%nat -> okind (getobj ex_kb i) <> KProp -> ex_vals i == obj_value (getobj ex_kb i) ex_vals) /\
  (forall i, (i < 6)%nat -> inb (ex_state i) (ex_vals i)) /\
  lo (fst (exec_op ex_kb [3; 5]%nat ex_state (OInfer None 0 20)) 2%nat) == 0.
Proof.
  split; [vm_compute; reflexivity|]. split; [|split].
  - intros i Hi Hk. do 6 (destruct i as [|i]; [vm_compute in Hk |- *; try congruence; try reflexivity|]). lia.
  - intros i Hi. do 6 (destruct i as [|i]; [vm_compute; split; discriminate|]). lia.
  - vm_compute. reflexivity.
Qed.
Print Assumptions C01_example.
