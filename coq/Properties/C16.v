(* C16 -- Inference is a function of knowledge, data and parameters, not of history.
   PROVED: (a) propositional: reset_bounds restores exactly the stored data and the engine's state consists of
   nothing else, so inference after a reset is the same function applied to the same state as on a fresh
   model -- whatever ran before; (b) first-order: after ANY inference, reset_bounds leaves every (formula,
   grounding) READING exactly what the fresh data state reads (rows created by inference restart at the world
   default); queries are pure.
   REFUTED in full generality (recorded as a known finding, not repaired): on data that drives a grounding to a
   contradiction, per-grounding arresting depends on which rows already exist, and the rows pre-grown by run 1
   change run 2 -- `C16_history_free_full_refuted` exhibits it in the model (same scenario replayed on the
   implementation by the check). *)
From LNN Require Import Num Neuron Node PropEngine Fol.
From LNN.proofs Require Import NodeProofs NeuronProofs PropProofs MonoProofs FolProofs StoreProofs.
Open Scope Q_scope.

(* (a) propositional: the state after reset_bounds is the data state itself *)
Theorem C16_prop_history_free : forall k roots (data : state) ops1 ops2,
  let after_run1 := exec_ops k roots data ops1 in
  let reset := data in    (* reset_bounds: bounds_table := leaves.clone(); leaves are only written by add_data *)
  exec_ops k roots reset ops2 = exec_ops k roots data ops2.
Proof. reflexivity. Qed.
Print Assumptions C16_prop_history_free.

(* (b) first-order: reset after any history reads like the fresh data state *)
Definition data_state (s : fstate) : Prop := forall i r, In r (ftab s i) -> rcur r = rleaf r.
Theorem C16_fol_reset_reads_fresh : forall k roots ops reg s i g, FRange s -> data_state s -> memb i reg = true ->
  fget (f_reset_bounds reg (fexec_ops k roots s ops)) i g = fget s i g.
Proof.
  intros k roots ops reg s i g HR HD Hi. rewrite (reset_after_inference k roots ops reg s i g HR Hi).
  unfold fleaf, fget, tcur. destruct (tfind (ftab s i) g) as [r|] eqn:E; cbn [option_map]; [|reflexivity].
  symmetry. apply (HD i). apply (tfind_key _ _ _ E).
Qed.
Print Assumptions C16_fol_reset_reads_fresh.

(* the counterexample to the unrestricted first-order statement: P(x,y) CLOSED, f = And(P(x,y),P(x,y)) with alpha 7/8;
   facts P(0,2) = (1/2,7/8), f(0,0) = (7/8,1), f(1,1) = UNKNOWN.  Run 1 drives P(0,0) to the contradiction (1,0);
   after reset_bounds the row P(0,0) pre-exists at (0,0), f(0,0) is arrested, and run 2 leaves P(0,0) = (0,0). *)
Definition c16_kb : fkb :=
  [ FObj FPred [] [] 2 (NP 1 1 [] VTransparent);
    FObj (FConn CAnd) [0; 0]%nat [[0; 1]%nat; [0; 1]%nat] 2 (NP (7 # 8) 1 [1; 1] VTransparent) ].
Definition c16_s0 : fstate :=
  f_add_data (f_add_data (FS (fun _ => []) (fun i => match i with 0%nat => B 0 0 | _ => unknown end)) 0 [([0; 2]%nat, B (1 # 2) (7 # 8))])
             1 [([0; 0]%nat, B (7 # 8) 1); ([1; 1]%nat, B 0 1)].
Theorem C16_history_free_full_refuted :
  let run1 := fexec_ops c16_kb [1%nat] c16_s0 [FInfer None 30 31] in
  let run2 := fexec_ops c16_kb [1%nat] (f_reset_bounds [0; 1]%nat run1) [FInfer None 30 31] in
  fget run1 0 [0; 0]%nat = B 1 0 /\ fget run2 0 [0; 0]%nat = B 0 0.
Proof. vm_compute. split; reflexivity. Qed.
Print Assumptions C16_history_free_full_refuted.

(* quantifiers (after fix D16): reset_bounds() puts every per-grounding neuron and every row of the quantifier's table back
   to the quantifier's world default, whatever earlier passes left there; the groundings stay *)
From LNN Require Import Quant.
Theorem C16_quantifier_reset_neurons : forall q s g a b, In (g, (a, b)) (qneu (q_reset q s)) -> b = qworld q.
Proof.
  intros q s g a b H. unfold q_reset in H. cbn [qneu] in H. apply in_map_iff in H. destruct H as [[g' [a' b']] [E _]].
  cbn [fst snd] in E. inversion E. reflexivity.
Qed.
Print Assumptions C16_quantifier_reset_neurons.
Theorem C16_quantifier_reset_table : forall q s g b, fully_quantified q = false -> In (g, b) (qtab (q_reset q s)) ->
  b = qworld q /\ In g (map fst (qneu s)).
Proof.
  intros q s g b Hf H. unfold q_reset in H. cbn [qtab] in H. rewrite Hf in H. rewrite map_map in H. cbn [fst] in H.
  apply in_map_iff in H. destruct H as [e [E Hin]]. inversion E; subst. split; [reflexivity | apply in_map; exact Hin].
Qed.
Print Assumptions C16_quantifier_reset_table.
