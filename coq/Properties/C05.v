(* C05 -- Inference only ever tightens bounds (propositional part; objects never disappear
   since the state is total over object ids).  Every interleaving of node-level upward /
   downward(index) and model-level upward/downward/infer calls. *)
From LNN Require Import Num Neuron Node PropEngine.
From LNN.proofs Require Import NodeProofs NeuronProofs PropProofs.
Open Scope Q_scope.

Theorem C05_monotone : forall k roots s ops, Range s ->
  forall i, lo (s i) <= lo (exec_ops k roots s ops i) /\ hi (exec_ops k roots s ops i) <= hi (s i).
Proof. intros k roots s ops HR i. apply (exec_ops_tighter k roots ops s HR i). Qed.
Print Assumptions C05_monotone.

(* the single mechanism: aggregation never loosens *)
Theorem C05_aggregate : forall w old new, in01 (lo old) -> in01 (hi old) -> tighter old (agg_bnd w old new).
Proof. exact agg_tighter. Qed.
Print Assumptions C05_aggregate.

Example C05_example :
  let s := fun i => match i with 0%nat => B 1 1 | 2%nat => B 0 (1#4) | _ => unknown end in
  let k := [ Obj KProp [] (NP 1 1 [] VTransparent) []; Obj KProp [] (NP 1 1 [] VTransparent) [];
             Obj (KConn CAnd) [0; 1]%nat (NP 1 1 [1; 1] VTransparent) [] ] in
  hi (exec_ops k [2%nat] s [ONodeDown 2 None] 1%nat) == 1#4.
Proof. vm_compute. reflexivity. Qed.
Print Assumptions C05_example.

(* ---------- first-order tables ---------- *)
From LNN Require Import Fol.
From LNN.proofs Require Import FolProofs StoreProofs.
(* every (formula, grounding) READS only tighter bounds after any sequence of inference calls (a grounding
   without a row reads as the world default, so rows that inference introduces count too), groundings
   once present never disappear, bounds stay in [0,1], stored data is not touched; homogeneous and
   heterogeneous joins, nests, Not, node-level and model-level calls *)
Theorem C05_fol_monotone : forall k roots s ops, FRange s ->
  (forall i g, tighter (fget s i g) (fget (fexec_ops k roots s ops) i g)) /\
  (forall i g, In g (tkeys (ftab s i)) -> In g (tkeys (ftab (fexec_ops k roots s ops) i))).
Proof. intros k roots s ops HR. destruct (fexec_ops_ok k roots ops s HR) as (_ & L & K & _). split; assumption. Qed.
Print Assumptions C05_fol_monotone.
