(* C09 -- Groundings with asserted operand facts are always evaluated. *)
From LNN Require Import Num Neuron Node PropEngine Fol.
From LNN.proofs Require Import NodeProofs NeuronProofs PropProofs DfsProofs MonoProofs EvalProofs FolProofs JoinProofs ConnProofs.
Open Scope Q_scope.

(* homogeneous operands (union + hash join): every grounding known to ANY operand is evaluated, in particular
   every grounding for which all operand facts are asserted *)
Theorem C09_homogeneous_complete : forall k s i d g j, is_homog (getf k i) = true -> In j (fops (getf k i)) ->
  In g (tkeys (ftab s j)) -> exists gs s1, oper_groundings k s i d = Some (gs, s1) /\ In g gs.
Proof. exact homog_complete. Qed.
Print Assumptions C09_homogeneous_complete.

(* heterogeneous operands (pandas outer/cross joins): for EVERY assignment f of constants to the operator's
   variable slots whose restriction to each operand's variables is a known grounding of that operand -- the
   natural join of the asserted operand facts -- the row representing f is evaluated; any number of operands,
   any variable pattern (equal, permuted, overlapping, disjoint) *)
Theorem C09_heterogeneous_complete : forall k s i d f, is_homog (getf k i) = false ->
  fops (getf k i) <> [] -> length (fmaps (getf k i)) = length (fops (getf k i)) ->
  (forall j m, In (j, m) (combine (fops (getf k i)) (fmaps (getf k i))) -> In (frow m f) (tkeys (ftab s j))) ->
  exists gs s1 cols, oper_groundings k s i d = Some (gs, s1) /\ In (frow (sort_nat cols) f) gs /\
    forall c, In c cols <-> exists m, In m (fmaps (getf k i)) /\ In c m.
Proof. exact hetero_complete. Qed.
Print Assumptions C09_heterogeneous_complete.
Theorem C09_join_contains_natural_join : forall f rest d0, In (frow (fst d0) f) (snd d0) ->
  Forall (fun d => In (frow (fst d) f) (snd d)) rest ->
  In (frow (fst (fold_left foj rest d0)) f) (snd (fold_left foj rest d0)).
Proof. exact fold_foj_complete. Qed.
Print Assumptions C09_join_contains_natural_join.

(* every evaluated grounding has a row, and a non-arrested one ends at aggregate(old row, truth function of the
   operand rows AT ITS PROJECTIONS); a fresh row therefore holds exactly the truth-function value *)
Theorem C09_evaluated_rows_exist : forall k s i d gs s1, oper_groundings k s i d = Some (gs, s1) ->
  forall g, In g gs -> tmem (ftab s1 i) g = true.
Proof. exact oper_groundings_rows. Qed.
Print Assumptions C09_evaluated_rows_exist.
Theorem C09_upward_value : forall k s i c gs s1 g, fkd (getf k i) = FConn c -> ~ In i (fops (getf k i)) ->
  conn_wf c (fpar (getf k i)) (length (op_inputs k s1 i g)) ->
  oper_groundings k s i DUp = Some (gs, s1) -> In g gs ->
  inputs_contra (falpha (getf k i)) (op_inputs k s1 i g) = false -> bnd_eq (fget s1 i g) unknown ->
  bnd_eq (fget (fst (f_conn_up k s i)) i g) (act_up c (fpar (getf k i)) (op_inputs k s1 i g)).
Proof. exact conn_up_fresh_value. Qed.
Print Assumptions C09_upward_value.

(* downward: exactly the operand tables are written (every other object, the operator included, keeps its table),
   and every proposal -- the inverse computed for one grounding, aimed at the operand row that grounding projects
   to -- is dominated by what that row finally holds (duplicates merged by max/min) *)
Theorem C09_downward_frame : forall k s i idx x, ~ In x (fops (getf k i)) ->
  match oper_groundings k s i DDown with
  | Some (gs, s1) => ftab (fst (f_conn_down k s i idx)) x = ftab s1 x
  | None => fst (f_conn_down k s i idx) = s
  end.
Proof. exact conn_down_frame. Qed.
Print Assumptions C09_downward_frame.
Theorem C09_downward_at_least_inverse : forall s a j props h new, In (h, new) props -> tmem (ftab s j) h = true ->
  tighter (agg_bnd WBoth (fget s j h) new) (fget (fst (f_write_many (s, a) j props)) j h).
Proof. exact write_many_tight. Qed.
Print Assumptions C09_downward_at_least_inverse.

(* non-vacuity: P(x,y), Q(y,z): And(P(x,y),Q(y,z)) -- overlapping variables; facts P(1,2), Q(2,3), Q(5,6) *)
Definition c09_kb : fkb :=
  [ FObj FPred [] [] 2 (NP 1 1 [] VTransparent); FObj FPred [] [] 2 (NP 1 1 [] VTransparent);
    FObj (FConn CAnd) [0; 1]%nat [[0; 1]%nat; [1; 2]%nat] 3 (NP 1 1 [1; 1] VTransparent) ].
Definition c09_s0 : fstate :=
  f_add_data (f_add_data (FS (fun _ => []) (fun _ => unknown)) 0 [([1; 2]%nat, B 1 1)]) 1 [([2; 3]%nat, B (1 # 2) 1); ([5; 6]%nat, B 1 1)].
Example C09_example :
  let s := fst (f_conn_up c09_kb c09_s0 2) in
  is_homog (getf c09_kb 2) = false /\ fget s 2 [1; 2; 3]%nat = B (1 # 2) 1 /\ tmem (ftab s 2) [1; 2; 3]%nat = true.
Proof. vm_compute. repeat split; reflexivity. Qed.
Print Assumptions C09_example.
