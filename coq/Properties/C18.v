(* C18 -- Training preserves facts, keeps parameters admissible, ends in an inferred state.
   `opt` is an ARBITRARY optimiser (any function that returns a knowledge base with the same formulae: only
   weights and biases may differ) -- Adam, SGD, a user-supplied one.  The asserted facts (`leaves`) and the labels
   are inputs of `train` that it cannot write: the training state machine has no transition that changes them.
   NOT covered (stated in DESIGN.md): "all parameters are finite" -- the exact-rational model has no NaN/inf and
   the float arithmetic of real optimisers is not modelled; it is monitored on the sampled traces only. *)
From LNN Require Import Num Neuron Node PropEngine Train.
From LNN.proofs Require Import NodeProofs NeuronProofs PropProofs TrainProofs.
Open Scope Q_scope.

(* after every run (>= 1 epoch) weights are >= 0 unless negative weights were requested, within w_max, biases in
   [0, b_max] *)
Theorem C18_parameters_admissible : forall opt cfg roots lab us uc stop fuel epochs k leaves cur,
  (forall e k s, same_shape k (opt e k s)) -> (1 <= epochs)%nat ->
  admissible cfg (fst (fst (train opt cfg roots lab us uc stop fuel epochs k leaves cur))).
Proof. intros. apply train_projected; assumption. Qed.
Print Assumptions C18_parameters_admissible.
Theorem C18_parameters_admissible_0 : forall opt cfg roots lab us uc stop fuel epochs k leaves cur,
  (forall e k s, same_shape k (opt e k s)) -> admissible cfg k ->
  admissible cfg (fst (fst (train opt cfg roots lab us uc stop fuel epochs k leaves cur))).
Proof. intros. apply train_admissible; assumption. Qed.
Print Assumptions C18_parameters_admissible_0.

(* only parameters move: every formula keeps its kind, operands, alpha and arity *)
Theorem C18_only_parameters_move : forall opt cfg roots lab us uc stop fuel epochs k leaves cur,
  (forall e k s, same_shape k (opt e k s)) ->
  same_shape k (fst (fst (train opt cfg roots lab us uc stop fuel epochs k leaves cur))).
Proof. intros opt cfg roots lab us uc stop fuel epochs k leaves cur Hopt. apply train_same_shape; exact Hopt. Qed.
Print Assumptions C18_only_parameters_move.

(* the bounds left behind are exactly those reset_bounds() followed by infer() computes under the final parameters *)
Theorem C18_final_state : forall opt cfg roots lab us uc stop fuel epochs k leaves cur,
  let r := train opt cfg roots lab us uc stop fuel epochs k leaves cur in
  snd (fst r) = ir_state (infer fuel (fst (fst r)) roots None None None 0 leaves).
Proof. intros. apply train_final_state. Qed.
Print Assumptions C18_final_state.

(* losses: non-negative; contradiction loss zero exactly when no bounds cross; supervised loss zero exactly when
   labelled bounds equal their labels *)
Theorem C18_contradiction_loss : forall k s, wf_kb k -> Range s ->
  0 <= contradiction_loss k s /\ (contradiction_loss k s == 0 <-> forall i, (i < length k)%nat -> obj_contra k s i = false).
Proof. intros k s Hwf HR. split; [apply contradiction_loss_nonneg | apply contradiction_loss_zero_iff]; assumption. Qed.
Print Assumptions C18_contradiction_loss.
Theorem C18_supervised_loss : forall k s lab,
  0 <= supervised_loss k lab s /\
  (supervised_loss k lab s == 0 <-> forall i l, (i < length k)%nat -> lab i = Some l -> bnd_eq (s i) l).
Proof. intros k s lab. split; [apply supervised_loss_nonneg | apply supervised_loss_zero_iff]. Qed.
Print Assumptions C18_supervised_loss.

(* non-vacuity: And(A,B) with A = TRUE, B = FALSE, label TRUE; an optimiser that proposes weights (-1, 3) *)
Example C18_example :
  let k := [ Obj KProp [] (NP 1 1 [] VTransparent) []; Obj KProp [] (NP 1 1 [] VTransparent) [];
             Obj (KConn CAnd) [0; 1]%nat (NP 1 1 [1; 1] VTransparent) [] ] in
  let s := fun i => match i with 0%nat => B 1 1 | 1%nat => B 0 0 | _ => unknown end in
  let opt := fun (_ : nat) (kk : kb) (_ : state) =>
     [ nth 0 kk dummy_obj; nth 1 kk dummy_obj; Obj (KConn CAnd) [0; 1]%nat (NP 1 1 [- (1); 3] VTransparent) [] ] in
  let r := train opt (fun _ => PC (Some 2) None false) [2%nat] (fun i => match i with 2%nat => Some (B 1 1) | _ => None end)
                 true true true 20 1 k s s in
  weights (opar (nth 2 (fst (fst r)) dummy_obj)) = [0; 2] /\ lo (snd (fst r) 2%nat) == 0.
Proof. vm_compute. split; reflexivity. Qed.
Print Assumptions C18_example.

(* first-order models: the contradiction loss Model.loss_fn reports is the sum over the ROWS (groundings) of every formula
   of the model; it is non-negative and zero exactly when has_contradiction() is false -- rows that do not cross never
   contribute, whatever the other rows of the same formula do *)
From LNN Require Import Fol.
From LNN.proofs Require Import FolProofs FolLossProofs.
Theorem C18_fol_contradiction_loss : forall k reg s,
  (forall i, In i reg -> alpha_ok (falpha (getf k i))) -> FRange s ->
  0 <= f_contradiction_loss k reg s /\ (f_contradiction_loss k reg s == 0 <-> f_has_contradiction k reg s = false).
Proof. intros k reg s Ha HR. split; [apply f_contradiction_loss_nonneg | apply f_contradiction_loss_zero_iff]; assumption. Qed.
Print Assumptions C18_fol_contradiction_loss.

(* first-order uncertainty loss (coefficient 1; after fix D17): non-negative in EVERY state, also with alpha < 1 where
   bounds may cross inside one classical region without being a contradiction; zero exactly when no formula that is free
   of contradictory rows has a row of positive width *)
Theorem C18_fol_uncertainty_loss : forall k reg s,
  0 <= f_uncertainty_loss k reg s /\
  (f_uncertainty_loss k reg s == 0 <->
   forall i, In i reg -> existsb (fun r => is_contra (falpha (getf k i)) (rcur r)) (ftab s i) = false ->
             forall r, In r (ftab s i) -> hi (rcur r) <= lo (rcur r)).
Proof. intros k reg s. split; [apply f_uncertainty_loss_nonneg | apply f_uncertainty_loss_zero_iff]. Qed.
Print Assumptions C18_fol_uncertainty_loss.

(* first-order supervised loss (MSE over the labelled groundings present in the formula's table): non-negative, zero
   exactly when every such row equals its label -- whatever the order in which labels or rows are listed *)
Theorem C18_fol_supervised_loss : forall s i labs v, f_supervised_loss s i labs = Some v ->
  0 <= v /\ (v == 0 <-> forall g l, In (g, l) labs -> tmem (ftab s i) g = true -> bnd_eq (fget s i g) l).
Proof. exact f_supervised_loss_spec. Qed.
Print Assumptions C18_fol_supervised_loss.
