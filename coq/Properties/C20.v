(* C20 -- Query- and source-restricted inference is local and agrees with full inference. *)
From LNN Require Import Num Neuron Node PropEngine.
From LNN.proofs Require Import NodeProofs NeuronProofs PropProofs DfsProofs FrameProofs FixpointProofs MonoProofs SchedProofs.
Open Scope Q_scope.

(* infer(source = src) (any direction, any max_steps, with or without a query) changes only
   src and its sub-formulae: every object that is not a descendant of src is untouched *)
Theorem C20_frame : forall k roots dirs src query ms fuel s x,
  wf_kb k -> ~ desc k src x ->
  ir_state (infer fuel k roots dirs (Some src) query ms s) x = s x.
Proof. intros. apply infer_frame; assumption. Qed.
Print Assumptions C20_frame.

(* the same frame rule for node-level calls *)
Theorem C20_node_frame : forall k s i x, wf_kb k -> ~ desc k i x ->
  fst (run_prims k (s, 0) (node_up k i)) x = s x /\
  forall idx, fst (run_prims k (s, 0) (node_down k i idx)) x = s x.
Proof. intros. apply node_call_frame; assumption. Qed.
Print Assumptions C20_node_frame.

(* a verdict reached when infer() stops early (query bounds are a point: TRUE or FALSE) is kept by
   every further inference, restricted or full, on data that admits a consistent reading *)
Theorem C20_verdict_final : forall k roots vals s ops q,
  wf_kb k -> consistent k vals -> Range s -> Sound (length k) s vals -> (q < length k)%nat ->
  lo (s q) == hi (s q) -> bnd_eq (exec_ops k roots s ops q) (s q).
Proof. intros. eapply resolved_final; eassumption. Qed.
Print Assumptions C20_verdict_final.

(* the restricted run never derives anything unsound: whatever it derives is implied by the
   data (every consistent interpretation satisfies it), exactly as for the full run *)
Theorem C20_restricted_sound : forall k roots vals s src ms fuel,
  wf_kb k -> consistent k vals -> Sound (length k) s vals ->
  Sound (length k) (fst (exec_op k roots s (OInfer (Some src) ms fuel))) vals.
Proof.
  intros k roots vals s src ms fuel Hwf Hc HS.
  apply (exec_op_inv (fun s' => Sound (length k) s' vals)); [|exact HS].
  intros ps s' a Hv HS'. apply (run_prims_sound k vals ps Hwf Hc Hv (s', a) HS').
Qed.
Print Assumptions C20_restricted_sound.

(* the restricted run never derives anything the full run does not: its result is never tighter
   than a contradiction-free fixpoint reached by full inference from the same data *)
Theorem C20_restricted_below_full : forall k roots s0 full_ops src ms fuel, wf_kb k -> Range s0 ->
  let sfull := exec_ops k roots s0 full_ops in
  clean k sfull -> fixpoint k sfull ->
  sle (fst (exec_op k roots s0 (OInfer (Some src) ms fuel))) sfull.
Proof.
  intros k roots s0 full_ops src ms fuel Hwf HR sfull Hc Hf.
  destruct (exec_ops_as_prims k roots full_ops s0) as [ps [Hps E1]].
  destruct (exec_op_as_prims k roots s0 (OInfer (Some src) ms fuel)) as [qs [Hqs E2]].
  subst sfull. rewrite E1 in *. rewrite E2.
  apply (reachable_clean k Hwf ps qs s0 Hps Hqs HR Hc Hf).
Qed.
Print Assumptions C20_restricted_below_full.

Example C20_example :
  let k := [ Obj KProp [] (NP 1 1 [] VTransparent) []; Obj KProp [] (NP 1 1 [] VTransparent) [];
             Obj KProp [] (NP 1 1 [] VTransparent) [];
             Obj (KConn CImp) [0; 1]%nat (NP 1 1 [1; 1] VTransparent) [];
             Obj (KConn CImp) [1; 2]%nat (NP 1 1 [1; 1] VTransparent) [] ] in
  let s := fun i => match i with 0%nat => B 1 1 | 3%nat => B 1 1 | 4%nat => B 1 1 | _ => unknown end in
  let r := infer 10 k [3; 4]%nat None (Some 3%nat) None 0 s in
  lo (ir_state r 1%nat) == 1 /\ ir_state r 2%nat = unknown /\ ~ desc k 3%nat 2%nat.
Proof.
  cbn zeta. split; [vm_compute; reflexivity|]. split; [vm_compute; reflexivity|].
  intros H. inversion H as [|? c ? Hc Hd]; subst. cbn in Hc. destruct Hc as [<-|[<-|[]]].
  - inversion Hd as [|? c ? Hc' ?]; subst. cbn in Hc'. exact Hc'.
  - inversion Hd as [|? c ? Hc' ?]; subst. cbn in Hc'. exact Hc'.
Qed.
Print Assumptions C20_example.
