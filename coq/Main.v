(* Main.v -- top-level entry of the extracted model. *)
From LNN Require Import Num Sx Run.
Open Scope Z_scope.
Definition run (s : sx) : sx :=
  match s with
  | L (A tag :: args) =>
      match run_base tag args with
      | Some r => r
      | None => bad
      end
  | _ => bad
  end.
