(* AmountFolIffProofs.v -- C13, first-order engine, the converse of AmountFolProofs: when no reading changed, the reported
   amount is zero -- for every public inference operation, on states whose row keys have the arity of their formulae.
   Needs every written row to exist, which ArityProofs derives from the knowledge-base hypotheses stated there. *)
From LNN Require Import Num Neuron Node PropEngine Fol.
From LNN.proofs Require Import NodeProofs NeuronProofs PropProofs DfsProofs MonoProofs EvalProofs FolProofs ConnProofs JoinProofs AmountProofs AmountFolProofs ArityProofs.
Open Scope Q_scope.

Lemma squeeze a b c : fle a b -> fle b c -> same_reads a c -> same_reads a b /\ same_reads b c.
Proof.
  intros H1 H2 H3. split; intros i g; destruct (H1 i g) as [A1 A2]; destruct (H2 i g) as [B1 B2]; destruct (H3 i g) as [C1 C2];
    unfold bnd_eq; split; lra.
Qed.

(* a step on (state, accumulated amount) that reports nothing more when no reading changed *)
Definition loud (s : fstate) (a : Q) (r : fstate * Q) : Prop := same_reads s (fst r) -> snd r == a.

Lemma loud_refl s a : loud s a (s, a).
Proof. intros _. reflexivity. Qed.
Lemma loud_trans s a r1 r2 : fle s (fst r1) -> fle (fst r1) (fst r2) -> loud s a r1 -> loud (fst r1) (snd r1) r2 -> loud s a r2.
Proof.
  intros F1 F2 L1 L2 H. destruct (squeeze _ _ _ F1 F2 H) as [S1 S2]. rewrite (L2 S2). apply L1. exact S1.
Qed.
Lemma loud_start s s1 r : same_reads s s1 -> loud s1 0 r -> loud s 0 r.
Proof.
  intros H L S. apply L. intros i g. eapply bnd_eq_trans; [apply bnd_eq_sym; apply H | apply S].
Qed.

Lemma qsum_zeros {T} (f : T -> Q) l : (forall x, In x l -> f x == 0) -> qsum (map f l) == 0.
Proof. induction l as [|x l IH]; intros H; cbn [map qsum]; [reflexivity|]. rewrite (H x (or_introl eq_refl)), IH; [ring | intros y Hy; apply H; right; exact Hy]. Qed.

Lemma f_write_loud s a i g new : FRange s -> tmem (ftab s i) g = true -> loud s a (f_write (s, a) i g new).
Proof.
  intros HR Hm S. destruct (f_write_amount s a i g new HR Hm) as (E & _ & Z & _). rewrite E.
  assert (M : moved (fget s i g) (fget (fst (f_write (s, a) i g new)) i g) == 0) by (apply Z; apply bnd_eq_sym; apply S).
  rewrite M. ring.
Qed.

Lemma f_write_many_loud s a j props : FRange s -> (forall g, In g (map fst props) -> tmem (ftab s j) g = true) ->
  loud s a (f_write_many (s, a) j props).
Proof.
  intros HR Hm S. destruct (f_write_many_amount s a j props HR Hm) as (_ & E & R & _). rewrite E.
  rewrite qsum_zeros; [ring|]. intros [g v] Hin. cbn [fst snd]. apply moved_zero_iff.
  eapply bnd_eq_trans; [apply bnd_eq_sym; apply bnd_eq_bred|]. rewrite <- (R g v Hin). apply bnd_eq_sym. apply S.
Qed.

Lemma select_sub {T} (idx : option nat) (l : list T) t : In t (select idx l) -> In (snd t) l.
Proof.
  unfold select. intros H. assert (H' : In t (combine (seq 0 (length l)) l)) by (destruct idx; [apply filter_In in H; apply H | exact H]).
  destruct t as [n x]. apply in_combine_r in H'. exact H'.
Qed.

Lemma tmem_keys_le s s' j g : keys_le s s' -> tmem (ftab s j) g = true -> tmem (ftab s' j) g = true.
Proof. intros K H. apply tmem_keys. apply K. apply tmem_keys. exact H. Qed.

Section Iff.
Variable k : fkb.
Hypothesis Hlen : forall i, length (fmaps (getf k i)) = length (fops (getf k i)).
Hypothesis Hmap : forall i j m, In (j, m) (combine (fops (getf k i)) (fmaps (getf k i))) ->
  length m = fnv (getf k j) /\ NoDup m /\ (forall sl, In sl m -> (sl < fnv (getf k i))%nat).
Hypothesis Hcov : forall i sl, is_homog (getf k i) = false -> (sl < fnv (getf k i))%nat -> exists m, In m (fmaps (getf k i)) /\ In sl m.
Hypothesis Hhom : forall i m, is_homog (getf k i) = true -> In m (fmaps (getf k i)) -> m = identity_map (fnv (getf k i)).

Definition inv (s : fstate) : Prop := FRange s /\ arity_ok k s.

Lemma arity_keys_le_same s s' : arity_ok k s -> (forall i, tkeys (ftab s' i) = tkeys (ftab s i)) -> arity_ok k s'.
Proof. intros H E i g Hin. rewrite E in Hin. apply H. exact Hin. Qed.

Lemma tkeys_f_write sa i g new j : tkeys (ftab (fst (f_write sa i g new)) j) = tkeys (ftab (fst sa) j).
Proof.
  unfold f_write. cbn [fst]. rewrite ftab_set_tab. destruct (Nat.eqb_spec j i) as [->|]; [apply tkeys_tset_cur | reflexivity].
Qed.
Lemma tkeys_f_write_many s a j props x : tkeys (ftab (fst (f_write_many (s, a) j props)) x) = tkeys (ftab s x).
Proof.
  unfold f_write_many. cbn [fst snd]. generalize (merge_dups (map (fun gb => (fst gb, agg_bnd WBoth (fget s j (fst gb)) (snd gb))) props)). intros l.
  assert (G : forall l sa, tkeys (ftab (fst (fold_left (fun sa' gb => (set_tab (fst sa') j (tset_cur (ftab (fst sa') j) (fst gb) (bred (snd gb))),
                                         Qred (snd sa' + moved (fget s j (fst gb)) (snd gb)))) l sa)) x) = tkeys (ftab (fst sa) x)).
  { clear l. induction l as [|gb l IH]; intros sa; cbn [fold_left]; [reflexivity|]. rewrite IH. cbn [fst]. rewrite ftab_set_tab.
    destruct (Nat.eqb_spec x j) as [->|]; [apply tkeys_tset_cur | reflexivity]. }
  apply (G l (s, a)).
Qed.

(* ---- connective upward ---- *)
Lemma f_conn_up_loud s i : inv s -> loud s 0 (f_conn_up k s i) /\ inv (fst (f_conn_up k s i)).
Proof.
  intros [HR HA]. unfold f_conn_up. destruct (oper_groundings k s i DUp) as [[gs s1]|] eqn:E; [|split; [apply loud_refl | split; assumption]].
  pose proof (oper_groundings_ok k s i DUp gs s1 HR E) as O1. destruct O1 as (HR1 & _).
  destruct (oper_groundings_arity k Hlen Hmap Hcov Hhom s i DUp gs s1 HA E) as (HA1 & _ & _).
  pose proof (oper_groundings_rows k s i DUp gs s1 E) as Hrows.
  set (news := map (fun g => (g, act_up (fconn (getf k i)) (fpar (getf k i)) (op_inputs k s1 i g)))
                   (filter (fun g => negb (inputs_contra (falpha (getf k i)) (op_inputs k s1 i g))) gs)).
  assert (Hn : forall gn, In gn news -> In (fst gn) gs).
  { intros gn H. unfold news in H. apply in_map_iff in H. destruct H as [g [<- Hg]]. cbn [fst]. apply filter_In in Hg. apply Hg. }
  assert (G : forall l sa, (forall gn, In gn l -> In (fst gn) gs) -> FRange (fst sa) -> arity_ok k (fst sa) -> keys_le s1 (fst sa) ->
     let r := fold_left (fun sa gn => f_write sa i (fst gn) (snd gn)) l sa in
     loud (fst sa) (snd sa) r /\ FRange (fst r) /\ arity_ok k (fst r) /\ fle (fst sa) (fst r)).
  { induction l as [|gn l IH]; intros sa Hl HRa HAa Ka; cbn [fold_left]; cbn zeta.
    - split; [destruct sa; apply loud_refl|]. split; [exact HRa|]. split; [exact HAa | apply fle_refl].
    - pose proof (f_write_ok sa i (fst gn) (snd gn) HRa) as (R1 & F1 & K1 & _).
      assert (A1 : arity_ok k (fst (f_write sa i (fst gn) (snd gn)))) by (apply (arity_keys_le_same (fst sa)); [exact HAa | intros x; apply tkeys_f_write]).
      destruct (IH (f_write sa i (fst gn) (snd gn)) (fun y Hy => Hl y (or_intror Hy)) R1 A1 (keys_le_trans _ _ _ Ka K1)) as (L2 & R2 & A2 & F2).
      split; [|split; [exact R2 | split; [exact A2 | eapply fle_trans; [exact F1 | exact F2]]]].
      eapply loud_trans; [exact F1 | exact F2 | | exact L2].
      destruct sa as [s' a']. apply f_write_loud; [exact HRa|]. cbn [fst] in *. eapply tmem_keys_le; [exact Ka|]. apply Hrows. apply Hl. left. reflexivity. }
  destruct (G news (s1, 0) Hn HR1 HA1 (keys_le_refl s1)) as (L & R & A & _). fold news. split; [|split; assumption].
  eapply loud_start; [eapply oper_groundings_reads; exact E | exact L].
Qed.

(* ---- connective downward ---- *)
Lemma f_conn_down_loud s i idx : inv s -> loud s 0 (f_conn_down k s i idx) /\ inv (fst (f_conn_down k s i idx)).
Proof.
  intros [HR HA]. unfold f_conn_down. destruct (oper_groundings k s i DDown) as [[gs s1]|] eqn:E; [|split; [apply loud_refl | split; assumption]].
  pose proof (oper_groundings_ok k s i DDown gs s1 HR E) as O1. destruct O1 as (HR1 & _).
  destruct (oper_groundings_arity k Hlen Hmap Hcov Hhom s i DDown gs s1 HA E) as (HA1 & _ & Hex).
  set (news := map (fun g => (g, act_down (fconn (getf k i)) (fpar (getf k i)) (fget s1 i g) (op_inputs k s1 i g)))
                   (filter (fun g => negb (inputs_contra (falpha (getf k i)) (op_inputs k s1 i g) || is_contra (falpha (getf k i)) (fget s1 i g))) gs)).
  assert (Hn : forall gn, In gn news -> In (fst gn) gs).
  { intros gn H. unfold news in H. apply in_map_iff in H. destruct H as [g [<- Hg]]. cbn [fst]. apply filter_In in Hg. apply Hg. }
  set (F := fun (sa : fstate * Q) (pjm : nat * (nat * list nat)) =>
              f_write_many sa (fst (snd pjm)) (map (fun gn : gnd * list bnd => (project (snd (snd pjm)) (fst gn), nth (fst pjm) (snd gn) unknown)) news)).
  assert (G : forall l sa, (forall t, In t l -> In (snd t) (combine (fops (getf k i)) (fmaps (getf k i)))) -> FRange (fst sa) -> arity_ok k (fst sa) -> keys_le s1 (fst sa) ->
     let r := fold_left F l sa in loud (fst sa) (snd sa) r /\ FRange (fst r) /\ arity_ok k (fst r) /\ fle (fst sa) (fst r)).
  { induction l as [|t l IH]; intros sa Hl HRa HAa Ka; cbn [fold_left]; cbn zeta.
    - split; [destruct sa; apply loud_refl|]. split; [exact HRa|]. split; [exact HAa | apply fle_refl].
    - destruct sa as [s' a']. cbn [fst snd] in *.
      pose proof (f_write_many_ok s' a' (fst (snd t)) (map (fun gn : gnd * list bnd => (project (snd (snd t)) (fst gn), nth (fst t) (snd gn) unknown)) news) HRa) as (R1 & F1 & K1 & _).
      assert (A1 : arity_ok k (fst (F (s', a') t))) by (apply (arity_keys_le_same s'); [exact HAa | intros x; unfold F; apply tkeys_f_write_many]).
      destruct (IH (F (s', a') t) (fun y Hy => Hl y (or_intror Hy)) R1 A1 (keys_le_trans _ _ _ Ka K1)) as (L2 & R2 & A2 & F2).
      split; [|split; [exact R2 | split; [exact A2 | eapply fle_trans; [exact F1 | exact F2]]]].
      eapply loud_trans; [exact F1 | exact F2 | | exact L2]. unfold F. apply f_write_many_loud; [exact HRa|].
      intros g Hg. rewrite map_map in Hg. cbn [fst] in Hg. apply in_map_iff in Hg. destruct Hg as [gn [<- Hgn]].
      eapply tmem_keys_le; [exact Ka|]. destruct t as [pos [j m]]. cbn [fst snd] in *. apply (Hex j m (fst gn)); [apply (Hl (pos, (j, m))); left; reflexivity | apply Hn; exact Hgn]. }
  assert (Hsel : forall t, In t (select idx (combine (fops (getf k i)) (fmaps (getf k i)))) -> In (snd t) (combine (fops (getf k i)) (fmaps (getf k i)))).
  { intros t. apply select_sub. }
  destruct (G _ (s1, 0) Hsel HR1 HA1 (keys_le_refl s1)) as (L & R & A & _). split; [|split; assumption].
  eapply loud_start; [eapply oper_groundings_reads; exact E | exact L].
Qed.

(* ---- negation ---- *)
Hypothesis HNot : forall i, fkd (getf k i) = FNot -> is_homog (getf k i) = true.

Lemma not_operand_arity i j r : fkd (getf k i) = FNot -> fops (getf k i) = j :: r -> fnv (getf k j) = fnv (getf k i).
Proof.
  intros Hk Ho. pose proof (Hlen i) as L. rewrite Ho in L. destruct (fmaps (getf k i)) as [|m ms] eqn:Em; [discriminate|].
  assert (Hin : In (j, m) (combine (fops (getf k i)) (fmaps (getf k i)))) by (rewrite Ho, Em; left; reflexivity).
  apply (homog_operand_arity k Hmap Hhom i j m (HNot i Hk) Hin).
Qed.

Lemma f_not_up_loud s i : fkd (getf k i) = FNot -> inv s -> loud s 0 (f_not_up k s i) /\ inv (fst (f_not_up k s i)).
Proof.
  intros Hk [HR HA]. unfold f_not_up. destruct (fops (getf k i)) as [|j r] eqn:Ho; [split; [apply loud_refl | split; assumption]|].
  set (gs := tkeys (ftab s j)). set (s1 := fextend s i gs).
  assert (HR1 : FRange s1) by (apply FRange_fextend; exact HR).
  assert (HA1 : arity_ok k s1).
  { apply arity_fextend; [exact HA|]. intros g Hg. rewrite <- (not_operand_arity i j r Hk Ho). apply HA. exact Hg. }
  split.
  - eapply loud_start; [apply same_reads_fextend|]. apply f_write_many_loud; [exact HR1|].
    intros g Hg. rewrite map_map in Hg. cbn [fst] in Hg. rewrite map_id in Hg. unfold s1, fextend. rewrite ftab_set_tab, Nat.eqb_refl. apply tmem_textend. exact Hg.
  - pose proof (f_write_many_ok s1 0 i (map (fun g => (g, neg (fget s1 j g))) gs) HR1) as (R1 & _). split; [exact R1|].
    apply (arity_keys_le_same s1); [exact HA1 | intros x; apply tkeys_f_write_many].
Qed.

Lemma f_not_down_loud s i : fkd (getf k i) = FNot -> inv s -> loud s 0 (f_not_down k s i) /\ inv (fst (f_not_down k s i)).
Proof.
  intros Hk [HR HA]. unfold f_not_down. destruct (fops (getf k i)) as [|j r] eqn:Ho; [split; [apply loud_refl | split; assumption]|].
  set (gs := tkeys (ftab s i)). set (s1 := fextend s j gs).
  assert (HR1 : FRange s1) by (apply FRange_fextend; exact HR).
  assert (HA1 : arity_ok k s1).
  { apply arity_fextend; [exact HA|]. intros g Hg. rewrite (not_operand_arity i j r Hk Ho). apply HA. exact Hg. }
  split.
  - eapply loud_start; [apply same_reads_fextend|]. apply f_write_many_loud; [exact HR1|].
    intros g Hg. rewrite map_map in Hg. cbn [fst] in Hg. rewrite map_id in Hg. unfold s1, fextend. rewrite ftab_set_tab, Nat.eqb_refl. apply tmem_textend. exact Hg.
  - pose proof (f_write_many_ok s1 0 j (map (fun g => (g, neg (fget s1 i g))) gs) HR1) as (R1 & _). split; [exact R1|].
    apply (arity_keys_le_same s1); [exact HA1 | intros x; apply tkeys_f_write_many].
Qed.

(* ---- node level ---- *)
Lemma f_node_up_loud s i : inv s -> loud s 0 (f_node_up k s i) /\ inv (fst (f_node_up k s i)).
Proof.
  intros Hi. unfold f_node_up. destruct (fkd (getf k i)) eqn:Ek; [split; [apply loud_refl | exact Hi] | apply f_not_up_loud; assumption | apply f_conn_up_loud; exact Hi].
Qed.
Lemma f_node_down_loud s i idx : inv s -> loud s 0 (f_node_down k s i idx) /\ inv (fst (f_node_down k s i idx)).
Proof.
  intros Hi. unfold f_node_down. destruct (fkd (getf k i)) eqn:Ek; [split; [apply loud_refl | exact Hi] | apply f_not_down_loud; assumption | apply f_conn_down_loud; exact Hi].
Qed.

(* ---- passes ---- *)
Lemma f_pass_loud roots d src s : inv s -> loud s 0 (f_pass k roots d src s) /\ inv (fst (f_pass k roots d src s)).
Proof.
  intros Hi. unfold f_pass. generalize (f_traversal k roots d src). intros l.
  set (F := fun (sa : fstate * Q) (i : nat) =>
              let r := match d with Up => f_node_up k (fst sa) i | Down => f_node_down k (fst sa) i None end in (fst r, Qred (snd sa + snd r))).
  assert (G : forall l sa, inv (fst sa) -> let r := fold_left F l sa in loud (fst sa) (snd sa) r /\ inv (fst r) /\ fle (fst sa) (fst r)).
  { clear l. induction l as [|i l IH]; intros sa Hsa; cbn [fold_left]; cbn zeta.
    - split; [destruct sa; apply loud_refl|]. split; [exact Hsa | apply fle_refl].
    - set (r := match d with Up => f_node_up k (fst sa) i | Down => f_node_down k (fst sa) i None end).
      assert (Hr : loud (fst sa) 0 r /\ inv (fst r)) by (unfold r; destruct d; [apply f_node_up_loud | apply f_node_down_loud]; exact Hsa).
      assert (Fr : fle (fst sa) (fst r)).
      { unfold r. destruct Hsa as [HRa _]. destruct d; [apply (f_node_up_ok k (fst sa) i HRa) | apply (f_node_down_ok k (fst sa) i None HRa)]. }
      destruct Hr as [Lr Ir]. change (F sa i) with (fst r, Qred (snd sa + snd r)).
      destruct (IH (fst r, Qred (snd sa + snd r)) Ir) as (L2 & I2 & F2). cbn [fst snd] in *.
      split; [|split; [exact I2 | eapply fle_trans; [exact Fr | exact F2]]].
      eapply (loud_trans (fst sa) (snd sa) (fst r, Qred (snd sa + snd r))); cbn [fst snd]; [exact Fr | exact F2 | | exact L2].
      intros S. cbn [fst snd] in *. rewrite Qred_correct, (Lr S). ring. }
  destruct (G l (s, 0) Hi) as (L & I & _). split; assumption.
Qed.

(* ---- infer ---- *)
Lemma infer_step_loud roots dirs src s : inv s ->
  loud s 0 (infer_step k roots dirs src s) /\ inv (fst (infer_step k roots dirs src s)) /\ fle s (fst (infer_step k roots dirs src s)).
Proof.
  intros Hi. unfold infer_step. destruct dirs as [d|].
  - destruct (f_pass_loud roots d src s Hi) as [L I]. split; [exact L|]. split; [exact I|]. apply (f_pass_ok k roots d src s). apply Hi.
  - cbn zeta. destruct (f_pass_loud roots Up src s Hi) as [L1 I1].
    destruct (f_pass_loud roots Down src (fst (f_pass k roots Up src s)) I1) as [L2 I2].
    pose proof (f_pass_ok k roots Up src s (proj1 Hi)) as (_ & F1 & _).
    pose proof (f_pass_ok k roots Down src (fst (f_pass k roots Up src s)) (proj1 I1)) as (_ & F2 & _).
    cbn [fst snd]. split; [|split; [exact I2 | eapply fle_trans; [exact F1 | exact F2]]].
    intros S. cbn [fst snd] in *. destruct (squeeze _ _ _ F1 F2 S) as [S1 S2]. rewrite (L1 S1), (L2 S2). ring.
Qed.

Lemma f_infer_loop_loud roots src : forall fuel dirs ms s steps total, inv s ->
  let r := f_infer_loop fuel k roots dirs src ms s steps total in
  (same_reads s (fir_state r) -> fir_amount r == total) /\ fle s (fir_state r) /\ inv (fir_state r).
Proof.
  induction fuel as [|f IH]; intros dirs ms s steps total Hi; cbn [f_infer_loop]; cbn zeta; [cbn [fir_amount fir_state]; split; [intros _; reflexivity | split; [apply fle_refl | exact Hi]]|].
  change (match dirs with
          | Some d => f_pass k roots d src s
          | None => (fst (f_pass k roots Down src (fst (f_pass k roots Up src s))), snd (f_pass k roots Up src s) + snd (f_pass k roots Down src (fst (f_pass k roots Up src s))))
          end) with (infer_step k roots dirs src s).
  destruct (infer_step_loud roots dirs src s Hi) as (L & I & F). set (r := infer_step k roots dirs src s) in *.
  match goal with |- context [if ?c then _ else _] => destruct c end; cbn [fir_amount fir_state]; [split; [intros S; rewrite (L S); ring | split; [exact F | exact I]]|].
  destruct (negb (Nat.eqb ms 0) && Nat.leb ms (S steps))%bool; cbn [fir_amount fir_state]; [split; [intros S; rewrite (L S); ring | split; [exact F | exact I]]|].
  destruct (IH dirs ms (fst r) (S steps) (total + snd r) I) as (L2 & F2 & I2). split; [|split; [eapply fle_trans; [exact F | exact F2] | exact I2]].
  intros S. destruct (squeeze _ _ _ F F2 S) as [S1 S2]. rewrite (L2 S2), (L S1). ring.
Qed.

(* every public inference operation: zero exactly when nothing changed *)
Theorem fexec_op_zero_iff roots s o : inv s ->
  0 <= snd (fexec_op k roots s o) /\ (snd (fexec_op k roots s o) == 0 <-> same_reads s (fst (fexec_op k roots s o))).
Proof.
  intros Hi. destruct (fexec_op_zero_sound k roots s o) as [N Z]. split; [exact N|]. split; [exact Z|].
  destruct o as [i|i idx|src|src|src ms fuel]; cbn [fexec_op fst snd].
  - apply f_node_up_loud; exact Hi.
  - apply f_node_down_loud; exact Hi.
  - apply f_pass_loud; exact Hi.
  - apply f_pass_loud; exact Hi.
  - apply (f_infer_loop_loud roots src fuel None ms s 0%nat 0 Hi).
Qed.

(* the invariant travels with every public inference operation *)
Theorem fexec_op_inv roots s o : inv s -> inv (fst (fexec_op k roots s o)).
Proof.
  intros Hi. destruct o as [i|i idx|src|src|src ms fuel]; cbn [fexec_op fst].
  - apply f_node_up_loud; exact Hi.
  - apply f_node_down_loud; exact Hi.
  - apply f_pass_loud; exact Hi.
  - apply f_pass_loud; exact Hi.
  - apply (f_infer_loop_loud roots src fuel None ms s 0%nat 0 Hi).
Qed.
End Iff.
