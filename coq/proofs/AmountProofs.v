(* AmountProofs.v -- C13, first-order part: the two aggregation functions that produce every reported amount of the
   first-order engine report exactly the movement of the rows they write, each written row counted once. *)
From LNN Require Import Num Neuron Node PropEngine Fol.
From LNN.proofs Require Import NodeProofs NeuronProofs PropProofs DfsProofs MonoProofs EvalProofs FolProofs ConnProofs.
Open Scope Q_scope.

(* single row: the amount added is the movement of that row; zero iff the row reads the same afterwards *)
Theorem f_write_amount s a i g new : FRange s -> tmem (ftab s i) g = true ->
  let r := f_write (s, a) i g new in
  snd r == a + moved (fget s i g) (fget (fst r) i g) /\
  0 <= moved (fget s i g) (fget (fst r) i g) /\
  (moved (fget s i g) (fget (fst r) i g) == 0 <-> bnd_eq (fget (fst r) i g) (fget s i g)) /\
  (forall j h, (j <> i \/ h <> g) -> fget (fst r) j h = fget s j h).
Proof.
  intros HR Hm. cbn zeta. rewrite f_write_fst. unfold f_write. cbn [snd fst aggregate].
  assert (E : fget (raw_set s i g (bred (agg_bnd WBoth (fget s i g) new))) i g = bred (agg_bnd WBoth (fget s i g) new)).
  { rewrite fget_raw_set, Nat.eqb_refl, geqb_refl, Hm. reflexivity. }
  rewrite E. split; [|split; [|split]].
  - rewrite Qred_correct. unfold moved. rewrite lo_bred, hi_bred. reflexivity.
  - apply moved_nonneg.
  - apply moved_zero_iff.
  - intros j h Hne. rewrite fget_raw_set. destruct (Nat.eqb_spec j i) as [->|]; cbn [andb]; [|reflexivity].
    destruct (geqb h g) eqn:Eg; cbn [andb]; [|reflexivity]. apply geqb_eq in Eg. destruct Hne; congruence.
Qed.

(* several proposals, duplicates merged: the amount added is the sum over the DISTINCT rows written of their movement *)
Definition merged_rows (s : fstate) (j : nat) (props : list (gnd * bnd)) : list (gnd * bnd) :=
  merge_dups (map (fun gb => (fst gb, agg_bnd WBoth (fget s j (fst gb)) (snd gb))) props).

Lemma fold_amount j s (l : list (gnd * bnd)) : forall sa,
  snd (fold_left (fun sa' gb => (set_tab (fst sa') j (tset_cur (ftab (fst sa') j) (fst gb) (bred (snd gb))),
                                 Qred (snd sa' + moved (fget s j (fst gb)) (snd gb)))) l sa)
  == snd sa + qsum (map (fun gb => moved (fget s j (fst gb)) (snd gb)) l).
Proof.
  induction l as [|gb l IH]; intros sa; cbn [fold_left map qsum]; [ring|]. rewrite IH. cbn [snd]. rewrite Qred_correct. ring.
Qed.

Theorem f_write_many_amount s a j props : FRange s -> (forall g, In g (map fst props) -> tmem (ftab s j) g = true) ->
  let r := f_write_many (s, a) j props in
  let rows := merged_rows s j props in
  NoDup (map fst rows) /\
  snd r == a + qsum (map (fun gb => moved (fget s j (fst gb)) (snd gb)) rows) /\
  (forall g v, In (g, v) rows -> fget (fst r) j g = bred v) /\
  (forall g v, In (g, v) rows -> 0 <= moved (fget s j g) v).
Proof.
  intros HR Hm. cbn zeta. unfold f_write_many, merged_rows. cbn [fst snd].
  set (agg := map (fun gb => (fst gb, agg_bnd WBoth (fget s j (fst gb)) (snd gb))) props).
  destruct (merge_dups_spec agg) as (N & _ & K). split; [exact N|]. split; [apply fold_amount|]. split.
  - intros g v Hin. apply (fold_raw_get j (fun _ gb => moved (fget s j (fst gb)) (snd gb)) (merge_dups agg) N (s, a) g v Hin).
    cbn [fst]. apply Hm. specialize (K g v Hin). unfold keys_of, agg in K. rewrite map_map in K. cbn [fst] in K. exact K.
  - intros g v _. apply moved_nonneg.
Qed.

(* the amounts are non-negative, so a sum of them is zero iff each is *)
Theorem amounts_zero_iff (ms : list Q) : Forall (fun m => 0 <= m) ms -> (qsum ms == 0 <-> Forall (fun m => m == 0) ms).
Proof. apply qsum_zero_iff. Qed.
