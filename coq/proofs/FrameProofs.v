(* FrameProofs.v -- C20: what an inference call can write.  A call on object i writes only
   descendants of i; a source-restricted pass/infer writes only descendants of the source. *)
From LNN Require Import Num Neuron Node PropEngine.
From LNN.proofs Require Import NodeProofs NeuronProofs PropProofs DfsProofs.
Open Scope Q_scope.

Definition prim_obj (p : pstep) : nat :=
  match p with PUp i | PDown i _ | PNotUp i | PNotDown i => i end.

Lemma plan_targets_local k s p jb : In jb (plan k s p) ->
  fst jb = prim_obj p \/ In (fst jb) (children k (prim_obj p)).
Proof.
  destruct p as [i|i idx|i|i]; cbn [plan prim_obj]; intros H.
  - destruct (arrested k s i); [contradiction|]. destruct H as [<-|[]]. left; reflexivity.
  - destruct (arrested k s i); [contradiction|].
    apply in_map_iff in H. destruct H as [[pos [nb oj]] [<- Hin]].
    apply in_select in Hin. cbn [fst snd] in *. apply nth_error_combine in Hin. destruct Hin as [_ Hoj].
    right. unfold children. eapply nth_error_In; exact Hoj.
  - destruct (oops (getobj k i)); [contradiction|]. destruct H as [<-|[]]. left; reflexivity.
  - unfold children. destruct (oops (getobj k i)) as [|j r]; [contradiction|]. destruct H as [<-|[]].
    right. left. reflexivity.
Qed.

Lemma plan_targets_desc k s p jb : In jb (plan k s p) -> desc k (prim_obj p) (fst jb).
Proof.
  intros H. destruct (plan_targets_local k s p jb H) as [->|Hc]; [constructor|].
  eapply desc_step; [exact Hc | constructor].
Qed.

(* primitive steps of a node-level call act on descendants of the node *)
Lemma simple_up_obj k j p : In p (simple_up k j) -> prim_obj p = j.
Proof. unfold simple_up. destruct (okind (getobj k j)); cbn; intros H; try contradiction; destruct H as [<-|[]]; reflexivity. Qed.
Lemma simple_down_obj k j idx p : In p (simple_down k j idx) -> prim_obj p = j.
Proof. unfold simple_down. destruct (okind (getobj k j)); cbn; intros H; try contradiction; destruct H as [<-|[]]; reflexivity. Qed.

Lemma in_removelast {T} (x : T) l : In x (removelast l) -> In x l.
Proof.
  induction l as [|y l IH]; cbn [removelast]; [auto|]. destruct l as [|z l]; [contradiction|].
  intros [->|H]; [left; reflexivity | right; apply IH; exact H].
Qed.
Lemma xor_negs_in o j : In j (xor_negs o) -> In j (oops o).
Proof. apply in_removelast. Qed.
Lemma xor_disj_in o j : In j (xor_disj o) -> In j (oops o).
Proof.
  unfold xor_disj. destruct (rev (oops o)) as [|d r] eqn:E; [contradiction|]. intros [<-|[]].
  apply in_rev. rewrite E. left; reflexivity.
Qed.

Lemma aux_desc k i c : wf_kb k -> In c (oaux (getobj k i)) -> desc k i c.
Proof.
  intros Hwf Hc. destruct (Nat.lt_ge_cases i (length k)) as [Hi|Hi].
  - destruct (Hwf i Hi) as (_ & _ & _ & _ & Haux).
    destruct (proj1 (Forall_forall _ _) Haux c Hc) as [m [Hm Hcm]].
    eapply desc_step; [exact Hm|]. eapply desc_step; [exact Hcm | constructor].
  - unfold getobj in Hc. rewrite nth_overflow in Hc by exact Hi. contradiction.
Qed.

Lemma node_up_desc k i p : wf_kb k -> In p (node_up k i) -> desc k i (prim_obj p).
Proof.
  intros Hwf. unfold node_up. destruct (okind (getobj k i)) eqn:E; cbn [In].
  - contradiction.
  - intros [<-|[]]. constructor.
  - intros [<-|[]]. constructor.
  - intros H. apply in_app_or in H. destruct H as [H|[<-|[]]]; [|constructor].
    apply in_flat_map in H. destruct H as [j [Hj Hp]]. rewrite (simple_up_obj k j p Hp).
    eapply desc_step; [exact Hj | constructor].
  - intros H. repeat (apply in_app_or in H; destruct H as [H|H]).
    + apply in_flat_map in H. destruct H as [j [Hj Hp]]. rewrite (simple_up_obj k j p Hp). apply aux_desc; assumption.
    + apply in_flat_map in H. destruct H as [j [Hj Hp]]. rewrite (simple_up_obj k j p Hp).
      eapply desc_step; [apply xor_negs_in; exact Hj | constructor].
    + apply in_flat_map in H. destruct H as [j [Hj Hp]]. rewrite (simple_up_obj k j p Hp).
      eapply desc_step; [apply xor_disj_in; exact Hj | constructor].
    + destruct H as [<-|[]]. constructor.
Qed.

Lemma node_down_desc k i idx p : wf_kb k -> In p (node_down k i idx) -> desc k i (prim_obj p).
Proof.
  intros Hwf. unfold node_down. destruct (okind (getobj k i)) eqn:E; cbn [In].
  - contradiction.
  - intros [<-|[]]. constructor.
  - intros [<-|[]]. constructor.
  - intros [<-|H]; [constructor|].
    apply in_flat_map in H. destruct H as [j [Hj Hp]]. rewrite (simple_down_obj k j _ p Hp).
    eapply desc_step; [exact Hj | constructor].
  - intros [<-|H]; [constructor|]. repeat (apply in_app_or in H; destruct H as [H|H]).
    + apply in_flat_map in H. destruct H as [j [Hj Hp]]. rewrite (simple_down_obj k j _ p Hp).
      eapply desc_step; [apply xor_negs_in; exact Hj | constructor].
    + apply in_flat_map in H. destruct H as [j [Hj Hp]]. rewrite (simple_down_obj k j _ p Hp). apply aux_desc; assumption.
    + apply in_flat_map in H. destruct H as [j [Hj Hp]]. rewrite (simple_down_obj k j _ p Hp).
      eapply desc_step; [apply xor_disj_in; exact Hj | constructor].
Qed.

(* frame rule for lists of primitive steps *)
Lemma run_prims_frame k ps x : (forall p, In p ps -> ~ desc k (prim_obj p) x) ->
  forall sa, fst (run_prims k sa ps) x = fst sa x.
Proof.
  induction ps as [|p ps IH]; intros H sa; cbn [run_prims fold_left]; [reflexivity|].
  change (fold_left (run_prim k) ps (run_prim k sa p)) with (run_prims k (run_prim k sa p) ps).
  rewrite IH by (intros q Hq; apply H; right; exact Hq).
  unfold run_prim. apply apply_batch_frame. intros Hin. apply in_map_iff in Hin. destruct Hin as [jb [<- Hjb]].
  apply (H p (or_introl eq_refl)). apply (plan_targets_desc k (fst sa) p jb Hjb).
Qed.

Lemma pass_frame k roots d src x s : wf_kb k -> ~ desc k src x ->
  fst (pass k roots d (Some src) s) x = s x.
Proof.
  intros Hwf Hn. unfold pass. rewrite run_prims_frame; [reflexivity|].
  intros p Hp Hd. unfold pass_steps in Hp. apply in_flat_map in Hp. destruct Hp as [i [Hi Hp]].
  apply Hn. eapply desc_trans; [apply (traversal_desc k roots d src i Hi)|].
  eapply desc_trans; [|exact Hd].
  destruct d; [apply (node_up_desc k i p Hwf Hp) | apply (node_down_desc k i None p Hwf Hp)].
Qed.

(* C20 frame: source-restricted inference leaves every non-descendant untouched *)
Lemma infer_frame k roots dirs src query ms fuel x s : wf_kb k -> ~ desc k src x ->
  ir_state (infer fuel k roots dirs (Some src) query ms s) x = s x.
Proof.
  intros Hwf Hn. unfold infer.
  apply (infer_loop_inv (fun s' => s' x = s x) k roots (Some src)); [|reflexivity].
  intros d s' E. rewrite pass_frame by assumption. exact E.
Qed.

Lemma node_call_frame k s i x : wf_kb k -> ~ desc k i x ->
  fst (run_prims k (s, 0) (node_up k i)) x = s x /\
  forall idx, fst (run_prims k (s, 0) (node_down k i idx)) x = s x.
Proof.
  intros Hwf Hn. split; [|intros idx]; rewrite run_prims_frame; try reflexivity.
  - intros p Hp Hd. apply Hn. eapply desc_trans; [apply (node_up_desc k i p Hwf Hp) | exact Hd].
  - intros p Hp Hd. apply Hn. eapply desc_trans; [apply (node_down_desc k i idx p Hwf Hp) | exact Hd].
Qed.

(* a classically resolved verdict is final on data that has a consistent reading *)
Lemma resolved_final k roots vals s ops q : wf_kb k -> consistent k vals -> Range s ->
  Sound (length k) s vals -> (q < length k)%nat -> lo (s q) == hi (s q) ->
  bnd_eq (exec_ops k roots s ops q) (s q).
Proof.
  intros Hwf Hc HR HS Hq Hp.
  pose proof (exec_ops_sound k roots vals ops s Hwf Hc HS q Hq) as [S1 S2].
  pose proof (exec_ops_tighter k roots ops s HR q) as [T1 T2].
  destruct (HS q Hq) as [A1 A2]. unfold bnd_eq. split; lra.
Qed.
