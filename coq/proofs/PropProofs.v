(* PropProofs.v -- invariants of the propositional engine: range, monotone tightening,
   exact accounting of reported amounts (potential function), soundness. *)
From LNN Require Import Num Neuron Node PropEngine.
From LNN.proofs Require Import NodeProofs NeuronProofs.
Open Scope Q_scope.

(* ---------- canonical representation ---------- *)
Lemma Qred_idem q : Qred (Qred q) = Qred q.
Proof. apply Qred_complete. apply Qred_correct. Qed.
Lemma bred_eq b : bnd_eq (bred b) b.
Proof. unfold bnd_eq, bred; cbn [lo hi]. split; apply Qred_correct. Qed.
Lemma lo_bred b : lo (bred b) == lo b. Proof. apply Qred_correct. Qed.
Lemma hi_bred b : hi (bred b) == hi b. Proof. apply Qred_correct. Qed.
Lemma bred_idem b : bred (bred b) = bred b.
Proof. unfold bred; cbn [lo hi]. rewrite !Qred_idem. reflexivity. Qed.
Lemma bred_complete a b : bnd_eq a b -> bred a = bred b.
Proof. intros [H1 H2]. unfold bred. rewrite (Qred_complete _ _ H1), (Qred_complete _ _ H2). reflexivity. Qed.

Definition Range (s : state) : Prop := forall i, wf_bnd (s i).
Definition Canon (s : state) : Prop := forall i, bred (s i) = s i.
Definition width (b : bnd) : Q := hi b - lo b.

Lemma upd_same s j b : upd s j b j = b.
Proof. unfold upd. rewrite Nat.eqb_refl. reflexivity. Qed.
Lemma upd_other s j b i : i <> j -> upd s j b i = s i.
Proof. unfold upd. intros H. apply Nat.eqb_neq in H. rewrite H. reflexivity. Qed.

(* ---------- one write ---------- *)
Definition wres (s : state) (jb : nat * bnd) : bnd := bred (agg_bnd WBoth (s (fst jb)) (snd jb)).

Lemma write_state s a jb : fst (write (s, a) jb) = upd s (fst jb) (wres s jb).
Proof. reflexivity. Qed.
Lemma write_amount s a jb :
  snd (write (s, a) jb) == a + moved (s (fst jb)) (agg_bnd WBoth (s (fst jb)) (snd jb)).
Proof. unfold write, aggregate; cbn [fst snd]. apply Qred_correct. Qed.

Lemma wres_range s jb : wf_bnd (wres s jb).
Proof.
  unfold wres, wf_bnd. rewrite lo_bred, hi_bred.
  destruct (agg_range WBoth (s (fst jb)) (snd jb)) as [[? ?] [? ?]]. split; split; assumption.
Qed.

Lemma wres_tighter s jb : wf_bnd (s (fst jb)) -> tighter (s (fst jb)) (wres s jb).
Proof.
  intros [Hl Hu]. unfold wres, tighter. rewrite lo_bred, hi_bred.
  apply agg_tighter; assumption.
Qed.

Lemma write_range s a jb : Range s -> Range (fst (write (s, a) jb)).
Proof.
  intros HR i. rewrite write_state. destruct (Nat.eq_dec i (fst jb)) as [->|Hne].
  - rewrite upd_same. apply wres_range.
  - rewrite upd_other by exact Hne. apply HR.
Qed.

Lemma write_canon s a jb : Canon s -> Canon (fst (write (s, a) jb)).
Proof.
  intros HC i. rewrite write_state. destruct (Nat.eq_dec i (fst jb)) as [->|Hne].
  - rewrite upd_same. unfold wres. apply bred_idem.
  - rewrite upd_other by exact Hne. apply HC.
Qed.

Lemma write_tighter s a jb : Range s -> forall i, tighter (s i) (fst (write (s, a) jb) i).
Proof.
  intros HR i. rewrite write_state. destruct (Nat.eq_dec i (fst jb)) as [->|Hne].
  - rewrite upd_same. apply wres_tighter. apply HR.
  - rewrite upd_other by exact Hne. unfold tighter. split; lra.
Qed.

(* the amount a write reports is exactly the width it removes *)
Lemma write_amount_width s a jb : Range s ->
  snd (write (s, a) jb) == a + (width (s (fst jb)) - width (wres s jb)).
Proof.
  intros HR. rewrite write_amount.
  pose proof (HR (fst jb)) as [[? ?] [? ?]].
  pose proof (agg_tighter WBoth (s (fst jb)) (snd jb) ltac:(split; assumption) ltac:(split; assumption)) as [T1 T2].
  unfold width, wres. rewrite lo_bred, hi_bred. unfold moved. qcases; lra.
Qed.

(* ---------- potential ---------- *)
Fixpoint phi (n : nat) (s : state) : Q :=
  match n with O => 0 | S m => phi m s + width (s m) end.

Lemma phi_upd_ge n s j b : (n <= j)%nat -> phi n (upd s j b) == phi n s.
Proof.
  induction n as [|n IH]; intros H; cbn [phi]; [reflexivity|].
  rewrite IH by lia. rewrite upd_other by lia. reflexivity.
Qed.
Lemma phi_upd_lt n s j b : (j < n)%nat -> phi n (upd s j b) == phi n s - width (s j) + width b.
Proof.
  induction n as [|n IH]; intros H; [lia|]. cbn [phi].
  destruct (Nat.eq_dec j n) as [->|Hne].
  - rewrite phi_upd_ge by lia. rewrite upd_same. lra.
  - rewrite IH by lia. rewrite upd_other by lia. lra.
Qed.

Lemma phi_bounds n s : Range s -> - inject_Z (Z.of_nat n) <= phi n s <= inject_Z (Z.of_nat n).
Proof.
  intros HR. induction n as [|n IH]; cbn [phi]; [change (inject_Z (Z.of_nat 0)) with 0; split; lra|].
  rewrite Nat2Z.inj_succ. unfold Z.succ. rewrite inject_Z_plus.
  pose proof (HR n) as [[? ?] [? ?]]. destruct IH as [IH1 IH2]. unfold width. change (inject_Z 1) with 1. split; lra.
Qed.

Lemma write_phi n s a jb : Range s -> (fst jb < n)%nat ->
  snd (write (s, a) jb) - a == phi n s - phi n (fst (write (s, a) jb)).
Proof.
  intros HR Hj. rewrite write_amount_width by exact HR. rewrite write_state.
  rewrite phi_upd_lt by exact Hj. lra.
Qed.

(* ---------- batches ---------- *)
Definition targets_lt (n : nat) (b : batch) : Prop := Forall (fun jb => (fst jb < n)%nat) b.

Lemma apply_batch_range b : forall sa, Range (fst sa) -> Range (fst (apply_batch sa b)).
Proof.
  induction b as [|jb b IH]; intros [s a] HR; cbn [apply_batch fold_left]; [exact HR|].
  apply IH. apply write_range. exact HR.
Qed.
Lemma apply_batch_canon b : forall sa, Canon (fst sa) -> Canon (fst (apply_batch sa b)).
Proof.
  induction b as [|jb b IH]; intros [s a] HR; cbn [apply_batch fold_left]; [exact HR|].
  apply IH. apply write_canon. exact HR.
Qed.
Lemma tighter_trans a b c : tighter a b -> tighter b c -> tighter a c.
Proof. unfold tighter. intros [? ?] [? ?]. split; lra. Qed.
Lemma tighter_refl a : tighter a a.
Proof. unfold tighter. split; lra. Qed.

Lemma apply_batch_tighter b : forall sa, Range (fst sa) ->
  forall i, tighter (fst sa i) (fst (apply_batch sa b) i).
Proof.
  induction b as [|jb b IH]; intros [s a] HR i; cbn [apply_batch fold_left fst]; [apply tighter_refl|].
  eapply tighter_trans; [apply (write_tighter s a jb HR) | apply IH; apply write_range; exact HR].
Qed.

Lemma apply_batch_phi n b : forall sa, Range (fst sa) -> targets_lt n b ->
  snd (apply_batch sa b) - snd sa == phi n (fst sa) - phi n (fst (apply_batch sa b)).
Proof.
  induction b as [|jb b IH]; intros [s a] HR HT; cbn [apply_batch fold_left fst snd]; [lra|].
  inversion HT as [|? ? Hj HT']; subst.
  specialize (IH (write (s, a) jb) (write_range s a jb HR) HT').
  pose proof (write_phi n s a jb HR Hj) as Hw.
  change (fold_left write b (write (s, a) jb)) with (apply_batch (write (s, a) jb) b).
  lra.
Qed.

Lemma apply_batch_frame b : forall sa i, ~ In i (map fst b) -> fst (apply_batch sa b) i = fst sa i.
Proof.
  induction b as [|jb b IH]; intros [s a] i Hn; cbn [apply_batch fold_left fst]; [reflexivity|].
  cbn [map In] in Hn.
  change (fold_left write b (write (s, a) jb)) with (apply_batch (write (s, a) jb) b).
  rewrite IH by tauto. rewrite write_state. apply upd_other. intro E; apply Hn; left; congruence.
Qed.

(* ---------- soundness of a batch ---------- *)
Definition Sound (n : nat) (s : state) (vals : nat -> Q) : Prop :=
  forall i, (i < n)%nat -> inb (s i) (vals i).
Definition batch_sound (vals : nat -> Q) (b : batch) : Prop :=
  Forall (fun jb => inb (snd jb) (vals (fst jb))) b.

Lemma wres_sound s jb x : in01 x -> inb (s (fst jb)) x -> inb (snd jb) x -> inb (wres s jb) x.
Proof.
  intros Hx H1 H2. unfold wres, inb. rewrite lo_bred, hi_bred.
  apply agg_sound; assumption.
Qed.

Lemma apply_batch_sound n vals b : (forall i, in01 (vals i)) -> targets_lt n b -> batch_sound vals b ->
  forall sa, Sound n (fst sa) vals -> Sound n (fst (apply_batch sa b)) vals.
Proof.
  intros Hv. induction b as [|jb b IH]; intros HT HB [s a] HS; cbn [apply_batch fold_left]; [exact HS|].
  inversion HT as [|? ? Hj HT']; subst. inversion HB as [|? ? Hb HB']; subst.
  apply (IH HT' HB'). intros i Hi. rewrite write_state.
  destruct (Nat.eq_dec i (fst jb)) as [->|Hne].
  - rewrite upd_same. apply wres_sound; [apply Hv | apply HS; exact Hj | exact Hb].
  - rewrite upd_other by exact Hne. apply HS; exact Hi.
Qed.

(* ---------- list plumbing ---------- *)
Lemma in_combine_seq {T} (l : list T) a i x :
  In (i, x) (combine (seq a (length l)) l) -> exists j, i = (a + j)%nat /\ nth_error l j = Some x.
Proof.
  revert a. induction l as [|y l IH]; intros a H; cbn [length seq combine In] in H; [contradiction|].
  destruct H as [E|H].
  - inversion E; subst. exists 0%nat. split; [lia | reflexivity].
  - destruct (IH (S a) H) as [j [-> Hj]]. exists (S j). split; [lia | exact Hj].
Qed.

Lemma in_select {T} idx (l : list T) p : In p (select idx l) -> nth_error l (fst p) = Some (snd p).
Proof.
  intros H. assert (Hin : In p (combine (seq 0 (length l)) l)).
  { unfold select in H. destruct idx; [apply filter_In in H; tauto | exact H]. }
  destruct p as [i x]. destruct (in_combine_seq l 0 i x Hin) as [j [-> Hj]]. exact Hj.
Qed.

Lemma nth_error_combine {X Y} (l1 : list X) (l2 : list Y) j x y :
  nth_error (combine l1 l2) j = Some (x, y) -> nth_error l1 j = Some x /\ nth_error l2 j = Some y.
Proof.
  revert l2 j. induction l1 as [|a l1 IH]; intros [|b l2] [|j] H; cbn in *; try discriminate.
  - inversion H; subst. split; reflexivity.
  - apply IH; exact H.
Qed.

Lemma Forall2_nth_error {X Y} (R : X -> Y -> Prop) l1 l2 j x y :
  Forall2 R l1 l2 -> nth_error l1 j = Some x -> nth_error l2 j = Some y -> R x y.
Proof.
  intros H. revert j. induction H as [|a b l1 l2 Hab H IH]; intros [|j] H1 H2; cbn in *; try discriminate.
  - inversion H1; inversion H2; subst. exact Hab.
  - eapply IH; eassumption.
Qed.

Lemma Forall2_of_nth {X Y} (R : X -> Y -> Prop) d1 d2 l1 l2 :
  length l1 = length l2 -> (forall k, (k < length l2)%nat -> R (nth k l1 d1) (nth k l2 d2)) -> Forall2 R l1 l2.
Proof.
  revert l2. induction l1 as [|a l1 IH]; intros [|b l2] Hl H; cbn [length] in *; try discriminate; constructor.
  - apply (H 0%nat). lia.
  - apply IH; [lia|]. intros k Hk. apply (H (S k)). lia.
Qed.

Lemma Forall2_map_sound n s vals ops : Sound n s vals -> Forall (fun j => (j < n)%nat) ops ->
  Forall2 inb (map s ops) (map vals ops).
Proof.
  intros HS. induction 1 as [|j ops Hj H IH]; cbn [map]; constructor; auto.
Qed.

Lemma inb_eq b x y : x == y -> inb b x -> inb b y.
Proof. unfold inb. intros E [? ?]. split; lra. Qed.

(* ---------- activations, uniform view ---------- *)
Definition conn_wf (c : conn) (p : nparams) (m : nat) : Prop :=
  alpha p <= 1 /\ nonneg (weights p) /\ length (weights p) = m /\ (c = CImp -> m = 2%nat).

Lemma act_up_sound c p bs xs : conn_wf c p (length xs) -> Forall2 inb bs xs ->
  inb (act_up c p bs) (act_f c p xs).
Proof.
  intros (Ha & Hw & Hl & Hi) Hin. destruct c; cbn [act_up act_f].
  - apply and_up_sound; assumption.
  - apply or_up_sound; assumption.
  - specialize (Hi eq_refl).
    destruct xs as [|x0 [|x1 [|? ?]]]; cbn [length] in Hi; try discriminate.
    destruct (weights p) as [|w0 [|w1 [|? ?]]] eqn:Ew; cbn [length] in Hl; try discriminate.
    inversion Hin as [|b0 ? bs' ? H0 Hin']; subst. inversion Hin' as [|b1 ? bs'' ? H1 Hin'']; subst.
    inversion Hin''; subst.
    inversion Hw as [|? ? Hw0 Hw']; subst. inversion Hw' as [|? ? Hw1 ?]; subst.
    eapply imp_up_sound; eauto.
Qed.

Lemma act_down_sound c p y bs xs : conn_wf c p (length xs) -> Forall2 inb bs xs ->
  Forall (fun x => 0 <= x <= 1) xs -> inb y (act_f c p xs) ->
  Forall2 inb (act_down c p y bs) xs.
Proof.
  intros (Ha & Hw & Hl & Hi) Hin Hxs Hy.
  pose proof (Forall2_length _ _ _ Hin) as Hl2.
  destruct c; cbn [act_down act_f] in *.
  - apply (Forall2_of_nth inb unknown 0).
    + rewrite and_down_length; congruence.
    + intros k Hk. apply and_down_sound; assumption.
  - apply (Forall2_of_nth inb unknown 0).
    + unfold or_down. rewrite map_length, and_down_length; rewrite ?map_length; congruence.
    + intros k Hk. apply or_down_sound; assumption.
  - specialize (Hi eq_refl).
    destruct xs as [|x0 [|x1 [|? ?]]]; cbn [length] in Hi; try discriminate.
    destruct (weights p) as [|w0 [|w1 [|? ?]]] eqn:Ew; cbn [length] in Hl; try discriminate.
    inversion Hin as [|b0 ? bs' ? H0 Hin']; subst. inversion Hin' as [|b1 ? bs'' ? H1 Hin'']; subst.
    inversion Hin''; subst.
    inversion Hw as [|? ? Hw0 Hw']; subst. inversion Hw' as [|? ? Hw1 ?]; subst.
    inversion Hxs as [|? ? Hx0 Hxs']; subst. inversion Hxs' as [|? ? Hx1 ?]; subst.
    eapply imp_down_sound; eauto.
Qed.

(* ---------- validity of primitive steps ---------- *)
Definition is_neuron (kd : kind) : Prop := match kd with KConn _ | KIff | KXor => True | _ => False end.
Definition valid_prim (k : kb) (p : pstep) : Prop :=
  match p with
  | PUp i | PDown i _ => is_neuron (okind (getobj k i))
  | PNotUp i | PNotDown i => okind (getobj k i) = KNot
  end.

Lemma getobj_lt k i : okind (getobj k i) <> KProp -> (i < length k)%nat.
Proof.
  intros H. destruct (Nat.lt_ge_cases i (length k)) as [Hl|Hg]; [exact Hl|].
  exfalso. apply H. unfold getobj. rewrite nth_overflow by exact Hg. reflexivity.
Qed.

Lemma valid_lt k p : valid_prim k p ->
  match p with PUp i | PDown i _ | PNotUp i | PNotDown i => (i < length k)%nat end.
Proof.
  destruct p; cbn [valid_prim]; intros H; apply getobj_lt; intro E; rewrite E in H; cbn in H; try contradiction; discriminate.
Qed.

Lemma neuron_conn_wf k i : wf_kb k -> is_neuron (okind (getobj k i)) ->
  conn_wf (conn_of (okind (getobj k i))) (opar (getobj k i)) (length (oops (getobj k i))).
Proof.
  intros Hwf Hn. assert (Hi : (i < length k)%nat).
  { apply getobj_lt. intro E. rewrite E in Hn. exact Hn. }
  destruct (Hwf i Hi) as (_ & _ & [_ Ha] & Hk & _). unfold conn_wf.
  destruct (okind (getobj k i)) as [| |c| |]; cbn [is_neuron] in Hn; try contradiction; cbn [conn_of].
  - destruct c; destruct Hk as (H1 & H2 & H3); repeat split; try assumption; try congruence; try discriminate.
  - destruct Hk as (H1 & H2 & H3). repeat split; try assumption; discriminate.
  - destruct Hk as (H1 & H2 & H3). repeat split; try assumption; discriminate.
Qed.

Lemma ops_lt k i : wf_kb k -> (i < length k)%nat -> Forall (fun j => (j < length k)%nat) (oops (getobj k i)).
Proof.
  intros Hwf Hi. destruct (Hwf i Hi) as (H & _). eapply Forall_impl; [|exact H]. cbv beta. intros; lia.
Qed.

Lemma plan_targets k s p : wf_kb k -> valid_prim k p -> targets_lt (length k) (plan k s p).
Proof.
  intros Hwf Hv. pose proof (valid_lt k p Hv) as Hi. unfold targets_lt.
  destruct p as [i|i idx|i|i]; cbn [plan].
  - destruct (arrested k s i); constructor; [exact Hi | constructor].
  - destruct (arrested k s i); [constructor|].
    apply Forall_forall. intros jb Hin. apply in_map_iff in Hin. destruct Hin as [[pos [nb oj]] [<- Hin]].
    apply in_select in Hin. cbn [fst snd] in *. apply nth_error_combine in Hin. destruct Hin as [_ Hoj].
    apply nth_error_In in Hoj. exact (proj1 (Forall_forall _ _) (ops_lt k i Hwf Hi) _ Hoj).
  - destruct (oops (getobj k i)); constructor; [exact Hi | constructor].
  - pose proof (ops_lt k i Hwf Hi) as Ho. destruct (oops (getobj k i)) as [|j r]; constructor; [|constructor].
    inversion Ho; subst. assumption.
Qed.

Lemma plan_sound k s p vals : wf_kb k -> valid_prim k p -> consistent k vals ->
  Sound (length k) s vals -> batch_sound vals (plan k s p).
Proof.
  intros Hwf Hv [Hv01 Hc] HS. pose proof (valid_lt k p Hv) as Hi. unfold batch_sound.
  destruct p as [i|i idx|i|i]; cbn [plan valid_prim] in *.
  - destruct (arrested k s i); constructor; [|constructor]. cbn [fst snd].
    assert (Hval : vals i == act_f (conn_of (okind (getobj k i))) (opar (getobj k i)) (map vals (oops (getobj k i)))).
    { rewrite (Hc i Hi) by (intro E; rewrite E in Hv; exact Hv). unfold obj_value.
      destruct (okind (getobj k i)); cbn [is_neuron] in Hv; try contradiction; reflexivity. }
    apply (inb_eq _ _ _ (Qeq_sym _ _ Hval)).
    apply act_up_sound.
    + rewrite map_length. apply neuron_conn_wf; assumption.
    + eapply Forall2_map_sound; [exact HS | apply ops_lt; assumption].
  - destruct (arrested k s i); [constructor|].
    assert (Hval : vals i == act_f (conn_of (okind (getobj k i))) (opar (getobj k i)) (map vals (oops (getobj k i)))).
    { rewrite (Hc i Hi) by (intro E; rewrite E in Hv; exact Hv). unfold obj_value.
      destruct (okind (getobj k i)); cbn [is_neuron] in Hv; try contradiction; reflexivity. }
    assert (HF : Forall2 inb (act_down (conn_of (okind (getobj k i))) (opar (getobj k i)) (s i) (map s (oops (getobj k i))))
                         (map vals (oops (getobj k i)))).
    { apply act_down_sound.
      - rewrite map_length. apply neuron_conn_wf; assumption.
      - eapply Forall2_map_sound; [exact HS | apply ops_lt; assumption].
      - apply Forall_forall. intros x Hx. apply in_map_iff in Hx. destruct Hx as [j [<- _]]. apply Hv01.
      - apply (inb_eq _ _ _ Hval). apply HS; exact Hi. }
    apply Forall_forall. intros jb Hin. apply in_map_iff in Hin. destruct Hin as [[pos [nb oj]] [<- Hin]].
    apply in_select in Hin. cbn [fst snd] in *. apply nth_error_combine in Hin. destruct Hin as [Hnb Hoj].
    eapply (Forall2_nth_error inb _ _ pos nb (vals oj) HF Hnb).
    rewrite nth_error_map, Hoj. reflexivity.
  - pose proof (ops_lt k i Hwf Hi) as Ho.
    assert (Hval := Hc i Hi ltac:(rewrite Hv; discriminate)). unfold obj_value in Hval. rewrite Hv in Hval.
    destruct (oops (getobj k i)) as [|j r]; constructor; [|constructor]. cbn [fst snd].
    inversion Ho; subst. apply (inb_eq _ _ _ (Qeq_sym _ _ Hval)).
    destruct (HS j ltac:(assumption)) as [S1 S2]. unfold inb, neg; cbn [lo hi]. split; lra.
  - pose proof (ops_lt k i Hwf Hi) as Ho.
    assert (Hval := Hc i Hi ltac:(rewrite Hv; discriminate)). unfold obj_value in Hval. rewrite Hv in Hval.
    destruct (oops (getobj k i)) as [|j r]; constructor; [|constructor]. cbn [fst snd].
    destruct (HS i Hi) as [S1 S2]. unfold inb, neg; cbn [lo hi]. split; lra.
Qed.

(* ---------- lifting to sequences of primitive steps ---------- *)
Definition Inv (k : kb) (s : state) : Prop := Range s.

Lemma run_prim_range k sa p : Range (fst sa) -> Range (fst (run_prim k sa p)).
Proof. intros H. unfold run_prim. apply apply_batch_range. exact H. Qed.
Lemma run_prims_range k ps : forall sa, Range (fst sa) -> Range (fst (run_prims k sa ps)).
Proof.
  induction ps as [|p ps IH]; intros sa H; cbn [run_prims fold_left]; [exact H|].
  apply IH. apply run_prim_range. exact H.
Qed.
Lemma run_prims_canon k ps : forall sa, Canon (fst sa) -> Canon (fst (run_prims k sa ps)).
Proof.
  induction ps as [|p ps IH]; intros sa H; cbn [run_prims fold_left]; [exact H|].
  apply IH. unfold run_prim. apply apply_batch_canon. exact H.
Qed.
Lemma run_prims_tighter k ps : forall sa, Range (fst sa) ->
  forall i, tighter (fst sa i) (fst (run_prims k sa ps) i).
Proof.
  induction ps as [|p ps IH]; intros sa H i; cbn [run_prims fold_left]; [apply tighter_refl|].
  eapply tighter_trans; [apply (apply_batch_tighter (plan k (fst sa) p) sa H) | apply IH; apply run_prim_range; exact H].
Qed.

Lemma run_prims_sound k vals ps : wf_kb k -> consistent k vals -> Forall (valid_prim k) ps ->
  forall sa, Sound (length k) (fst sa) vals -> Sound (length k) (fst (run_prims k sa ps)) vals.
Proof.
  intros Hwf Hc. induction 1 as [|p ps Hp Hps IH]; intros sa HS; cbn [run_prims fold_left]; [exact HS|].
  apply IH. unfold run_prim. apply apply_batch_sound.
  - intros i. destruct Hc as [H01 _]. apply H01.
  - apply plan_targets; assumption.
  - apply plan_sound; assumption.
  - exact HS.
Qed.

Lemma run_prims_phi k ps : wf_kb k -> Forall (valid_prim k) ps ->
  forall sa, Range (fst sa) ->
  snd (run_prims k sa ps) - snd sa == phi (length k) (fst sa) - phi (length k) (fst (run_prims k sa ps)).
Proof.
  intros Hwf. induction 1 as [|p ps Hp Hps IH]; intros sa HR; cbn [run_prims fold_left]; [lra|].
  specialize (IH (run_prim k sa p) (run_prim_range k sa p HR)).
  pose proof (apply_batch_phi (length k) (plan k (fst sa) p) sa HR (plan_targets k (fst sa) p Hwf Hp)) as H1.
  change (fold_left (run_prim k) ps (run_prim k sa p)) with (run_prims k (run_prim k sa p) ps).
  unfold run_prim in *. lra.
Qed.

(* node-level expansions only contain valid primitive steps (for ANY index) *)
Lemma simple_up_valid k i : Forall (valid_prim k) (simple_up k i).
Proof.
  unfold simple_up. destruct (okind (getobj k i)) eqn:E; repeat constructor; cbn [valid_prim]; rewrite E; cbn; auto.
Qed.
Lemma simple_down_valid k i idx : Forall (valid_prim k) (simple_down k i idx).
Proof.
  unfold simple_down. destruct (okind (getobj k i)) eqn:E; repeat constructor; cbn [valid_prim]; rewrite E; cbn; auto.
Qed.
Lemma Forall_flat_map {X Y} (P : Y -> Prop) (f : X -> list Y) l :
  (forall x, Forall P (f x)) -> Forall P (flat_map f l).
Proof. intros H. induction l; cbn [flat_map]; [constructor | apply Forall_app; split; auto]. Qed.

Lemma node_up_valid k i : Forall (valid_prim k) (node_up k i).
Proof.
  unfold node_up. destruct (okind (getobj k i)) eqn:E.
  - constructor.
  - repeat constructor. cbn [valid_prim]. exact E.
  - repeat constructor. cbn [valid_prim]. rewrite E. exact I.
  - apply Forall_app; split; [apply Forall_flat_map; apply simple_up_valid|].
    repeat constructor. cbn [valid_prim]. rewrite E. exact I.
  - repeat (apply Forall_app; split); try (apply Forall_flat_map; apply simple_up_valid).
    repeat constructor. cbn [valid_prim]. rewrite E. exact I.
Qed.
Lemma node_down_valid k i idx : Forall (valid_prim k) (node_down k i idx).
Proof.
  unfold node_down. destruct (okind (getobj k i)) eqn:E.
  - constructor.
  - repeat constructor. cbn [valid_prim]. exact E.
  - repeat constructor. cbn [valid_prim]. rewrite E. exact I.
  - constructor; [cbn [valid_prim]; rewrite E; exact I|].
    apply Forall_flat_map. intros; apply simple_down_valid.
  - constructor; [cbn [valid_prim]; rewrite E; exact I|].
    repeat (apply Forall_app; split); apply Forall_flat_map; intros; apply simple_down_valid.
Qed.
Lemma pass_steps_valid k roots d src : Forall (valid_prim k) (pass_steps k roots d src).
Proof.
  unfold pass_steps. apply Forall_flat_map. intros i. destruct d; [apply node_up_valid | apply node_down_valid].
Qed.

(* ---------- passes, infer and public operations ---------- *)
Lemma infer_loop_inv (P : state -> Prop) k roots src :
  (forall d s, P s -> P (fst (pass k roots d src s))) ->
  forall fuel dirs query ms s steps total, P s ->
  P (ir_state (infer_loop fuel k roots dirs src query ms s steps total)).
Proof.
  intros Hpass. induction fuel as [|f IH]; intros dirs query ms s steps total HP; cbn [infer_loop ir_state]; [exact HP|].
  destruct (match query with Some (q, conv) => (classically_resolved (s q) && negb conv)%bool | None => false end);
    cbn [ir_state]; [exact HP|].
  set (r := match dirs with
            | None => (fst (pass k roots Down src (fst (pass k roots Up src s))),
                       snd (pass k roots Up src s) + snd (pass k roots Down src (fst (pass k roots Up src s))))
            | Some d => pass k roots d src s end).
  assert (HPr : P (fst r)).
  { unfold r. destruct dirs as [d|]; cbn [fst]; [apply Hpass; exact HP | apply Hpass; apply Hpass; exact HP]. }
  destruct (match dirs with Some _ => true | None => infer_converged (snd r) end); cbn [ir_state]; [exact HPr|].
  destruct ((negb (ms =? 0)%nat && (ms <=? S steps)%nat)%bool); cbn [ir_state]; [exact HPr|].
  apply IH. exact HPr.
Qed.

Lemma exec_op_inv (P : state -> Prop) k roots :
  (forall ps s a, Forall (valid_prim k) ps -> P s -> P (fst (run_prims k (s, a) ps))) ->
  forall o s, P s -> P (fst (exec_op k roots s o)).
Proof.
  intros H o s HP. destruct o as [i|i idx|src|src|src ms fuel]; cbn [exec_op fst].
  - apply H; [apply node_up_valid | exact HP].
  - apply H; [apply node_down_valid | exact HP].
  - unfold pass. apply H; [apply pass_steps_valid | exact HP].
  - unfold pass. apply H; [apply pass_steps_valid | exact HP].
  - unfold infer. apply infer_loop_inv; [|exact HP].
    intros d s' HP'. unfold pass. apply H; [apply pass_steps_valid | exact HP'].
Qed.

Lemma exec_ops_inv (P : state -> Prop) k roots :
  (forall ps s a, Forall (valid_prim k) ps -> P s -> P (fst (run_prims k (s, a) ps))) ->
  forall ops s, P s -> P (exec_ops k roots s ops).
Proof.
  intros H. induction ops as [|o ops IH]; intros s HP; cbn [exec_ops fold_left]; [exact HP|].
  apply IH. apply exec_op_inv; assumption.
Qed.

(* C17 (range) for every sequence of public operations *)
Lemma exec_ops_range k roots ops s : Range s -> Range (exec_ops k roots s ops).
Proof.
  apply (exec_ops_inv Range). intros ps s' a _ H. apply (run_prims_range k ps (s', a) H).
Qed.

(* C05 for every sequence of public operations *)
Lemma exec_ops_tighter k roots ops s : Range s -> forall i, tighter (s i) (exec_ops k roots s ops i).
Proof.
  intros HR.
  assert (H : Range (exec_ops k roots s ops) /\ forall i, tighter (s i) (exec_ops k roots s ops i)).
  { apply (exec_ops_inv (fun s' => Range s' /\ forall i, tighter (s i) (s' i))).
    - intros ps s' a _ [HR' HT]. split; [apply (run_prims_range k ps (s', a) HR')|].
      intros i. eapply tighter_trans; [apply HT | apply (run_prims_tighter k ps (s', a) HR')].
    - split; [exact HR | intros; apply tighter_refl]. }
  apply H.
Qed.

(* C01 for every sequence of public operations *)
Lemma exec_ops_sound k roots vals ops s : wf_kb k -> consistent k vals ->
  Sound (length k) s vals -> Sound (length k) (exec_ops k roots s ops) vals.
Proof.
  intros Hwf Hc. apply (exec_ops_inv (fun s' => Sound (length k) s' vals)).
  intros ps s' a Hv HS. apply (run_prims_sound k vals ps Hwf Hc Hv (s', a) HS).
Qed.

Lemma sound_no_contra k s vals i : wf_kb k -> Range s -> Sound (length k) s vals -> (i < length k)%nat ->
  obj_contra k s i = false.
Proof.
  intros Hwf HR HS Hi. unfold obj_contra.
  destruct (is_contra (oalpha (getobj k i)) (s i)) eqn:E; [|reflexivity].
  destruct (Hwf i Hi) as (_ & _ & Ha & _). destruct (HR i) as [Hl Hu].
  apply is_contra_iff in E; [|exact Ha | exact Hl | exact Hu].
  destruct E as [E _]. destruct (HS i Hi). lra.
Qed.

(* ---------- C13: exact accounting ---------- *)
Lemma phi_zero_iff n s s' : (forall i, tighter (s i) (s' i)) ->
  (phi n s - phi n s' == 0 <-> forall i, (i < n)%nat -> bnd_eq (s' i) (s i)).
Proof.
  intros HT. induction n as [|n IH]; cbn [phi].
  - split; [intros _ i Hi; lia | intros _; lra].
  - assert (Hmono : forall m, 0 <= phi m s - phi m s').
    { induction m as [|m IHm]; cbn [phi]; [lra|]. destruct (HT m). unfold width. lra. }
    specialize (Hmono n). destruct (HT n) as [T1 T2]. unfold width. split.
    + intros E i Hi. destruct (Nat.eq_dec i n) as [->|Hne].
      * unfold bnd_eq. split; lra.
      * apply IH; [lra | lia].
    + intros H. assert (phi n s - phi n s' == 0) by (apply IH; intros; apply H; lia).
      destruct (H n ltac:(lia)) as [E1 E2]. lra.
Qed.

Lemma run_prims_frame_ge k ps : wf_kb k -> Forall (valid_prim k) ps ->
  forall sa i, (length k <= i)%nat -> fst (run_prims k sa ps) i = fst sa i.
Proof.
  intros Hwf. induction 1 as [|p ps Hp Hps IH]; intros sa i Hi; cbn [run_prims fold_left]; [reflexivity|].
  change (fold_left (run_prim k) ps (run_prim k sa p)) with (run_prims k (run_prim k sa p) ps).
  rewrite IH by exact Hi. unfold run_prim. apply apply_batch_frame.
  intros Hin. apply in_map_iff in Hin. destruct Hin as [jb [E Hjb]].
  pose proof (proj1 (Forall_forall _ _) (plan_targets k (fst sa) p Hwf Hp) jb Hjb) as Hlt. cbv beta in Hlt. lia.
Qed.

(* a list of primitive steps reports zero exactly when it leaves every bound unchanged *)
Lemma run_prims_zero_iff k ps s : wf_kb k -> Forall (valid_prim k) ps -> Range s ->
  (snd (run_prims k (s, 0) ps) == 0 <-> forall i, bnd_eq (fst (run_prims k (s, 0) ps) i) (s i)).
Proof.
  intros Hwf Hv HR.
  pose proof (run_prims_phi k ps Hwf Hv (s, 0) HR) as Hphi. cbn [fst snd] in Hphi.
  pose proof (phi_zero_iff (length k) s (fst (run_prims k (s, 0) ps)) (run_prims_tighter k ps (s, 0) HR)) as Hz.
  split.
  - intros E i. destruct (Nat.lt_ge_cases i (length k)) as [Hi|Hi].
    + apply Hz; [lra | exact Hi].
    + rewrite (run_prims_frame_ge k ps Hwf Hv (s, 0) i Hi). cbn [fst]. unfold bnd_eq. split; reflexivity.
  - intros H. assert (phi (length k) s - phi (length k) (fst (run_prims k (s, 0) ps)) == 0) by (apply Hz; intros; apply H). lra.
Qed.

Lemma run_prims_amount_nonneg k ps s : wf_kb k -> Forall (valid_prim k) ps -> Range s ->
  0 <= snd (run_prims k (s, 0) ps).
Proof.
  intros Hwf Hv HR. pose proof (run_prims_phi k ps Hwf Hv (s, 0) HR) as Hphi. cbn [fst snd] in Hphi.
  pose proof (run_prims_tighter k ps (s, 0) HR) as HT. cbn [fst] in HT.
  assert (Hmono : forall m, 0 <= phi m s - phi m (fst (run_prims k (s, 0) ps))).
  { induction m as [|m IHm]; cbn [phi]; [lra|]. destruct (HT m). unfold width. lra. }
  specialize (Hmono (length k)). lra.
Qed.
