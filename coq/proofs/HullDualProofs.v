(* HullDualProofs.v -- C03 (b) for the OPERANDS of Or (every arity) and Implies, by duality with And:
   Or(x_1..x_n) = not And(not x_1 .. not x_n),  Implies(a, b) = not And(a, not b)  -- for the truth functions, the upward
   bounds, the downward proposals and the aggregation; the And theorems of HullOperandProofs then give explicit feasible
   assignments attaining both ends of every positively weighted operand's new interval. *)
From LNN Require Import Num Neuron Node PropEngine.
From LNN.proofs Require Import NodeProofs NeuronProofs PropProofs MonoProofs EvalProofs HullProofs HullOperandProofs.
Open Scope Q_scope.

(* ---------- the downward step respects == on the connective's bounds ---------- *)
Lemma and_down_one_compat al b W Tl Tu L U L2 U2 w x : L == L2 -> U == U2 ->
  bnd_eq (and_down_one al b W Tl Tu L U w x) (and_down_one al b W Tl Tu L2 U2 w x).
Proof.
  intros HL HU. unfold and_down_one. destruct (qeqb w 0); [apply bnd_eq_refl|]. unfold bnd_eq; cbn [lo hi]. split.
  - destruct (qltb (1 - al) L) eqn:E1; destruct (qltb (1 - al) L2) eqn:E2;
      try (apply qltb_true in E1); try (apply qltb_false in E1); try (apply qltb_true in E2); try (apply qltb_false in E2); try lra.
    destruct (qleb L 0) eqn:E3; destruct (qleb L2 0) eqn:E4;
      try (apply qleb_true in E3); try (apply qleb_false in E3); try (apply qleb_true in E4); try (apply qleb_false in E4); try lra;
      apply clamp01_compat; rewrite HL; reflexivity.
  - destruct (qltb U al) eqn:E1; destruct (qltb U2 al) eqn:E2;
      try (apply qltb_true in E1); try (apply qltb_false in E1); try (apply qltb_true in E2); try (apply qltb_false in E2); try lra.
    destruct (qleb 1 U) eqn:E3; destruct (qleb 1 U2) eqn:E4;
      try (apply qleb_true in E3); try (apply qleb_false in E3); try (apply qleb_true in E4); try (apply qleb_false in E4); try lra;
      apply clamp01_compat; rewrite HU; reflexivity.
Qed.

Lemma and_down_compat p y y2 bs : bnd_eq y y2 -> Forall2 bnd_eq (and_down p y bs) (and_down p y2 bs).
Proof.
  intros [HL HU]. unfold and_down. generalize (qsum (weights p)) (tsum (weights p) (los bs)) (tsum (weights p) (his bs)).
  intros W Tl Tu. generalize (combine (weights p) bs). intros l. induction l as [|wx l IH]; cbn [map]; constructor; [|exact IH].
  apply and_down_one_compat; assumption.
Qed.

Lemma Forall2_nth_bnd_eq a b k : Forall2 bnd_eq a b -> bnd_eq (nth k a unknown) (nth k b unknown).
Proof.
  intros H. revert k. induction H as [|x z a b Hxz H IH]; intros k; destruct k; cbn [nth]; try apply bnd_eq_refl; [exact Hxz | apply IH].
Qed.

(* ---------- one coordinate of step_x ---------- *)
Lemma nth_step_x c p y bs k : (k < length bs)%nat -> length (act_down c p (step_y c p y bs) bs) = length bs ->
  nth k (step_x c p y bs) unknown = agg_bnd WBoth (nth k bs unknown) (nth k (act_down c p (step_y c p y bs) bs) unknown).
Proof.
  intros Hk Hl2. unfold step_x.
  rewrite (nth_indep _ unknown (agg_bnd WBoth (fst (unknown, unknown)) (snd (unknown, unknown)))) by (rewrite map_length, combine_length, Hl2; lia).
  rewrite (map_nth (fun bn => agg_bnd WBoth (fst bn) (snd bn))). rewrite combine_nth by (symmetry; exact Hl2). reflexivity.
Qed.

Lemma nth_map_neg l k : (k < length l)%nat -> nth k (map neg l) unknown = neg (nth k l unknown).
Proof. intros Hk. rewrite (nth_indep _ unknown (neg unknown)) by (rewrite map_length; exact Hk). apply map_nth. Qed.
Lemma nth_map_compl l k : (k < length l)%nat -> nth k (map compl l) 0 == 1 - nth k l 0.
Proof. intros Hk. rewrite (nth_indep _ 0 (compl 0)) by (rewrite map_length; exact Hk). rewrite map_nth. unfold compl. reflexivity. Qed.

(* aggregation commutes with negation *)
Lemma agg_flip a r1 r2 : bnd_eq r1 r2 -> bnd_eq (agg_bnd WBoth a (neg r1)) (neg (agg_bnd WBoth (neg a) r2)).
Proof.
  intros [E1 E2]. unfold bnd_eq, agg_bnd, neg; cbn [lo hi]. rewrite <- !clamp01_compl. split; apply clamp01_compat; rewrite ?E1, ?E2; qcases; lra.
Qed.
Lemma agg_same a r1 r2 : bnd_eq r1 r2 -> bnd_eq (agg_bnd WBoth a r1) (agg_bnd WBoth a r2).
Proof. intros [E1 E2]. unfold bnd_eq, agg_bnd; cbn [lo hi]. rewrite E1, E2. split; reflexivity. Qed.

Lemma ordered_all_neg bs : ordered_all bs -> ordered_all (map neg bs).
Proof.
  induction 1 as [|b bs [[[? ?] [? ?]] ?] H IH]; cbn [map]; constructor; [|exact IH].
  unfold wf_bnd, neg; cbn [lo hi]. repeat split; lra.
Qed.

Lemma neg_neg_eq y : bnd_eq (neg (neg y)) y.
Proof. unfold bnd_eq, neg; cbn [lo hi]. split; ring. Qed.

(* ================================ Or ================================ *)
Section OrOperands.
Variable p : nparams.
Hypothesis Hw : nonneg (weights p).
Variable y : bnd.
Hypothesis Hy : wf_bnd y.
Variable bs : list bnd.
Hypothesis Hord : ordered_all bs.
Hypothesis Hlen : length (weights p) = length bs.
Variable x0 : list Q.
Hypothesis Hfeas : feasible COr p y bs x0.
Variable k : nat.
Hypothesis Hk : (k < length bs)%nat.
Hypothesis Halpha : alpha p == 1.

Let nbs := map neg bs.
Lemma nbs_len : length (weights p) = length nbs. Proof. unfold nbs. rewrite map_length. exact Hlen. Qed.
Lemma x0_len_or : length (weights p) = length x0.
Proof. rewrite Hlen. destruct Hfeas as [H _]. eapply Forall2_length; exact H. Qed.

Lemma dual_feasible : feasible CAnd p (neg y) nbs (map compl x0).
Proof.
  destruct Hfeas as [Hb0 Hf0]. split; [apply boxed_neg; exact Hb0|]. cbn [act_f] in *.
  pose proof (or_f_and p x0 Hw x0_len_or) as Eo. destruct Hf0 as [F1 F2]. unfold inb, neg; cbn [lo hi]. split; lra.
Qed.

Lemma back_feasible zs : feasible CAnd p (neg y) nbs zs -> feasible COr p y bs (map compl zs).
Proof.
  intros [Zb Zf]. assert (Lz : length (weights p) = length zs) by (rewrite nbs_len; eapply Forall2_length; exact Zb).
  split; [apply boxed_neg_inv; exact Zb|]. cbn [act_f] in *.
  pose proof (or_f_of_compl p zs Hw Lz) as Eo. destruct Zf as [G1 G2]. unfold inb, neg in *; cbn [lo hi] in *. split; lra.
Qed.

(* the k-th operand after the Or step is the negation of the k-th operand after the dual And step *)
Lemma step_x_or_and : bnd_eq (nth k (step_x COr p y bs) unknown) (neg (nth k (step_x CAnd p (neg y) nbs) unknown)).
Proof.
  assert (Hk2 : (k < length nbs)%nat) by (unfold nbs; rewrite map_length; exact Hk).
  rewrite (nth_step_x COr p y bs k Hk) by (cbn [act_down]; unfold or_down; rewrite map_length, and_down_length by exact nbs_len; unfold nbs; apply map_length).
  rewrite (nth_step_x CAnd p (neg y) nbs k Hk2) by (cbn [act_down]; apply and_down_length; exact nbs_len).
  cbn [act_down]. unfold or_down. fold nbs.
  rewrite nth_map_neg by (rewrite and_down_length by exact nbs_len; exact Hk2).
  replace (nth k nbs unknown) with (neg (nth k bs unknown)) by (unfold nbs; symmetry; apply nth_map_neg; exact Hk).
  apply agg_flip. apply Forall2_nth_bnd_eq. apply and_down_compat.
  pose proof (step_y_or_and p y bs Hw Hlen) as E. fold nbs in E.
  eapply bnd_eq_trans; [|apply neg_neg_eq]. destruct E as [E1 E2]. unfold bnd_eq, neg in *; cbn [lo hi] in *. split; lra.
Qed.

Theorem or_operand_lower_attained :
  exists xs, feasible COr p y bs xs /\ nth k xs 0 == lo (nth k (step_x COr p y bs) unknown).
Proof.
  assert (Hk2 : (k < length nbs)%nat) by (unfold nbs; rewrite map_length; exact Hk).
  destruct (and_operand_attained p (neg y) nbs (map compl x0) k Hw (wf_neg y Hy) (ordered_all_neg bs Hord) nbs_len dual_feasible Hk2 Halpha)
    as [_ [zs [Zf Zk]]].
  exists (map compl zs). split; [apply back_feasible; exact Zf|].
  assert (Lz : (k < length zs)%nat) by (destruct Zf as [Zb _]; rewrite <- (Forall2_length _ _ _ Zb); exact Hk2).
  rewrite (nth_map_compl zs k Lz), Zk. destruct step_x_or_and as [E1 _]. rewrite E1. unfold neg; cbn [lo hi]. reflexivity.
Qed.

Theorem or_operand_upper_attained :
  exists xs, feasible COr p y bs xs /\ nth k xs 0 == hi (nth k (step_x COr p y bs) unknown).
Proof.
  assert (Hk2 : (k < length nbs)%nat) by (unfold nbs; rewrite map_length; exact Hk).
  destruct (and_operand_attained p (neg y) nbs (map compl x0) k Hw (wf_neg y Hy) (ordered_all_neg bs Hord) nbs_len dual_feasible Hk2 Halpha)
    as [[zs [Zf Zk]] _].
  exists (map compl zs). split; [apply back_feasible; exact Zf|].
  assert (Lz : (k < length zs)%nat) by (destruct Zf as [Zb _]; rewrite <- (Forall2_length _ _ _ Zb); exact Hk2).
  rewrite (nth_map_compl zs k Lz), Zk. destruct step_x_or_and as [_ E2]. rewrite E2. unfold neg; cbn [lo hi]. reflexivity.
Qed.
End OrOperands.

(* ================================ Implies ================================ *)
Section ImpOperands.
Variable p : nparams.
Variables w0 w1 : Q.
Hypothesis Hws : weights p = [w0; w1].
Hypothesis Hw0 : 0 <= w0.
Hypothesis Hw1 : 0 <= w1.
Variable y : bnd.
Hypothesis Hy : wf_bnd y.
Variables b0 b1 : bnd.
Hypothesis Hord : ordered_all [b0; b1].
Variables a0 a1 : Q.
Hypothesis Hfeas : feasible CImp p y [b0; b1] [a0; a1].
Hypothesis Halpha : alpha p == 1.

Let nbs := [b0; neg b1].
Lemma Hw_imp : nonneg (weights p). Proof. rewrite Hws. repeat constructor; assumption. Qed.
Lemma nbs_len_imp : length (weights p) = length nbs. Proof. rewrite Hws. reflexivity. Qed.
Lemma nbs_ord : ordered_all nbs.
Proof.
  inversion Hord as [|? ? H0 H1]; subst. inversion H1 as [|? ? H2 _]; subst. unfold nbs. constructor; [exact H0|]. constructor; [|constructor].
  destruct H2 as [[[? ?] [? ?]] ?]. unfold wf_bnd, neg; cbn [lo hi]. repeat split; lra.
Qed.

Lemma imp_f_and z0 z1 : imp_f p [z0; z1] == 1 - and_f p [z0; 1 - z1].
Proof. unfold imp_f, and_f. rewrite Hws. cbn [tsum]. rewrite <- clamp01_compl. apply clamp01_compat. ring. Qed.

Lemma imp_up_and : bnd_eq (imp_up p [b0; b1]) (neg (and_up p nbs)).
Proof.
  unfold imp_up, and_up, nbs, bnd_eq, neg. rewrite Hws. cbn [los his map tsum lo hi].
  rewrite <- !clamp01_compl. split; apply clamp01_compat; ring.
Qed.

Lemma step_y_imp_and : bnd_eq (step_y CImp p y [b0; b1]) (neg (step_y CAnd p (neg y) nbs)).
Proof.
  unfold step_y. destruct imp_up_and as [E1 E2]. cbn [act_up].
  unfold bnd_eq, agg_bnd, neg in *; cbn [lo hi] in *. rewrite E1, E2. split.
  - rewrite <- clamp01_compl. apply clamp01_compat. qcases; lra.
  - rewrite <- clamp01_compl. apply clamp01_compat. qcases; lra.
Qed.

Lemma dual_feasible_imp : feasible CAnd p (neg y) nbs [a0; 1 - a1].
Proof.
  destruct Hfeas as [Hb Hf]. inversion Hb as [|? ? ? ? I0 Hb1]; subst. inversion Hb1 as [|? ? ? ? I1 _]; subst.
  split.
  - unfold nbs. constructor; [exact I0|]. constructor; [|constructor]. destruct I1. unfold inb, neg; cbn [lo hi]. split; lra.
  - cbn [act_f] in *. pose proof (imp_f_and a0 a1) as E. destruct Hf as [F1 F2]. unfold inb, neg; cbn [lo hi]. split; lra.
Qed.

Lemma back_feasible_imp zs : feasible CAnd p (neg y) nbs zs -> exists z0 z1, zs = [z0; z1] /\ feasible CImp p y [b0; b1] [z0; 1 - z1].
Proof.
  intros [Zb Zf]. unfold nbs in Zb. inversion Zb as [|? z0 ? r I0 Zb1]; subst. inversion Zb1 as [|? z1 ? r' I1 Zb2]; subst. inversion Zb2; subst.
  exists z0, z1. split; [reflexivity|]. split.
  - constructor; [exact I0|]. constructor; [|constructor]. destruct I1 as [J1 J2]. unfold inb, neg in *; cbn [lo hi] in *. split; lra.
  - cbn [act_f] in *. pose proof (imp_f_and z0 (1 - z1)) as E.
    assert (E2 : and_f p [z0; 1 - (1 - z1)] == and_f p [z0; z1]) by (unfold and_f; apply clamp01_compat; rewrite Hws; cbn [tsum]; ring).
    destruct Zf as [G1 G2]. unfold inb, neg in *; cbn [lo hi] in *. split; lra.
Qed.

(* both operands after the Implies step, in terms of the dual And step *)
Lemma step_x_imp_and :
  bnd_eq (nth 0 (step_x CImp p y [b0; b1]) unknown) (nth 0 (step_x CAnd p (neg y) nbs) unknown) /\
  bnd_eq (nth 1 (step_x CImp p y [b0; b1]) unknown) (neg (nth 1 (step_x CAnd p (neg y) nbs) unknown)).
Proof.
  pose proof step_y_imp_and as E.
  assert (Ey : bnd_eq (neg (step_y CImp p y [b0; b1])) (step_y CAnd p (neg y) nbs)).
  { eapply bnd_eq_trans; [|apply neg_neg_eq]. destruct E as [E1 E2]. unfold bnd_eq, neg in *; cbn [lo hi] in *. split; lra. }
  pose proof (and_down_compat p _ _ nbs Ey) as C.
  unfold step_x. cbn [act_down]. unfold imp_down. fold nbs.
  remember (and_down p (neg (step_y CImp p y [b0; b1])) nbs) as r eqn:Er.
  remember (and_down p (step_y CAnd p (neg y) nbs) nbs) as r' eqn:Er'.
  assert (Lr : length r = 2%nat) by (rewrite Er, and_down_length by exact nbs_len_imp; reflexivity).
  assert (Lr' : length r' = 2%nat) by (rewrite Er', and_down_length by exact nbs_len_imp; reflexivity).
  destruct r as [|r0 [|r1 [|]]]; cbn [length] in Lr; try discriminate.
  destruct r' as [|r0' [|r1' [|]]]; cbn [length] in Lr'; try discriminate.
  inversion C as [|? ? ? ? C0 C1]; subst. inversion C1 as [|? ? ? ? C2 _]; subst.
  unfold nbs. cbn [combine map nth fst snd]. split; [apply agg_same; exact C0 | apply agg_flip; exact C2].
Qed.

Theorem imp_operands_attained :
  ((exists xs, feasible CImp p y [b0; b1] xs /\ nth 0 xs 0 == lo (nth 0 (step_x CImp p y [b0; b1]) unknown)) /\
   (exists xs, feasible CImp p y [b0; b1] xs /\ nth 0 xs 0 == hi (nth 0 (step_x CImp p y [b0; b1]) unknown))) /\
  ((exists xs, feasible CImp p y [b0; b1] xs /\ nth 1 xs 0 == lo (nth 1 (step_x CImp p y [b0; b1]) unknown)) /\
   (exists xs, feasible CImp p y [b0; b1] xs /\ nth 1 xs 0 == hi (nth 1 (step_x CImp p y [b0; b1]) unknown))).
Proof.
  destruct step_x_imp_and as [[A1 A2] [B1 B2]]. unfold neg in B1, B2; cbn [lo hi] in B1, B2.
  assert (K0 : (0 < length nbs)%nat) by (unfold nbs; cbn [length]; lia).
  assert (K1 : (1 < length nbs)%nat) by (unfold nbs; cbn [length]; lia).
  destruct (and_operand_attained p (neg y) nbs _ 0%nat Hw_imp (wf_neg y Hy) nbs_ord nbs_len_imp dual_feasible_imp K0 Halpha) as [[zl [Zfl Zkl]] [zu [Zfu Zku]]].
  destruct (and_operand_attained p (neg y) nbs _ 1%nat Hw_imp (wf_neg y Hy) nbs_ord nbs_len_imp dual_feasible_imp K1 Halpha) as [[tl [Tfl Tkl]] [tu [Tfu Tku]]].
  split; split.
  - destruct (back_feasible_imp zl Zfl) as [z0 [z1 [-> F]]]. exists [z0; 1 - z1]. split; [exact F|]. cbn [nth] in *. rewrite Zkl, A1. reflexivity.
  - destruct (back_feasible_imp zu Zfu) as [z0 [z1 [-> F]]]. exists [z0; 1 - z1]. split; [exact F|]. cbn [nth] in *. rewrite Zku, A2. reflexivity.
  - destruct (back_feasible_imp tu Tfu) as [z0 [z1 [-> F]]]. exists [z0; 1 - z1]. split; [exact F|]. cbn [nth] in *. rewrite Tku, B1. reflexivity.
  - destruct (back_feasible_imp tl Tfl) as [z0 [z1 [-> F]]]. exists [z0; 1 - z1]. split; [exact F|]. cbn [nth] in *. rewrite Tkl, B2. reflexivity.
Qed.
End ImpOperands.


(* ================================ infeasibility and the connective's own interval, by duality ================================ *)
Lemma ordered_lo_neg bs : Forall (fun b => lo b <= hi b) bs -> Forall (fun b => lo b <= hi b) (map neg bs).
Proof. apply ordered_neg. Qed.

Theorem or_infeasible_contradiction p y bs : nonneg (weights p) -> length (weights p) = length bs -> wf_bnd y ->
  Forall (fun b => lo b <= hi b) bs -> (forall xs, ~ feasible COr p y bs xs) ->
  hi (step_y COr p y bs) < lo (step_y COr p y bs).
Proof.
  intros Hw Hl Hy Ho Hnone.
  assert (Hnone' : forall zs, ~ feasible CAnd p (neg y) (map neg bs) zs).
  { intros zs [Zb Zf]. apply (Hnone (map compl zs)).
    assert (Lz : length (weights p) = length zs) by (rewrite Hl; pose proof (Forall2_length _ _ _ Zb) as H; rewrite map_length in H; exact H).
    split; [apply boxed_neg_inv; exact Zb|]. cbn [act_f] in *.
    pose proof (or_f_of_compl p zs Hw Lz) as Eo. destruct Zf as [G1 G2]. unfold inb, neg in *; cbn [lo hi] in *. split; lra. }
  pose proof (and_infeasible_contradiction p (neg y) (map neg bs) Hw (wf_neg y Hy) (ordered_neg bs Ho) Hnone') as C.
  destruct (step_y_or_and p y bs Hw Hl) as [E1 E2]. unfold neg in E1, E2, C; cbn [lo hi] in E1, E2, C. lra.
Qed.

Section ImpConnective.
Variable p : nparams.
Variables w0 w1 : Q.
Hypothesis Hws : weights p = [w0; w1].
Hypothesis Hw0 : 0 <= w0.
Hypothesis Hw1 : 0 <= w1.
Variable y : bnd.
Hypothesis Hy : wf_bnd y.
Variables b0 b1 : bnd.
Hypothesis Ho : Forall (fun b => lo b <= hi b) [b0; b1].

Let nbs := [b0; neg b1].
Lemma nbs_ord_lo : Forall (fun b => lo b <= hi b) nbs.
Proof.
  inversion Ho as [|? ? H0 H1]; subst. inversion H1 as [|? ? H2 _]; subst. unfold nbs. constructor; [exact H0|]. constructor; [|constructor].
  unfold neg; cbn [lo hi]. lra.
Qed.

Lemma imp_to_and z0 z1 : feasible CImp p y [b0; b1] [z0; z1] -> feasible CAnd p (neg y) nbs [z0; 1 - z1].
Proof.
  intros [Hb Hf]. inversion Hb as [|? ? ? ? I0 Hb1]; subst. inversion Hb1 as [|? ? ? ? I1 _]; subst. split.
  - unfold nbs. constructor; [exact I0|]. constructor; [|constructor]. destruct I1. unfold inb, neg; cbn [lo hi]. split; lra.
  - cbn [act_f] in *. pose proof (imp_f_and p w0 w1 Hws z0 z1) as E. destruct Hf as [F1 F2]. unfold inb, neg; cbn [lo hi]. split; lra.
Qed.
Lemma and_to_imp zs : feasible CAnd p (neg y) nbs zs -> exists z0 z1, zs = [z0; z1] /\ feasible CImp p y [b0; b1] [z0; 1 - z1].
Proof. apply (back_feasible_imp p w0 w1 Hws y b0 b1). Qed.

Theorem imp_connective_hull : (exists xs, feasible CImp p y [b0; b1] xs) ->
  (exists xs, feasible CImp p y [b0; b1] xs /\ imp_f p xs == lo (step_y CImp p y [b0; b1])) /\
  (exists xs, feasible CImp p y [b0; b1] xs /\ imp_f p xs == hi (step_y CImp p y [b0; b1])).
Proof.
  intros [x0 Hf0]. pose proof Hf0 as [Hb0 _]. inversion Hb0 as [|? a0 ? r I0 Hb1]; subst. inversion Hb1 as [|? a1 ? r' I1 Hb2]; subst. inversion Hb2; subst.
  assert (Hw : nonneg (weights p)) by (rewrite Hws; repeat constructor; assumption).
  destruct (and_connective_hull p (neg y) nbs Hw (wf_neg y Hy) nbs_ord_lo (ex_intro _ _ (imp_to_and a0 a1 Hf0))) as [[z1s [Zf1 Zv1]] [z2s [Zf2 Zv2]]].
  destruct (step_y_imp_and p w0 w1 Hws y b0 b1) as [E1 E2]. unfold neg in E1, E2; cbn [lo hi] in E1, E2. fold nbs in E1, E2.
  destruct (and_to_imp z1s Zf1) as [u0 [u1 [-> F1]]]. destruct (and_to_imp z2s Zf2) as [v0 [v1 [-> F2]]].
  assert (X : forall t0 t1, and_f p [t0; 1 - (1 - t1)] == and_f p [t0; t1]) by (intros; unfold and_f; apply clamp01_compat; rewrite Hws; cbn [tsum]; ring).
  split.
  - exists [v0; 1 - v1]. split; [exact F2|]. rewrite (imp_f_and p w0 w1 Hws), X, E1, Zv2. reflexivity.
  - exists [u0; 1 - u1]. split; [exact F1|]. rewrite (imp_f_and p w0 w1 Hws), X, E2, Zv1. reflexivity.
Qed.

Theorem imp_infeasible_contradiction : (forall xs, ~ feasible CImp p y [b0; b1] xs) ->
  hi (step_y CImp p y [b0; b1]) < lo (step_y CImp p y [b0; b1]).
Proof.
  intros Hnone.
  assert (Hw : nonneg (weights p)) by (rewrite Hws; repeat constructor; assumption).
  assert (Hnone' : forall zs, ~ feasible CAnd p (neg y) nbs zs).
  { intros zs Zf. destruct (and_to_imp zs Zf) as [z0 [z1 [_ F]]]. exact (Hnone _ F). }
  pose proof (and_infeasible_contradiction p (neg y) nbs Hw (wf_neg y Hy) nbs_ord_lo Hnone') as C.
  destruct (step_y_imp_and p w0 w1 Hws y b0 b1) as [E1 E2]. unfold nbs in C. unfold neg in E1, E2, C; cbn [lo hi] in E1, E2, C. lra.
Qed.
End ImpConnective.
