(* MonoProofs.v -- C07: inference steps are monotone w.r.t. the tightening order on
   contradiction-free states; confluence of fixpoints. *)
From LNN Require Import Num Neuron Node PropEngine.
From LNN.proofs Require Import NodeProofs NeuronProofs PropProofs.
Open Scope Q_scope.

Definition sle (s s' : state) : Prop := forall i, tighter (s i) (s' i).   (* s' at least as tight *)

Lemma neg_anti a b : tighter a b -> tighter (neg a) (neg b).
Proof. unfold tighter, neg; cbn [lo hi]. intros [? ?]. split; lra. Qed.

Lemma Forall2_tighter_neg bs bs' : Forall2 tighter bs bs' -> Forall2 tighter (map neg bs) (map neg bs').
Proof. induction 1; cbn [map]; constructor; auto. apply neg_anti; assumption. Qed.

(* ---------- sums ---------- *)
Lemma tsum_anti ws bs bs' : nonneg ws -> Forall2 tighter bs bs' ->
  tsum ws (los bs') <= tsum ws (los bs) /\ tsum ws (his bs) <= tsum ws (his bs').
Proof.
  intros Hw H. revert ws Hw. induction H as [|b b' bs bs' [H1 H2] H IH]; intros ws Hw;
    destruct ws as [|w ws]; cbn [tsum los his map]; try lra.
  inversion Hw as [|? ? Hw0 Hws]; subst. destruct (IH ws Hws). unfold los, his in *. split; nra.
Qed.

Lemma tsum_partial_anti ws bs bs' k : nonneg ws -> Forall2 tighter bs bs' ->
  tsum ws (los bs') - nth k ws 0 * (1 - lo (nth k bs' unknown)) <= tsum ws (los bs) - nth k ws 0 * (1 - lo (nth k bs unknown)) /\
  tsum ws (his bs) - nth k ws 0 * (1 - hi (nth k bs unknown)) <= tsum ws (his bs') - nth k ws 0 * (1 - hi (nth k bs' unknown)).
Proof.
  intros Hw H. revert ws k Hw. induction H as [|b b' bs bs' [H1 H2] H IH]; intros ws k Hw.
  - destruct ws, k; cbn [tsum los his map nth]; split; lra.
  - destruct ws as [|w ws]; [destruct k; cbn [tsum los his map nth]; split; lra|].
    inversion Hw as [|? ? Hw0 Hws]; subst.
    destruct k as [|k]; cbn [tsum los his map nth].
    + destruct (tsum_anti ws bs bs' Hws H). unfold los, his in *. split; lra.
    + destruct (IH ws k Hws). unfold los, his in *. split; nra.
Qed.

(* ---------- upward ---------- *)
Lemma and_up_mono p bs bs' : nonneg (weights p) -> Forall2 tighter bs bs' -> tighter (and_up p bs) (and_up p bs').
Proof.
  intros Hw H. destruct (tsum_anti _ _ _ Hw H). unfold tighter, and_up; cbn [lo hi]. split; apply clamp01_mono; lra.
Qed.

Lemma tighter_eq a a' b b' : bnd_eq a a' -> bnd_eq b b' -> tighter a b -> tighter a' b'.
Proof. unfold bnd_eq, tighter. intros [? ?] [? ?] [? ?]. split; lra. Qed.

Lemma bnd_eq_sym a b : bnd_eq a b -> bnd_eq b a.
Proof. unfold bnd_eq. intros [? ?]. split; lra. Qed.

Lemma or_up_mono p bs bs' : nonneg (weights p) -> length (weights p) = length bs -> Forall2 tighter bs bs' ->
  tighter (or_up p bs) (or_up p bs').
Proof.
  intros Hw Hl H. pose proof (Forall2_length _ _ _ H) as Hl2.
  eapply tighter_eq.
  - apply bnd_eq_sym. apply (or_up_and p bs Hw Hl).
  - apply bnd_eq_sym. apply (or_up_and p bs' Hw). congruence.
  - apply neg_anti. apply and_up_mono; [exact Hw | apply Forall2_tighter_neg; exact H].
Qed.

Lemma imp_up_mono p b0 b1 c0 c1 w0 w1 : weights p = [w0; w1] -> 0 <= w0 -> 0 <= w1 ->
  tighter b0 c0 -> tighter b1 c1 -> tighter (imp_up p [b0; b1]) (imp_up p [c0; c1]).
Proof.
  intros E H0 H1 [? ?] [? ?]. unfold tighter, imp_up. rewrite E. cbn [lo hi]. split; apply clamp01_mono; nra.
Qed.

Lemma act_up_mono c p bs cs : conn_wf c p (length bs) -> Forall2 tighter bs cs ->
  tighter (act_up c p bs) (act_up c p cs).
Proof.
  intros (Ha & Hw & Hl & Hi) H. destruct c; cbn [act_up].
  - apply and_up_mono; assumption.
  - apply or_up_mono; assumption.
  - specialize (Hi eq_refl).
    destruct bs as [|b0 [|b1 [|? ?]]]; cbn [length] in Hi; try discriminate.
    inversion H as [|? c0 ? ? T0 H1]; subst. inversion H1 as [|? c1 ? ? T1 H2]; subst. inversion H2; subst.
    destruct (weights p) as [|w0 [|w1 [|? ?]]] eqn:Ew; cbn [length] in Hl; try discriminate.
    inversion Hw as [|? ? Hw0 Hw1]; subst. inversion Hw1 as [|? ? Hw2 ?]; subst.
    eapply imp_up_mono; eauto.
Qed.

(* ---------- downward ---------- *)
Lemma div_mono a b w : 0 < w -> a <= b -> a / w <= b / w.
Proof.
  intros Hw H. apply Qle_shift_div_l; [exact Hw|].
  assert (E : a / w * w == a) by (field; lra). lra.
Qed.

Lemma and_down_one_mono al b W Tl Tu L U w x Sl Su M V z :
  al <= 1 -> 0 <= w -> L <= M -> V <= U ->
  Tu - w * (1 - hi x) <= Su - w * (1 - hi z) ->
  Sl - w * (1 - lo z) <= Tl - w * (1 - lo x) ->
  tighter (and_down_one al b W Tl Tu L U w x) (and_down_one al b W Sl Su M V w z).
Proof.
  intros Hal Hw HL HU HPu HPl. unfold and_down_one, tighter.
  destruct (qeqb w 0) eqn:Ew; [cbn [unknown lo hi]; split; lra|]. apply qeqb_false in Ew.
  assert (Hwpos : 0 < w) by (destruct (Qlt_le_dec 0 w); [assumption | exfalso; apply Ew; lra]).
  cbn [lo hi]. split.
  - destruct (qltb (1 - al) L) eqn:Eg.
    + apply qltb_true in Eg. assert (Eg2 : qltb (1 - al) M = true) by (apply qltb_true; lra). rewrite Eg2.
      assert (E0 : qleb L 0 = false) by (apply qleb_false; lra).
      assert (E1 : qleb M 0 = false) by (apply qleb_false; lra). rewrite E0, E1.
      apply clamp01_mono.
      pose proof (div_mono (L - b + (Tu - w * (1 - hi x))) (M - b + (Su - w * (1 - hi z))) w Hwpos ltac:(lra)). lra.
    + destruct (qltb (1 - al) M); [apply clamp01_range | lra].
  - destruct (qltb U al) eqn:Eg.
    + apply qltb_true in Eg. assert (Eg2 : qltb V al = true) by (apply qltb_true; lra). rewrite Eg2.
      assert (E0 : qleb 1 U = false) by (apply qleb_false; lra).
      assert (E1 : qleb 1 V = false) by (apply qleb_false; lra). rewrite E0, E1.
      apply clamp01_mono.
      pose proof (div_mono (V - b + (Sl - w * (1 - lo z))) (U - b + (Tl - w * (1 - lo x))) w Hwpos ltac:(lra)). lra.
    + destruct (qltb V al); [apply clamp01_range | lra].
Qed.

Lemma and_down_mono p y z bs cs : alpha p <= 1 -> nonneg (weights p) -> length (weights p) = length bs ->
  tighter y z -> Forall2 tighter bs cs ->
  Forall2 tighter (and_down p y bs) (and_down p z cs).
Proof.
  intros Hal Hw Hl [HL HU] H. pose proof (Forall2_length _ _ _ H) as Hl2.
  apply (Forall2_of_nth tighter unknown unknown).
  - rewrite !and_down_length; congruence.
  - intros k Hk. rewrite and_down_length in Hk by congruence.
    rewrite !nth_and_down by congruence.
    destruct (tsum_partial_anti (weights p) bs cs k Hw H) as [P1 P2].
    apply and_down_one_mono; try assumption.
    apply (proj1 (Forall_forall _ _) Hw). apply nth_In. lia.
Qed.

Lemma or_down_mono p y z bs cs : alpha p <= 1 -> nonneg (weights p) -> length (weights p) = length bs ->
  tighter y z -> Forall2 tighter bs cs ->
  Forall2 tighter (or_down p y bs) (or_down p z cs).
Proof.
  intros Hal Hw Hl Hy H. unfold or_down. apply Forall2_tighter_neg.
  apply and_down_mono; try assumption.
  - rewrite map_length; exact Hl.
  - apply neg_anti; exact Hy.
  - apply Forall2_tighter_neg; exact H.
Qed.

Lemma imp_down_mono p y z b0 b1 c0 c1 : alpha p <= 1 -> nonneg (weights p) -> length (weights p) = 2%nat ->
  tighter y z -> tighter b0 c0 -> tighter b1 c1 ->
  Forall2 tighter (imp_down p y [b0; b1]) (imp_down p z [c0; c1]).
Proof.
  intros Hal Hw Hl Hy T0 T1. unfold imp_down.
  assert (H : Forall2 tighter (and_down p (neg y) [b0; neg b1]) (and_down p (neg z) [c0; neg c1])).
  { apply and_down_mono; try assumption; [apply neg_anti; exact Hy|].
    constructor; [exact T0|]. constructor; [apply neg_anti; exact T1 | constructor]. }
  pose proof (and_down_length p (neg y) [b0; neg b1] Hl) as L1.
  pose proof (and_down_length p (neg z) [c0; neg c1] Hl) as L2.
  destruct (and_down p (neg y) [b0; neg b1]) as [|r0 [|r1 [|? ?]]]; cbn [length] in L1; try discriminate.
  destruct (and_down p (neg z) [c0; neg c1]) as [|q0 [|q1 [|? ?]]]; cbn [length] in L2; try discriminate.
  inversion H as [|? ? ? ? R0 H1]; subst. inversion H1 as [|? ? ? ? R1 ?]; subst.
  constructor; [exact R0|]. constructor; [apply neg_anti; exact R1 | constructor].
Qed.

Lemma act_down_mono c p y z bs cs : conn_wf c p (length bs) -> tighter y z -> Forall2 tighter bs cs ->
  Forall2 tighter (act_down c p y bs) (act_down c p z cs).
Proof.
  intros (Ha & Hw & Hl & Hi) Hy H. destruct c; cbn [act_down].
  - apply and_down_mono; assumption.
  - apply or_down_mono; assumption.
  - specialize (Hi eq_refl).
    destruct bs as [|b0 [|b1 [|? ?]]]; cbn [length] in Hi; try discriminate.
    inversion H as [|? c0 ? ? T0 H1]; subst. inversion H1 as [|? c1 ? ? T1 H2]; subst. inversion H2; subst.
    apply imp_down_mono; assumption.
Qed.

(* ---------- contradiction is upward closed under tightening ---------- *)
Lemma contra_up al a b : alpha_ok al -> wf_bnd a -> wf_bnd b -> tighter a b ->
  is_contra al a = true -> is_contra al b = true.
Proof.
  intros Ha [Al Au] [Bl Bu] [T1 T2] H.
  apply is_contra_iff in H; [|exact Ha | exact Al | exact Au].
  apply is_contra_iff; [exact Ha | exact Bl | exact Bu|].
  destruct Ha as [Ha1 Ha2]. destruct H as (H1 & H2 & H3). unfold crossed_outside_tolerance.
  split; [lra|]. split; intros [? ?].
  - apply H2. split; lra.
  - apply H3. split; lra.
Qed.

Lemma existsb_impl {T} (f g : T -> bool) l : (forall x, In x l -> f x = true -> g x = true) ->
  existsb f l = true -> existsb g l = true.
Proof.
  intros H E. apply existsb_exists in E. destruct E as [x [Hx Hf]]. apply existsb_exists. exists x. split; auto.
Qed.

Section Mono.
Variable k : kb.
Hypothesis Hwf : wf_kb k.

Lemma obj_alpha_ok i : (i < length k)%nat -> alpha_ok (oalpha (getobj k i)).
Proof. intros Hi. destruct (Hwf i Hi) as (_ & _ & Ha & _). exact Ha. Qed.

Lemma arrested_up s t i : (i < length k)%nat -> Range s -> Range t -> sle s t ->
  arrested k s i = true -> arrested k t i = true.
Proof.
  intros Hi HR HR2 Hs H. unfold arrested in *.
  pose proof (ops_lt k i Hwf Hi) as Ho.
  apply orb_true_iff in H. apply orb_true_iff. destruct H as [H|H].
  - left. apply orb_true_iff in H. apply orb_true_iff. destruct H as [H|H].
    + left. unfold obj_contra in *. eapply contra_up; [apply obj_alpha_ok; exact Hi | apply HR | apply HR2 | apply Hs | exact H].
    + right. eapply existsb_impl; [|exact H]. intros j Hj Hc. unfold obj_contra in *.
      pose proof (proj1 (Forall_forall _ _) Ho j Hj) as Hjl.
      eapply contra_up; [apply obj_alpha_ok; exact Hjl | apply HR | apply HR2 | apply Hs | exact Hc].
  - right. eapply existsb_impl; [|exact H]. intros j Hj Hc.
    eapply contra_up; [apply obj_alpha_ok; exact Hi | apply HR | apply HR2 | apply Hs | exact Hc].
Qed.

Definition clean (s : state) : Prop := forall i, (i < length k)%nat -> arrested k s i = false.

Lemma clean_down s t : Range s -> Range t -> sle s t -> clean t -> clean s.
Proof.
  intros HR HR2 Hs Hc i Hi. destruct (arrested k s i) eqn:E; [|reflexivity].
  specialize (Hc i Hi). rewrite (arrested_up s t i Hi HR HR2 Hs E) in Hc. discriminate.
Qed.

(* batches related position-wise: same targets, tighter proposals *)
Definition batch_le (b c : batch) : Prop :=
  Forall2 (fun jb jc => fst jb = fst jc /\ tighter (snd jb) (snd jc)) b c.

Lemma agg_mono old old2 new new2 : tighter old old2 -> tighter new new2 ->
  tighter (agg_bnd WBoth old new) (agg_bnd WBoth old2 new2).
Proof.
  intros [S1 S2] [T1 T2]. unfold agg_bnd, tighter; cbn [lo hi]. split; apply clamp01_mono; qcases; lra.
Qed.

Lemma apply_batch_mono b c : batch_le b c -> forall s t a a2, sle s t ->
  sle (fst (apply_batch (s, a) b)) (fst (apply_batch (t, a2) c)).
Proof.
  induction 1 as [|jb jc b c [Ej Tj] H IH]; intros s t a a2 Hs; cbn [apply_batch fold_left]; [exact Hs|].
  change (fold_left write ?b ?x) with (apply_batch x b).
  destruct (write (s, a) jb) as [s1 a1] eqn:E1. destruct (write (t, a2) jc) as [t1 a3] eqn:E2.
  apply IH.
  assert (F1 : s1 = fst (write (s, a) jb)) by (rewrite E1; reflexivity).
  assert (F2 : t1 = fst (write (t, a2) jc)) by (rewrite E2; reflexivity).
  rewrite F1, F2, !write_state. intros i. unfold upd. rewrite <- Ej. destruct (Nat.eqb i (fst jb)).
  - unfold wres, tighter. rewrite !lo_bred, !hi_bred. rewrite <- Ej. apply agg_mono; [apply Hs | exact Tj].
  - apply Hs.
Qed.

Lemma Forall2_map_state s t l : sle s t -> Forall2 tighter (map s l) (map t l).
Proof. intros H. induction l; cbn [map]; constructor; auto. Qed.

Lemma batch_le_select idx (l m : list bnd) (ops : list nat) : Forall2 tighter l m ->
  batch_le (map (fun p : nat * (bnd * nat) => (snd (snd p), fst (snd p))) (select idx (combine l ops)))
           (map (fun p : nat * (bnd * nat) => (snd (snd p), fst (snd p))) (select idx (combine m ops))).
Proof.
  intros H. unfold select, batch_le.
  assert (Hlen : length (combine l ops) = length (combine m ops)).
  { rewrite !combine_length. rewrite (Forall2_length _ _ _ H). reflexivity. }
  rewrite <- Hlen. clear Hlen. generalize (length (combine l ops)) as n. intros n.
  assert (G : forall a, Forall2 (fun p q : nat * (bnd * nat) => fst p = fst q /\ tighter (fst (snd p)) (fst (snd q)) /\ snd (snd p) = snd (snd q))
                   (combine (seq a n) (combine l ops)) (combine (seq a n) (combine m ops))).
  { revert ops n. induction H as [|x y l m Hx H IH]; intros ops n a.
    - cbn [combine]. destruct (seq a n); constructor.
    - destruct ops as [|o ops]; [cbn [combine]; destruct (seq a n); constructor|].
      destruct n as [|n]; cbn [seq combine]; [constructor|].
      constructor; [cbn [fst snd]; auto|]. apply IH. }
  specialize (G 0%nat).
  destruct idx as [x|].
  - induction G as [|p q r r2 (E & T & O) G IHG]; cbn [filter map]; [constructor|].
    rewrite <- E. destruct (Nat.eqb (fst p) x); cbn [map]; [constructor; [|exact IHG]|exact IHG].
    cbn [fst snd]. split; [exact O | exact T].
  - induction G as [|p q r r2 (E & T & O) G IHG]; cbn [map]; constructor; [|exact IHG].
    cbn [fst snd]. split; [exact O | exact T].
Qed.

(* a primitive step is monotone between states that are not arrested at its object *)
Lemma plan_mono s t p : valid_prim k p -> sle s t ->
  match p with PUp i | PDown i _ => arrested k s i = false /\ arrested k t i = false | _ => True end ->
  batch_le (plan k s p) (plan k t p).
Proof.
  intros Hv Hs Ha. pose proof (valid_lt k p Hv) as Hi.
  destruct p as [i|i idx|i|i]; cbn [plan valid_prim] in *.
  - destruct Ha as [A1 A2]. rewrite A1, A2. constructor; [|constructor]. cbn [fst snd]. split; [reflexivity|].
    apply act_up_mono; [rewrite map_length; apply neuron_conn_wf; assumption | apply Forall2_map_state; exact Hs].
  - destruct Ha as [A1 A2]. rewrite A1, A2. apply batch_le_select.
    apply act_down_mono; [rewrite map_length; apply neuron_conn_wf; assumption | apply Hs | apply Forall2_map_state; exact Hs].
  - destruct (oops (getobj k i)) as [|j r]; constructor; [|constructor]. cbn [fst snd].
    split; [reflexivity | apply neg_anti; apply Hs].
  - destruct (oops (getobj k i)) as [|j r]; constructor; [|constructor]. cbn [fst snd].
    split; [reflexivity | apply neg_anti; apply Hs].
Qed.

Lemma run_prim_mono s t a a2 p : valid_prim k p -> Range s -> Range t -> sle s t -> clean t ->
  sle (fst (run_prim k (s, a) p)) (fst (run_prim k (t, a2) p)).
Proof.
  intros Hv HR HR2 Hs Hc. unfold run_prim. cbn [fst]. apply apply_batch_mono; [|exact Hs].
  apply plan_mono; [exact Hv | exact Hs|].
  pose proof (valid_lt k p Hv) as Hi. pose proof (clean_down s t HR HR2 Hs Hc) as Hc2.
  destruct p; auto.
Qed.

Lemma sle_trans s t u : sle s t -> sle t u -> sle s u.
Proof. intros H1 H2 i. eapply tighter_trans; [apply H1 | apply H2]. Qed.

(* a fixpoint: no valid primitive step tightens anything *)
Definition fixpoint (s : state) : Prop :=
  forall p, valid_prim k p -> sle (fst (run_prim k (s, 0) p)) s.

(* every state reachable from below a clean fixpoint stays below it *)
Theorem below_fixpoint ps : Forall (valid_prim k) ps ->
  forall s1 s a, Range s1 -> clean s1 -> fixpoint s1 -> Range s -> sle s s1 ->
  sle (fst (run_prims k (s, a) ps)) s1.
Proof.
  induction 1 as [|p ps Hp Hps IH]; intros s1 s a HR1 Hc Hf HR Hs; cbn [run_prims fold_left]; [exact Hs|].
  change (fold_left (run_prim k) ps ?x) with (run_prims k x ps).
  destruct (run_prim k (s, a) p) as [t b] eqn:E.
  assert (Ft : t = fst (run_prim k (s, a) p)) by (rewrite E; reflexivity).
  apply IH; try assumption.
  - rewrite Ft. apply run_prim_range. exact HR.
  - rewrite Ft. eapply sle_trans; [apply (run_prim_mono s s1 a 0 p Hp HR HR1 Hs Hc) | apply Hf; exact Hp].
Qed.

(* C07: two fixpoints reached from the same start by any schedules coincide, provided one of
   them is contradiction-free; and then every reachable state is contradiction-free *)
Theorem confluence ps qs s0 : Forall (valid_prim k) ps -> Forall (valid_prim k) qs -> Range s0 ->
  let s1 := fst (run_prims k (s0, 0) ps) in
  let s2 := fst (run_prims k (s0, 0) qs) in
  clean s1 -> fixpoint s1 -> fixpoint s2 ->
  clean s2 /\ forall i, bnd_eq (s1 i) (s2 i).
Proof.
  intros Hps Hqs HR s1 s2 Hc1 Hf1 Hf2.
  assert (HR1 : Range s1) by (apply (run_prims_range k ps (s0, 0) HR)).
  assert (HR2 : Range s2) by (apply (run_prims_range k qs (s0, 0) HR)).
  assert (L0 : sle s0 s1) by (intros i; apply (run_prims_tighter k ps (s0, 0) HR)).
  assert (L2 : sle s0 s2) by (intros i; apply (run_prims_tighter k qs (s0, 0) HR)).
  assert (A : sle s2 s1) by (apply (below_fixpoint qs Hqs s1 s0 0 HR1 Hc1 Hf1 HR L0)).
  assert (Hc2 : clean s2) by (apply (clean_down s2 s1 HR2 HR1 A Hc1)).
  assert (Bq : sle s1 s2) by (apply (below_fixpoint ps Hps s2 s0 0 HR2 Hc2 Hf2 HR L2)).
  split; [exact Hc2|]. intros i. destruct (A i) as [A1 A2]. destruct (Bq i) as [B1 B2]. unfold bnd_eq. split; lra.
Qed.

Theorem reachable_clean ps qs s0 : Forall (valid_prim k) ps -> Forall (valid_prim k) qs -> Range s0 ->
  let s1 := fst (run_prims k (s0, 0) ps) in
  clean s1 -> fixpoint s1 -> clean (fst (run_prims k (s0, 0) qs)) /\ sle (fst (run_prims k (s0, 0) qs)) s1.
Proof.
  intros Hps Hqs HR s1 Hc1 Hf1.
  assert (HR1 : Range s1) by (apply (run_prims_range k ps (s0, 0) HR)).
  assert (L0 : sle s0 s1) by (intros i; apply (run_prims_tighter k ps (s0, 0) HR)).
  assert (A : sle (fst (run_prims k (s0, 0) qs)) s1) by (apply (below_fixpoint qs Hqs s1 s0 0 HR1 Hc1 Hf1 HR L0)).
  split; [|exact A]. eapply clean_down; [apply (run_prims_range k qs (s0, 0) HR) | exact HR1 | exact A | exact Hc1].
Qed.
End Mono.
