(* TrainProofs.v -- C18: training only moves parameters, leaves them admissible, ends in an inferred state; the
   losses are non-negative and vanish exactly when they should. *)
From LNN Require Import Num Neuron Node PropEngine Train.
From LNN.Generated Require Import Tables.
From LNN.proofs Require Import NodeProofs NeuronProofs PropProofs.
Open Scope Q_scope.

(* ---------- projection ---------- *)
Lemma project_w_nonneg c w : p_negw c = false -> 0 <= project_w c w.
Proof. intros H. unfold project_w, project_weight_min. rewrite H. destruct (p_wmax c); qcases; lra. Qed.
Lemma project_w_max c w m : p_wmax c = Some m -> 0 <= m -> project_w c w <= m /\ (p_negw c = true -> - m <= project_w c w).
Proof. intros H Hm. unfold project_w, project_weight_min. rewrite H. destruct (p_negw c); split; intros; try discriminate; qcases; lra. Qed.
Lemma project_b_range c b : 0 <= project_b c b /\ forall m, p_bmax c = Some m -> 0 <= m -> project_b c b <= m.
Proof.
  unfold project_b, project_bias_min. destruct (p_bmax c) as [m0|]; split; try (qcases; lra).
  - intros m E Hm. inversion E; subst. qcases; lra.
  - intros m E. discriminate.
Qed.

Definition neuronb (kd : kind) : bool := match kd with KConn _ | KIff | KXor => true | _ => false end.
Definition obj_admissible (c : pcfg) (o : obj) : Prop :=
  neuronb (okind o) = true ->
  (p_negw c = false -> Forall (fun w => 0 <= w) (weights (opar o))) /\
  (forall m, p_wmax c = Some m -> 0 <= m -> Forall (fun w => w <= m) (weights (opar o))) /\
  0 <= bias (opar o) /\ (forall m, p_bmax c = Some m -> 0 <= m -> bias (opar o) <= m).
Definition admissible (cfg : nat -> pcfg) (k : kb) : Prop := forall i, (i < length k)%nat -> obj_admissible (cfg i) (getobj k i).

Lemma project_obj_admissible c o : obj_admissible c (project_obj c o).
Proof.
  unfold obj_admissible, project_obj. destruct (okind o) eqn:E; cbn [neuronb okind opar weights bias]; intros H; try (rewrite E in H; discriminate H);
  (split; [intros Hn; apply Forall_forall; intros w Hw; apply in_map_iff in Hw; destruct Hw as [w0 [<- _]]; apply project_w_nonneg; exact Hn|];
   split; [intros m Hm Hm0; apply Forall_forall; intros w Hw; apply in_map_iff in Hw; destruct Hw as [w0 [<- _]]; apply (project_w_max c w0 m Hm Hm0)|];
   apply project_b_range).
Qed.

Lemma getobj_project_kb cfg k i : (i < length k)%nat -> getobj (project_kb cfg k) i = project_obj (cfg i) (getobj k i).
Proof.
  intros Hi. unfold project_kb, getobj.
  rewrite (nth_indep _ dummy_obj (project_obj (cfg i) dummy_obj)) by (rewrite map_length, combine_length, seq_length; lia).
  rewrite (map_nth (fun io => project_obj (cfg (fst io)) (snd io)) (combine (seq 0 (length k)) k) (i, dummy_obj)).
  rewrite combine_nth by apply seq_length. rewrite seq_nth by exact Hi. reflexivity.
Qed.
Lemma length_project_kb cfg k : length (project_kb cfg k) = length k.
Proof. unfold project_kb. rewrite map_length, combine_length, seq_length. lia. Qed.

Theorem project_kb_admissible cfg k : admissible cfg (project_kb cfg k).
Proof. intros i Hi. rewrite length_project_kb in Hi. rewrite getobj_project_kb by exact Hi. apply project_obj_admissible. Qed.

(* projection (and any admissible optimiser) only moves weights and biases *)
Definition shape (o : obj) := (okind o, oops o, oaux o, alpha (opar o), nvar (opar o), length (weights (opar o))).
Definition same_shape (k k' : kb) : Prop := length k = length k' /\ forall i, shape (getobj k i) = shape (getobj k' i).
Lemma same_shape_refl k : same_shape k k. Proof. split; reflexivity. Qed.
Lemma same_shape_trans a b c : same_shape a b -> same_shape b c -> same_shape a c.
Proof. intros [L1 S1] [L2 S2]. split; [congruence | intros i; rewrite S1; apply S2]. Qed.
Lemma project_obj_shape c o : shape (project_obj c o) = shape o.
Proof. unfold project_obj, shape. destruct (okind o) eqn:E; cbn [okind oops oaux opar alpha nvar weights]; rewrite ?map_length, ?E; reflexivity. Qed.
Lemma project_kb_shape cfg k : same_shape k (project_kb cfg k).
Proof.
  split; [symmetry; apply length_project_kb|]. intros i. destruct (Nat.lt_ge_cases i (length k)) as [Hi|Hi].
  - rewrite getobj_project_kb by exact Hi. symmetry. apply project_obj_shape.
  - unfold getobj. rewrite !nth_overflow; [reflexivity | rewrite length_project_kb; exact Hi | exact Hi].
Qed.

Section Train.
Variable opt : nat -> kb -> state -> kb.
Hypothesis opt_ok : forall e k s, same_shape k (opt e k s).
Variable cfg : nat -> pcfg.
Variable roots : list nat.
Variable lab : labels.
Variables use_sup use_con stop : bool.
Variable fuel : nat.

Lemma train_loop_spec n : forall e k leaves cur hist,
  let r := train_loop opt cfg roots lab use_sup use_con stop fuel n e k leaves cur hist in
  same_shape k (fst (fst r)) /\ ((n = 0)%nat \/ exists k', fst (fst r) = project_kb cfg k').
Proof.
  induction n as [|n IH]; intros e k leaves cur hist; cbn zeta; cbn [train_loop].
  - split; [apply same_shape_refl | left; reflexivity].
  - set (s1 := run_infer roots fuel k (if Nat.eqb e 0 then cur else leaves)).
    set (k1 := project_kb cfg (opt e k s1)).
    assert (Hs : same_shape k k1) by (eapply same_shape_trans; [apply opt_ok | apply project_kb_shape]).
    destruct (stop && qleb (total_loss k lab use_sup use_con s1) loss_eps)%bool; cbn [fst].
    + split; [exact Hs | right; eexists; reflexivity].
    + destruct (IH (S e) k1 leaves s1 (hist ++ [(total_loss k lab use_sup use_con s1, k1)])) as [H1 H2]. cbn zeta in *.
      split; [eapply same_shape_trans; eassumption|]. right. destruct H2 as [->|H2]; [cbn [train_loop fst]; eexists; reflexivity | exact H2].
Qed.

(* after at least one epoch every neuron's weights and bias are admissible *)
Theorem train_projected epochs k leaves cur : (1 <= epochs)%nat ->
  admissible cfg (fst (fst (train opt cfg roots lab use_sup use_con stop fuel epochs k leaves cur))).
Proof.
  intros He. unfold train. cbn [fst].
  destruct (train_loop_spec epochs 0 k leaves cur []) as [_ [H|[k' H]]]; [lia|]. cbn zeta in H. rewrite H. apply project_kb_admissible.
Qed.
(* ... and if the initial parameters were admissible, so are the final ones even when no epoch ran *)
Theorem train_admissible epochs k leaves cur : admissible cfg k ->
  admissible cfg (fst (fst (train opt cfg roots lab use_sup use_con stop fuel epochs k leaves cur))).
Proof.
  intros Ha. destruct epochs as [|n]; [exact Ha | apply train_projected; lia].
Qed.

(* only parameters move: kinds, operands, alpha, arity of every formula are those of the initial knowledge base *)
Theorem train_same_shape epochs k leaves cur :
  same_shape k (fst (fst (train opt cfg roots lab use_sup use_con stop fuel epochs k leaves cur))).
Proof. unfold train. cbn [fst]. apply (train_loop_spec epochs 0 k leaves cur []). Qed.

(* the bounds left behind are those reset_bounds() + infer() computes under the final parameters *)
Theorem train_final_state epochs k leaves cur :
  let r := train opt cfg roots lab use_sup use_con stop fuel epochs k leaves cur in
  snd (fst r) = ir_state (infer fuel (fst (fst r)) roots None None None 0 leaves).
Proof. reflexivity. Qed.
End Train.

(* ---------- losses ---------- *)
Lemma qsum_map_nonneg {T} (f : T -> Q) l : (forall x, In x l -> 0 <= f x) -> 0 <= qsum (map f l).
Proof. intros H. apply qsum_nonneg. apply Forall_forall. intros y Hy. apply in_map_iff in Hy. destruct Hy as [x [<- Hx]]. apply H; exact Hx. Qed.
Lemma qsum_map_zero_iff {T} (f : T -> Q) l : (forall x, In x l -> 0 <= f x) -> (qsum (map f l) == 0 <-> forall x, In x l -> f x == 0).
Proof.
  intros H. rewrite qsum_zero_iff.
  - rewrite Forall_forall. split.
    + intros A x Hx. apply A. apply in_map; exact Hx.
    + intros A y Hy. apply in_map_iff in Hy. destruct Hy as [x [<- Hx]]. apply A; exact Hx.
  - apply Forall_forall. intros y Hy. apply in_map_iff in Hy. destruct Hy as [x [<- Hx]]. apply H; exact Hx.
Qed.

Lemma sq_nonneg x : 0 <= sq x.
Proof. unfold sq. destruct (Qlt_le_dec x 0); nra. Qed.
Lemma sq_zero x : sq x == 0 -> x == 0.
Proof. unfold sq. intros H. destruct (Qlt_le_dec x 0); nra. Qed.

Section Loss.
Variable k : kb.
Hypothesis Hwf : wf_kb k.
Variable s : state.
Hypothesis HR : Range s.

Lemma contra_term_nonneg i : (i < length k)%nat -> 0 <= (if obj_contra k s i then lo (s i) - hi (s i) else 0).
Proof.
  intros Hi. destruct (obj_contra k s i) eqn:E; [|lra]. unfold obj_contra in E.
  destruct (Hwf i Hi) as (_ & _ & Ha & _). destruct (HR i) as [Hl Hu].
  apply is_contra_iff in E; [|exact Ha | exact Hl | exact Hu]. destruct E as [E _]. lra.
Qed.

Theorem contradiction_loss_nonneg : 0 <= contradiction_loss k s.
Proof. unfold contradiction_loss. apply qsum_map_nonneg. intros i Hi. apply in_seq in Hi. apply contra_term_nonneg. lia. Qed.

Theorem contradiction_loss_zero_iff : contradiction_loss k s == 0 <-> forall i, (i < length k)%nat -> obj_contra k s i = false.
Proof.
  unfold contradiction_loss. rewrite qsum_map_zero_iff by (intros i Hi; apply in_seq in Hi; apply contra_term_nonneg; lia). split.
  - intros H i Hi. specialize (H i ltac:(apply in_seq; lia)). destruct (obj_contra k s i) eqn:E; [|reflexivity].
    unfold obj_contra in E. destruct (Hwf i Hi) as (_ & _ & Ha & _). destruct (HR i) as [Hl Hu].
    apply is_contra_iff in E; [|exact Ha | exact Hl | exact Hu]. destruct E as [E _]. lra.
  - intros H i Hi. apply in_seq in Hi. rewrite H by lia. reflexivity.
Qed.

Variable lab : labels.
Lemma sup_term_nonneg i : 0 <= match lab i with Some l => (sq (lo (s i) - lo l) + sq (hi (s i) - hi l)) / 2 | None => 0 end.
Proof. destruct (lab i) as [l|]; [|lra]. pose proof (sq_nonneg (lo (s i) - lo l)). pose proof (sq_nonneg (hi (s i) - hi l)). apply Qle_shift_div_l; lra. Qed.

Theorem supervised_loss_nonneg : 0 <= supervised_loss k lab s.
Proof. unfold supervised_loss. apply qsum_map_nonneg. intros i _. apply sup_term_nonneg. Qed.

Theorem supervised_loss_zero_iff : supervised_loss k lab s == 0 <->
  forall i l, (i < length k)%nat -> lab i = Some l -> bnd_eq (s i) l.
Proof.
  unfold supervised_loss. rewrite qsum_map_zero_iff by (intros i _; apply sup_term_nonneg). split.
  - intros H i l Hi El. specialize (H i ltac:(apply in_seq; lia)). rewrite El in H.
    pose proof (sq_nonneg (lo (s i) - lo l)) as N1. pose proof (sq_nonneg (hi (s i) - hi l)) as N2.
    assert (E : sq (lo (s i) - lo l) + sq (hi (s i) - hi l) == 0).
    { assert (X : forall a, a / 2 == 0 -> a == 0) by (intros a Ha; assert (Hx : a == a / 2 * 2) by field; rewrite Hx, Ha; ring). apply X; exact H. }
    assert (E1 : sq (lo (s i) - lo l) == 0) by lra. assert (E2 : sq (hi (s i) - hi l) == 0) by lra.
    apply sq_zero in E1. apply sq_zero in E2. unfold bnd_eq. split; lra.
  - intros H i Hi. apply in_seq in Hi. destruct (lab i) as [l|] eqn:El; [|reflexivity].
    destruct (H i l ltac:(lia) El) as [E1 E2]. unfold sq. rewrite E1, E2. field.
Qed.
End Loss.
