(* DfsProofs.v -- the traversal (networkx dfs_postorder_nodes model): post-order is
   topological, contains every object reachable from the roots exactly once, and nothing else. *)
From LNN Require Import Num Neuron Node PropEngine.
Open Scope nat_scope.

Lemma memb_In x l : memb x l = true <-> In x l.
Proof.
  induction l as [|y l IH]; cbn [memb In]; [split; [discriminate | contradiction]|].
  rewrite orb_true_iff, IH, Nat.eqb_eq. split; intros [H|H]; auto.
Qed.

(* children point to smaller ids *)
Definition dag (k : kb) : Prop := forall i c, In c (children k i) -> c < i.

Lemma wf_dag k : wf_kb k -> dag k.
Proof.
  intros Hwf i c Hc. unfold children in Hc.
  destruct (Nat.lt_ge_cases i (length k)) as [Hi|Hi].
  - destruct (Hwf i Hi) as (H & _). exact (proj1 (Forall_forall _ _) H c Hc).
  - unfold getobj in Hc. rewrite nth_overflow in Hc by exact Hi. cbn in Hc. contradiction.
Qed.

(* reachability *)
Inductive desc (k : kb) : nat -> nat -> Prop :=
| desc_refl i : desc k i i
| desc_step i c x : In c (children k i) -> desc k c x -> desc k i x.

Lemma desc_trans k a b c : desc k a b -> desc k b c -> desc k a c.
Proof. induction 1; intros H2; [exact H2 | eapply desc_step; eauto]. Qed.

(* every element has all its children strictly earlier in the list *)
Definition Topo (k : kb) (l : list nat) : Prop :=
  forall l1 x l2, l = l1 ++ x :: l2 -> forall c, In c (children k x) -> In c l1.

Lemma Topo_nil k : Topo k [].
Proof. intros l1 x l2 H. destruct l1; discriminate. Qed.

Lemma Topo_snoc k l i : Topo k l -> (forall c, In c (children k i) -> In c l) -> Topo k (l ++ [i]).
Proof.
  intros HT Hc l1 x l2 E c Hin.
  destruct l2 as [|y l2].
  - apply app_inj_tail in E. destruct E as [-> ->]. apply Hc; exact Hin.
  - assert (E' : l ++ [i] = (l1 ++ x :: removelast (y :: l2)) ++ [last (y :: l2) 0]).
    { rewrite E. rewrite <- app_assoc. cbn [app]. f_equal. f_equal.
      apply app_removelast_last. discriminate. }
    apply app_inj_tail in E'. destruct E' as [-> _]. eapply HT; [reflexivity | exact Hin].
Qed.

Lemma NoDup_app_snoc (l : list nat) x : NoDup l -> ~ In x l -> NoDup (l ++ [x]).
Proof.
  intros HN Hx. rewrite <- (rev_involutive (l ++ [x])). apply NoDup_rev. rewrite rev_app_distr. cbn [rev app].
  constructor; [rewrite <- in_rev; exact Hx | apply NoDup_rev; exact HN].
Qed.

Section Dfs.
Variable k : kb.
Hypothesis Hdag : dag k.

Lemma fold_dfs_prefix f cs : (forall acc i, exists l, dfs f k acc i = acc ++ l) ->
  forall acc, exists l, fold_left (dfs f k) cs acc = acc ++ l.
Proof.
  intros H. induction cs as [|c cs IH]; intros acc; cbn [fold_left].
  - exists []. rewrite app_nil_r. reflexivity.
  - destruct (H acc c) as [l1 E1]. rewrite E1. destruct (IH (acc ++ l1)) as [l2 E2]. rewrite E2.
    exists (l1 ++ l2). rewrite app_assoc. reflexivity.
Qed.

Lemma dfs_prefix f : forall acc i, exists l, dfs f k acc i = acc ++ l.
Proof.
  induction f as [|f IH]; intros acc i; cbn [dfs].
  - exists []. rewrite app_nil_r. reflexivity.
  - destruct (memb i acc); [exists []; rewrite app_nil_r; reflexivity|].
    destruct (fold_dfs_prefix f (children k i) IH acc) as [l E]. rewrite E.
    exists (l ++ [i]). rewrite app_assoc. reflexivity.
Qed.

Lemma dfs_mono f acc i x : In x acc -> In x (dfs f k acc i).
Proof. intros H. destruct (dfs_prefix f acc i) as [l ->]. apply in_or_app; left; exact H. Qed.
Lemma fold_dfs_mono f cs : forall acc x, In x acc -> In x (fold_left (dfs f k) cs acc).
Proof.
  induction cs as [|c cs IH]; intros acc x H; cbn [fold_left]; [exact H|]. apply IH. apply dfs_mono. exact H.
Qed.

(* with enough fuel the node itself is emitted *)
Lemma dfs_self f : forall acc i, i < f -> In i (dfs f k acc i).
Proof.
  destruct f as [|f]; intros acc i Hi; [lia|]. cbn [dfs].
  destruct (memb i acc) eqn:E; [apply memb_In; exact E|]. apply in_or_app; right; left; reflexivity.
Qed.

Lemma fold_dfs_children f cs : (forall c, In c cs -> c < f) ->
  forall acc c, In c cs -> In c (fold_left (dfs f k) cs acc).
Proof.
  induction cs as [|d cs IH]; intros Hlt acc c Hc; [contradiction|]. cbn [fold_left].
  destruct Hc as [->|Hc].
  - apply fold_dfs_mono. apply dfs_self. apply Hlt; left; reflexivity.
  - apply IH; [intros; apply Hlt; right; assumption | exact Hc].
Qed.

Lemma dfs_topo f : forall acc i, i < f -> Topo k acc -> Topo k (dfs f k acc i).
Proof.
  induction f as [|f IH]; intros acc i Hi HT; [lia|]. cbn [dfs].
  destruct (memb i acc); [exact HT|].
  apply Topo_snoc.
  - assert (G : forall cs, (forall c, In c cs -> c < f) -> forall a, Topo k a -> Topo k (fold_left (dfs f k) cs a)).
    { induction cs as [|c cs IHc]; intros Hlt a Ha; cbn [fold_left]; [exact Ha|].
      apply IHc; [intros; apply Hlt; right; assumption|]. apply IH; [apply Hlt; left; reflexivity | exact Ha]. }
    apply G; [|exact HT]. intros c Hc. pose proof (Hdag i c Hc). lia.
  - intros c Hc. apply fold_dfs_children; [|exact Hc]. intros c' Hc'. pose proof (Hdag i c' Hc'). lia.
Qed.

Lemma dfs_desc f : forall acc i x, In x (dfs f k acc i) -> In x acc \/ desc k i x.
Proof.
  induction f as [|f IH]; intros acc i x H; cbn [dfs] in H; [left; exact H|].
  destruct (memb i acc); [left; exact H|].
  apply in_app_or in H. destruct H as [H|[<-|[]]]; [|right; constructor].
  assert (G : forall cs a, In x (fold_left (dfs f k) cs a) -> In x a \/ exists c, In c cs /\ desc k c x).
  { induction cs as [|c cs IHc]; intros a Ha; cbn [fold_left] in Ha; [left; exact Ha|].
    destruct (IHc _ Ha) as [Hin|[c' [Hc' Hd]]].
    - destruct (IH _ _ _ Hin) as [Hin'|Hd]; [left; exact Hin' | right; exists c; split; [left; reflexivity | exact Hd]].
    - right. exists c'. split; [right; exact Hc' | exact Hd]. }
  destruct (G _ _ H) as [Hin|[c [Hc Hd]]]; [left; exact Hin | right; eapply desc_step; eauto].
Qed.

Lemma dfs_nodup f : forall acc i, NoDup acc -> NoDup (dfs f k acc i).
Proof.
  induction f as [|f IH]; intros acc i HN; cbn [dfs]; [exact HN|].
  destruct (memb i acc) eqn:E; [exact HN|].
  assert (G : forall cs a, NoDup a -> NoDup (fold_left (dfs f k) cs a)).
  { induction cs as [|c cs IHc]; intros a Ha; cbn [fold_left]; [exact Ha | apply IHc; apply IH; exact Ha]. }
  assert (Hni : ~ In i (fold_left (dfs f k) (children k i) acc)).
  { intros Hin.
    assert (G2 : forall cs a, In i (fold_left (dfs f k) cs a) -> In i a \/ exists c, In c cs /\ desc k c i).
    { induction cs as [|c cs IHc]; intros a Ha; cbn [fold_left] in Ha; [left; exact Ha|].
      destruct (IHc _ Ha) as [Hin'|[c' [Hc' Hd]]].
      - destruct (dfs_desc _ _ _ _ Hin') as [Hin''|Hd]; [left; exact Hin'' | right; exists c; split; [left; reflexivity | exact Hd]].
      - right. exists c'. split; [right; exact Hc' | exact Hd]. }
    destruct (G2 _ _ Hin) as [Hacc|[c [Hc Hd]]].
    - apply memb_In in Hacc. congruence.
    - assert (Hle : forall a b, desc k a b -> b <= a).
      { induction 1 as [|a c' b Hc' _ IHd]; [lia|]. pose proof (Hdag a c' Hc'). lia. }
      pose proof (Hle _ _ Hd). pose proof (Hdag i c Hc). lia. }
  apply NoDup_app_snoc; [apply G; exact HN | exact Hni].
Qed.
End Dfs.

(* ---------- the model traversal ---------- *)
Section Postorder.
Variable k : kb.
Hypothesis Hwf : wf_kb k.
Let Hdag := wf_dag k Hwf.

Definition roots_ok (roots : list nat) : Prop := Forall (fun r => r < length k) roots.

Lemma fold_roots_inv (P : list nat -> Prop) roots :
  (forall acc i, i < S (length k) -> P acc -> P (dfs (S (length k)) k acc i)) ->
  roots_ok roots -> forall acc, P acc -> P (fold_left (dfs (S (length k)) k) roots acc).
Proof.
  intros H. induction 1 as [|r roots Hr _ IH]; intros acc HP; cbn [fold_left]; [exact HP|].
  apply IH. apply H; [lia | exact HP].
Qed.

Lemma postorder_topo roots : roots_ok roots -> Topo k (postorder k roots).
Proof.
  intros Hr. unfold postorder. apply (fold_roots_inv (Topo k)); [|exact Hr | apply Topo_nil].
  intros acc i Hi HT. apply dfs_topo; assumption.
Qed.

Lemma postorder_nodup roots : NoDup (postorder k roots).
Proof.
  unfold postorder. generalize (@nil nat) (NoDup_nil nat).
  induction roots as [|r roots IH]; intros acc HN; cbn [fold_left]; [exact HN|].
  apply IH. apply dfs_nodup; assumption.
Qed.

Lemma postorder_roots roots r : roots_ok roots -> In r roots -> In r (postorder k roots).
Proof.
  unfold postorder. generalize (@nil nat).
  induction roots as [|r' roots IH]; intros acc Hok Hin; [contradiction|]. cbn [fold_left].
  inversion Hok as [|? ? Hr' Hok']; subst.
  destruct Hin as [->|Hin]; [|apply IH; assumption].
  apply fold_dfs_mono. apply dfs_self. lia.
Qed.

Lemma postorder_closed roots x c : roots_ok roots -> In x (postorder k roots) -> In c (children k x) ->
  In c (postorder k roots).
Proof.
  intros Hr Hx Hc. apply in_split in Hx. destruct Hx as [l1 [l2 E]].
  pose proof (postorder_topo roots Hr l1 x l2 E c Hc) as H. rewrite E. apply in_or_app; left; exact H.
Qed.

Lemma postorder_desc roots x : In x (postorder k roots) -> exists r, In r roots /\ desc k r x.
Proof.
  unfold postorder.
  assert (G : forall acc, In x (fold_left (dfs (S (length k)) k) roots acc) -> In x acc \/ exists r, In r roots /\ desc k r x).
  { induction roots as [|r roots IH]; intros acc H; cbn [fold_left] in H; [left; exact H|].
    destruct (IH _ H) as [Hin|[r' [Hr' Hd]]].
    - destruct (dfs_desc k _ _ _ _ Hin) as [Hacc|Hd]; [left; exact Hacc | right; exists r; split; [left; reflexivity | exact Hd]].
    - right. exists r'. split; [right; exact Hr' | exact Hd]. }
  intros H. destruct (G [] H) as [[]|H']; exact H'.
Qed.

Lemma postorder_complete roots r x : roots_ok roots -> In r roots -> desc k r x -> In x (postorder k roots).
Proof.
  intros Hok Hr Hd. pose proof (postorder_roots roots r Hok Hr) as Hin. clear Hr.
  induction Hd as [i|i c x Hc Hd IH]; [exact Hin|].
  apply IH. eapply postorder_closed; eauto.
Qed.

(* a traversal from a source visits exactly the descendants of the source *)
Lemma traversal_desc roots d src x : In x (traversal k roots d (Some src)) -> desc k src x.
Proof.
  unfold traversal. intros H. assert (Hin : In x (postorder k [src])) by (destruct d; [exact H | apply in_rev; exact H]).
  destruct (postorder_desc [src] x Hin) as [r [[<-|[]] Hd]]. exact Hd.
Qed.
End Postorder.
