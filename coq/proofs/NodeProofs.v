(* NodeProofs.v -- lemmas about M2 (regions, contradiction, state, aggregation).
   The region/contradiction/state rules are the GENERATED ones, so these proofs are re-checked
   against the current source on every run. *)
From LNN Require Import Num Neuron Node.
Open Scope Q_scope.

Definition alpha_ok (al : Q) : Prop := 1 # 2 < al /\ al <= 1.
Definition in01 (y : Q) : Prop := 0 <= y /\ y <= 1.

Lemma region_cases al y : alpha_ok al -> in01 y ->
  (region_of al y = 1%Z /\ y <= 1 - al) \/
  (region_of al y = 2%Z /\ 1 - al < y /\ y < 1 # 2) \/
  (region_of al y = 3%Z /\ y == 1 # 2) \/
  (region_of al y = 4%Z /\ 1 # 2 < y /\ y < al) \/
  (region_of al y = 5%Z /\ al <= y).
Proof.
  intros [Ha1 Ha2] [Hy1 Hy2].
  unfold region_of, region_rules, Yf_of, Yt_of. cbn [fold_left fst snd andb].
  qbools; cbn [andb]; try lra;
  first [ left; split; [reflexivity | lra]
        | right; left; split; [reflexivity | lra]
        | right; right; left; split; [reflexivity | lra]
        | right; right; right; left; split; [reflexivity | lra]
        | right; right; right; right; split; [reflexivity | lra] ].
Qed.

Lemma region_total al y : alpha_ok al -> in01 y -> (1 <= region_of al y <= 5)%Z.
Proof.
  intros Ha Hy. destruct (region_cases al y Ha Hy) as [[E _]|[[E _]|[[E _]|[[E _]|[E _]]]]]; rewrite E; lia.
Qed.

(* is_contradiction = crossed bounds outside the same-classical-region tolerance *)
Lemma is_contra_iff al b : alpha_ok al -> in01 (lo b) -> in01 (hi b) ->
  (is_contra al b = true <-> crossed_outside_tolerance al b).
Proof.
  intros Ha Hl Hu. unfold is_contra, crossed_outside_tolerance, contra_rule.
  pose proof Ha as [Ha1 Ha2].
  destruct (region_cases al (lo b) Ha Hl) as [[El Cl]|[[El Cl]|[[El Cl]|[[El Cl]|[El Cl]]]]];
  destruct (region_cases al (hi b) Ha Hu) as [[Eu Cu]|[[Eu Cu]|[[Eu Cu]|[[Eu Cu]|[Eu Cu]]]]];
  rewrite El, Eu; cbn [Z.eqb Pos.eqb andb negb];
  qbools; cbn [andb negb]; split; intros H; try discriminate; try reflexivity;
  try (exfalso; lra); try (repeat split; try lra; intros [? ?]; lra);
  try (destruct H as (H1 & H2 & H3); exfalso; first [lra | apply H2; split; lra | apply H3; split; lra]).
Qed.

(* reference state table as a function of the two regions and of crossing *)
Definition ref_state (rl ru : Z) (crossed : bool) : option scode :=
  match rl, ru with
  | 1, 1 => Some SF
  | 5, 5 => Some ST
  | _, _ =>
    if crossed then Some SC else
    match rl, ru with
    | 1, 5 => Some SU
    | 3, 3 => Some SEU
    | 1, 2 | 2, 2 => Some SAF
    | 4, 4 | 4, 5 => Some SAT
    | 1, 3 | 1, 4 | 2, 3 | 2, 4 | 2, 5 | 3, 4 | 3, 5 => Some SAU
    | _, _ => None
    end
  end%Z.

Lemma state_code_ref al b : alpha_ok al -> in01 (lo b) -> in01 (hi b) ->
  state_code al b = ref_state (region_of al (lo b)) (region_of al (hi b)) (qltb (hi b) (lo b)).
Proof.
  intros Ha Hl Hu. unfold state_code, state_rules, contra_rule.
  destruct (region_cases al (lo b) Ha Hl) as [[El _]|[[El _]|[[El _]|[[El _]|[El _]]]]];
  destruct (region_cases al (hi b) Ha Hu) as [[Eu _]|[[Eu _]|[[Eu _]|[[Eu _]|[Eu _]]]]];
  rewrite El, Eu; destruct (qltb (hi b) (lo b)); reflexivity.
Qed.

(* totality: every pair of in-range bounds has a state *)
Lemma state_total al b : alpha_ok al -> in01 (lo b) -> in01 (hi b) ->
  exists c, state_code al b = Some c.
Proof.
  intros Ha Hl Hu. rewrite (state_code_ref al b Ha Hl Hu).
  pose proof Ha as [Ha1 Ha2].
  destruct (region_cases al (lo b) Ha Hl) as [[El Cl]|[[El Cl]|[[El Cl]|[[El Cl]|[El Cl]]]]];
  destruct (region_cases al (hi b) Ha Hu) as [[Eu Cu]|[[Eu Cu]|[[Eu Cu]|[[Eu Cu]|[Eu Cu]]]]];
  rewrite El, Eu; cbn [ref_state];
  destruct (qltb (hi b) (lo b)) eqn:E; try (eexists; reflexivity);
  apply qltb_false in E; exfalso; lra.
Qed.

Lemma state_C_iff al b : alpha_ok al -> in01 (lo b) -> in01 (hi b) ->
  (state_code al b = Some SC <-> is_contra al b = true).
Proof.
  intros Ha Hl Hu. rewrite (state_code_ref al b Ha Hl Hu).
  unfold is_contra, contra_rule.
  destruct (region_cases al (lo b) Ha Hl) as [[El _]|[[El _]|[[El _]|[[El _]|[El _]]]]];
  destruct (region_cases al (hi b) Ha Hu) as [[Eu _]|[[Eu _]|[[Eu _]|[[Eu _]|[Eu _]]]]];
  rewrite El, Eu; cbn [ref_state Z.eqb Pos.eqb andb negb];
  destruct (qltb (hi b) (lo b)); cbn [andb]; split; intros H; try discriminate; try reflexivity.
Qed.

Lemma state_T_iff al b : alpha_ok al -> in01 (lo b) -> in01 (hi b) ->
  (state_code al b = Some ST <-> al <= lo b /\ al <= hi b).
Proof.
  intros Ha Hl Hu. rewrite (state_code_ref al b Ha Hl Hu). pose proof Ha as [Ha1 Ha2].
  destruct (region_cases al (lo b) Ha Hl) as [[El Cl]|[[El Cl]|[[El Cl]|[[El Cl]|[El Cl]]]]];
  destruct (region_cases al (hi b) Ha Hu) as [[Eu Cu]|[[Eu Cu]|[[Eu Cu]|[[Eu Cu]|[Eu Cu]]]]];
  rewrite El, Eu; cbn [ref_state]; destruct (qltb (hi b) (lo b));
  split; intros H; try discriminate; try reflexivity; try lra; try (split; lra).
Qed.

Lemma state_F_iff al b : alpha_ok al -> in01 (lo b) -> in01 (hi b) ->
  (state_code al b = Some SF <-> lo b <= 1 - al /\ hi b <= 1 - al).
Proof.
  intros Ha Hl Hu. rewrite (state_code_ref al b Ha Hl Hu). pose proof Ha as [Ha1 Ha2].
  destruct (region_cases al (lo b) Ha Hl) as [[El Cl]|[[El Cl]|[[El Cl]|[[El Cl]|[El Cl]]]]];
  destruct (region_cases al (hi b) Ha Hu) as [[Eu Cu]|[[Eu Cu]|[[Eu Cu]|[[Eu Cu]|[Eu Cu]]]]];
  rewrite El, Eu; cbn [ref_state]; destruct (qltb (hi b) (lo b));
  split; intros H; try discriminate; try reflexivity; try lra; try (split; lra).
Qed.

Lemma state_U_iff al b : alpha_ok al -> in01 (lo b) -> in01 (hi b) ->
  (state_code al b = Some SU <-> lo b <= 1 - al /\ al <= hi b).
Proof.
  intros Ha Hl Hu. rewrite (state_code_ref al b Ha Hl Hu). pose proof Ha as [Ha1 Ha2].
  destruct (region_cases al (lo b) Ha Hl) as [[El Cl]|[[El Cl]|[[El Cl]|[[El Cl]|[El Cl]]]]];
  destruct (region_cases al (hi b) Ha Hu) as [[Eu Cu]|[[Eu Cu]|[[Eu Cu]|[[Eu Cu]|[Eu Cu]]]]];
  rewrite El, Eu; cbn [ref_state]; destruct (qltb (hi b) (lo b)) eqn:E;
  try apply qltb_true in E; try apply qltb_false in E;
  split; intros H; try discriminate; try reflexivity; try lra; try (split; lra).
Qed.

(* ---- aggregation ---- *)
Lemma agg_range w old new : in01 (lo (agg_bnd w old new)) /\ in01 (hi (agg_bnd w old new)).
Proof. unfold agg_bnd, in01; cbn [lo hi]. split; apply clamp01_range. Qed.

Lemma agg_tighter w old new : in01 (lo old) -> in01 (hi old) -> tighter old (agg_bnd w old new).
Proof.
  intros [? ?] [? ?]. unfold tighter, agg_bnd; cbn [lo hi].
  destruct w; qcases; lra.
Qed.

Lemma agg_sound w old new x : in01 x -> inb old x -> inb new x -> inb (agg_bnd w old new) x.
Proof.
  intros [? ?] [? ?] [? ?]. unfold inb, agg_bnd in *; cbn [lo hi] in *.
  destruct w; qcases; lra.
Qed.

Lemma moved_nonneg old new : 0 <= moved old new.
Proof. unfold moved. qcases; lra. Qed.

Lemma moved_zero_iff old new : moved old new == 0 <-> bnd_eq new old.
Proof. unfold moved, bnd_eq. split; intros H; qcases; try lra; split; lra. Qed.

Lemma agg_fix w old new : in01 (lo old) -> in01 (hi old) ->
  tighter new old -> bnd_eq (agg_bnd w old new) old.
Proof.
  intros [? ?] [? ?] [? ?]. unfold bnd_eq, agg_bnd; cbn [lo hi]. destruct w; split; qcases; lra.
Qed.
