(* HullOperandProofs.v -- C03 (b) for the OPERANDS of an And (every arity, weights >= 0, any bias, alpha = 1):
   after upward + downward both ends of every operand's interval (for operands with positive weight) are attained by
   feasible assignments.  Witnesses: the corner (m, other operands at their upper bounds) and, when its truth
   value overshoots the connective's upper bound, a point on the segment towards a feasible assignment. *)
From LNN Require Import Num Neuron Node PropEngine.
From LNN.proofs Require Import NodeProofs NeuronProofs PropProofs MonoProofs EvalProofs HullProofs.
Open Scope Q_scope.

(* ---------- replacing one coordinate ---------- *)
Fixpoint upd_nth {T} (k : nat) (v : T) (l : list T) : list T :=
  match l, k with
  | [], _ => []
  | _ :: r, O => v :: r
  | x :: r, S k' => x :: upd_nth k' v r
  end.
Lemma upd_nth_length {T} k (v : T) l : length (upd_nth k v l) = length l.
Proof. revert k. induction l as [|x l IH]; intros [|k]; cbn [upd_nth length]; auto. Qed.
Lemma nth_upd_nth_same {T} k (v d : T) l : (k < length l)%nat -> nth k (upd_nth k v l) d = v.
Proof. revert k. induction l as [|x l IH]; intros [|k] H; cbn [length] in H; cbn [upd_nth nth]; try lia; [reflexivity | apply IH; lia]. Qed.
Lemma tsum_upd ws xs k v : length ws = length xs -> (k < length xs)%nat ->
  tsum ws (upd_nth k v xs) == tsum ws xs - nth k ws 0 * (1 - nth k xs 0) + nth k ws 0 * (1 - v).
Proof.
  revert xs k. induction ws as [|w ws IH]; intros [|x xs] k Hl Hk; cbn [length] in *; try lia; try discriminate.
  destruct k as [|k]; cbn [upd_nth tsum nth]; [ring|]. rewrite IH by lia. ring.
Qed.
Lemma boxed_upd bs xs k v : boxed bs xs -> inb (nth k bs unknown) v -> (k < length bs)%nat -> boxed bs (upd_nth k v xs).
Proof.
  intros H. revert k. induction H as [|b x bs xs Hb H IH]; intros k Hv Hk; cbn [length] in Hk; [lia|].
  destruct k as [|k]; cbn [upd_nth nth] in *; constructor; auto. apply IH; [exact Hv | lia].
Qed.
Lemma boxed_los bs : Forall (fun b => lo b <= hi b) bs -> boxed bs (los bs).
Proof. unfold boxed, los. induction 1 as [|b bs Hb H IH]; cbn [map]; constructor; [unfold inb; lra | exact IH]. Qed.
Lemma boxed_his bs : Forall (fun b => lo b <= hi b) bs -> boxed bs (his bs).
Proof. unfold boxed, his. induction 1 as [|b bs Hb H IH]; cbn [map]; constructor; [unfold inb; lra | exact IH]. Qed.
Lemma nth_los k bs : nth k (los bs) 0 = lo (nth k bs (B 0 0)).
Proof. unfold los. rewrite <- (map_nth lo). reflexivity. Qed.

(* ---------- the sub-box between two assignments a <= b (pointwise) ---------- *)
Definition between (a b : list Q) : list bnd := map (fun ab => B (fst ab) (snd ab)) (combine a b).
Lemma between_los a b : length a = length b -> los (between a b) = a.
Proof. revert b. induction a as [|x a IH]; intros [|y b] H; cbn [length] in H; try discriminate; cbn; [reflexivity|]. f_equal. apply IH. lia. Qed.
Lemma between_his a b : length a = length b -> his (between a b) = b.
Proof. revert b. induction a as [|x a IH]; intros [|y b] H; cbn [length] in H; try discriminate; cbn; [reflexivity|]. f_equal. apply IH. lia. Qed.
Lemma between_ordered a b : Forall2 Qle a b -> Forall (fun c => lo c <= hi c) (between a b).
Proof. induction 1 as [|x y a b Hxy H IH]; cbn; constructor; [cbn; exact Hxy | exact IH]. Qed.
(* an assignment inside the sub-box lies inside every box that contains both ends *)
Lemma between_boxed bs a b xs : boxed bs a -> boxed bs b -> boxed (between a b) xs -> boxed bs xs.
Proof.
  intros Ha. revert b xs. induction Ha as [|c x bs a [A1 A2] Ha IH]; intros b xs Hb Hx; inversion Hb as [|? y ? b' [B1 B2] Hb']; subst; cbn in Hx.
  - inversion Hx; constructor.
  - inversion Hx as [|? z ? xs' [Z1 Z2] Hx']; subst. cbn [lo hi] in *. constructor; [unfold inb; split; lra | eapply IH; eassumption].
Qed.
Lemma between_nth_fixed a b xs k v : boxed (between a b) xs -> nth k a 0 == v -> nth k b 0 == v -> (k < length a)%nat -> length a = length b -> nth k xs 0 == v.
Proof.
  revert b xs k. induction a as [|x a IH]; intros [|y b] xs k Hx Ea Eb Hk Hl; cbn [length] in *; try lia; try discriminate.
  cbn in Hx. inversion Hx as [|? z ? xs' [Z1 Z2] Hx']; subst. cbn [lo hi] in *. destruct k as [|k]; cbn [nth] in *; [lra|].
  eapply IH; try eassumption; lia.
Qed.

Lemma boxed_le_his bs xs : boxed bs xs -> Forall2 Qle xs (his bs).
Proof. unfold his. induction 1 as [|b x bs' xs' [? ?] H IH]; cbn [map]; constructor; [lra | exact IH]. Qed.
Lemma boxed_ge_los bs xs : boxed bs xs -> Forall2 Qle (los bs) xs.
Proof. unfold los. induction 1 as [|b x bs' xs' [? ?] H IH]; cbn [map]; constructor; [lra | exact IH]. Qed.

Section OperandHull.
Variable p : nparams.
Hypothesis Hw : nonneg (weights p).
Variable y : bnd.
Hypothesis Hy : wf_bnd y.
Variable bs : list bnd.
Hypothesis Hord : ordered_all bs.
Hypothesis Hlen : length (weights p) = length bs.
Variable x0 : list Q.
Hypothesis Hfeas : feasible CAnd p y bs x0.
Variable k : nat.
Hypothesis Hk : (k < length bs)%nat.
Hypothesis Hwk : 0 < nth k (weights p) 0.
Hypothesis Halpha : alpha p == 1.

Let ws := weights p.
Let wk := nth k ws 0.
Let bk := nth k bs unknown.
Let y' := step_y CAnd p y bs.
Let L' := lo y'.
Let U' := hi y'.

Lemma wk_pos : 0 < wk. Proof. exact Hwk. Qed.
Lemma Hord_lo : Forall (fun b => lo b <= hi b) bs.
Proof. eapply Forall_impl; [|exact Hord]. intros a [_ H]. exact H. Qed.
Lemma x0_len : length x0 = length bs.
Proof. destruct Hfeas as [H _]. symmetry. eapply Forall2_length; exact H. Qed.
Lemma bk_wf : wf_bnd bk /\ lo bk <= hi bk.
Proof. apply (proj1 (Forall_forall _ _) Hord). apply nth_In. exact Hk. Qed.
Lemma x0k_in : inb bk (nth k x0 0).
Proof.
  destruct Hfeas as [H _]. unfold bk. clear - H Hk. revert k Hk. induction H as [|b x bs xs Hb H IH]; intros k Hk; cbn [length] in Hk; [lia|].
  destruct k; cbn [nth]; [exact Hb | apply IH; lia].
Qed.

(* facts about the updated connective bounds *)
Lemma y'_facts : L' == qmax (lo y) (and_f p (los bs)) /\ U' == qmin (hi y) (and_f p (his bs)) /\
  L' <= and_f p x0 <= U' /\ 0 <= L' /\ U' <= 1.
Proof.
  destruct (step_y_and p y bs Hy) as [E1 E2]. destruct Hfeas as [Hb [F1 F2]]. cbn [act_f] in *.
  destruct (tsum_mono _ _ _ Hw Hb) as [T1 T2].
  assert (M0 : and_f p (los bs) <= and_f p x0) by (unfold and_f; apply clamp01_mono; lra).
  assert (M1 : and_f p x0 <= and_f p (his bs)) by (unfold and_f; apply clamp01_mono; lra).
  destruct Hy as [[? ?] [? ?]]. pose proof (clamp01_range (bias p - tsum (weights p) (los bs))). pose proof (clamp01_range (bias p - tsum (weights p) (his bs))).
  unfold L', U', y'. split; [exact E1|]. split; [exact E2|]. rewrite E1, E2. unfold and_f in *. repeat split; qcases; lra.
Qed.

(* the operand's new bounds, explicitly *)
Definition R_up : Q := tsum ws (his bs) - wk * (1 - hi bk).   (* the others at their upper bounds *)
Definition R_lo : Q := tsum ws (los bs) - wk * (1 - lo bk).   (* the others at their lower bounds *)
Definition c_lo : Q := 1 + (L' - bias p + R_up) / wk.
Definition c_hi : Q := 1 + (U' - bias p + R_lo) / wk.

Lemma step_x_k : nth k (step_x CAnd p y bs) unknown = agg_bnd WBoth bk (nth k (and_down p y' bs) unknown).
Proof.
  unfold step_x. cbn [act_down]. fold y'.
  assert (Hl2 : length (and_down p y' bs) = length bs) by (apply and_down_length; exact Hlen).
  rewrite (nth_indep _ unknown (agg_bnd WBoth (fst (unknown, unknown)) (snd (unknown, unknown)))) by (rewrite map_length, combine_length, Hl2; lia).
  rewrite (map_nth (fun bn => agg_bnd WBoth (fst bn) (snd bn))). rewrite combine_nth by (symmetry; exact Hl2). reflexivity.
Qed.

Lemma lo_new : lo (nth k (step_x CAnd p y bs) unknown) == qmax (lo bk) (if qltb 0 L' then clamp01 c_lo else 0).
Proof.
  rewrite step_x_k. rewrite nth_and_down by assumption. unfold and_down_one. fold ws wk bk L' U'.
  destruct bk_wf as [[[? ?] [? ?]] ?].
  pose proof wk_pos as Hwp. replace (qeqb wk 0) with false by (symmetry; apply qeqb_false; intro E0; lra). unfold agg_bnd; cbn [lo hi].
  assert (Eg : qltb (1 - alpha p) L' = qltb 0 L').
  { destruct (qltb 0 L') eqn:E; [apply qltb_true in E; apply qltb_true; rewrite Halpha; lra | apply qltb_false in E; apply qltb_false; rewrite Halpha; lra]. }
  rewrite Eg. destruct (qltb 0 L') eqn:E.
  - apply qltb_true in E. replace (qleb L' 0) with false by (symmetry; apply qleb_false; exact E).
    pose proof (clamp01_range c_lo). unfold c_lo, R_up in *. apply clamp01_id. qcases; lra.
  - apply clamp01_id. qcases; lra.
Qed.

Lemma hi_new : hi (nth k (step_x CAnd p y bs) unknown) == qmin (hi bk) (if qltb U' 1 then clamp01 c_hi else 1).
Proof.
  rewrite step_x_k. rewrite nth_and_down by assumption. unfold and_down_one. fold ws wk bk L' U'.
  destruct bk_wf as [[[? ?] [? ?]] ?].
  pose proof wk_pos as Hwp. replace (qeqb wk 0) with false by (symmetry; apply qeqb_false; intro E0; lra). unfold agg_bnd; cbn [lo hi].
  assert (Eg : qltb U' (alpha p) = qltb U' 1).
  { destruct (qltb U' 1) eqn:E; [apply qltb_true in E; apply qltb_true; rewrite Halpha; lra | apply qltb_false in E; apply qltb_false; rewrite Halpha; lra]. }
  rewrite Eg. destruct (qltb U' 1) eqn:E.
  - apply qltb_true in E. replace (qleb 1 U') with false by (symmetry; apply qleb_false; exact E).
    pose proof (clamp01_range c_hi). unfold c_hi, R_lo in *. apply clamp01_id. qcases; lra.
  - apply clamp01_id. qcases; lra.
Qed.

(* pre-activation of an assignment whose other coordinates are those of zs *)
Lemma pre_upd zs v : length zs = length bs ->
  bias p - tsum ws (upd_nth k v zs) == bias p - (tsum ws zs - wk * (1 - nth k zs 0)) - wk * (1 - v).
Proof. intros Hl. rewrite tsum_upd by (unfold ws; try rewrite Hl; try exact Hlen; try exact Hk; lia). fold wk. ring. Qed.

Lemma his_len : length (his bs) = length bs. Proof. unfold his. apply map_length. Qed.
Lemma los_len : length (los bs) = length bs. Proof. unfold los. apply map_length. Qed.
Lemma nth_his : nth k (his bs) 0 = hi bk.
Proof. unfold his, bk. rewrite (nth_indep _ 0 (hi unknown)) by (rewrite map_length; exact Hk). apply (map_nth hi). Qed.
Lemma nth_los' : nth k (los bs) 0 = lo bk.
Proof. unfold los, bk. rewrite (nth_indep _ 0 (lo unknown)) by (rewrite map_length; exact Hk). apply (map_nth lo). Qed.

(* the rest sums are ordered: others at upper bounds <= others as in x0 <= others at lower bounds *)
Lemma rest_bounds : R_up <= tsum ws x0 - wk * (1 - nth k x0 0) <= R_lo.
Proof.
  destruct Hfeas as [Hb _]. unfold R_up, R_lo, wk, bk, ws.
  apply (tsum_partial (weights p) bs x0 k Hw Hb); [rewrite x0_len; exact Hlen | rewrite x0_len; exact Hk].
Qed.

(* soundness facts: x0_k lies between the two inverse bounds when the gates are open *)
Lemma c_lo_below : 0 < L' -> c_lo <= nth k x0 0.
Proof.
  intros HL. destruct y'_facts as (_ & _ & [F1 _] & _ & _). destruct rest_bounds as [R1 _].
  assert (Hpre : L' <= bias p - tsum ws x0) by (apply clamp01_ge; [exact HL | exact F1]).
  pose proof wk_pos as Hwp. unfold c_lo. assert (D : (L' - bias p + R_up) / wk <= nth k x0 0 - 1) by (apply Qle_shift_div_r; [exact Hwp | nra]). lra.
Qed.
Lemma c_hi_above : U' < 1 -> nth k x0 0 <= c_hi.
Proof.
  intros HU. destruct y'_facts as (_ & _ & [_ F2] & _ & _). destruct rest_bounds as [_ R2].
  assert (Hpre : bias p - tsum ws x0 <= U') by (apply clamp01_le; [exact HU | exact F2]).
  pose proof wk_pos as Hwp. unfold c_hi. assert (D : nth k x0 0 - 1 <= (U' - bias p + R_lo) / wk) by (apply Qle_shift_div_l; [exact Hwp | nra]). lra.
Qed.

(* a point of the box with a prescribed k-th coordinate and a prescribed truth value between those of two ordered
   assignments a <= b that share the k-th coordinate *)
Lemma segment_point a b v t : boxed bs a -> boxed bs b -> Forall2 Qle a b -> nth k a 0 == v -> nth k b 0 == v ->
  and_f p a <= t <= and_f p b ->
  exists xs, boxed bs xs /\ nth k xs 0 == v /\ and_f p xs == t.
Proof.
  intros Ha Hb Hab Ea Eb Ht.
  assert (Hl : length a = length b) by (eapply Forall2_length; exact Hab).
  assert (Hla : length a = length bs) by (symmetry; eapply Forall2_length; exact Ha).
  destruct (and_f_segment p (between a b) t Hw (between_ordered a b Hab)) as [xs [Hx Hv]].
  { rewrite between_los, between_his by exact Hl. exact Ht. }
  exists xs. split; [apply (between_boxed bs a b xs Ha Hb Hx)|]. split; [|exact Hv].
  apply (between_nth_fixed a b xs k v Hx Ea Eb); [rewrite Hla; exact Hk | exact Hl].
Qed.

Lemma upd_le_mono (a b : list Q) v j : Forall2 Qle a b -> Forall2 Qle (upd_nth j v a) (upd_nth j v b).
Proof.
  intros H. revert j. induction H as [|x z a b Hxz H IH]; intros j; [destruct j; constructor|].
  destruct j; cbn [upd_nth]; constructor; auto. lra.
Qed.
Lemma and_f_mono_le a b : Forall2 Qle a b -> and_f p a <= and_f p b.
Proof.
  intros H. unfold and_f. apply clamp01_mono.
  assert (T : tsum ws b <= tsum ws a).
  { unfold ws. revert Hw. generalize (weights p). induction H as [|x z a' b' Hxz H IH]; intros w Hw0; destruct w as [|w0 w]; cbn [tsum]; try lra.
    inversion Hw0 as [|? ? H0 H1]; subst. specialize (IH w H1). nra. }
  fold ws. lra.
Qed.

(* ---------- lower end attained ---------- *)
Theorem operand_lower_attained :
  exists xs, feasible CAnd p y bs xs /\ nth k xs 0 == lo (nth k (step_x CAnd p y bs) unknown).
Proof.
  pose proof wk_pos as Hwp. destruct y'_facts as (EL & EU & [F1 F2] & HL0 & HU1). destruct bk_wf as [[[Bl0 Bl1] [Bu0 Bu1]] Bo]. destruct x0k_in as [X1 X2].
  destruct Hfeas as [Hb0 [G1 G2]]. cbn [act_f] in G1, G2.
  assert (HLy : lo y <= L') by (rewrite EL; qcases; lra). assert (HUy : U' <= hi y) by (rewrite EU; qcases; lra).
  pose proof lo_new as Enew. revert Enew. destruct (qltb 0 L') eqn:Eg; intros Enew.
  - apply qltb_true in Eg. pose proof (c_lo_below Eg) as Hc.
    destruct (Qlt_le_dec (lo bk) c_lo) as [Hlt|Hge].
    + (* the inverse bound is the binding one: (c_lo, others at their upper bounds) has truth value exactly L' *)
      set (A := upd_nth k c_lo (his bs)).
      assert (HA : boxed bs A) by (apply boxed_upd; [apply boxed_his; exact Hord_lo | fold bk; unfold inb; lra | exact Hk]).
      assert (EA : and_f p A == L').
      { unfold and_f, A. change (weights p) with ws. rewrite (pre_upd (his bs) c_lo his_len). rewrite nth_his. fold R_up.
        assert (E : bias p - R_up - wk * (1 - c_lo) == L') by (unfold c_lo; field; intro E00; lra). rewrite E. apply clamp01_id. lra. }
      exists A. split; [split; [exact HA | cbn [act_f]; unfold inb; rewrite EA; lra]|].
      rewrite Enew. unfold A. rewrite nth_upd_nth_same by (rewrite his_len; exact Hk).
      assert (Ec : clamp01 c_lo == c_lo) by (apply clamp01_id; lra). rewrite Ec. qcases; lra.
    + (* the operand's own lower bound is the binding one *)
      assert (Em : lo (nth k (step_x CAnd p y bs) unknown) == lo bk) by (rewrite Enew; pose proof (clamp01_range c_lo); qcases; lra).
      set (A := upd_nth k (lo bk) (his bs)). set (Bp := upd_nth k (lo bk) x0).
      assert (HA : boxed bs A) by (apply boxed_upd; [apply boxed_his; exact Hord_lo | fold bk; unfold inb; lra | exact Hk]).
      assert (HB : boxed bs Bp) by (apply boxed_upd; [exact Hb0 | fold bk; unfold inb; lra | exact Hk]).
      assert (HBA : Forall2 Qle Bp A) by (apply upd_le_mono; apply boxed_le_his; exact Hb0).
      assert (EAk : nth k A 0 == lo bk) by (unfold A; rewrite nth_upd_nth_same by (rewrite his_len; exact Hk); reflexivity).
      assert (EBk : nth k Bp 0 == lo bk) by (unfold Bp; rewrite nth_upd_nth_same by (rewrite x0_len; exact Hk); reflexivity).
      assert (FA : L' <= and_f p A).
      { unfold and_f, A. change (weights p) with ws. rewrite (pre_upd (his bs) (lo bk) his_len). rewrite nth_his. fold R_up.
        assert (E : L' <= bias p - R_up - wk * (1 - lo bk)).
        { assert (E0 : bias p - R_up - wk * (1 - c_lo) == L') by (unfold c_lo; field; intro E00; lra). nra. }
        pose proof (clamp01_mono _ _ E) as M. rewrite (clamp01_id L') in M by lra. exact M. }
      assert (FB : and_f p Bp <= and_f p x0).
      { unfold and_f. apply clamp01_mono. unfold Bp. change (weights p) with ws. rewrite (pre_upd x0 (lo bk) x0_len). pose proof wk_pos. nra. }
      destruct (Qlt_le_dec (hi y) (and_f p A)) as [Hover|Hfit].
      * destruct (segment_point Bp A (lo bk) (hi y) HB HA HBA EBk EAk) as [xs [Hx [Exk Ev]]]; [lra|].
        exists xs. split; [split; [exact Hx | cbn [act_f]; unfold inb; rewrite Ev; lra] | rewrite Em; exact Exk].
      * exists A. split; [split; [exact HA | cbn [act_f]; unfold inb; lra] | rewrite Em; exact EAk].
  - (* gate closed: L' <= 0, lowering x0's k-th coordinate keeps feasibility *)
    apply qltb_false in Eg. assert (Em : lo (nth k (step_x CAnd p y bs) unknown) == lo bk) by (rewrite Enew; qcases; lra).
    set (Bp := upd_nth k (lo bk) x0).
    assert (HB : boxed bs Bp) by (apply boxed_upd; [exact Hb0 | fold bk; unfold inb; lra | exact Hk]).
    assert (FB : and_f p Bp <= and_f p x0).
    { unfold and_f. apply clamp01_mono. unfold Bp. change (weights p) with ws. rewrite (pre_upd x0 (lo bk) x0_len). nra. }
    exists Bp. split; [split; [exact HB|]|].
    + cbn [act_f]. unfold inb. pose proof (clamp01_range (bias p - tsum (weights p) Bp)). unfold and_f in *. split; lra.
    + rewrite Em. unfold Bp. rewrite nth_upd_nth_same by (rewrite x0_len; exact Hk). reflexivity.
Qed.

(* ---------- upper end attained ---------- *)
Theorem operand_upper_attained :
  exists xs, feasible CAnd p y bs xs /\ nth k xs 0 == hi (nth k (step_x CAnd p y bs) unknown).
Proof.
  pose proof wk_pos as Hwp. destruct y'_facts as (EL & EU & [F1 F2] & HL0 & HU1). destruct bk_wf as [[[Bl0 Bl1] [Bu0 Bu1]] Bo]. destruct x0k_in as [X1 X2].
  destruct Hfeas as [Hb0 [G1 G2]]. cbn [act_f] in G1, G2.
  assert (HLy : lo y <= L') by (rewrite EL; qcases; lra). assert (HUy : U' <= hi y) by (rewrite EU; qcases; lra).
  pose proof hi_new as Enew. revert Enew. destruct (qltb U' 1) eqn:Eg; intros Enew.
  - apply qltb_true in Eg. pose proof (c_hi_above Eg) as Hc.
    destruct (Qlt_le_dec c_hi (hi bk)) as [Hlt|Hge].
    + set (A := upd_nth k c_hi (los bs)).
      assert (HA : boxed bs A) by (apply boxed_upd; [apply boxed_los; exact Hord_lo | fold bk; unfold inb; lra | exact Hk]).
      assert (EA : and_f p A == U').
      { unfold and_f, A. change (weights p) with ws. rewrite (pre_upd (los bs) c_hi los_len). rewrite nth_los'. fold R_lo.
        assert (E : bias p - R_lo - wk * (1 - c_hi) == U') by (unfold c_hi; field; intro E00; lra). rewrite E. apply clamp01_id. lra. }
      exists A. split; [split; [exact HA | cbn [act_f]; unfold inb; rewrite EA; lra]|].
      rewrite Enew. unfold A. rewrite nth_upd_nth_same by (rewrite los_len; exact Hk).
      assert (Ec : clamp01 c_hi == c_hi) by (apply clamp01_id; lra). rewrite Ec. qcases; lra.
    + assert (Em : hi (nth k (step_x CAnd p y bs) unknown) == hi bk) by (rewrite Enew; pose proof (clamp01_range c_hi); qcases; lra).
      set (A := upd_nth k (hi bk) (los bs)). set (Bp := upd_nth k (hi bk) x0).
      assert (HA : boxed bs A) by (apply boxed_upd; [apply boxed_los; exact Hord_lo | fold bk; unfold inb; lra | exact Hk]).
      assert (HB : boxed bs Bp) by (apply boxed_upd; [exact Hb0 | fold bk; unfold inb; lra | exact Hk]).
      assert (HAB : Forall2 Qle A Bp) by (apply upd_le_mono; apply boxed_ge_los; exact Hb0).
      assert (EAk : nth k A 0 == hi bk) by (unfold A; rewrite nth_upd_nth_same by (rewrite los_len; exact Hk); reflexivity).
      assert (EBk : nth k Bp 0 == hi bk) by (unfold Bp; rewrite nth_upd_nth_same by (rewrite x0_len; exact Hk); reflexivity).
      assert (FA : and_f p A <= U').
      { unfold and_f, A. change (weights p) with ws. rewrite (pre_upd (los bs) (hi bk) los_len). rewrite nth_los'. fold R_lo.
        assert (E : bias p - R_lo - wk * (1 - hi bk) <= U').
        { assert (E0 : bias p - R_lo - wk * (1 - c_hi) == U') by (unfold c_hi; field; intro E00; lra). nra. }
        pose proof (clamp01_mono _ _ E) as M. rewrite (clamp01_id U') in M by lra. exact M. }
      assert (FB : and_f p x0 <= and_f p Bp).
      { unfold and_f. apply clamp01_mono. unfold Bp. change (weights p) with ws. rewrite (pre_upd x0 (hi bk) x0_len). nra. }
      destruct (Qlt_le_dec (and_f p A) (lo y)) as [Hunder|Hfit].
      * destruct (segment_point A Bp (hi bk) (lo y) HA HB HAB EAk EBk) as [xs [Hx [Exk Ev]]]; [lra|].
        exists xs. split; [split; [exact Hx | cbn [act_f]; unfold inb; rewrite Ev; lra] | rewrite Em; exact Exk].
      * exists A. split; [split; [exact HA | cbn [act_f]; unfold inb; lra] | rewrite Em; exact EAk].
  - apply qltb_false in Eg. assert (Em : hi (nth k (step_x CAnd p y bs) unknown) == hi bk) by (rewrite Enew; qcases; lra).
    set (Bp := upd_nth k (hi bk) x0).
    assert (HB : boxed bs Bp) by (apply boxed_upd; [exact Hb0 | fold bk; unfold inb; lra | exact Hk]).
    assert (FB : and_f p x0 <= and_f p Bp).
    { unfold and_f. apply clamp01_mono. unfold Bp. change (weights p) with ws. rewrite (pre_upd x0 (hi bk) x0_len). nra. }
    exists Bp. split; [split; [exact HB|]|].
    + cbn [act_f]. unfold inb. pose proof (clamp01_range (bias p - tsum (weights p) Bp)). unfold and_f in *. split; lra.
    + rewrite Em. unfold Bp. rewrite nth_upd_nth_same by (rewrite x0_len; exact Hk). reflexivity.
Qed.
End OperandHull.

(* ---------- operands with weight zero: the step leaves their interval as it was, and every value of it is feasible ---------- *)
Lemma and_down_nth p y bs k : length (weights p) = length bs -> (k < length bs)%nat ->
  nth k (and_down p y bs) unknown =
  and_down_one (alpha p) (bias p) (qsum (weights p)) (tsum (weights p) (los bs)) (tsum (weights p) (his bs)) (lo y) (hi y)
               (nth k (weights p) 0) (nth k bs unknown).
Proof.
  intros Hl Hk. unfold and_down.
  set (f := fun wx : Q * bnd => and_down_one (alpha p) (bias p) (qsum (weights p)) (tsum (weights p) (los bs)) (tsum (weights p) (his bs)) (lo y) (hi y) (fst wx) (snd wx)).
  rewrite (nth_indep _ unknown (f (0, unknown))) by (rewrite map_length, combine_length; lia).
  rewrite (map_nth f). rewrite combine_nth by exact Hl. reflexivity.
Qed.

Section ZeroWeight.
Variable p : nparams.
Hypothesis Hw : nonneg (weights p).
Variable y : bnd.
Hypothesis Hy : wf_bnd y.
Variable bs : list bnd.
Hypothesis Hord : ordered_all bs.
Hypothesis Hlen : length (weights p) = length bs.
Variable x0 : list Q.
Hypothesis Hfeas : feasible CAnd p y bs x0.
Variable k : nat.
Hypothesis Hk : (k < length bs)%nat.
Hypothesis Hwk : nth k (weights p) 0 == 0.

Let bk := nth k bs unknown.
Lemma bk_wf0 : wf_bnd bk /\ lo bk <= hi bk.
Proof. apply (proj1 (Forall_forall _ _) Hord). apply nth_In. exact Hk. Qed.

Lemma step_x_zero : bnd_eq (nth k (step_x CAnd p y bs) unknown) bk.
Proof.
  unfold step_x. cbn [act_down].
  assert (Hl2 : length (and_down p (step_y CAnd p y bs) bs) = length bs) by (apply and_down_length; exact Hlen).
  rewrite (nth_indep _ unknown (agg_bnd WBoth (fst (unknown, unknown)) (snd (unknown, unknown)))) by (rewrite map_length, combine_length, Hl2; lia).
  rewrite (map_nth (fun bn => agg_bnd WBoth (fst bn) (snd bn))). rewrite combine_nth by (symmetry; exact Hl2). cbn [fst snd].
  rewrite and_down_nth by assumption. unfold and_down_one.
  assert (E : qeqb (nth k (weights p) 0) 0 = true) by (apply qeqb_true; exact Hwk). rewrite E.
  fold bk. destruct bk_wf0 as [[[? ?] [? ?]] ?]. unfold bnd_eq, agg_bnd, unknown; cbn [lo hi]. split; qcases; lra.
Qed.

Lemma zero_weight_free v : inb bk v -> feasible CAnd p y bs (upd_nth k v x0).
Proof.
  intros Hv. destruct Hfeas as [Hb0 Hf0]. split; [apply boxed_upd; [exact Hb0 | exact Hv | exact Hk]|].
  cbn [act_f] in *. assert (E : and_f p (upd_nth k v x0) == and_f p x0).
  { unfold and_f. apply clamp01_compat.
    assert (L0 : length bs = length x0) by (eapply Forall2_length; exact Hb0).
    rewrite tsum_upd; [|rewrite Hlen; exact L0 | rewrite <- L0; exact Hk].
    rewrite Hwk. ring. }
  unfold inb in *. rewrite E. exact Hf0.
Qed.

Theorem zero_weight_operand_attained :
  (exists xs, feasible CAnd p y bs xs /\ nth k xs 0 == lo (nth k (step_x CAnd p y bs) unknown)) /\
  (exists xs, feasible CAnd p y bs xs /\ nth k xs 0 == hi (nth k (step_x CAnd p y bs) unknown)).
Proof.
  destruct step_x_zero as [E1 E2]. destruct bk_wf0 as [_ Ho].
  assert (Lx : (k < length x0)%nat) by (destruct Hfeas as [Hb0 _]; rewrite <- (Forall2_length _ _ _ Hb0); exact Hk).
  split.
  - exists (upd_nth k (lo bk) x0). split; [apply zero_weight_free; unfold inb; lra|].
    rewrite nth_upd_nth_same by exact Lx. rewrite E1. reflexivity.
  - exists (upd_nth k (hi bk) x0). split; [apply zero_weight_free; unfold inb; lra|].
    rewrite nth_upd_nth_same by exact Lx. rewrite E2. reflexivity.
Qed.
End ZeroWeight.

(* every operand of an And, whatever its (non-negative) weight *)
Theorem and_operand_attained p y bs x0 k : nonneg (weights p) -> wf_bnd y -> ordered_all bs -> length (weights p) = length bs ->
  feasible CAnd p y bs x0 -> (k < length bs)%nat -> alpha p == 1 ->
  (exists xs, feasible CAnd p y bs xs /\ nth k xs 0 == lo (nth k (step_x CAnd p y bs) unknown)) /\
  (exists xs, feasible CAnd p y bs xs /\ nth k xs 0 == hi (nth k (step_x CAnd p y bs) unknown)).
Proof.
  intros Hw Hy Hord Hlen Hf Hk Ha.
  assert (H0 : 0 <= nth k (weights p) 0).
  { apply (proj1 (Forall_forall _ _) Hw). apply nth_In. rewrite Hlen. exact Hk. }
  destruct (Qlt_le_dec 0 (nth k (weights p) 0)) as [Hpos|Hz].
  - split; [eapply operand_lower_attained | eapply operand_upper_attained]; eassumption.
  - eapply zero_weight_operand_attained; try eassumption. lra.
Qed.
