(* QuantProofs.v -- C11 / C12: what a quantifier's upward step stores per grounding of its free variables, and
   what its downward step proposes for the instances. *)
From LNN Require Import Num Neuron Node PropEngine Fol Quant.
From LNN.proofs Require Import NodeProofs NeuronProofs PropProofs DfsProofs MonoProofs EvalProofs TruthProofs FolProofs JoinProofs ConnProofs.
Open Scope Q_scope.

(* ---------- association lists ---------- *)
Lemma qfind_qset_same {T} (l : list (gnd * T)) g x : qfind (qset l g x) g = Some x.
Proof. induction l as [|[h y] l IH]; cbn [qset qfind]; [rewrite geqb_refl; reflexivity|]. destruct (geqb g h) eqn:E; cbn [qfind]; rewrite E; [reflexivity | exact IH]. Qed.
Lemma qfind_qset_other {T} (l : list (gnd * T)) g h x : g <> h -> qfind (qset l g x) h = qfind l h.
Proof.
  intros Hne. induction l as [|[k y] l IH]; cbn [qset qfind].
  - destruct (geqb h g) eqn:E; [apply geqb_eq in E; congruence | reflexivity].
  - destruct (geqb g k) eqn:E; cbn [qfind].
    + apply geqb_eq in E. subst k. destruct (geqb h g) eqn:E2; [apply geqb_eq in E2; congruence | reflexivity].
    + destruct (geqb h k); [reflexivity | exact IH].
Qed.

Lemma gdedup_acc_nodup l : forall seen, NoDup (gdedup_acc seen l) /\ forall g, In g (gdedup_acc seen l) -> ~ In g seen.
Proof.
  induction l as [|h l IH]; intros seen; cbn [gdedup_acc]; [split; [constructor | intros g []]|].
  destruct (gmem h seen) eqn:E; [apply IH|].
  destruct (IH (h :: seen)) as [N S]. split.
  - constructor; [|exact N]. intro Hin. apply (S h Hin). left; reflexivity.
  - intros g [<-|Hin]; [intro Hs; apply gmem_In in Hs; congruence|]. intro Hs. apply (S g Hin). right; exact Hs.
Qed.
Lemma gdedup_nodup l : NoDup (gdedup l).
Proof. apply (gdedup_acc_nodup l []). Qed.

(* ---------- upward: the entry of every group ---------- *)
Definition group_result (q : qobj) (s : qstate) (rows : list (gnd * bnd)) (g : gnd) : nat * bnd :=
  let inst := map snd (group_rows q rows g) in
  let n := length inst in
  (n, bred (agg_bnd (qwhich q) (neuron_bounds q s g n) (act_up (qconn q) (unit_np n) inst))).

Lemma q_up_fold q (s0 : qstate) rows keys : NoDup keys -> forall acc a,
  (forall g, In g keys -> qfind acc g = qfind (qneu s0) g) ->
  let r := fold_left (fun (acc : list (gnd * (nat * bnd)) * Q) g =>
                  let inst := map snd (group_rows q rows g) in
                  let n := length inst in
                  let old := neuron_bounds q (QS (fst acc) []) g n in
                  let ag := aggregate (qwhich q) old (act_up (qconn q) (unit_np n) inst) in
                  (qset (fst acc) g (n, bred (fst ag)), Qred (snd acc + snd ag))) keys (acc, a) in
  (forall g, In g keys -> qfind (fst r) g = Some (group_result q s0 rows g)) /\
  (forall g, ~ In g keys -> qfind (fst r) g = qfind acc g).
Proof.
  induction keys as [|k keys IH]; intros HN acc a Hacc; cbn zeta; cbn [fold_left].
  - split; [intros g [] | reflexivity].
  - inversion HN as [|? ? Hk HN']; subst.
    set (inst := map snd (group_rows q rows k)). set (n := length inst).
    set (acc1 := qset acc k (n, bred (fst (aggregate (qwhich q) (neuron_bounds q (QS acc []) k n) (act_up (qconn q) (unit_np n) inst))))).
    destruct (IH HN' acc1 (Qred (a + snd (aggregate (qwhich q) (neuron_bounds q (QS acc []) k n) (act_up (qconn q) (unit_np n) inst))))) as [I1 I2].
    { intros g Hg. unfold acc1. rewrite qfind_qset_other by (intro; subst; contradiction). apply Hacc. right; exact Hg. }
    cbn zeta in *. split.
    + intros g [<-|Hg]; [|apply I1; exact Hg]. rewrite I2 by exact Hk. unfold acc1. rewrite qfind_qset_same.
      unfold group_result. fold inst. fold n. unfold neuron_bounds. cbn [qneu aggregate fst]. rewrite (Hacc k (or_introl eq_refl)). reflexivity.
    + intros g Hg. rewrite I2 by (intro; apply Hg; right; assumption). unfold acc1. apply qfind_qset_other. intro; subst; apply Hg; left; reflexivity.
Qed.

Theorem q_up_group q s rows g : rows <> [] -> In g (group_keys q rows) ->
  qfind (qneu (fst (q_up q s rows))) g = Some (group_result q s rows g) /\
  qfind (qtab (fst (q_up q s rows))) g = Some (snd (group_result q s rows g)).
Proof.
  intros Hne Hg. unfold q_up. destruct rows as [|r0 rows']; [congruence|]. set (rows := r0 :: rows') in *.
  destruct (q_up_fold q s rows (group_keys q rows) (gdedup_nodup _) (qneu s) 0 (fun _ _ => eq_refl)) as [I1 _].
  cbn zeta in I1. cbn [fst qneu qtab]. split; [apply I1; exact Hg|].
  specialize (I1 g Hg). revert I1. generalize (fst (fold_left (fun (acc : list (gnd * (nat * bnd)) * Q) g0 =>
        (qset (fst acc) g0 (length (map snd (group_rows q rows g0)),
           bred (fst (aggregate (qwhich q) (neuron_bounds q (QS (fst acc) []) g0 (length (map snd (group_rows q rows g0))))
                                (act_up (qconn q) (unit_np (length (map snd (group_rows q rows g0)))) (map snd (group_rows q rows g0)))))),
         Qred (snd acc + snd (aggregate (qwhich q) (neuron_bounds q (QS (fst acc) []) g0 (length (map snd (group_rows q rows g0))))
                                (act_up (qconn q) (unit_np (length (map snd (group_rows q rows g0)))) (map snd (group_rows q rows g0)))))))
        (group_keys q rows) (qneu s, 0))).
  intros l. induction l as [|[h x] l IH]; cbn [qfind map fst snd]; [discriminate|].
  destruct (geqb g h); [intros E; inversion E; reflexivity | exact IH].
Qed.

(* every instance belongs to a group that is evaluated *)
Theorem every_instance_grouped q rows r : In r rows -> In (project (qfree q) (fst r)) (group_keys q rows).
Proof. intros H. unfold group_keys. apply gdedup_in. apply in_map_iff. exists r. split; [reflexivity | exact H]. Qed.

(* ---------- C11: the aggregate, explicitly ---------- *)
Lemma unit_np_params n : unit_params (unit_np n) n.
Proof. split; reflexivity. Qed.

Theorem forall_up_bounds q s rows g : qk q = QForall -> qfull q = false ->
  let old := neuron_bounds q s g (length (group_rows q rows g)) in
  let his := map hi (map snd (group_rows q rows g)) in
  wf_bnd old ->
  bnd_eq (snd (group_result q s rows g))
         (B (lo old) (qmin (hi old) (and_f (unit_np (length his)) his))).
Proof.
  intros Hk Hf old his Hw. unfold group_result. cbn [snd]. eapply bnd_eq_trans; [apply bred_eq|].
  unfold qwhich, qconn. rewrite Hf, Hk. unfold agg_bnd. cbn [act_up lo hi and_up].
  rewrite map_length. fold old. unfold bnd_eq; cbn [lo hi]. destruct Hw as [[? ?] [? ?]].
  assert (E : his = Neuron.his (map snd (group_rows q rows g))) by reflexivity.
  split; [apply clamp01_id; lra|].
  unfold his at 1. rewrite !map_length. unfold and_f. cbn [bias weights unit_np]. rewrite <- E.
  pose proof (clamp01_range (1 - tsum (repeat 1 (length (group_rows q rows g))) his)). qcases; lra.
Qed.

Theorem exists_up_bounds q s rows g : qk q = QExists -> qfull q = false ->
  let old := neuron_bounds q s g (length (group_rows q rows g)) in
  let los := map lo (map snd (group_rows q rows g)) in
  wf_bnd old ->
  bnd_eq (snd (group_result q s rows g))
         (B (qmax (lo old) (or_f (unit_np (length los)) los)) (hi old)).
Proof.
  intros Hk Hf old los Hw. unfold group_result. cbn [snd]. eapply bnd_eq_trans; [apply bred_eq|].
  unfold qwhich, qconn. rewrite Hf, Hk. unfold agg_bnd. cbn [act_up lo hi or_up].
  rewrite map_length. fold old. unfold bnd_eq; cbn [lo hi]. destruct Hw as [[? ?] [? ?]].
  assert (E : los = Neuron.los (map snd (group_rows q rows g))) by reflexivity.
  split; [|apply clamp01_id; lra].
  unfold los at 1. rewrite !map_length. unfold or_f. rewrite <- E.
  pose proof (clamp01_range (1 - bias (unit_np (length (group_rows q rows g))) - negw (unit_np (length (group_rows q rows g))) + dot (weights (unit_np (length (group_rows q rows g)))) los)). qcases; lra.
Qed.

(* classical corollaries on {0,1} instance bounds *)
Corollary forall_refuted_by_one_false q s rows g : qk q = QForall -> qfull q = false ->
  wf_bnd (neuron_bounds q s g (length (group_rows q rows g))) ->
  (exists r, In r (group_rows q rows g) /\ hi (snd r) == 0) ->
  (forall r, In r (group_rows q rows g) -> hi (snd r) <= 1) ->
  hi (snd (group_result q s rows g)) == 0.
Proof.
  intros Hk Hf Hw [r [Hr H0]] Hall. destruct (forall_up_bounds q s rows g Hk Hf Hw) as [_ E]. cbn zeta in E. cbn [hi] in E. rewrite E.
  set (his := map hi (map snd (group_rows q rows g))).
  assert (Hs : 1 <= tsum (repeat 1 (length his)) his).
  { unfold his. clear - Hr H0 Hall. induction (group_rows q rows g) as [|x l IH]; [contradiction|]. cbn [map length repeat tsum].
    assert (Hge : forall l' : list (gnd * bnd), (forall r, In r l' -> hi (snd r) <= 1) -> 0 <= tsum (repeat 1 (length (map hi (map snd l')))) (map hi (map snd l'))).
    { clear. induction l' as [|y l' IHl]; intros H; cbn [map length repeat tsum]; [lra|].
      pose proof (H y (or_introl eq_refl)). pose proof (IHl (fun r Hr => H r (or_intror Hr))). lra. }
    destruct Hr as [->|Hr].
    - pose proof (Hge l (fun r Hr => Hall r (or_intror Hr))). lra.
    - pose proof (IH Hr (fun r Hr' => Hall r (or_intror Hr'))). pose proof (Hall x (or_introl eq_refl)). lra. }
  destruct Hw as [_ [? ?]]. unfold and_f. cbn [bias weights unit_np]. qcases; lra.
Qed.

(* ---------- C12: downward proposals are sound instantiations ---------- *)
Lemma unit_conn_wf c n : c <> CImp -> conn_wf c (unit_np n) n.
Proof.
  intros Hc. unfold conn_wf. cbn [alpha weights unit_np]. split; [lra|]. split; [apply nonneg_ones|]. split; [apply repeat_length|].
  intros E; congruence.
Qed.
Lemma qconn_not_imp q : qconn q <> CImp. Proof. unfold qconn. destruct (qk q); discriminate. Qed.

(* for any values of the instances inside their bounds whose And/Or lies inside the quantifier's bounds, every
   proposal contains the instance's value: an instance is only tightened as far as the others force it *)
Theorem q_group_down_sound q y bs xs : length bs = length xs -> Forall2 inb bs xs -> Forall (fun x => 0 <= x <= 1) xs ->
  inb y (act_f (qconn q) (unit_np (length xs)) xs) ->
  Forall2 inb (act_down (qconn q) (unit_np (length xs)) y bs) xs.
Proof.
  intros Hl HF Hx Hy. apply act_down_sound; [apply unit_conn_wf; apply qconn_not_imp | exact HF | exact Hx | exact Hy].
Qed.

(* a universal formula's lower bound reaches every instance (an axiom Forall makes each instance TRUE) *)
Lemma tsum_ones_others bs k : (forall b, In b bs -> hi b <= 1) -> (k < length bs)%nat ->
  1 - hi (nth k bs unknown) <= tsum (repeat 1 (length bs)) (his bs).
Proof.
  revert k. induction bs as [|b bs IH]; intros k Hall Hk; cbn [length] in Hk; [lia|]. cbn [length repeat his map tsum nth].
  assert (Hge : forall l, (forall b0, In b0 l -> hi b0 <= 1) -> 0 <= tsum (repeat 1 (length l)) (his l)).
  { clear. induction l as [|y l IHl]; intros H; cbn [length repeat his map tsum]; [lra|].
    pose proof (H y (or_introl eq_refl)). pose proof (IHl (fun r Hr => H r (or_intror Hr))). unfold his in *. lra. }
  destruct k as [|k].
  - pose proof (Hge bs (fun b0 H0 => Hall b0 (or_intror H0))). unfold his in *. lra.
  - pose proof (IH k (fun b0 H0 => Hall b0 (or_intror H0)) ltac:(lia)). pose proof (Hall b (or_introl eq_refl)). unfold his in *. lra.
Qed.

Theorem forall_lower_reaches_instances y bs k : (k < length bs)%nat -> 0 < lo y -> lo y <= 1 ->
  (forall b, In b bs -> hi b <= 1) ->
  lo y <= lo (nth k (act_down CAnd (unit_np (length bs)) y bs) unknown).
Proof.
  intros Hk HL HL1 Hall. cbn [act_down]. rewrite nth_and_down; [|exact Hk | cbn [weights unit_np]; apply repeat_length].
  cbn [alpha bias weights unit_np]. unfold and_down_one.
  assert (Hw : nth k (repeat 1 (length bs)) 0 = 1).
  { clear - Hk. revert k Hk. induction (length bs) as [|n IH]; intros k Hk; [lia|]. destruct k; cbn [repeat nth]; [reflexivity | apply IH; lia]. }
  rewrite Hw. replace (qeqb 1 0) with false by (symmetry; apply qeqb_false; lra). cbn [lo].
  replace (qltb (1 - 1) (lo y)) with true by (symmetry; apply qltb_true; lra).
  replace (qleb (lo y) 0) with false by (symmetry; apply qleb_false; lra).
  pose proof (tsum_ones_others bs k Hall Hk) as Ht.
  assert (E : 1 + (lo y - 1 + (tsum (repeat 1 (length bs)) (his bs) - 1 * (1 - hi (nth k bs unknown)))) / 1 ==
              lo y + (tsum (repeat 1 (length bs)) (his bs) - (1 - hi (nth k bs unknown)))) by (field).
  rewrite E. qcases; lra.
Qed.

(* ---------- downward through a quantifier over a quantifier: the push into the operand's private neurons ---------- *)
Definition qneu_sound (s : qstate) (v : gnd -> Q) : Prop := forall g a b, qfind (qneu s) g = Some (a, b) -> inb b (v g).

(* every bound a group of the inner quantifier holds after the push still contains the group's value, provided the bound
   it held before and the proposal did; nothing but bounds of existing groups changes, the amount is non-negative *)
Theorem q_push_inner_sound inner props v : (forall g, 0 <= v g <= 1) -> qneu_sound inner v ->
  (forall g p, In (g, p) props -> inb p (v g)) ->
  qneu_sound (fst (q_push_inner inner props)) v /\ qtab (fst (q_push_inner inner props)) = qtab inner /\ 0 <= snd (q_push_inner inner props).
Proof.
  intros Hv. unfold q_push_inner.
  assert (G : forall props acc, qneu_sound (fst acc) v -> 0 <= snd acc -> (forall g p, In (g, p) props -> inb p (v g)) ->
     let r := fold_left (fun (acc : qstate * Q) gp =>
               match qfind (qneu (fst acc)) (fst gp) with
               | Some (a, b) => let b' := agg_bnd WBoth b (snd gp) in
                   (QS (qset (qneu (fst acc)) (fst gp) (a, bred b')) (qtab (fst acc)), Qred (snd acc + moved b b'))
               | None => acc end) props acc in
     qneu_sound (fst r) v /\ qtab (fst r) = qtab (fst acc) /\ 0 <= snd r).
  { induction props0 as [|[g p] props0 IH]; intros acc Hs Ha Hp; cbn [fold_left]; cbn zeta; [split; [exact Hs | split; [reflexivity | exact Ha]]|].
    cbn [fst snd]. destruct (qfind (qneu (fst acc)) g) as [[a b]|] eqn:E.
    - set (acc1 := (QS (qset (qneu (fst acc)) g (a, bred (agg_bnd WBoth b p))) (qtab (fst acc)), Qred (snd acc + moved b (agg_bnd WBoth b p)))).
      destruct (IH acc1) as (S1 & T1 & A1).
      + intros h a' b' Hf. unfold acc1 in Hf. cbn [fst qneu] in Hf.
        destruct (list_eq_dec Nat.eq_dec h g) as [->|Hne].
        * rewrite qfind_qset_same in Hf. inversion Hf; subst a' b'. unfold inb. rewrite lo_bred, hi_bred.
          apply agg_sound; [split; apply Hv | apply (Hs g a b E) | apply (Hp g p); left; reflexivity].
        * rewrite qfind_qset_other in Hf by (intro X; apply Hne; symmetry; exact X). apply (Hs h a' b' Hf).
      + unfold acc1. cbn [snd]. rewrite Qred_correct. pose proof (moved_nonneg b (agg_bnd WBoth b p)). lra.
      + intros h q0 Hin. apply Hp. right. exact Hin.
      + split; [exact S1 | split; [etransitivity; [exact T1 | reflexivity] | exact A1]].
    - apply IH; [exact Hs | exact Ha | intros h q0 Hin; apply Hp; right; exact Hin]. }
  intros Hs Hp. apply (G props (inner, 0)); cbn [fst snd]; [exact Hs | lra | exact Hp].
Qed.
