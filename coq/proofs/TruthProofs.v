(* TruthProofs.v -- C04: point inputs give point outputs of the weighted Lukasiewicz truth
   function (for a consistent interpretation that provably exists), {0,1} inputs give the
   classical tables, {F,U,T} inputs the strong Kleene tables (default parameters), dualities. *)
From LNN Require Import Num Neuron Node PropEngine.
From LNN.proofs Require Import NodeProofs NeuronProofs PropProofs DfsProofs MonoProofs SchedProofs EvalProofs.
Open Scope Q_scope.

(* ---------- points ---------- *)
Lemma los_point xs : los (map point xs) = xs.
Proof. unfold los. rewrite map_map. cbn [point lo]. apply map_id. Qed.
Lemma his_point xs : his (map point xs) = xs.
Proof. unfold his. rewrite map_map. cbn [point hi]. apply map_id. Qed.

Lemma act_up_point c p xs : (c = CImp -> length xs = 2%nat /\ length (weights p) = 2%nat) ->
  act_up c p (map point xs) = point (act_f c p xs).
Proof.
  intros Hi. destruct c; cbn [act_up act_f].
  - unfold and_up, and_f, point. rewrite los_point, his_point. reflexivity.
  - unfold or_up, or_f, point. rewrite los_point, his_point. reflexivity.
  - destruct (Hi eq_refl) as [H1 H2].
    destruct xs as [|x0 [|x1 [|? ?]]]; cbn [length] in H1; try discriminate.
    unfold imp_up, imp_f. destruct (weights p) as [|w0 [|w1 [|? ?]]]; cbn [length] in H2; try discriminate.
    cbn [map point lo hi]. reflexivity.
Qed.

Lemma obj_value_range o vals : (forall i, 0 <= vals i <= 1) -> 0 <= obj_value o vals <= 1.
Proof.
  intros Hv. unfold obj_value. destruct (okind o) as [| |c| |]; try lra.
  - destruct (oops o) as [|j r]; [lra|]. specialize (Hv j). lra.
  - destruct c; cbn [conn_of act_f]; unfold and_f, or_f, imp_f; try apply clamp01_range.
    destruct (weights (opar o)) as [|? [|? [|? ?]]]; try lra; destruct (map vals (oops o)) as [|? [|? [|? ?]]]; try lra; apply clamp01_range.
  - cbn [conn_of act_f]. apply clamp01_range.
  - cbn [conn_of act_f]. apply clamp01_range.
Qed.

(* a consistent point interpretation is an interval interpretation *)
Lemma consistent_iinterp k vals : wf_kb k -> consistent k vals -> iinterp k (fun i => point (vals i)).
Proof.
  intros Hwf [Hv Hc]. split.
  - intros i. specialize (Hv i). unfold wf_bnd, ordered, point; cbn [lo hi]. repeat split; lra.
  - intros i Hi Hk. specialize (Hc i Hi Hk). unfold obj_up, obj_value in *.
    destruct (Hwf i Hi) as (_ & _ & _ & Hkd & _).
    destruct (okind (getobj k i)) as [| |c| |] eqn:Ek; try congruence; cbv beta iota in *; cbn [conn_of] in *.
    + destruct (oops (getobj k i)) as [|j r]; [discriminate|]. unfold bnd_eq, neg, point; cbn [lo hi]. split; lra.
    + rewrite <- (map_map vals point). rewrite act_up_point.
      * unfold bnd_eq, point; cbn [lo hi]. split; exact Hc.
      * intros ->. rewrite map_length. cbn [conn_of] in *. destruct Hkd as (? & ? & _). split; assumption.
    + rewrite <- (map_map vals point). rewrite act_up_point by discriminate.
      unfold bnd_eq, point; cbn [lo hi]. split; exact Hc.
    + rewrite <- (map_map vals point). rewrite act_up_point by discriminate.
      unfold bnd_eq, point; cbn [lo hi]. split; exact Hc.
Qed.

Theorem point_upward k vals roots s : wf_kb k -> consistent k vals -> roots_ok k roots -> Range s ->
  (forall i, inb (s i) (vals i)) ->
  (forall i, okind (getobj k i) = KProp -> bnd_eq (s i) (point (vals i))) ->
  forall i, In i (postorder k roots) -> bnd_eq (fst (pass k roots Up None s) i) (point (vals i)).
Proof.
  intros Hwf Hc Hr HR HS Hp i Hi.
  apply (upward_pass_eval k Hwf _ (consistent_iinterp k vals Hwf Hc) roots s Hr HR); [|exact Hp|exact Hi].
  intros j. destruct (HS j). unfold tighter, point; cbn [lo hi]. split; assumption.
Qed.

(* ---------- the consistent interpretation exists and is unique: recursive evaluation ---------- *)
Fixpoint evalf (fuel : nat) (k : kb) (v : nat -> Q) (i : nat) : Q :=
  match fuel with
  | O => 0
  | S f => match okind (getobj k i) with
           | KProp => v i
           | _ => obj_value (getobj k i) (evalf f k v)
           end
  end.
Definition eval (k : kb) (v : nat -> Q) (i : nat) : Q := evalf (S i) k v i.

Lemma obj_value_ext o v1 v2 : (forall j, In j (oops o) -> v1 j = v2 j) -> obj_value o v1 = obj_value o v2.
Proof.
  intros H. unfold obj_value.
  assert (Hm : map v1 (oops o) = map v2 (oops o)) by (apply map_ext_in; exact H).
  destruct (okind o); try reflexivity; try (rewrite Hm; reflexivity).
  destruct (oops o) as [|j r]; [reflexivity|]. rewrite (H j (or_introl eq_refl)). reflexivity.
Qed.

Lemma evalf_stable k v : wf_kb k -> forall i f1 f2, (i < f1)%nat -> (i < f2)%nat -> evalf f1 k v i = evalf f2 k v i.
Proof.
  intros Hwf i. induction i as [i IH] using lt_wf_ind. intros [|f1] [|f2] H1 H2; try lia. cbn [evalf].
  destruct (okind (getobj k i)) eqn:Ek; try reflexivity; apply obj_value_ext; intros j Hj;
    (assert (Hji : (j < i)%nat) by (apply (wf_dag k Hwf i j); exact Hj)); apply IH; lia.
Qed.

Lemma eval_unfold k v i : wf_kb k -> okind (getobj k i) <> KProp -> eval k v i = obj_value (getobj k i) (eval k v).
Proof.
  intros Hwf Hk. unfold eval at 1. cbn [evalf].
  destruct (okind (getobj k i)) eqn:Ek; try congruence; apply obj_value_ext; intros j Hj;
    (assert (Hji : (j < i)%nat) by (apply (wf_dag k Hwf i j); exact Hj)); unfold eval; apply evalf_stable; try assumption; lia.
Qed.

Lemma eval_range k v : wf_kb k -> (forall i, 0 <= v i <= 1) -> forall i, 0 <= eval k v i <= 1.
Proof.
  intros Hwf Hv i. induction i as [i IH] using lt_wf_ind.
  destruct (kind_eq_dec_prop (okind (getobj k i))) as [E|E].
  - unfold eval. cbn [evalf]. rewrite E. apply Hv.
  - rewrite eval_unfold by assumption. unfold obj_value.
    pose proof (wf_dag k Hwf i) as Hd. unfold children in Hd.
    assert (Hm : Forall (fun x => 0 <= x <= 1) (map (eval k v) (oops (getobj k i)))).
    { apply Forall_forall. intros x Hx. apply in_map_iff in Hx. destruct Hx as [j [<- Hj]]. apply IH. apply Hd; exact Hj. }
    destruct (okind (getobj k i)) as [| |c| |]; try lra.
    + destruct (oops (getobj k i)) as [|j r]; [lra|]. assert (0 <= eval k v j <= 1) by (apply IH; apply Hd; left; reflexivity). lra.
    + destruct c; cbn [conn_of act_f]; unfold and_f, or_f, imp_f; try apply clamp01_range.
      destruct (weights _) as [|? [|? [|? ?]]]; try lra; destruct (map _ _) as [|? [|? [|? ?]]]; try lra; apply clamp01_range.
    + cbn [conn_of act_f]. apply clamp01_range.
    + cbn [conn_of act_f]. apply clamp01_range.
Qed.

Theorem eval_consistent k v : wf_kb k -> (forall i, 0 <= v i <= 1) -> consistent k (eval k v).
Proof.
  intros Hwf Hv. split; [apply eval_range; assumption|].
  intros i Hi Hk. rewrite eval_unfold at 1 by assumption. reflexivity.
Qed.

Lemma eval_atom k v i : okind (getobj k i) = KProp -> eval k v i = v i.
Proof. intros E. unfold eval. cbn [evalf]. rewrite E. reflexivity. Qed.

(* ---------- classical inputs ---------- *)
Definition b2q (b : bool) : Q := if b then 1 else 0.
Definition ones (n : nat) : list Q := repeat 1 n.
Definition unit_params (p : nparams) (n : nat) : Prop := bias p == 1 /\ weights p = ones n.

Lemma tsum_ones_bool c bs : 0 <= c ->
  clamp01 (1 - c - tsum (ones (length bs)) (map b2q bs)) == if forallb (fun b => b) bs then clamp01 (1 - c) else 0.
Proof.
  revert c. induction bs as [|b bs IH]; intros c Hc; cbn [length ones repeat map tsum forallb].
  - setoid_replace (1 - c - 0) with (1 - c) by ring. reflexivity.
  - fold (ones (length bs)). destruct b; cbn [b2q andb].
    + setoid_replace (1 - c - (1 * (1 - 1) + tsum (ones (length bs)) (map b2q bs))) with (1 - c - tsum (ones (length bs)) (map b2q bs)) by ring.
      apply IH; exact Hc.
    + setoid_replace (1 - c - (1 * (1 - 0) + tsum (ones (length bs)) (map b2q bs))) with (1 - (c + 1) - tsum (ones (length bs)) (map b2q bs)) by ring.
      rewrite IH by lra. destruct (forallb _ bs); [|reflexivity]. qcases; lra.
Qed.

Lemma and_f_bool p bs : unit_params p (length bs) -> and_f p (map b2q bs) == b2q (forallb (fun b => b) bs).
Proof.
  intros [Hb Hw]. unfold and_f. rewrite Hw.
  assert (E : clamp01 (bias p - tsum (ones (length bs)) (map b2q bs)) == clamp01 (1 - 0 - tsum (ones (length bs)) (map b2q bs))).
  { apply clamp01_compat. rewrite Hb. ring. }
  rewrite E, tsum_ones_bool by lra. destruct (forallb _ bs); cbn [b2q]; [|reflexivity]. qcases; lra.
Qed.

Lemma nonneg_ones n : nonneg (ones n).
Proof. unfold nonneg, ones. induction n; cbn [repeat]; constructor; [lra | assumption]. Qed.
Lemma length_ones n : length (ones n) = n.
Proof. apply repeat_length. Qed.

Lemma map_compl_b2q bs : map compl (map b2q bs) = map b2q (map negb bs).
Proof. rewrite !map_map. apply map_ext. intros [|]; unfold compl, b2q; cbn [negb]; reflexivity. Qed.

Lemma forallb_negb_existsb bs : forallb (fun b => b) (map negb bs) = negb (existsb (fun b => b) bs).
Proof. induction bs as [|[|] bs IH]; cbn [map forallb existsb negb andb orb]; auto. Qed.

Lemma or_f_bool p bs : unit_params p (length bs) -> or_f p (map b2q bs) == b2q (existsb (fun b => b) bs).
Proof.
  intros [Hb Hw]. rewrite or_f_and.
  - rewrite map_compl_b2q. rewrite and_f_bool by (rewrite map_length; split; assumption).
    rewrite forallb_negb_existsb. destruct (existsb _ bs); cbn [negb b2q]; lra.
  - rewrite Hw. apply nonneg_ones.
  - rewrite Hw, length_ones, map_length. reflexivity.
Qed.

Lemma imp_f_bool p a b : unit_params p 2 -> imp_f p [b2q a; b2q b] == b2q (implb a b).
Proof.
  intros [Hb Hw]. unfold imp_f. rewrite Hw. cbn [ones repeat].
  destruct a, b; cbn [b2q implb]; qcases; lra.
Qed.

Lemma not_bool b : 1 - b2q b == b2q (negb b).
Proof. destruct b; cbn [b2q negb]; lra. Qed.

(* Iff = And(Implies(a,b), Implies(b,a)) is equivalence; XOr = And(Not(And(x_i,x_j)) for i<j, Or(x..)) is exactly-one *)
Lemma iff_bool a b : (implb a b && implb b a)%bool = Bool.eqb a b.
Proof. destruct a, b; reflexivity. Qed.

Fixpoint pairs {T} (l : list T) : list (T * T) :=
  match l with [] => [] | x :: r => map (pair x) r ++ pairs r end.
Fixpoint count_true (l : list bool) : nat :=
  match l with [] => 0 | b :: r => (if b then 1 else 0) + count_true r end.

Lemma pairs_false_head bs :
  forallb (fun ab => negb (fst ab && snd ab)) (map (pair false) bs) = true.
Proof. induction bs; cbn; auto. Qed.
Lemma pairs_true_head bs :
  forallb (fun ab => negb (fst ab && snd ab)) (map (pair true) bs) = negb (existsb (fun b => b) bs).
Proof. induction bs as [|[|] bs IH]; cbn [map forallb fst snd andb negb existsb orb]; auto. Qed.
Lemma existsb_count bs : existsb (fun b => b) bs = negb (Nat.eqb (count_true bs) 0).
Proof. induction bs as [|[|] bs IH]; cbn [existsb count_true orb Nat.add]; auto. Qed.

Lemma exactly_one_bool bs :
  (forallb (fun ab => negb (fst ab && snd ab)) (pairs bs) && existsb (fun b => b) bs)%bool = Nat.eqb (count_true bs) 1.
Proof.
  assert (H : forall bs, forallb (fun ab => negb (fst ab && snd ab)) (pairs bs) = Nat.leb (count_true bs) 1).
  { clear bs. induction bs as [|b bs IH]; [reflexivity|]. cbn [pairs count_true]. rewrite forallb_app, IH.
    destruct b.
    - rewrite pairs_true_head, existsb_count. cbn [Nat.add]. destruct (count_true bs) as [|[|n]]; reflexivity.
    - rewrite pairs_false_head. reflexivity. }
  rewrite H, existsb_count. destruct (count_true bs) as [|[|n]]; reflexivity.
Qed.

(* ---------- three-valued (Kleene) inputs: bounds in {F=[0,0], U=[0,1], T=[1,1]} ---------- *)
Definition enc (lh : bool * bool) : bnd := B (b2q (fst lh)) (b2q (snd lh)).

Lemma los_enc ks : los (map enc ks) = map b2q (map fst ks).
Proof. unfold los. rewrite !map_map. reflexivity. Qed.
Lemma his_enc ks : his (map enc ks) = map b2q (map snd ks).
Proof. unfold his. rewrite !map_map. reflexivity. Qed.

Lemma and_up_kleene p ks : unit_params p (length ks) ->
  bnd_eq (and_up p (map enc ks)) (enc (forallb (fun b => b) (map fst ks), forallb (fun b => b) (map snd ks))).
Proof.
  intros Hu. unfold and_up. rewrite los_enc, his_enc. unfold bnd_eq, enc; cbn [lo hi fst snd].
  split; apply (and_f_bool p); rewrite map_length; exact Hu.
Qed.
Lemma or_up_kleene p ks : unit_params p (length ks) ->
  bnd_eq (or_up p (map enc ks)) (enc (existsb (fun b => b) (map fst ks), existsb (fun b => b) (map snd ks))).
Proof.
  intros Hu. unfold or_up. rewrite los_enc, his_enc. unfold bnd_eq, enc; cbn [lo hi fst snd].
  split; apply (or_f_bool p); rewrite map_length; exact Hu.
Qed.
Lemma imp_up_kleene p a b : unit_params p 2 ->
  bnd_eq (imp_up p [enc a; enc b]) (enc (implb (snd a) (fst b), implb (fst a) (snd b))).
Proof.
  intros Hu. pose proof (imp_f_bool p (snd a) (fst b) Hu) as H1. pose proof (imp_f_bool p (fst a) (snd b) Hu) as H2.
  unfold imp_up, imp_f in *. destruct Hu as [_ Hw]. rewrite Hw in *. cbn [ones repeat] in *.
  unfold bnd_eq, enc; cbn [lo hi fst snd]. split; assumption.
Qed.
Lemma neg_kleene a : neg (enc a) = enc (negb (snd a), negb (fst a)) \/ bnd_eq (neg (enc a)) (enc (negb (snd a), negb (fst a))).
Proof. right. unfold bnd_eq, neg, enc; cbn [lo hi fst snd]. split; apply not_bool. Qed.

(* the pair encoding IS the strong Kleene algebra F < U < T with min, max, involution *)
Inductive t3 := K_F | K_U | K_T.
Definition t3_pair (x : t3) : bool * bool := match x with K_F => (false, false) | K_U => (false, true) | K_T => (true, true) end.
Definition t3_min (x y : t3) : t3 := match x, y with K_F, _ | _, K_F => K_F | K_U, _ | _, K_U => K_U | K_T, K_T => K_T end.
Definition t3_max (x y : t3) : t3 := match x, y with K_T, _ | _, K_T => K_T | K_U, _ | _, K_U => K_U | K_F, K_F => K_F end.
Definition t3_neg (x : t3) : t3 := match x with K_F => K_T | K_U => K_U | K_T => K_F end.

Lemma kleene_and_table xs :
  t3_pair (fold_right t3_min K_T xs) = (forallb (fun b => b) (map fst (map t3_pair xs)), forallb (fun b => b) (map snd (map t3_pair xs))).
Proof. induction xs as [|x xs IH]; [reflexivity|]. cbn [fold_right map forallb]. rewrite <- !IH || idtac.
  destruct x, (fold_right t3_min K_T xs); cbn in *; inversion IH; subst; rewrite <- ?H0, <- ?H1; reflexivity. Qed.
Lemma kleene_or_table xs :
  t3_pair (fold_right t3_max K_F xs) = (existsb (fun b => b) (map fst (map t3_pair xs)), existsb (fun b => b) (map snd (map t3_pair xs))).
Proof. induction xs as [|x xs IH]; [reflexivity|]. cbn [fold_right map existsb].
  destruct x, (fold_right t3_max K_F xs); cbn in *; inversion IH; subst; rewrite <- ?H0, <- ?H1; reflexivity. Qed.
Lemma kleene_imp_table a b :
  t3_pair (t3_max (t3_neg a) b) = (implb (snd (t3_pair a)) (fst (t3_pair b)), implb (fst (t3_pair a)) (snd (t3_pair b))).
Proof. destruct a, b; reflexivity. Qed.
Lemma kleene_not_table a : t3_pair (t3_neg a) = (negb (snd (t3_pair a)), negb (fst (t3_pair a))).
Proof. destruct a; reflexivity. Qed.

(* ---------- dualities (both directions) ---------- *)
Lemma dual_or_up p bs : nonneg (weights p) -> length (weights p) = length bs ->
  bnd_eq (or_up p bs) (neg (and_up p (map neg bs))).
Proof. intros. apply or_up_and; assumption. Qed.
Lemma dual_or_down p y bs : or_down p y bs = map neg (and_down p (neg y) (map neg bs)).
Proof. reflexivity. Qed.

Lemma dual_imp_up p a b w0 w1 : weights p = [w0; w1] -> 0 <= w0 -> 0 <= w1 ->
  bnd_eq (imp_up p [a; b]) (or_up p [neg a; b]).
Proof.
  intros Hw H0 H1. assert (Hn : negw p == 0) by (apply negw_zero; rewrite Hw; repeat constructor; assumption).
  unfold imp_up, or_up, bnd_eq. rewrite Hw. cbn [los his map lo hi neg dot]. split; apply clamp01_compat; rewrite Hn; ring.
Qed.

(* ---------- nested three-valued evaluation ---------- *)
Definition kleene_value (o : obj) (kv : nat -> bool * bool) : bool * bool :=
  let ks := map kv (oops o) in
  match okind o with
  | KProp => (false, true)
  | KNot => match ks with a :: _ => (negb (snd a), negb (fst a)) | [] => (false, true) end
  | KConn COr => (existsb (fun b => b) (map fst ks), existsb (fun b => b) (map snd ks))
  | KConn CImp => match ks with [a; b] => (implb (snd a) (fst b), implb (fst a) (snd b)) | _ => (false, true) end
  | _ => (forallb (fun b => b) (map fst ks), forallb (fun b => b) (map snd ks))
  end.
Definition kleene_consistent (k : kb) (kv : nat -> bool * bool) : Prop :=
  (forall i, fst (kv i) = true -> snd (kv i) = true) /\
  forall i, (i < length k)%nat -> okind (getobj k i) <> KProp -> kv i = kleene_value (getobj k i) kv.
Definition unit_kb (k : kb) : Prop :=
  forall i, (i < length k)%nat -> is_neuron (okind (getobj k i)) -> unit_params (opar (getobj k i)) (length (oops (getobj k i))).

Lemma kleene_iinterp k kv : wf_kb k -> unit_kb k -> kleene_consistent k kv -> iinterp k (fun i => enc (kv i)).
Proof.
  intros Hwf Hu [Hord Hc]. split.
  - intros i. specialize (Hord i). unfold wf_bnd, ordered, enc; cbn [lo hi].
    destruct (kv i) as [[|] [|]]; cbn [fst snd b2q] in *; try (specialize (Hord eq_refl); discriminate); repeat split; lra.
  - intros i Hi Hk. rewrite (Hc i Hi Hk). unfold obj_up, kleene_value.
    destruct (Hwf i Hi) as (_ & _ & _ & Hkd & _). specialize (Hu i Hi).
    rewrite <- (map_map kv enc).
    destruct (okind (getobj k i)) as [| |c| |] eqn:Ek; try congruence; cbn [conn_of is_neuron] in *.
    + destruct (oops (getobj k i)) as [|j r]; [discriminate|]. cbn [map].
      destruct (neg_kleene (kv j)) as [->|H]; [apply bnd_eq_refl | apply bnd_eq_sym; exact H].
    + destruct c; cbn [act_up].
      * apply bnd_eq_sym. apply and_up_kleene. rewrite map_length. apply Hu; exact I.
      * apply bnd_eq_sym. apply or_up_kleene. rewrite map_length. apply Hu; exact I.
      * destruct Hkd as (Hl & _). specialize (Hu I). rewrite Hl in Hu.
        destruct (oops (getobj k i)) as [|a [|b [|? ?]]]; cbn [length] in Hl; try discriminate. cbn [map].
        apply bnd_eq_sym. apply imp_up_kleene; exact Hu.
    + cbn [act_up]. apply bnd_eq_sym. apply and_up_kleene. rewrite map_length. apply Hu; exact I.
    + cbn [act_up]. apply bnd_eq_sym. apply and_up_kleene. rewrite map_length. apply Hu; exact I.
Qed.

Theorem kleene_upward k kv roots s : wf_kb k -> unit_kb k -> kleene_consistent k kv -> roots_ok k roots -> Range s ->
  (forall i, tighter (s i) (enc (kv i))) ->
  (forall i, okind (getobj k i) = KProp -> bnd_eq (s i) (enc (kv i))) ->
  forall i, In i (postorder k roots) -> bnd_eq (fst (pass k roots Up None s) i) (enc (kv i)).
Proof.
  intros Hwf Hu Hc Hr HR HL Hp i Hi.
  exact (upward_pass_eval k Hwf _ (kleene_iinterp k kv Hwf Hu Hc) roots s Hr HR HL Hp i Hi).
Qed.
