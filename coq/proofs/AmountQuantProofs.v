(* AmountQuantProofs.v -- C13 for quantifiers: the amount an upward call of a quantifier returns is the sum, over the
   groups of its free-variable groundings, of what each group's bounds moved; it is non-negative and zero exactly when no
   group's bounds move (also when a group's neuron is rebuilt at a new arity, seed D11_C13). *)
From LNN Require Import Num Neuron Node PropEngine Fol Quant.
From LNN.proofs Require Import NodeProofs NeuronProofs TrainProofs QuantProofs.
Open Scope Q_scope.

(* the amount one group contributes to an upward call of a quantifier *)
Definition group_amount (q : qobj) (s : qstate) (rows : list (gnd * bnd)) (g : gnd) : Q :=
  let inst := map snd (group_rows q rows g) in
  let n := length inst in
  let old := neuron_bounds q s g n in
  moved old (agg_bnd (qwhich q) old (act_up (qconn q) (unit_np n) inst)).

Lemma q_up_fold_amount q (s0 : qstate) rows keys : NoDup keys -> forall acc a,
  (forall g, In g keys -> qfind acc g = qfind (qneu s0) g) ->
  snd (fold_left (fun (acc : list (gnd * (nat * bnd)) * Q) g =>
                  let inst := map snd (group_rows q rows g) in
                  let n := length inst in
                  let old := neuron_bounds q (QS (fst acc) []) g n in
                  let ag := aggregate (qwhich q) old (act_up (qconn q) (unit_np n) inst) in
                  (qset (fst acc) g (n, bred (fst ag)), Qred (snd acc + snd ag))) keys (acc, a))
  == a + qsum (map (group_amount q s0 rows) keys).
Proof.
  induction keys as [|k keys IH]; intros HN acc a Hacc; cbn zeta; cbn [fold_left map qsum].
  - cbn [snd]. lra.
  - inversion HN as [|? ? Hk HN']; subst. cbn [fst snd].
    rewrite IH; [| exact HN' |].
    + rewrite Qred_correct. unfold group_amount at 2. cbn zeta. unfold neuron_bounds at 1 3. cbn [qneu].
      rewrite (Hacc k (or_introl eq_refl)). unfold aggregate. cbn [snd]. unfold neuron_bounds. ring.
    + intros g Hg. rewrite qfind_qset_other by (intro; subst; contradiction). apply Hacc. right; exact Hg.
Qed.

Theorem q_up_amount q s rows : rows <> [] ->
  snd (q_up q s rows) == qsum (map (group_amount q s rows) (group_keys q rows)).
Proof.
  intros Hne. unfold q_up. destruct rows as [|r0 rows']; [congruence|]. set (rows := r0 :: rows') in *.
  cbn [snd]. rewrite (q_up_fold_amount q s rows (group_keys q rows) (gdedup_nodup _) (qneu s) 0 (fun _ _ => eq_refl)). ring.
Qed.

Theorem q_up_amount_nonneg q s rows : 0 <= snd (q_up q s rows).
Proof.
  destruct rows as [|r0 rows'] eqn:E; [cbn; lra|]. rewrite <- E. rewrite q_up_amount by (rewrite E; discriminate).
  apply qsum_map_nonneg. intros g _. apply moved_nonneg.
Qed.

(* zero exactly when no group's bounds move *)
Theorem q_up_amount_zero_iff q s rows : rows <> [] ->
  (snd (q_up q s rows) == 0 <->
   forall g, In g (group_keys q rows) ->
     let inst := map snd (group_rows q rows g) in
     let old := neuron_bounds q s g (length inst) in
     bnd_eq (agg_bnd (qwhich q) old (act_up (qconn q) (unit_np (length inst)) inst)) old).
Proof.
  intros Hne. rewrite q_up_amount by exact Hne.
  rewrite qsum_map_zero_iff by (intros g _; apply moved_nonneg).
  split; intros H g Hg; specialize (H g Hg); cbn zeta in *; unfold group_amount in *; cbn zeta in *; apply moved_zero_iff; exact H.
Qed.
