(* FolLossProofs.v -- the first-order contradiction loss: non-negative, zero exactly when no row of a registered formula
   crosses outside the tolerance (C18, first-order part). *)
From LNN Require Import Num Neuron Node PropEngine Fol.
From LNN.proofs Require Import NodeProofs TrainProofs FolProofs.
Open Scope Q_scope.

Section FLoss.
Variable k : fkb.
Variable reg : list nat.
Variable s : fstate.
Hypothesis Halpha : forall i, In i reg -> alpha_ok (falpha (getf k i)).
Hypothesis HR : FRange s.

Lemma row_closs_nonneg i r : In i reg -> In r (ftab s i) -> 0 <= row_closs (falpha (getf k i)) r.
Proof.
  intros Hi Hr. unfold row_closs. destruct (is_contra (falpha (getf k i)) (rcur r)) eqn:E; [|lra].
  destruct HR as [_ H]. destruct (H i r Hr) as [Hl Hu].
  apply is_contra_iff in E; [|apply Halpha; exact Hi | exact Hl | exact Hu]. destruct E as [E _]. lra.
Qed.

Lemma row_closs_zero i r : In i reg -> In r (ftab s i) ->
  (row_closs (falpha (getf k i)) r == 0 <-> is_contra (falpha (getf k i)) (rcur r) = false).
Proof.
  intros Hi Hr. unfold row_closs. destruct (is_contra (falpha (getf k i)) (rcur r)) eqn:E.
  - destruct HR as [_ H]. destruct (H i r Hr) as [Hl Hu].
    apply is_contra_iff in E; [|apply Halpha; exact Hi | exact Hl | exact Hu]. destruct E as [E _].
    split; [intros X; lra | discriminate].
  - split; [reflexivity | intros _; lra].
Qed.

Lemma node_closs_nonneg i : In i reg -> 0 <= qsum (map (row_closs (falpha (getf k i))) (ftab s i)).
Proof. intros Hi. apply qsum_map_nonneg. intros r Hr. apply row_closs_nonneg; assumption. Qed.

Theorem f_contradiction_loss_nonneg : 0 <= f_contradiction_loss k reg s.
Proof. unfold f_contradiction_loss. apply qsum_map_nonneg. intros i Hi. apply node_closs_nonneg; exact Hi. Qed.

Theorem f_contradiction_loss_zero_iff :
  f_contradiction_loss k reg s == 0 <-> f_has_contradiction k reg s = false.
Proof.
  unfold f_contradiction_loss, f_has_contradiction.
  rewrite qsum_map_zero_iff by (intros i Hi; apply node_closs_nonneg; exact Hi). split.
  - intros H. apply Bool.not_true_is_false. intros X. apply existsb_exists in X. destruct X as [i [Hi X]].
    apply existsb_exists in X. destruct X as [r [Hr X]].
    specialize (H i Hi). rewrite qsum_map_zero_iff in H by (intros r' Hr'; apply row_closs_nonneg; assumption).
    specialize (H r Hr). apply row_closs_zero in H; [|exact Hi | exact Hr]. congruence.
  - intros H i Hi. rewrite qsum_map_zero_iff by (intros r' Hr'; apply row_closs_nonneg; assumption).
    intros r Hr. apply row_closs_zero; [exact Hi | exact Hr |].
    destruct (is_contra (falpha (getf k i)) (rcur r)) eqn:E; [|reflexivity].
    assert (X : existsb (fun i => existsb (fun r => is_contra (falpha (getf k i)) (rcur r)) (ftab s i)) reg = true).
    { apply existsb_exists. exists i. split; [exact Hi|]. apply existsb_exists. exists r. split; assumption. }
    congruence.
Qed.
End FLoss.
