(* FolLossProofs.v -- the first-order contradiction loss: non-negative, zero exactly when no row of a registered formula
   crosses outside the tolerance (C18, first-order part). *)
From LNN Require Import Num Neuron Node PropEngine Fol.
From LNN.proofs Require Import NodeProofs TrainProofs FolProofs.
Open Scope Q_scope.

Section FLoss.
Variable k : fkb.
Variable reg : list nat.
Variable s : fstate.
Hypothesis Halpha : forall i, In i reg -> alpha_ok (falpha (getf k i)).
Hypothesis HR : FRange s.

Lemma row_closs_nonneg i r : In i reg -> In r (ftab s i) -> 0 <= row_closs (falpha (getf k i)) r.
Proof.
  intros Hi Hr. unfold row_closs. destruct (is_contra (falpha (getf k i)) (rcur r)) eqn:E; [|lra].
  destruct HR as [_ H]. destruct (H i r Hr) as [Hl Hu].
  apply is_contra_iff in E; [|apply Halpha; exact Hi | exact Hl | exact Hu]. destruct E as [E _]. lra.
Qed.

Lemma row_closs_zero i r : In i reg -> In r (ftab s i) ->
  (row_closs (falpha (getf k i)) r == 0 <-> is_contra (falpha (getf k i)) (rcur r) = false).
Proof.
  intros Hi Hr. unfold row_closs. destruct (is_contra (falpha (getf k i)) (rcur r)) eqn:E.
  - destruct HR as [_ H]. destruct (H i r Hr) as [Hl Hu].
    apply is_contra_iff in E; [|apply Halpha; exact Hi | exact Hl | exact Hu]. destruct E as [E _].
    split; [intros X; lra | discriminate].
  - split; [reflexivity | intros _; lra].
Qed.

Lemma node_closs_nonneg i : In i reg -> 0 <= qsum (map (row_closs (falpha (getf k i))) (ftab s i)).
Proof. intros Hi. apply qsum_map_nonneg. intros r Hr. apply row_closs_nonneg; assumption. Qed.

Theorem f_contradiction_loss_nonneg : 0 <= f_contradiction_loss k reg s.
Proof. unfold f_contradiction_loss. apply qsum_map_nonneg. intros i Hi. apply node_closs_nonneg; exact Hi. Qed.

(* the uncertainty loss (coefficient 1): non-negative for every state -- also with alpha < 1, where bounds may cross inside
   one classical region without being a contradiction; zero exactly when every formula without a contradictory row has
   no row of positive width *)
Lemma row_width_nonneg r : 0 <= row_width r.
Proof. unfold row_width. qcases; lra. Qed.
Lemma row_width_zero r : row_width r == 0 <-> hi (rcur r) <= lo (rcur r).
Proof. unfold row_width. split; intros H; qcases; lra. Qed.
Definition node_uloss (i : nat) : Q :=
  if existsb (fun r => is_contra (falpha (getf k i)) (rcur r)) (ftab s i) then 0 else qsum (map row_width (ftab s i)).
Lemma node_uloss_nonneg i : 0 <= node_uloss i.
Proof.
  unfold node_uloss. destruct (existsb _ (ftab s i)); [lra|].
  apply qsum_map_nonneg. intros r _. apply row_width_nonneg.
Qed.
Theorem f_uncertainty_loss_nonneg : 0 <= f_uncertainty_loss k reg s.
Proof. unfold f_uncertainty_loss. change (0 <= qsum (map node_uloss reg)). apply qsum_map_nonneg. intros i _. apply node_uloss_nonneg. Qed.
Theorem f_uncertainty_loss_zero_iff :
  f_uncertainty_loss k reg s == 0 <->
  forall i, In i reg -> existsb (fun r => is_contra (falpha (getf k i)) (rcur r)) (ftab s i) = false ->
            forall r, In r (ftab s i) -> hi (rcur r) <= lo (rcur r).
Proof.
  unfold f_uncertainty_loss. fold row_width. set (P := forall i, In i reg -> _).
  change (qsum (map node_uloss reg) == 0 <-> P). subst P.
  rewrite qsum_map_zero_iff by (intros i _; apply node_uloss_nonneg). split.
  - intros H i Hi E r Hr. specialize (H i Hi). unfold node_uloss in H. rewrite E in H.
    rewrite qsum_map_zero_iff in H by (intros r' _; apply row_width_nonneg).
    apply row_width_zero. apply H. exact Hr.
  - intros H i Hi. unfold node_uloss. destruct (existsb _ (ftab s i)) eqn:E; [reflexivity|].
    rewrite qsum_map_zero_iff by (intros r' _; apply row_width_nonneg).
    intros r Hr. apply row_width_zero. apply (H i Hi E r Hr).
Qed.

Theorem f_contradiction_loss_zero_iff :
  f_contradiction_loss k reg s == 0 <-> f_has_contradiction k reg s = false.
Proof.
  unfold f_contradiction_loss, f_has_contradiction.
  rewrite qsum_map_zero_iff by (intros i Hi; apply node_closs_nonneg; exact Hi). split.
  - intros H. apply Bool.not_true_is_false. intros X. apply existsb_exists in X. destruct X as [i [Hi X]].
    apply existsb_exists in X. destruct X as [r [Hr X]].
    specialize (H i Hi). rewrite qsum_map_zero_iff in H by (intros r' Hr'; apply row_closs_nonneg; assumption).
    specialize (H r Hr). apply row_closs_zero in H; [|exact Hi | exact Hr]. congruence.
  - intros H i Hi. rewrite qsum_map_zero_iff by (intros r' Hr'; apply row_closs_nonneg; assumption).
    intros r Hr. apply row_closs_zero; [exact Hi | exact Hr |].
    destruct (is_contra (falpha (getf k i)) (rcur r)) eqn:E; [|reflexivity].
    assert (X : existsb (fun i => existsb (fun r => is_contra (falpha (getf k i)) (rcur r)) (ftab s i)) reg = true).
    { apply existsb_exists. exists i. split; [exact Hi|]. apply existsb_exists. exists r. split; assumption. }
    congruence.
Qed.
End FLoss.

(* ---------- supervised loss of a first-order formula ---------- *)
Lemma fsq_nonneg x : 0 <= fsq x.
Proof. unfold fsq. destruct (Qlt_le_dec x 0); nra. Qed.
Lemma fsq_zero x : fsq x == 0 -> x == 0.
Proof. unfold fsq. intros H. destruct (Qlt_le_dec x 0); nra. Qed.

Lemma f_labelled_in s i labs g l : In (g, l) (f_labelled s i labs) <-> In (g, l) labs /\ tmem (ftab s i) g = true.
Proof. unfold f_labelled. rewrite filter_In. cbn [fst]. tauto. Qed.

Theorem f_supervised_loss_spec s i labs v : f_supervised_loss s i labs = Some v ->
  0 <= v /\
  (v == 0 <-> forall g l, In (g, l) labs -> tmem (ftab s i) g = true -> bnd_eq (fget s i g) l).
Proof.
  unfold f_supervised_loss. destruct (f_labelled s i labs) as [|x L] eqn:EL; [discriminate|]. intros H. inversion H; subst v. clear H.
  set (n := 2 * inject_Z (Z.of_nat (length (x :: L)))).
  assert (Hn : 0 < n).
  { unfold n. cbn [length]. rewrite Nat2Z.inj_succ. unfold Z.succ. rewrite inject_Z_plus.
    assert (0 <= inject_Z (Z.of_nat (length L))) by (change 0 with (inject_Z 0); rewrite <- Zle_Qle; apply Nat2Z.is_nonneg).
    change (inject_Z 1) with 1. lra. }
  set (term := fun gb : gnd * bnd => fsq (lo (fget s i (fst gb)) - lo (snd gb)) + fsq (hi (fget s i (fst gb)) - hi (snd gb))).
  assert (T0 : forall gb, 0 <= term gb).
  { intros gb. unfold term. pose proof (fsq_nonneg (lo (fget s i (fst gb)) - lo (snd gb))). pose proof (fsq_nonneg (hi (fget s i (fst gb)) - hi (snd gb))). lra. }
  assert (S0 : 0 <= f_sse s i labs) by (unfold f_sse; apply qsum_map_nonneg; intros gb _; apply T0).
  split; [apply Qle_shift_div_l; [exact Hn | lra]|].
  assert (Z : f_sse s i labs / n == 0 <-> f_sse s i labs == 0).
  { split; intros E.
    - assert (X : f_sse s i labs == f_sse s i labs / n * n) by (field; lra). rewrite X, E. ring.
    - rewrite E. field. lra. }
  etransitivity; [exact Z|]. unfold f_sse. fold term. rewrite qsum_map_zero_iff by (intros gb _; apply T0). split.
  - intros A g l Hin Hm. assert (Hx : In (g, l) (f_labelled s i labs)) by (apply f_labelled_in; split; assumption).
    specialize (A (g, l) Hx). unfold term in A. cbn [fst snd] in A.
    pose proof (fsq_nonneg (lo (fget s i g) - lo l)) as N1. pose proof (fsq_nonneg (hi (fget s i g) - hi l)) as N2.
    assert (E1 : fsq (lo (fget s i g) - lo l) == 0) by lra. assert (E2 : fsq (hi (fget s i g) - hi l) == 0) by lra.
    apply fsq_zero in E1. apply fsq_zero in E2. unfold bnd_eq. split; lra.
  - intros A [g l] Hx. apply f_labelled_in in Hx. destruct Hx as [Hin Hm]. destruct (A g l Hin Hm) as [E1 E2].
    unfold term, fsq. cbn [fst snd]. rewrite E1, E2. ring.
Qed.
