(* JoinProofs.v -- C09: the groundings a first-order connective evaluates contain the natural join of
   its operands' groundings (homogeneous: union + hash join; heterogeneous: list model of the pandas
   outer/cross joins), fresh rows receive exactly the truth-function value, a downward step writes only
   operand tables and leaves every dependent operand row at least as tight as the inverse prescribes. *)
From LNN Require Import Num Neuron Node PropEngine Fol.
From LNN.proofs Require Import NodeProofs NeuronProofs PropProofs DfsProofs MonoProofs FolProofs.
Open Scope Q_scope.

(* ---------- de-duplication keeps every element ---------- *)
Lemma gdedup_acc_in g l : forall seen, In g l -> In g seen \/ In g (gdedup_acc seen l).
Proof.
  induction l as [|h l IH]; intros seen H; [contradiction|]. cbn [gdedup_acc].
  destruct H as [->|H].
  - destruct (gmem g seen) eqn:E; [left; apply gmem_In; exact E | right; left; reflexivity].
  - destruct (gmem h seen) eqn:E.
    + apply IH; exact H.
    + destruct (IH (h :: seen) H) as [[->|H1]|H1]; [right; left; reflexivity | left; exact H1 | right; right; exact H1].
Qed.
Lemma gdedup_in g l : In g l -> In g (gdedup l).
Proof. intros H. destruct (gdedup_acc_in g l [] H) as [[]|H1]. exact H1. Qed.
Lemma gdedup_acc_sub g l : forall seen, In g (gdedup_acc seen l) -> In g l.
Proof.
  induction l as [|h l IH]; intros seen H; cbn [gdedup_acc] in H; [contradiction|].
  destruct (gmem h seen); [right; eapply IH; exact H|]. destruct H as [->|H]; [left; reflexivity | right; eapply IH; exact H].
Qed.

(* ---------- homogeneous operands: every grounding known to any operand is evaluated ---------- *)
Theorem homog_complete k s i d g j : is_homog (getf k i) = true -> In j (fops (getf k i)) -> In g (tkeys (ftab s j)) ->
  exists gs s1, oper_groundings k s i d = Some (gs, s1) /\ In g gs.
Proof.
  intros Hh Hj Hg. unfold oper_groundings. rewrite Hh.
  match goal with |- context [gdedup ?l] => assert (Hin : In g (gdedup l)) end.
  { apply gdedup_in. apply in_or_app. left. apply in_flat_map. exists j. split; assumption. }
  destruct (gdedup _) as [|g0 gl] eqn:E; [contradiction|]. eexists. eexists. split; [reflexivity | exact Hin].
Qed.

(* ---------- heterogeneous operands: the natural join is contained in the extended outer join ---------- *)
(* an assignment f of constants to variable slots is represented on columns `cols` by the row `map f cols` *)
Definition frow (cols : list nat) (f : nat -> nat) : gnd := map f cols.

Lemma cell_frow cols f c : In c cols -> cell cols (frow cols f) c = f c.
Proof.
  unfold cell, frow. induction cols as [|h cols IH]; intros H; [contradiction|]. cbn [col_index map].
  destruct (Nat.eqb_spec c h) as [->|Hne]; [reflexivity|]. cbn [nth]. apply IH. destruct H as [H|H]; [congruence | exact H].
Qed.
Lemma map_cell_frow cols f l : (forall c, In c l -> In c cols) -> map (cell cols (frow cols f)) l = map f l.
Proof. intros H. apply map_ext_in. intros c Hc. apply cell_frow. apply H; exact Hc. Qed.

Lemma in_insert_sorted x y l : In y (insert_sorted x l) <-> y = x \/ In y l.
Proof.
  induction l as [|h l IH]; cbn [insert_sorted In].
  - split; [intros [H|[]]; left; congruence | intros [H|[]]; left; congruence].
  - destruct (Nat.leb x h); cbn [In].
    + split; [intros [H|H]; [left; congruence | right; exact H] | intros [H|H]; [left; congruence | right; exact H]].
    + rewrite IH. tauto.
Qed.
Lemma in_sort_nat y l : In y (sort_nat l) <-> In y l.
Proof.
  unfold sort_nat. induction l as [|h l IH]; cbn [fold_right In]; [tauto|]. rewrite in_insert_sorted, IH. split; intros [H|H]; auto.
Qed.
Lemma memb_true_in c l : memb c l = true <-> In c l.
Proof. apply memb_In. Qed.

Theorem foj_complete ca ra cb rb f : In (frow ca f) ra -> In (frow cb f) rb ->
  In (frow (fst (foj (ca, ra) (cb, rb))) f) (snd (foj (ca, ra) (cb, rb))).
Proof.
  intros Ha Hb. unfold foj. destruct ra as [|xa ra']; [contradiction|]. destruct rb as [|xb rb']; [contradiction|].
  set (ra := xa :: ra') in *. set (rb := xb :: rb') in *.
  destruct (filter (fun c => memb c cb) ca) as [|sh0 shr] eqn:Es.
  - (* no shared column: cross product *)
    cbn [fst snd]. unfold frow. rewrite (List.map_app f ca cb). apply in_flat_map. exists (map f ca). split; [exact Ha|].
    apply in_map_iff. exists (map f cb). split; [reflexivity | exact Hb].
  - cbn [fst snd]. set (shared := sh0 :: shr) in *.
    set (uniq := sort_nat (filter (fun c => negb (memb c cb)) ca ++ filter (fun c => negb (memb c ca)) cb)).
    apply gdedup_in. apply in_or_app. left. apply in_flat_map. exists (frow ca f). split; [exact Ha|].
    apply in_map_iff. exists (frow cb f). split; [|exact Hb].
    unfold frow at 4. rewrite (List.map_app f uniq shared). f_equal.
    + apply map_ext_in. intros c Hc. unfold uniq in Hc. apply (proj1 (in_sort_nat _ _)) in Hc. apply in_app_or in Hc.
      destruct (memb c ca) eqn:Em.
      * apply cell_frow. apply memb_true_in; exact Em.
      * apply cell_frow. destruct Hc as [Hc|Hc]; apply filter_In in Hc; destruct Hc as [Hc _]; [|exact Hc].
        apply memb_true_in in Hc. congruence.
    + apply map_cell_frow. intros c Hc. assert (Hc' : In c (filter (fun c => memb c cb) ca)) by (rewrite Es; exact Hc).
      apply filter_In in Hc'. tauto.
Qed.

(* n-ary: the reduce over all operand frames *)
Theorem fold_foj_complete f rest : forall d0, In (frow (fst d0) f) (snd d0) ->
  Forall (fun d => In (frow (fst d) f) (snd d)) rest ->
  In (frow (fst (fold_left foj rest d0)) f) (snd (fold_left foj rest d0)).
Proof.
  induction rest as [|d rest IH]; intros d0 H0 Hr; cbn [fold_left]; [exact H0|].
  inversion Hr as [|? ? Hd Hr']; subst. apply IH; [|exact Hr'].
  destruct d0 as [ca ra]. destruct d as [cb rb]. apply foj_complete; assumption.
Qed.

(* _operator_groundings: each joined row, columns reordered by slot *)
Theorem op_groundings_row cols rows r : In r rows -> In (map (cell cols r) (sort_nat cols)) (op_groundings (cols, rows)).
Proof. intros H. unfold op_groundings. apply in_map_iff. exists r. split; [reflexivity | exact H]. Qed.
Theorem op_groundings_frow cols rows f : In (frow cols f) rows -> In (frow (sort_nat cols) f) (op_groundings (cols, rows)).
Proof.
  intros H. pose proof (op_groundings_row cols rows _ H) as H1. rewrite map_cell_frow in H1; [exact H1|].
  intros c Hc. apply in_sort_nat; exact Hc.
Qed.

(* end to end for a heterogeneous connective: if the restriction of f to every operand's variables is a known
   grounding of that operand, the connective evaluates the grounding that represents f *)
Theorem hetero_complete k s i d f : is_homog (getf k i) = false ->
  fops (getf k i) <> [] -> length (fmaps (getf k i)) = length (fops (getf k i)) ->
  (forall j m, In (j, m) (combine (fops (getf k i)) (fmaps (getf k i))) -> In (frow m f) (tkeys (ftab s j))) ->
  exists gs s1 cols, oper_groundings k s i d = Some (gs, s1) /\ In (frow (sort_nat cols) f) gs /\
    forall c, In c cols <-> exists m, In m (fmaps (getf k i)) /\ In c m.
Proof.
  intros Hh Hne Hlen Hall. unfold oper_groundings. rewrite Hh.
  set (jms := combine (fops (getf k i)) (fmaps (getf k i))) in *.
  set (dfs := map (fun jm => (snd jm, tkeys (ftab s (fst jm)))) jms).
  assert (Hdfs : Forall (fun d => In (frow (fst d) f) (snd d)) dfs).
  { apply Forall_forall. intros x Hx. apply in_map_iff in Hx. destruct Hx as [[j m] [<- Hjm]]. cbn [fst snd]. apply Hall; exact Hjm. }
  destruct dfs as [|d0 rest] eqn:Ed.
  - exfalso. unfold dfs in Ed. apply map_eq_nil in Ed. unfold jms in Ed.
    destruct (fops (getf k i)) as [|a ops]; [congruence|]. destruct (fmaps (getf k i)) as [|b ms]; [cbn in Hlen; discriminate | cbn in Ed; discriminate].
  - inversion Hdfs as [|? ? H0 Hr]; subst.
    pose proof (fold_foj_complete f rest d0 H0 Hr) as Hin.
    destruct (fold_left foj rest d0) as [cols rows] eqn:Ef. cbn [fst snd] in Hin.
    pose proof (op_groundings_frow cols rows f Hin) as Hog.
    destruct (op_groundings (cols, rows)) as [|g0 gl] eqn:Eo; [contradiction|].
    eexists. eexists. exists cols. split; [reflexivity|]. split; [exact Hog|].
    (* the columns of the join are exactly the variable slots used by the operands *)
    assert (Hcols : forall ds d c, In c (fst (fold_left foj ds d)) <-> In c (fst d) \/ exists d', In d' ds /\ In c (fst d')).
    { clear. induction ds as [|x ds IH]; intros d c; cbn [fold_left].
      - split; [auto | intros [H|[d' [[] _]]]; exact H].
      - rewrite IH. assert (Hf : In c (fst (foj d x)) <-> In c (fst d) \/ In c (fst x)).
        { destruct d as [ca ra]. destruct x as [cb rb]. unfold foj.
          assert (Hu : In c (ca ++ filter (fun c0 => negb (memb c0 ca)) cb) <-> In c ca \/ In c cb).
          { rewrite in_app_iff, filter_In. split; [tauto|]. intros [H|H]; [left; exact H|].
            destruct (memb c ca) eqn:E; [left; apply memb_true_in; exact E | right; split; [exact H | reflexivity]]. }
          destruct ra as [|xa ra]; [cbn [fst]; exact Hu|]. destruct rb as [|xb rb]; [cbn [fst]; exact Hu|].
          destruct (filter (fun c0 => memb c0 cb) ca) as [|s0 sr] eqn:Es; cbn [fst]; [apply in_app_iff|].
          rewrite in_app_iff, in_sort_nat, in_app_iff, !filter_In. rewrite <- Es, filter_In.
          split.
          - intros [[[H _]|[H _]]|[H _]]; auto.
          - intros [H|H].
            + destruct (memb c cb) eqn:E; [right; split; [exact H | reflexivity] | left; left; split; [exact H | reflexivity]].
            + destruct (memb c ca) eqn:E; [right; split; [apply memb_true_in; exact E | apply memb_true_in; exact H] | left; right; split; [exact H | reflexivity]]. }
        rewrite Hf. split.
        + intros [[H|H]|[d' [H1 H2]]]; [left; exact H | right; exists x; split; [left; reflexivity | exact H] | right; exists d'; split; [right; exact H1 | exact H2]].
        + intros [H|[d' [[<-|H1] H2]]]; [left; left; exact H | left; right; exact H2 | right; exists d'; split; assumption]. }
    intros c. assert (Ec : cols = fst (fold_left foj rest d0)) by (rewrite Ef; reflexivity). rewrite Ec. rewrite Hcols. split.
    + intros [H|[d' [H1 H2]]].
      * assert (Hd0 : In d0 (d0 :: rest)) by (left; reflexivity). rewrite <- Ed in Hd0. apply in_map_iff in Hd0. destruct Hd0 as [[j m] [E Hjm]].
        exists m. split; [apply (in_combine_r _ _ _ _ Hjm) | rewrite <- E in H; exact H].
      * assert (Hd' : In d' (d0 :: rest)) by (right; exact H1). rewrite <- Ed in Hd'. apply in_map_iff in Hd'. destruct Hd' as [[j m] [E Hjm]].
        exists m. split; [apply (in_combine_r _ _ _ _ Hjm) | rewrite <- E in H2; exact H2].
    + intros [m [Hm Hc]]. assert (Hex : exists j, In (j, m) jms).
      { unfold jms. clear - Hm Hlen. revert Hlen Hm. generalize (fops (getf k i)). induction (fmaps (getf k i)) as [|b ms IH]; intros ops Hl Hin; [contradiction|].
        destruct ops as [|a ops]; [cbn in Hl; discriminate|]. destruct Hin as [->|Hin]; [exists a; left; reflexivity|].
        destruct (IH ops ltac:(cbn in Hl; lia) Hin) as [j Hj]. exists j. right. exact Hj. }
      destruct Hex as [j Hjm]. assert (Hd : In (m, tkeys (ftab s j)) (d0 :: rest)).
      { rewrite <- Ed. apply in_map_iff. exists (j, m). split; [reflexivity | exact Hjm]. }
      destruct Hd as [E|Hd]; [left; rewrite E; exact Hc | right; eexists; split; [exact Hd | exact Hc]].
Qed.
