(* StoreProofs.v -- data API on tables: add_data round trip and locality, reset_bounds returns to
   the stored data whatever inference ran in between, world defaults (C14, C15). *)
From LNN Require Import Num Neuron Node PropEngine Fol Store.
From LNN.proofs Require Import NodeProofs NeuronProofs PropProofs MonoProofs FolProofs.
Open Scope Q_scope.

Lemma fexec_op_ok k roots s o : FRange s -> fstep_ok s (fst (fexec_op k roots s o)).
Proof.
  intros HR. destruct o; cbn [fexec_op fst].
  - apply f_node_up_ok; exact HR.
  - apply f_node_down_ok; exact HR.
  - apply f_pass_ok; exact HR.
  - apply f_pass_ok; exact HR.
  - apply f_infer_loop_ok; exact HR.
Qed.
Lemma fexec_ops_ok k roots ops : forall s, FRange s -> fstep_ok s (fexec_ops k roots s ops).
Proof.
  induction ops as [|o ops IH]; intros s HR; cbn [fexec_ops fold_left]; [apply fstep_ok_refl; exact HR|].
  pose proof (fexec_op_ok k roots s o HR) as H1.
  eapply fstep_ok_trans; [exact H1 | apply IH; apply H1].
Qed.

(* ---------- add_data ---------- *)
Lemma tfind_tset_data t g b h :
  tfind (tset_data t g b) h = match tfind t h with
                              | Some r => if geqb h g then Some (Row (rg r) b b) else Some r
                              | None => None end.
Proof.
  induction t as [|x t IH]; cbn [tset_data tfind]; [reflexivity|].
  destruct (geqb g (rg x)) eqn:E1; cbn [tfind rg].
  - apply geqb_eq in E1. subst g. destruct (geqb h (rg x)) eqn:E2; [reflexivity|].
    destruct (tfind t h) as [r|] eqn:F; reflexivity.
  - destruct (geqb h (rg x)) eqn:E2.
    + apply geqb_eq in E2. subst h. assert (geqb (rg x) g = false) by (apply geqb_neq; intro; subst; rewrite geqb_refl in E1; discriminate).
      rewrite H. reflexivity.
    + exact IH.
Qed.

Definition set_all (t : table) (d : list (gnd * bnd)) : table := fold_left (fun t gb => tset_data t (fst gb) (snd gb)) d t.

Lemma set_all_notin d : forall t h, ~ In h (map fst d) -> tfind (set_all t d) h = tfind t h.
Proof.
  induction d as [|[g b] d IH]; intros t h Hn; cbn [set_all fold_left]; [reflexivity|].
  change (fold_left _ d ?x) with (set_all x d). rewrite IH by (intro; apply Hn; right; assumption).
  cbn [fst snd]. rewrite tfind_tset_data. destruct (tfind t h); [|reflexivity].
  destruct (geqb h g) eqn:E; [|reflexivity]. apply geqb_eq in E. exfalso. apply Hn. left. cbn [fst]. congruence.
Qed.
Lemma set_all_in d : forall t g b, NoDup (map fst d) -> In (g, b) d -> tmem t g = true ->
  tfind (set_all t d) g = Some (Row g b b).
Proof.
  induction d as [|[g0 b0] d IH]; intros t g b HN Hin Hm; [contradiction|]. cbn [set_all fold_left].
  change (fold_left _ d ?x) with (set_all x d). cbn [map fst] in HN. inversion HN as [|? ? Hn0 HN']; subst.
  destruct Hin as [E|Hin].
  - inversion E; subst. rewrite set_all_notin by exact Hn0. cbn [fst snd]. rewrite tfind_tset_data.
    unfold tmem in Hm. destruct (tfind t g) as [r|] eqn:F; [|discriminate]. rewrite geqb_refl.
    destruct (tfind_key _ _ _ F) as [-> _]. reflexivity.
  - apply IH; [exact HN' | exact Hin|]. unfold tmem in *. cbn [fst snd]. rewrite tfind_tset_data.
    destruct (tfind t g); [|discriminate]. destruct (geqb g g0); reflexivity.
Qed.

Lemma ftab_add_data s i d : ftab (f_add_data s i d) i = set_all (textend (fwld s i) (ftab s i) (map fst d)) d /\ fwld (f_add_data s i d) = fwld s.
Proof. unfold f_add_data, fextend, set_tab, set_all. cbn [ftab fwld]. rewrite !Nat.eqb_refl. split; reflexivity. Qed.

Theorem add_data_roundtrip s i d g b : NoDup (map fst d) -> In (g, b) d ->
  fget (f_add_data s i d) i g = b /\ fleaf (f_add_data s i d) i g = Some b.
Proof.
  intros HN Hin. destruct (ftab_add_data s i d) as [Et Ew]. unfold fget, fleaf, tcur. rewrite Et, Ew.
  rewrite (set_all_in d _ g b HN Hin).
  - split; reflexivity.
  - apply tmem_textend. apply in_map_iff. exists (g, b). split; [reflexivity | exact Hin].
Qed.

Theorem add_data_other_grounding s i d g : ~ In g (map fst d) ->
  fget (f_add_data s i d) i g = fget s i g /\
  (fleaf s i g <> None -> fleaf (f_add_data s i d) i g = fleaf s i g) /\
  (tmem (ftab s i) g = false -> tmem (ftab (f_add_data s i d) i) g = false).
Proof.
  intros Hn. destruct (ftab_add_data s i d) as [Et Ew]. unfold fget, fleaf, tmem, tcur. rewrite Et, Ew.
  rewrite (set_all_notin d _ g Hn).
  destruct (tfind (ftab s i) g) as [r|] eqn:E.
  - rewrite (tfind_textend_old _ (map fst d) _ g r E). split; [reflexivity|]. split; [reflexivity | discriminate].
  - destruct (tfind (textend (fwld s i) (ftab s i) (map fst d)) g) as [r'|] eqn:E2.
    + (* a row for g can only be created if g is among the asserted groundings *)
      exfalso. assert (G : forall gs t, tfind t g = None -> ~ In g gs -> tfind (textend (fwld s i) t gs) g = None).
      { induction gs as [|x gs IH]; intros t Ht Hx; [exact Ht|]. rewrite textend_cons. apply IH; [|intro; apply Hx; right; assumption].
        unfold tadd. destruct (tmem t x); [exact Ht|]. rewrite tfind_app, Ht. cbn [tfind rg].
        destruct (geqb g x) eqn:Eg; [apply geqb_eq in Eg; exfalso; apply Hx; left; congruence | reflexivity]. }
      rewrite (G _ _ E Hn) in E2. discriminate.
    + split; [reflexivity|]. split; [intros H; exfalso; apply H; reflexivity | reflexivity].
Qed.

Theorem add_data_other_object s i d j : j <> i -> ftab (f_add_data s i d) j = ftab s j /\ fwld (f_add_data s i d) = fwld s.
Proof.
  intros H. unfold f_add_data. cbn zeta. split; [|reflexivity].
  rewrite ftab_set_tab. destruct (Nat.eqb_spec j i); [contradiction|]. unfold fextend. rewrite ftab_set_tab.
  destruct (Nat.eqb_spec j i); [contradiction | reflexivity].
Qed.

(* ---------- reset_bounds ---------- *)
Lemma tfind_t_reset t g : tfind (t_reset t) g = option_map (fun r => Row (rg r) (rleaf r) (rleaf r)) (tfind t g).
Proof. unfold t_reset. induction t as [|x t IH]; cbn [map tfind rg option_map]; [reflexivity|]. destruct (geqb g (rg x)); [reflexivity | exact IH]. Qed.
Lemma t_reset_idem t : t_reset (t_reset t) = t_reset t.
Proof. unfold t_reset. rewrite map_map. apply map_ext. intros r. reflexivity. Qed.

Lemma ftab_reset_bounds reg : forall s i, ftab (f_reset_bounds reg s) i = if memb i reg then t_reset (ftab s i) else ftab s i.
Proof.
  induction reg as [|x reg IH]; intros s i; cbn [f_reset_bounds fold_left memb]; [reflexivity|].
  change (fold_left _ reg ?st) with (f_reset_bounds reg st). rewrite IH. unfold set_tab; cbn [ftab].
  destruct (Nat.eqb_spec i x) as [->|]; cbn [orb].
  - destruct (memb x reg); [apply t_reset_idem | reflexivity].
  - reflexivity.
Qed.
Lemma fwld_reset_bounds reg : forall s, fwld (f_reset_bounds reg s) = fwld s.
Proof. induction reg as [|x reg IH]; intros s; cbn [f_reset_bounds fold_left]; [reflexivity|]. change (fold_left _ reg ?st) with (f_reset_bounds reg st). rewrite IH. reflexivity. Qed.

Theorem reset_reads_data reg s i g : memb i reg = true ->
  fget (f_reset_bounds reg s) i g = match fleaf s i g with Some b => b | None => fwld s i end.
Proof.
  intros H. unfold fget, fleaf, tcur. rewrite ftab_reset_bounds, H, fwld_reset_bounds, tfind_t_reset.
  destruct (tfind (ftab s i) g); reflexivity.
Qed.

(* reset_bounds after ANY inference returns to the data present before the inference *)
Theorem reset_after_inference k roots ops reg s i g : FRange s -> memb i reg = true ->
  fget (f_reset_bounds reg (fexec_ops k roots s ops)) i g = match fleaf s i g with Some b => b | None => fwld s i end.
Proof.
  intros HR H. rewrite reset_reads_data by exact H.
  destruct (fexec_ops_ok k roots ops s HR) as (_ & _ & _ & [W V]). specialize (V i g).
  destruct (fleaf s i g) as [b|].
  - rewrite V. reflexivity.
  - destruct V as [V|V]; rewrite V; [rewrite W; reflexivity | reflexivity].
Qed.

(* ---------- world defaults ---------- *)
Theorem unknown_reads_default s i g : tmem (ftab s i) g = false -> fget s i g = fwld s i.
Proof. unfold tmem, fget, tcur. destruct (tfind (ftab s i) g); [discriminate | reflexivity]. Qed.

(* a row that inference introduces holds the world default as its stored data, and reads at least as tight as it *)
Theorem new_rows_from_default k roots ops s i g b : FRange s -> fleaf s i g = None ->
  fleaf (fexec_ops k roots s ops) i g = Some b -> b = fwld s i /\ tighter (fwld s i) (fget (fexec_ops k roots s ops) i g).
Proof.
  intros HR Hn Hs. destruct (fexec_ops_ok k roots ops s HR) as (_ & L & _ & [W V]). specialize (V i g). rewrite Hn in V.
  split.
  - destruct V as [V|V]; rewrite V in Hs; [discriminate | inversion Hs; reflexivity].
  - specialize (L i g). unfold fleaf in Hn. unfold fget at 1, tcur in L. destruct (tfind (ftab s i) g); [discriminate | exact L].
Qed.

Theorem axiom_stays_true k roots ops s i : FRange s -> lo (fwld s i) == 1 ->
  (forall r, In r (ftab s i) -> lo (rcur r) == 1) -> forall g, lo (fget (fexec_ops k roots s ops) i g) == 1.
Proof.
  intros HR Hw Hrows g. destruct (fexec_ops_ok k roots ops s HR) as (R & L & _ & _).
  destruct (L i g) as [L1 _]. destruct (FRange_fget _ i g R) as [[_ U1] _].
  assert (H0 : lo (fget s i g) == 1).
  { unfold fget, tcur. destruct (tfind (ftab s i) g) as [r|] eqn:E; [apply Hrows; apply (tfind_key _ _ _ E) | exact Hw]. }
  lra.
Qed.

Lemma tfind_t_fill b t g : tfind (t_fill b t) g = option_map (fun r => Row (rg r) b (rleaf r)) (tfind t g).
Proof. unfold t_fill. induction t as [|x t IH]; cbn [map tfind rg option_map]; [reflexivity|]. destruct (geqb g (rg x)); [reflexivity | exact IH]. Qed.
Theorem reset_world_reads s i w g : fget (f_reset_world s i w) i g = w /\ fleaf (f_reset_world s i w) i g = fleaf s i g /\
  forall j, j <> i -> ftab (f_reset_world s i w) j = ftab s j /\ fwld (f_reset_world s i w) j = fwld s j.
Proof.
  unfold f_reset_world, fget, fleaf, set_tab, set_wld, tcur; cbn [ftab fwld]. rewrite !Nat.eqb_refl, tfind_t_fill.
  split; [destruct (tfind (ftab s i) g); reflexivity|]. split; [destruct (tfind (ftab s i) g); reflexivity|].
  intros j Hj. destruct (Nat.eqb_spec j i); [contradiction | split; reflexivity].
Qed.

(* ---------- validation ---------- *)
Lemma in_unit_spec x : in_unit x = true <-> 0 <= x <= 1.
Proof. unfold in_unit. rewrite andb_true_iff, !qleb_true. tauto. Qed.
Theorem accepted_in_range v b : validate_bounds v = inr b -> (exists f, v = VFact f) \/ wf_bnd b.
Proof.
  destruct v; cbn [validate_bounds]; intros H; try discriminate.
  - left. eexists; reflexivity.
  - right. inversion H; subst. destruct t; vm_compute; repeat split; discriminate.
  - right. destruct (in_unit x) eqn:E; [|discriminate]. inversion H; subst. apply in_unit_spec in E. unfold wf_bnd; cbn [lo hi]. tauto.
  - right. destruct (in_unit l) eqn:E1; [|discriminate]. destruct (in_unit u) eqn:E2; [|discriminate]. inversion H; subst.
    apply in_unit_spec in E1. apply in_unit_spec in E2. unfold wf_bnd; cbn [lo hi]. tauto.
Qed.
