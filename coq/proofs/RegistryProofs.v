(* RegistryProofs.v -- C08: every sub-formula object of every added root is registered exactly
   once, under its own number, whatever the order/repetition of add_knowledge calls. *)
From LNN Require Import Num Neuron Node PropEngine Registry.
From LNN.proofs Require Import DfsProofs.
Open Scope nat_scope.

Section Visit.
Variable k : kb.
Hypothesis Hdag : dag k.

Lemma fold_visit_prefix f cs : (forall log i, exists l, visit f k log i = log ++ l) ->
  forall log, exists l, fold_left (visit f k) cs log = log ++ l.
Proof.
  intros H. induction cs as [|c cs IH]; intros log; cbn [fold_left].
  - exists []. rewrite app_nil_r. reflexivity.
  - destruct (H log c) as [l1 E1]. rewrite E1. destruct (IH (log ++ l1)) as [l2 E2]. rewrite E2.
    exists (l1 ++ l2). rewrite app_assoc. reflexivity.
Qed.

Lemma visit_prefix f : forall log i, exists l, visit f k log i = log ++ l.
Proof.
  induction f as [|f IH]; intros log i; cbn [visit].
  - exists []. rewrite app_nil_r. reflexivity.
  - destruct (memb i log); [exists []; rewrite app_nil_r; reflexivity|].
    destruct (fold_visit_prefix f (children k i) IH (log ++ [i])) as [l E]. rewrite E.
    exists ([i] ++ l). rewrite app_assoc. reflexivity.
Qed.

Lemma visit_mono f log i x : In x log -> In x (visit f k log i).
Proof. intros H. destruct (visit_prefix f log i) as [l ->]. apply in_or_app; left; exact H. Qed.
Lemma fold_visit_mono f cs : forall log x, In x log -> In x (fold_left (visit f k) cs log).
Proof. induction cs as [|c cs IH]; intros log x H; cbn [fold_left]; [exact H|]. apply IH. apply visit_mono. exact H. Qed.

Lemma visit_self f : forall log i, i < f -> In i (visit f k log i).
Proof.
  destruct f as [|f]; intros log i Hi; [lia|]. cbn [visit].
  destruct (memb i log) eqn:E; [apply memb_In; exact E|]. apply fold_visit_mono. apply in_or_app; right; left; reflexivity.
Qed.

(* only the object itself and descendants are added *)
Lemma visit_desc f : forall log i x, In x (visit f k log i) -> In x log \/ desc k i x.
Proof.
  induction f as [|f IH]; intros log i x H; cbn [visit] in H; [left; exact H|].
  destruct (memb i log); [left; exact H|].
  assert (G : forall cs a, In x (fold_left (visit f k) cs a) -> In x a \/ exists c, In c cs /\ desc k c x).
  { induction cs as [|c cs IHc]; intros a Ha; cbn [fold_left] in Ha; [left; exact Ha|].
    destruct (IHc _ Ha) as [Hin|[c' [Hc' Hd]]].
    - destruct (IH _ _ _ Hin) as [Hin'|Hd]; [left; exact Hin' | right; exists c; split; [left; reflexivity | exact Hd]].
    - right. exists c'. split; [right; exact Hc' | exact Hd]. }
  destruct (G _ _ H) as [Hin|[c [Hc Hd]]].
  - apply in_app_or in Hin. destruct Hin as [Hin|[<-|[]]]; [left; exact Hin | right; constructor].
  - right. eapply desc_step; eauto.
Qed.

Lemma visit_nodup f : forall log i, NoDup log -> NoDup (visit f k log i).
Proof.
  induction f as [|f IH]; intros log i HN; cbn [visit]; [exact HN|].
  destruct (memb i log) eqn:E; [exact HN|].
  assert (G : forall cs a, NoDup a -> NoDup (fold_left (visit f k) cs a)).
  { induction cs as [|c cs IHc]; intros a Ha; cbn [fold_left]; [exact Ha | apply IHc; apply IH; exact Ha]. }
  apply G. apply NoDup_app_snoc; [exact HN|]. intro Hin. apply memb_In in Hin. congruence.
Qed.

(* closure: a log is CLOSED when every child of a logged object is logged *)
Definition closed (log : list nat) : Prop := forall x c, In x log -> In c (children k x) -> In c log.

Lemma fold_visit_children f cs : (forall c, In c cs -> c < f) ->
  forall log c, In c cs -> In c (fold_left (visit f k) cs log).
Proof.
  induction cs as [|d cs IH]; intros Hlt log c Hc; [contradiction|]. cbn [fold_left].
  destruct Hc as [->|Hc].
  - apply fold_visit_mono. apply visit_self. apply Hlt; left; reflexivity.
  - apply IH; [intros; apply Hlt; right; assumption | exact Hc].
Qed.

(* every NEW element of a visit has all its children in the result *)
Lemma visit_new_closed f : forall log i, i < f -> forall x c, In x (visit f k log i) -> In c (children k x) ->
  In x log \/ In c (visit f k log i).
Proof.
  induction f as [|f IH]; intros log i Hi x c Hx Hc; [lia|]. cbn [visit] in *.
  destruct (memb i log); [left; exact Hx|].
  assert (Hlt : forall c0, In c0 (children k i) -> c0 < f) by (intros c0 Hc0; pose proof (Hdag i c0 Hc0); lia).
  assert (G : forall cs a, (forall c0, In c0 cs -> c0 < f) -> forall x c, In x (fold_left (visit f k) cs a) ->
             In c (children k x) -> In x a \/ In c (fold_left (visit f k) cs a)).
  { induction cs as [|d cs IHc]; intros a Hl x0 c0 Hx0 Hc0; cbn [fold_left] in *; [left; exact Hx0|].
    destruct (IHc (visit f k a d) (fun c1 H1 => Hl c1 (or_intror H1)) x0 c0 Hx0 Hc0) as [H|H]; [|right; exact H].
    destruct (IH a d (Hl d (or_introl eq_refl)) x0 c0 H Hc0) as [H1|H1]; [left; exact H1|].
    right. apply fold_visit_mono. exact H1. }
  destruct (G (children k i) (log ++ [i]) Hlt x c Hx Hc) as [H|H]; [|right; exact H].
  apply in_app_or in H. destruct H as [H|[<-|[]]]; [left; exact H|].
  right. apply fold_visit_children; [exact Hlt | exact Hc].
Qed.

Lemma visit_closed f log i : i < f -> closed log -> closed (visit f k log i).
Proof.
  intros Hi Hcl x c Hx Hc. destruct (visit_new_closed f log i Hi x c Hx Hc) as [H|H]; [|exact H].
  apply visit_mono. eapply Hcl; eauto.
Qed.
End Visit.

(* ---------- dictionary lemmas ---------- *)
Lemma dget_filter m key n : n <> key -> dget (filter (fun p => negb (Nat.eqb (fst p) key)) m) n = dget m n.
Proof.
  intros Hne. induction m as [|[k' v] m IH]; [reflexivity|]. cbn [filter fst dget].
  destruct (Nat.eqb_spec k' key) as [->|Hk]; cbn [negb].
  - destruct (Nat.eqb_spec key n); [congruence | exact IH].
  - cbn [dget]. destruct (Nat.eqb k' n); [reflexivity | exact IH].
Qed.
Lemma dget_dset m key v n : dget (dset m key v) n = if Nat.eqb key n then Some v else dget m n.
Proof.
  unfold dset. cbn [dget]. destruct (Nat.eqb_spec key n) as [->|Hne]; [reflexivity|].
  apply dget_filter. congruence.
Qed.

Lemma dget_fold l : forall off nd n,
  dget (fold_left (fun nd p => dset nd (fst p) (snd p)) (combine (seq off (length l)) l) nd) n =
  if (Nat.leb off n && Nat.ltb n (off + length l))%bool then nth_error l (n - off) else dget nd n.
Proof.
  induction l as [|x l IH]; intros off nd n; cbn [length seq combine fold_left].
  - replace (off + 0) with off by lia. destruct (Nat.leb_spec off n); destruct (Nat.ltb_spec n off); cbn [andb]; try reflexivity; lia.
  - rewrite IH. cbn [fst snd]. rewrite dget_dset.
    destruct (Nat.leb_spec (S off) n); destruct (Nat.ltb_spec n (S off + length l)); cbn [andb].
    + destruct (Nat.leb_spec off n); [|lia]. destruct (Nat.ltb_spec n (off + S (length l))); [|lia]. cbn [andb].
      replace (n - off) with (S (n - S off)) by lia. reflexivity.
    + destruct (Nat.eqb_spec off n); [lia|]. destruct (Nat.leb_spec off n); destruct (Nat.ltb_spec n (off + S (length l))); cbn [andb]; try reflexivity; lia.
    + destruct (Nat.eqb_spec off n) as [->|Hne].
      * destruct (Nat.leb_spec n n); [|lia]. destruct (Nat.ltb_spec n (n + S (length l))); [|lia]. cbn [andb].
        replace (n - n) with 0 by lia. reflexivity.
      * destruct (Nat.leb_spec off n); destruct (Nat.ltb_spec n (off + S (length l))); cbn [andb]; try reflexivity; lia.
    + destruct (Nat.eqb_spec off n); [lia|]. destruct (Nat.leb_spec off n); destruct (Nat.ltb_spec n (off + S (length l))); cbn [andb]; try reflexivity; lia.
Qed.

Lemma index_of_nth x l n : index_of x l = Some n -> nth_error l n = Some x.
Proof.
  revert n. induction l as [|y l IH]; intros n H; cbn [index_of] in H; [discriminate|].
  destruct (Nat.eqb_spec x y) as [->|Hne]; [inversion H; reflexivity|].
  destruct (index_of x l) as [m|]; cbn [option_map] in H; [|discriminate]. inversion H; subst. cbn [nth_error]. apply IH. reflexivity.
Qed.
Lemma nth_index_of x l n : NoDup l -> nth_error l n = Some x -> index_of x l = Some n.
Proof.
  revert n. induction l as [|y l IH]; intros n HN H; [destruct n; discriminate|].
  inversion HN as [|? ? Hy HN']; subst. destruct n as [|n]; cbn [nth_error index_of] in *.
  - inversion H; subst. rewrite Nat.eqb_refl. reflexivity.
  - destruct (Nat.eqb_spec x y) as [->|Hne]; [exfalso; apply Hy; eapply nth_error_In; exact H|].
    rewrite (IH n HN' H). reflexivity.
Qed.
Lemma in_index_of x l : In x l -> exists n, index_of x l = Some n.
Proof.
  induction l as [|y l IH]; intros H; [contradiction|]. cbn [index_of].
  destruct (Nat.eqb_spec x y) as [->|Hne]; [exists 0; reflexivity|].
  destruct H as [->|H]; [congruence|]. destruct (IH H) as [n ->]. exists (S n). reflexivity.
Qed.

(* ---------- the registry invariant ---------- *)
Section Reg.
Variable k : kb.
Hypothesis Hwf : wf_kb k.
Let Hdag := wf_dag k Hwf.

Definition reg_inv (r : reg) : Prop :=
  NoDup (r_log r) /\ closed k (r_log r) /\ forall n, dget (r_nodes r) n = nth_error (r_log r) n.

Lemma reg_inv_empty : reg_inv reg_empty.
Proof. split; [constructor|]. split; [intros x c []|]. intros [|n]; reflexivity. Qed.

Lemma fold_roots_inv roots : roots_ok k roots -> forall log, NoDup log -> closed k log ->
  let log' := fold_left (visit (S (length k)) k) roots log in
  NoDup log' /\ closed k log' /\ (exists l, log' = log ++ l) /\ (forall r, In r roots -> In r log').
Proof.
  induction roots as [|r roots IH]; intros Hr log HN Hc; cbn [fold_left]; cbn zeta.
  - repeat split; try assumption; [exists []; rewrite app_nil_r; reflexivity | intros r []].
  - inversion Hr as [|? ? Hr1 Hr2]; subst.
    destruct (IH Hr2 (visit (S (length k)) k log r)) as (H1 & H2 & [l2 H3] & H4).
    + apply visit_nodup; exact HN.
    + apply visit_closed; [exact Hdag | lia | exact Hc].
    + split; [exact H1|]. split; [exact H2|]. split.
      * destruct (visit_prefix k (S (length k)) log r) as [l1 E1]. exists (l1 ++ l2). rewrite H3, E1, app_assoc. reflexivity.
      * intros r' [<-|Hin]; [|apply H4; exact Hin]. cbn zeta in *. rewrite H3. apply in_or_app; left. apply visit_self. lia.
Qed.

Theorem add_knowledge_inv r roots : roots_ok k roots -> reg_inv r -> reg_inv (add_knowledge k r roots).
Proof.
  intros Hr (HN & Hc & Hn). destruct (fold_roots_inv roots Hr (r_log r) HN Hc) as (H1 & H2 & [l H3] & _).
  unfold add_knowledge. cbn zeta in *. split; [exact H1|]. split; [exact H2|]. cbn [r_log r_nodes].
  intros n. rewrite dget_fold. cbn [Nat.leb]. rewrite Nat.sub_0_r. cbn [Nat.add].
  destruct (Nat.ltb_spec n (length (fold_left (visit (S (length k)) k) roots (r_log r)))) as [Hlt|Hge]; cbn [andb]; [reflexivity|].
  rewrite Hn. rewrite H3 in *. rewrite app_length in Hge.
  rewrite (proj2 (nth_error_None _ _)) by lia. symmetry. apply nth_error_None. rewrite app_length. lia.
Qed.

(* every sub-formula object of every added root is in the log *)
Theorem add_knowledge_covers r roots root x : roots_ok k roots -> reg_inv r -> In root roots -> desc k root x ->
  In x (r_log (add_knowledge k r roots)).
Proof.
  intros Hr (HN & Hc & _) Hin Hd. destruct (fold_roots_inv roots Hr (r_log r) HN Hc) as (_ & H2 & _ & H4).
  unfold add_knowledge. cbn [r_log]. cbn zeta in *. specialize (H4 root Hin). clear Hin.
  induction Hd as [i|i c x Hci _ IH]; [exact H4|]. apply IH. eapply H2; eauto.
Qed.

(* numbers never change once given *)
Theorem add_knowledge_stable r roots x n : roots_ok k roots -> reg_inv r ->
  formula_number r x = Some n -> formula_number (add_knowledge k r roots) x = Some n.
Proof.
  intros Hr (HN & Hc & _) H. destruct (fold_roots_inv roots Hr (r_log r) HN Hc) as (H1 & _ & [l H3] & _).
  unfold formula_number, add_knowledge in *. cbn [r_log]. cbn zeta in *.
  apply nth_index_of; [exact H1|]. rewrite H3. apply index_of_nth in H.
  rewrite nth_error_app1; [exact H|]. apply nth_error_Some. congruence.
Qed.

(* exactly once, under its own number *)
Theorem registered_exactly_once r x : reg_inv r -> In x (r_log r) ->
  exists n, formula_number r x = Some n /\ dget (r_nodes r) n = Some x /\
            forall n', dget (r_nodes r) n' = Some x -> n' = n.
Proof.
  intros (HN & _ & Hn) Hin. destruct (in_index_of x _ Hin) as [n E]. exists n. split; [exact E|].
  pose proof (index_of_nth _ _ _ E) as Hnth. split; [rewrite Hn; exact Hnth|].
  intros n' H'. rewrite Hn in H'. apply (nth_index_of _ _ _ HN) in H'. unfold formula_number in E. congruence.
Qed.

(* nothing else is registered: every key of Model.nodes holds a numbered object, keys are 0..num_formulae-1 *)
Theorem nodes_only_members r n x : reg_inv r -> dget (r_nodes r) n = Some x ->
  formula_number r x = Some n /\ n < num_formulae r.
Proof.
  intros (HN & _ & Hn) H. rewrite Hn in H. split; [apply nth_index_of; assumption|].
  unfold num_formulae. apply nth_error_Some. congruence.
Qed.

(* ---------- any sequence of add_knowledge calls (repeated roots, inner formulae as roots, set_query) ---------- *)
Definition add_all (r : reg) (calls : list (list nat)) : reg := fold_left (add_knowledge k) calls r.

Lemma add_knowledge_log_mono r roots x : roots_ok k roots -> reg_inv r -> In x (r_log r) -> In x (r_log (add_knowledge k r roots)).
Proof.
  intros Hr (HN & Hc & _) Hin. destruct (fold_roots_inv roots Hr (r_log r) HN Hc) as (_ & _ & [l H3] & _).
  unfold add_knowledge. cbn [r_log]. cbn zeta in *. rewrite H3. apply in_or_app; left; exact Hin.
Qed.

Lemma add_all_inv calls : Forall (roots_ok k) calls -> forall r, reg_inv r ->
  reg_inv (add_all r calls) /\ forall x, In x (r_log r) -> In x (r_log (add_all r calls)).
Proof.
  induction calls as [|c calls IH]; intros Hc r Hr; cbn [add_all fold_left]; [split; [exact Hr | auto]|].
  inversion Hc as [|? ? Hc1 Hc2]; subst.
  destruct (IH Hc2 (add_knowledge k r c) (add_knowledge_inv r c Hc1 Hr)) as [H1 H2].
  split; [exact H1|]. intros x Hx. apply H2. apply add_knowledge_log_mono; assumption.
Qed.

Theorem add_all_covers calls : Forall (roots_ok k) calls -> forall r call root x, reg_inv r ->
  In call calls -> In root call -> desc k root x -> In x (r_log (add_all r calls)).
Proof.
  induction calls as [|c calls IH]; intros Hc r call root x Hr Hin Hroot Hd; [contradiction|].
  inversion Hc as [|? ? Hc1 Hc2]; subst. cbn [add_all fold_left].
  pose proof (add_knowledge_inv r c Hc1 Hr) as Hr'.
  destruct Hin as [->|Hin].
  - apply (proj2 (add_all_inv calls Hc2 _ Hr')). eapply add_knowledge_covers; eauto.
  - eapply IH; eauto.
Qed.
End Reg.
