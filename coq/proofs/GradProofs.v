(* GradProofs.v -- C19: val_clamp is value-exact and gradient-transparent (dual-number reading). *)
From LNN Require Import Num Neuron Grad.
From LNN.Generated Require Import Tables.
Open Scope Q_scope.

Lemma val_clamp_value x : dv (val_clamp_d x) == qmin 1 (qmax 0 (dv x)).
Proof.
  unfold val_clamp_d, dsub, detach, dconst, dclamp_min, dclamp_max, val_clamp_min, val_clamp_max.
  cbn [dv dt]. qcases; lra.
Qed.

Lemma val_clamp_value_clamp01 x : dv (val_clamp_d x) == clamp01 (dv x).
Proof. rewrite val_clamp_value. qcases; lra. Qed.

Lemma val_clamp_transparent x : dt (val_clamp_d x) == dt x.
Proof.
  unfold val_clamp_d, dsub, detach, dconst, dclamp_min, dclamp_max, val_clamp_min, val_clamp_max.
  cbn [dv dt]. qbools; lra.
Qed.

(* the upward output of a (possibly saturated) neuron carries exactly the tangent of its
   unclamped pre-activation, for every connective, arity, parameter value and direction *)
Lemma act_up_transparent c b ws xs : dt (act_up_d c b ws xs) == dt (pre_d c b ws xs).
Proof. unfold act_up_d. apply val_clamp_transparent. Qed.
Lemma act_up_value c b ws xs : dv (act_up_d c b ws xs) == clamp01 (dv (pre_d c b ws xs)).
Proof. unfold act_up_d. apply val_clamp_value_clamp01. Qed.

(* value of the dual pre-activation = the rational model's pre-activation *)
Lemma dtsum_value ws xs : dv (dtsum ws xs) == tsum (map dv ws) (map dv xs).
Proof.
  revert xs; induction ws as [|w ws IH]; intros [|x xs]; cbn [dtsum map tsum dv dconst dadd dmul dsub]; try lra.
  rewrite IH. lra.
Qed.
Lemma ddot_value ws xs : dv (ddot ws xs) == dot (map dv ws) (map dv xs).
Proof.
  revert xs; induction ws as [|w ws IH]; intros [|x xs]; cbn [ddot map dot dv dconst dadd dmul]; try lra.
  rewrite IH. lra.
Qed.

(* explicit partial derivatives of the And pre-activation  b - sum_j w_j (1 - x_j):
   d/db = 1,  d/dw_k = x_k - 1,  d/dx_k = w_k.  `seed` puts tangent 1 on one variable. *)
Definition cst (l : list Q) : list dual := map dconst l.
Fixpoint seed_at (k : nat) (l : list Q) : list dual :=
  match l, k with
  | [], _ => []
  | x :: r, O => D x 1 :: cst r
  | x :: r, S k' => dconst x :: seed_at k' r
  end.

Lemma dtsum_cst_tan ws xs : dt (dtsum (cst ws) (cst xs)) == 0.
Proof.
  revert xs; induction ws as [|w ws IH]; intros [|x xs]; cbn [cst map dtsum dt dv dconst dadd dmul dsub]; try lra.
  change (map dconst ws) with (cst ws). change (map dconst xs) with (cst xs). rewrite IH. lra.
Qed.

Lemma and_grad_bias b ws xs :
  dt (act_up_d CAnd (D b 1) (cst ws) (cst xs)) == 1.
Proof.
  rewrite act_up_transparent. cbn [pre_d and_pre_d dsub dt]. rewrite dtsum_cst_tan. lra.
Qed.

Lemma and_grad_weight b ws xs k : (k < length ws)%nat -> length ws = length xs ->
  dt (act_up_d CAnd (dconst b) (seed_at k ws) (cst xs)) == nth k xs 0 - 1.
Proof.
  rewrite act_up_transparent. cbn [pre_d and_pre_d dsub dt dconst].
  revert xs k; induction ws as [|w ws IH]; intros [|x xs] k Hk Hl; cbn [length] in *; try lia.
  destruct k as [|k]; cbn [seed_at cst map dtsum dt dv dconst dadd dmul dsub nth].
  - change (map dconst xs) with (cst xs). rewrite dtsum_cst_tan. lra.
  - change (map dconst xs) with (cst xs).
    specialize (IH xs k ltac:(lia) ltac:(lia)). lra.
Qed.

Lemma and_grad_input b ws xs k : (k < length xs)%nat -> length ws = length xs ->
  dt (act_up_d CAnd (dconst b) (cst ws) (seed_at k xs)) == nth k ws 0.
Proof.
  rewrite act_up_transparent. cbn [pre_d and_pre_d dsub dt dconst].
  revert xs k; induction ws as [|w ws IH]; intros [|x xs] k Hk Hl; cbn [length] in *; try lia.
  destruct k as [|k]; cbn [seed_at cst map dtsum dt dv dconst dadd dmul dsub nth].
  - change (map dconst ws) with (cst ws). rewrite dtsum_cst_tan. lra.
  - change (map dconst ws) with (cst ws).
    specialize (IH xs k ltac:(lia) ltac:(lia)). lra.
Qed.
