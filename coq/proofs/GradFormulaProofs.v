(* GradFormulaProofs.v -- C19 at formula level: the bound a connective formula and a Forall / Exists over it STORE after
   upward() carries the derivative of the unclamped chain of linear forms whenever the max/min of the aggregation does not
   tie with the previous (world) bound -- saturated or not. *)
From LNN Require Import Num Neuron Grad.
From LNN.Generated Require Import Tables.
From LNN.proofs Require Import GradProofs.
Open Scope Q_scope.

Lemma agg_upper_no_tie new : dv new < 1 ->
  dt (agg_upper_d (dconst 1) new) == dt new /\ dv (agg_upper_d (dconst 1) new) == clamp01 (dv new).
Proof.
  intros H. unfold agg_upper_d. rewrite val_clamp_transparent, val_clamp_value_clamp01.
  unfold dmin2, dconst. cbn [dv dt]. split.
  - qbools; lra.
  - destruct (qmin_spec 1 (dv new)) as [[A ->]|[A ->]]; [lra | reflexivity].
Qed.

Lemma agg_lower_no_tie new : 0 < dv new ->
  dt (agg_lower_d (dconst 0) new) == dt new /\ dv (agg_lower_d (dconst 0) new) == clamp01 (dv new).
Proof.
  intros H. unfold agg_lower_d. rewrite val_clamp_transparent, val_clamp_value_clamp01.
  unfold dmax2, dconst. cbn [dv dt]. split.
  - qbools; lra.
  - destruct (qmax_spec 0 (dv new)) as [[A ->]|[A ->]]; [reflexivity | lra].
Qed.

(* the unit-weight And / Or neuron of a quantifier: tangent = sum of the instance tangents *)
Lemma unit_dtsum_tan xs : dt (dtsum (repeat (dconst 1) (length xs)) xs) == - dt (dsum xs).
Proof.
  induction xs as [|x xs IH]; cbn [length repeat dtsum dsum dt dv dconst dadd dmul dsub]; [lra|].
  rewrite IH. lra.
Qed.
Lemma unit_ddot_tan xs : dt (ddot (repeat (dconst 1) (length xs)) xs) == dt (dsum xs).
Proof.
  induction xs as [|x xs IH]; cbn [length repeat ddot dsum dt dv dconst dadd dmul]; [lra|].
  rewrite IH. lra.
Qed.
Lemma unit_dmin0_tan n : dt (dsum (map dmin0 (repeat (dconst 1) n))) == 0.
Proof.
  induction n as [|n IH]; cbn [repeat map dsum dt dconst dadd]; [lra|].
  rewrite IH. unfold dmin0, dconst. cbn [dv dt]. qbools; try lra.
  all: cbn [dt]; try lra.
  all: destruct (qeqb 1 0); cbn [dt]; lra.
Qed.

Lemma dsum_map_tan {T} (f g : T -> dual) l : (forall x, In x l -> dt (f x) == dt (g x)) ->
  dt (dsum (map f l)) == dt (dsum (map g l)).
Proof.
  induction l as [|x l IH]; intros H; cbn [map dsum dt dconst dadd]; [lra|].
  rewrite (H x (or_introl eq_refl)), IH; [lra|]. intros y Hy. apply H. right; exact Hy.
Qed.

Section Chain.
Variable c : conn.
Variable b : dual.
Variable ws : list dual.

(* the unclamped linear form of one instance *)
Definition inst_pre (lower : bool) (row : list bnd) : dual := pre_d c b ws (map dconst (sel_in c lower row)).

Theorem body_upper_gradient row : clamp01 (dv (inst_pre false row)) < 1 ->
  dt (body_bound_d c b ws false row) == dt (inst_pre false row).
Proof.
  intros H. unfold body_bound_d.
  destruct (agg_upper_no_tie (act_up_d c b ws (map dconst (sel_in c false row)))) as [E _].
  { rewrite act_up_value. exact H. }
  rewrite E. apply act_up_transparent.
Qed.
Theorem body_lower_gradient row : 0 < clamp01 (dv (inst_pre true row)) ->
  dt (body_bound_d c b ws true row) == dt (inst_pre true row).
Proof.
  intros H. unfold body_bound_d.
  destruct (agg_lower_no_tie (act_up_d c b ws (map dconst (sel_in c true row)))) as [E _].
  { rewrite act_up_value. exact H. }
  rewrite E. apply act_up_transparent.
Qed.

(* Forall: as soon as no instance upper bound sits on 1 and the conjunction is below 1 (strictly saturated at 0 included),
   the stored upper bound has the derivative of  1 - sum_j (1 - pre_j)  i.e. the sum of the instance derivatives *)
Theorem forall_upper_gradient rows :
  (forall row, In row rows -> clamp01 (dv (inst_pre false row)) < 1) ->
  dv (act_up_d CAnd (dconst 1) (repeat (dconst 1) (length rows)) (map (body_bound_d c b ws false) rows)) < 1 ->
  dt (quant_bound_d true c b ws false rows) == dt (dsum (map (inst_pre false) rows)).
Proof.
  intros Hinst Hq. unfold quant_bound_d.
  destruct (agg_upper_no_tie _ Hq) as [E _]. rewrite E, act_up_transparent.
  cbn [pre_d and_pre_d dsub dt dconst].
  rewrite <- (map_length (body_bound_d c b ws false) rows) at 1. rewrite unit_dtsum_tan.
  rewrite (dsum_map_tan (body_bound_d c b ws false) (inst_pre false)); [lra|].
  intros row Hr. apply body_upper_gradient. apply Hinst; exact Hr.
Qed.

Theorem exists_lower_gradient rows :
  (forall row, In row rows -> 0 < clamp01 (dv (inst_pre true row))) ->
  0 < dv (act_up_d COr (dconst 1) (repeat (dconst 1) (length rows)) (map (body_bound_d c b ws true) rows)) ->
  dt (quant_bound_d false c b ws true rows) == dt (dsum (map (inst_pre true) rows)).
Proof.
  intros Hinst Hq. unfold quant_bound_d.
  destruct (agg_lower_no_tie _ Hq) as [E _]. rewrite E, act_up_transparent.
  cbn [pre_d or_pre_d dsub dadd dt dconst].
  rewrite unit_dmin0_tan.
  rewrite <- (map_length (body_bound_d c b ws true) rows) at 1. rewrite unit_ddot_tan.
  rewrite (dsum_map_tan (body_bound_d c b ws true) (inst_pre true)); [lra|].
  intros row Hr. apply body_lower_gradient. apply Hinst; exact Hr.
Qed.
End Chain.
