(* EvalProofs.v -- the upward pass computes the recursive (interval) evaluation of every
   formula: C04.  `e : nat -> bnd` is an INTERVAL INTERPRETATION of the knowledge base when the
   value of every non-leaf object is the upward activation of the values of its operands; the
   theorem says that a model-level upward pass started in any state that is nowhere tighter
   than `e` and agrees with it on the atoms ends with exactly `e` on every traversed object.
   Point inputs, classical inputs and three-valued (Kleene) inputs are instances. *)
From LNN Require Import Num Neuron Node PropEngine.
From LNN.proofs Require Import NodeProofs NeuronProofs PropProofs DfsProofs MonoProofs SchedProofs.
Open Scope Q_scope.

Definition point (x : Q) : bnd := B x x.
Definition ordered (b : bnd) : Prop := lo b <= hi b.

(* the bounds the upward rule of object o prescribes under e *)
Definition obj_up (o : obj) (e : nat -> bnd) : bnd :=
  match okind o with
  | KProp => unknown
  | KNot => match oops o with j :: _ => neg (e j) | [] => unknown end
  | kd => act_up (conn_of kd) (opar o) (map e (oops o))
  end.

Definition iinterp (k : kb) (e : nat -> bnd) : Prop :=
  (forall i, wf_bnd (e i) /\ ordered (e i)) /\
  forall i, (i < length k)%nat -> okind (getobj k i) <> KProp -> bnd_eq (e i) (obj_up (getobj k i) e).

Definition Loose (s : state) (e : nat -> bnd) : Prop := forall i, tighter (s i) (e i).
Definition done (s : state) (e : nat -> bnd) (i : nat) : Prop := bnd_eq (s i) (e i).

Definition upward_prim (p : pstep) : Prop :=
  match p with PUp _ | PNotUp _ => True | _ => False end.

Lemma bnd_eq_tighter a b : bnd_eq a b -> tighter a b /\ tighter b a.
Proof. intros [? ?]. unfold tighter. repeat split; lra. Qed.
Lemma tighter_antisym a b : tighter a b -> tighter b a -> bnd_eq a b.
Proof. intros [? ?] [? ?]. unfold bnd_eq. split; lra. Qed.
Lemma bnd_eq_trans a b c : bnd_eq a b -> bnd_eq b c -> bnd_eq a c.
Proof. intros [? ?] [? ?]. unfold bnd_eq. split; lra. Qed.
Lemma bnd_eq_refl a : bnd_eq a a.
Proof. unfold bnd_eq. split; lra. Qed.

Lemma Forall2_map_rel (R : bnd -> bnd -> Prop) (s t : nat -> bnd) l :
  (forall j, In j l -> R (s j) (t j)) -> Forall2 R (map s l) (map t l).
Proof. induction l as [|j l IH]; intros H; cbn [map]; constructor; [apply H; left; reflexivity | apply IH; intros; apply H; right; assumption]. Qed.

Lemma F2_impl {X Y} (R S : X -> Y -> Prop) l1 l2 : (forall a b, R a b -> S a b) -> Forall2 R l1 l2 -> Forall2 S l1 l2.
Proof. intros H. induction 1; constructor; auto. Qed.
Lemma F2_flip {X Y} (R : X -> Y -> Prop) l1 l2 : Forall2 R l1 l2 -> Forall2 (fun b a => R a b) l2 l1.
Proof. induction 1; constructor; auto. Qed.

Lemma act_up_eq c p bs cs : conn_wf c p (length bs) -> Forall2 bnd_eq bs cs ->
  bnd_eq (act_up c p bs) (act_up c p cs).
Proof.
  intros Hc H. assert (Hl : length bs = length cs) by (eapply Forall2_length; exact H).
  apply tighter_antisym.
  - apply act_up_mono; [exact Hc|]. eapply F2_impl; [|exact H]. intros a b E. apply bnd_eq_tighter in E. tauto.
  - apply act_up_mono; [rewrite <- Hl; exact Hc|].
    apply F2_flip in H. eapply F2_impl; [|exact H]. cbv beta. intros a b E. apply bnd_eq_tighter in E. tauto.
Qed.

Lemma kind_eq_dec_prop (kd : kind) : {kd = KProp} + {kd <> KProp}.
Proof. destruct kd; [left; reflexivity | right; discriminate ..]. Qed.

Section Eval.
Variable k : kb.
Hypothesis Hwf : wf_kb k.
Variable e : nat -> bnd.
Hypothesis He : iinterp k e.

Lemma loose_ordered s i : Loose s e -> ordered (s i).
Proof. intros HL. destruct (HL i) as [? ?]. destruct (proj1 He i) as [_ Ho]. unfold ordered in *. lra. Qed.

Lemma ordered_no_contra al b : alpha_ok al -> wf_bnd b -> ordered b -> is_contra al b = false.
Proof.
  intros Ha [Hl Hu] Ho. destruct (is_contra al b) eqn:E; [|reflexivity].
  apply is_contra_iff in E; [|exact Ha | exact Hl | exact Hu]. destruct E as [E _]. unfold ordered in Ho. lra.
Qed.

Lemma loose_not_arrested s i : (i < length k)%nat -> Range s -> Loose s e -> arrested k s i = false.
Proof.
  intros Hi HR HL. unfold arrested. pose proof (ops_lt k i Hwf Hi) as Ho.
  assert (Hn : forall al j, alpha_ok al -> is_contra al (s j) = false).
  { intros al j Ha. apply ordered_no_contra; [exact Ha | apply HR | apply loose_ordered; exact HL]. }
  rewrite !orb_false_iff. repeat split.
  - unfold obj_contra. apply Hn. apply obj_alpha_ok; assumption.
  - destruct (existsb (obj_contra k s) (oops (getobj k i))) eqn:E; [|reflexivity].
    apply existsb_exists in E. destruct E as [j [Hj Hc]]. unfold obj_contra in Hc.
    rewrite Hn in Hc; [discriminate|]. apply obj_alpha_ok; [exact Hwf|]. exact (proj1 (Forall_forall _ _) Ho j Hj).
  - destruct (existsb _ (firstn 2 (oops (getobj k i)))) eqn:E; [|reflexivity].
    apply existsb_exists in E. destruct E as [j [Hj Hc]].
    rewrite Hn in Hc; [discriminate|]. apply obj_alpha_ok; assumption.
Qed.

Lemma interp_neuron i : is_neuron (okind (getobj k i)) ->
  bnd_eq (e i) (act_up (conn_of (okind (getobj k i))) (opar (getobj k i)) (map e (oops (getobj k i)))).
Proof.
  intros Hn. assert (Hi : (i < length k)%nat) by (apply getobj_lt; intro E; rewrite E in Hn; exact Hn).
  pose proof (proj2 He i Hi) as H. unfold obj_up in H.
  destruct (okind (getobj k i)); cbn [is_neuron] in Hn; try contradiction; apply H; discriminate.
Qed.

(* the single write of an upward step *)
Lemma wres_loose s j new : Loose s e -> tighter new (e j) -> tighter (wres s (j, new)) (e j).
Proof.
  intros HL [N1 N2]. destruct (HL j) as [S1 S2]. destruct (proj1 He j) as [[[? ?] [? ?]] _].
  unfold wres, tighter. rewrite lo_bred, hi_bred. unfold agg_bnd; cbn [fst snd lo hi]. split; qcases; lra.
Qed.
Lemma wres_done s j new : Loose s e -> bnd_eq new (e j) -> bnd_eq (wres s (j, new)) (e j).
Proof.
  intros HL [N1 N2]. destruct (HL j) as [S1 S2]. destruct (proj1 He j) as [[[? ?] [? ?]] _].
  unfold wres, bnd_eq. rewrite lo_bred, hi_bred. unfold agg_bnd; cbn [fst snd lo hi]. split; qcases; lra.
Qed.

Lemma run_single s a j new : fst (run_prims k (s, a) []) = s /\
  fst (apply_batch (s, a) [(j, new)]) = upd s j (wres s (j, new)).
Proof. split; [reflexivity|]. cbn [apply_batch fold_left]. apply write_state. Qed.

Lemma up_prim_loose s a p : valid_prim k p -> upward_prim p -> Range s -> Loose s e ->
  Loose (fst (run_prim k (s, a) p)) e.
Proof.
  intros Hv Hu HR HL. pose proof (valid_lt k p Hv) as Hi. unfold run_prim. cbn [fst].
  destruct p as [i|i idx|i|i]; cbn [upward_prim] in Hu; try contradiction; cbn [plan valid_prim] in *.
  - rewrite loose_not_arrested by assumption.
    rewrite (proj2 (run_single s a i _)). intros x. unfold upd. destruct (Nat.eqb_spec x i) as [->|Hne]; [|apply HL].
    apply wres_loose; [exact HL|].
    eapply tighter_eq; [apply bnd_eq_refl | apply bnd_eq_sym; apply interp_neuron; exact Hv|].
    apply act_up_mono; [rewrite map_length; apply neuron_conn_wf; assumption|].
    apply Forall2_map_rel. intros j _. apply HL.
  - pose proof (proj2 He i Hi ltac:(rewrite Hv; discriminate)) as E. unfold obj_up in E. rewrite Hv in E.
    destruct (oops (getobj k i)) as [|j r]; [exact HL|].
    rewrite (proj2 (run_single s a i _)). intros x. unfold upd. destruct (Nat.eqb_spec x i) as [->|Hne]; [|apply HL].
    apply wres_loose; [exact HL|].
    eapply tighter_eq; [apply bnd_eq_refl | apply bnd_eq_sym; exact E|]. apply neg_anti. apply HL.
Qed.

Lemma up_prims_loose ps : Forall (valid_prim k) ps -> Forall upward_prim ps ->
  forall s a, Range s -> Loose s e -> Loose (fst (run_prims k (s, a) ps)) e.
Proof.
  induction ps as [|p ps IH]; intros Hv Hu s a HR HL; [exact HL|].
  inversion Hv as [|? ? Hv1 Hv2]; subst. inversion Hu as [|? ? Hu1 Hu2]; subst.
  cbn [run_prims fold_left]. change (fold_left (run_prim k) ps ?x) with (run_prims k x ps).
  destruct (run_prim k (s, a) p) as [s1 a1] eqn:E1.
  assert (F : s1 = fst (run_prim k (s, a) p)) by (rewrite E1; reflexivity).
  apply IH; [assumption | assumption | rewrite F; apply run_prim_range; exact HR | rewrite F; apply up_prim_loose; assumption].
Qed.

Lemma done_stable s s' i : Loose s' e -> tighter (s i) (s' i) -> done s e i -> done s' e i.
Proof.
  intros HL [T1 T2] [D1 D2]. destruct (HL i) as [L1 L2]. unfold done, bnd_eq. split; lra.
Qed.

Lemma up_prims_done_stable ps s a i : Forall (valid_prim k) ps -> Forall upward_prim ps ->
  Range s -> Loose s e -> done s e i -> done (fst (run_prims k (s, a) ps)) e i.
Proof.
  intros Hv Hu HR HL Hd. eapply done_stable; [apply up_prims_loose; assumption | | exact Hd].
  apply (run_prims_tighter k ps (s, a) HR i).
Qed.

(* executing the upward rule of i once all its operands are done makes i done *)
Lemma up_prim_done s a i : is_neuron (okind (getobj k i)) -> Range s -> Loose s e ->
  (forall j, In j (oops (getobj k i)) -> done s e j) ->
  done (fst (run_prim k (s, a) (PUp i))) e i.
Proof.
  intros Hn HR HL Hops. assert (Hi : (i < length k)%nat) by (apply getobj_lt; intro E; rewrite E in Hn; exact Hn).
  unfold run_prim. cbn [fst plan]. rewrite loose_not_arrested by assumption.
  rewrite (proj2 (run_single s a i _)). unfold done. rewrite upd_same.
  apply wres_done; [exact HL|].
  eapply bnd_eq_trans; [|apply bnd_eq_sym; apply interp_neuron; exact Hn].
  apply act_up_eq; [rewrite map_length; apply neuron_conn_wf; assumption|].
  apply Forall2_map_rel. exact Hops.
Qed.

Lemma notup_prim_done s a i : okind (getobj k i) = KNot -> Range s -> Loose s e ->
  (forall j, In j (oops (getobj k i)) -> done s e j) ->
  done (fst (run_prim k (s, a) (PNotUp i))) e i.
Proof.
  intros Hn HR HL Hops. assert (Hi : (i < length k)%nat) by (apply getobj_lt; rewrite Hn; discriminate).
  pose proof (proj2 He i Hi ltac:(rewrite Hn; discriminate)) as E. unfold obj_up in E. rewrite Hn in E.
  destruct (Hwf i Hi) as (_ & _ & _ & Hk & _). rewrite Hn in Hk.
  unfold run_prim. cbn [fst plan].
  destruct (oops (getobj k i)) as [|j r]; [discriminate|].
  rewrite (proj2 (run_single s a i _)). unfold done. rewrite upd_same.
  apply wres_done; [exact HL|]. eapply bnd_eq_trans; [|apply bnd_eq_sym; exact E].
  destruct (Hops j (or_introl eq_refl)) as [D1 D2]. unfold bnd_eq, neg; cbn [lo hi]. split; lra.
Qed.

Lemma simple_up_upward i : Forall upward_prim (simple_up k i).
Proof. unfold simple_up. destruct (okind (getobj k i)); repeat constructor. Qed.
Lemma flat_simple_up_upward l : Forall upward_prim (flat_map (simple_up k) l).
Proof. apply Forall_flat_map. intros; apply simple_up_upward. Qed.
Lemma flat_simple_up_valid l : Forall (valid_prim k) (flat_map (simple_up k) l).
Proof. apply Forall_flat_map. intros; apply simple_up_valid. Qed.

Lemma node_up_upward i : Forall upward_prim (node_up k i).
Proof.
  unfold node_up. destruct (okind (getobj k i)); repeat constructor;
  repeat (apply Forall_app; split); try apply flat_simple_up_upward; repeat constructor.
Qed.

(* node_up = (upward steps of sub-objects) ++ [the object's own upward step] *)
Lemma node_up_split i : okind (getobj k i) <> KProp ->
  exists pre last, node_up k i = pre ++ [last] /\ Forall (valid_prim k) pre /\ Forall upward_prim pre /\
    ((is_neuron (okind (getobj k i)) /\ last = PUp i) \/ (okind (getobj k i) = KNot /\ last = PNotUp i)).
Proof.
  intros Hk. unfold node_up. destruct (okind (getobj k i)) eqn:E; try congruence.
  - exists [], (PNotUp i). split; [reflexivity|]. split; [constructor|]. split; [constructor|]. right; split; reflexivity.
  - exists [], (PUp i). split; [reflexivity|]. split; [constructor|]. split; [constructor|]. left; split; [exact I | reflexivity].
  - exists (flat_map (simple_up k) (oops (getobj k i))), (PUp i). split; [reflexivity|].
    split; [apply flat_simple_up_valid|]. split; [apply flat_simple_up_upward|]. left; split; [exact I | reflexivity].
  - exists (flat_map (simple_up k) (oaux (getobj k i)) ++ flat_map (simple_up k) (xor_negs (getobj k i))
            ++ flat_map (simple_up k) (xor_disj (getobj k i))), (PUp i).
    split; [rewrite <- !app_assoc; reflexivity|].
    split; [repeat (apply Forall_app; split); apply flat_simple_up_valid|].
    split; [repeat (apply Forall_app; split); apply flat_simple_up_upward|].
    left; split; [exact I | reflexivity].
Qed.

Lemma node_up_done s a i : Range s -> Loose s e ->
  (okind (getobj k i) = KProp -> done s e i) ->
  (forall j, In j (children k i) -> done s e j) ->
  done (fst (run_prims k (s, a) (node_up k i))) e i.
Proof.
  intros HR HL Hp Hc. destruct (kind_eq_dec_prop (okind (getobj k i))) as [Ek|Ek].
  - unfold node_up. rewrite Ek. cbn [run_prims fold_left fst]. apply Hp; exact Ek.
  - destruct (node_up_split i Ek) as (pre & last & -> & Hv & Hu & Hlast).
    rewrite run_prims_app. destruct (run_prims k (s, a) pre) as [s1 a1] eqn:E1.
    assert (F : s1 = fst (run_prims k (s, a) pre)) by (rewrite E1; reflexivity).
    assert (HR1 : Range s1) by (rewrite F; apply run_prims_range; exact HR).
    assert (HL1 : Loose s1 e) by (rewrite F; apply up_prims_loose; assumption).
    assert (Hc1 : forall j, In j (oops (getobj k i)) -> done s1 e j).
    { intros j Hj. rewrite F. apply up_prims_done_stable; try assumption. apply Hc; exact Hj. }
    cbn [run_prims fold_left]. destruct Hlast as [[Hn ->]|[Hn ->]].
    + apply up_prim_done; assumption.
    + apply notup_prim_done; assumption.
Qed.

Lemma Topo_snoc_inv l x : Topo k (l ++ [x]) -> Topo k l /\ forall c, In c (children k x) -> In c l.
Proof.
  intros HT. split.
  - intros l1 y l2 E c Hc. apply (HT l1 y (l2 ++ [x])); [rewrite E, <- app_assoc; reflexivity | exact Hc].
  - intros c Hc. apply (HT l x []); [reflexivity | exact Hc].
Qed.

(* processing a topologically ordered list of objects upward makes all of them done *)
Lemma up_list_done l : Topo k l -> forall s a, Range s -> Loose s e ->
  (forall i, okind (getobj k i) = KProp -> done s e i) ->
  let r := run_prims k (s, a) (flat_map (node_up k) l) in
  Range (fst r) /\ Loose (fst r) e /\ forall i, In i l -> done (fst r) e i.
Proof.
  induction l as [|x l IH] using rev_ind; intros HT s a HR HL Hp; cbn zeta.
  - cbn [flat_map run_prims fold_left fst]. split; [exact HR|]. split; [exact HL|]. intros i [].
  - apply Topo_snoc_inv in HT. destruct HT as [HT Hch].
    rewrite flat_map_app. cbn [flat_map]. rewrite app_nil_r, run_prims_app.
    destruct (IH HT s a HR HL Hp) as (HR1 & HL1 & HD1).
    destruct (run_prims k (s, a) (flat_map (node_up k) l)) as [s1 a1] eqn:E1. cbn [fst] in *.
    assert (Hp1 : forall i, okind (getobj k i) = KProp -> done s1 e i).
    { intros i Hi. replace s1 with (fst (run_prims k (s, a) (flat_map (node_up k) l))) by (rewrite E1; reflexivity).
      apply up_prims_done_stable; [ | | exact HR | exact HL | apply Hp; exact Hi].
      - apply Forall_flat_map. intros; apply node_up_valid.
      - apply Forall_flat_map. intros; apply node_up_upward. }
    split; [|split].
    + apply run_prims_range; exact HR1.
    + apply up_prims_loose; [apply node_up_valid | apply node_up_upward | exact HR1 | exact HL1].
    + intros i Hi. apply in_app_or in Hi. destruct Hi as [Hi|[<-|[]]].
      * apply up_prims_done_stable; [apply node_up_valid | apply node_up_upward | exact HR1 | exact HL1 | apply HD1; exact Hi].
      * apply node_up_done; [exact HR1 | exact HL1 | apply Hp1 | intros j Hj; apply HD1; apply Hch; exact Hj].
Qed.

Theorem upward_pass_eval roots s : roots_ok k roots -> Range s -> Loose s e ->
  (forall i, okind (getobj k i) = KProp -> done s e i) ->
  forall i, In i (postorder k roots) -> bnd_eq (fst (pass k roots Up None s) i) (e i).
Proof.
  intros Hr HR HL Hp i Hi. unfold pass, pass_steps, traversal.
  destruct (up_list_done (postorder k roots) (postorder_topo k Hwf roots Hr) s 0 HR HL Hp) as (_ & _ & HD).
  apply HD; exact Hi.
Qed.

End Eval.
