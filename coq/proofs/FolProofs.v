(* FolProofs.v -- first-order tables: reads, extension, writes; every inference operation only
   tightens what every (object, grounding) READS (a grounding without a row reads as the world
   default), keeps bounds in [0,1], never removes a row, never touches stored data. *)
From LNN Require Import Num Neuron Node PropEngine Fol.
From LNN.proofs Require Import NodeProofs NeuronProofs PropProofs MonoProofs.
Open Scope Q_scope.

(* ---------- groundings ---------- *)
Lemma geqb_eq a b : geqb a b = true <-> a = b.
Proof.
  revert b. induction a as [|x a IH]; intros [|y b]; cbn [geqb]; split; intros H; try reflexivity; try discriminate.
  - apply andb_true_iff in H. destruct H as [H1 H2]. apply Nat.eqb_eq in H1. apply IH in H2. congruence.
  - inversion H; subst. rewrite Nat.eqb_refl. apply (proj2 (IH b)). reflexivity.
Qed.
Lemma geqb_refl a : geqb a a = true. Proof. apply geqb_eq. reflexivity. Qed.
Lemma geqb_neq a b : geqb a b = false <-> a <> b.
Proof. split; intros H. - intro E. apply geqb_eq in E. congruence. - destruct (geqb a b) eqn:E; [apply geqb_eq in E; contradiction | reflexivity]. Qed.
Lemma gmem_In g l : gmem g l = true <-> In g l.
Proof.
  induction l as [|h l IH]; cbn [gmem In]; [split; [discriminate | contradiction]|].
  rewrite orb_true_iff, IH, geqb_eq. split; intros [H|H]; auto.
Qed.

(* ---------- table reads ---------- *)
Lemma tfind_app t1 t2 g : tfind (t1 ++ t2) g = match tfind t1 g with Some r => Some r | None => tfind t2 g end.
Proof. induction t1 as [|r t1 IH]; cbn [app tfind]; [reflexivity|]. destruct (geqb g (rg r)); [reflexivity | exact IH]. Qed.

Lemma tfind_key t g r : tfind t g = Some r -> rg r = g /\ In r t.
Proof.
  induction t as [|x t IH]; cbn [tfind]; [discriminate|]. destruct (geqb g (rg x)) eqn:E.
  - intros H; inversion H; subst. apply geqb_eq in E. split; [auto | left; reflexivity].
  - intros H. destruct (IH H). split; [assumption | right; assumption].
Qed.

Lemma tmem_keys t g : tmem t g = true <-> In g (tkeys t).
Proof.
  unfold tmem, tkeys. induction t as [|x t IH]; cbn [tfind map In]; [split; [discriminate | contradiction]|].
  destruct (geqb g (rg x)) eqn:E.
  - split; [intros _; left; apply geqb_eq in E; auto | reflexivity].
  - rewrite IH. apply geqb_neq in E. split; [intros H; right; exact H | intros [H|H]; [congruence | exact H]].
Qed.

(* one step of textend *)
Definition tadd (w : bnd) (t : table) (g : gnd) : table := if tmem t g then t else t ++ [Row g w w].
Lemma textend_fold w t gs : textend w t gs = fold_left (tadd w) gs t.
Proof. reflexivity. Qed.

Lemma textend_cons w t g gs : textend w t (g :: gs) = textend w (tadd w t g) gs.
Proof. reflexivity. Qed.

Lemma tcur_tadd w t g h : tcur w (tadd w t g) h = tcur w t h.
Proof.
  unfold tadd. destruct (tmem t g) eqn:E; [reflexivity|]. unfold tcur. rewrite tfind_app.
  destruct (tfind t h) eqn:F; [reflexivity|]. cbn [tfind rg]. destruct (geqb h g); reflexivity.
Qed.
Lemma tcur_textend w gs : forall t h, tcur w (textend w t gs) h = tcur w t h.
Proof. induction gs as [|g gs IH]; intros t h; [reflexivity|]. rewrite textend_cons. rewrite <- (tcur_tadd w t g h). apply IH. Qed.

Lemma tfind_tadd_old w t g h r : tfind t h = Some r -> tfind (tadd w t g) h = Some r.
Proof. intros H. unfold tadd. destruct (tmem t g); [exact H|]. rewrite tfind_app, H. reflexivity. Qed.
Lemma tfind_textend_old w gs : forall t h r, tfind t h = Some r -> tfind (textend w t gs) h = Some r.
Proof. induction gs as [|g gs IH]; intros t h r H; [exact H|]. rewrite textend_cons. apply IH. apply tfind_tadd_old. exact H. Qed.

(* a row created by an extension holds the world default, as current bounds and as stored data *)
Lemma tfind_tadd_new w t g h r : tfind t h = None -> tfind (tadd w t g) h = Some r -> r = Row h w w.
Proof.
  intros Hn H. unfold tadd in H. destruct (tmem t g); [congruence|]. rewrite tfind_app, Hn in H. cbn [tfind rg] in H.
  destruct (geqb h g) eqn:E; [|discriminate]. apply geqb_eq in E. inversion H; subst. reflexivity.
Qed.
Lemma tfind_textend_new w gs : forall t h r, tfind t h = None -> tfind (textend w t gs) h = Some r -> r = Row h w w.
Proof.
  induction gs as [|g gs IH]; intros t h r Hn H; [cbn in H; congruence|]. rewrite textend_cons in H.
  destruct (tfind (tadd w t g) h) as [r'|] eqn:E.
  - pose proof (tfind_tadd_new w t g h r' Hn E) as ->. rewrite (tfind_textend_old w gs _ h _ E) in H. inversion H; reflexivity.
  - eapply IH; eassumption.
Qed.
Lemma tmem_tadd w t g : tmem (tadd w t g) g = true.
Proof.
  unfold tadd. destruct (tmem t g) eqn:E; [exact E|]. unfold tmem. rewrite tfind_app.
  destruct (tfind t g); [reflexivity|]. cbn [tfind rg]. rewrite geqb_refl. reflexivity.
Qed.
Lemma tmem_textend w gs : forall t g, In g gs -> tmem (textend w t gs) g = true.
Proof.
  induction gs as [|x gs IH]; intros t g H; [contradiction|]. rewrite textend_cons.
  destruct H as [->|H]; [|apply IH; exact H].
  unfold tmem. pose proof (tmem_tadd w t g) as Hm. unfold tmem in Hm.
  destruct (tfind (tadd w t g) g) as [r|] eqn:E; [|discriminate]. rewrite (tfind_textend_old w gs _ g r E). reflexivity.
Qed.

(* ---------- writing one row ---------- *)
Lemma tfind_tset_cur t g v h :
  tfind (tset_cur t g v) h = match tfind t h with
                             | Some r => if geqb h g then Some (Row (rg r) v (rleaf r)) else Some r
                             | None => None end.
Proof.
  induction t as [|x t IH]; cbn [tset_cur tfind]; [reflexivity|].
  destruct (geqb g (rg x)) eqn:E1; cbn [tfind rg].
  - apply geqb_eq in E1. subst g. destruct (geqb h (rg x)) eqn:E2; [reflexivity|].
    destruct (tfind t h) as [r|] eqn:F; reflexivity.
  - destruct (geqb h (rg x)) eqn:E2.
    + apply geqb_eq in E2. subst h. assert (geqb (rg x) g = false) by (apply geqb_neq; intro; subst; rewrite geqb_refl in E1; discriminate).
      rewrite H. reflexivity.
    + exact IH.
Qed.
Lemma tcur_tset_cur w t g v h :
  tcur w (tset_cur t g v) h = if geqb h g && tmem t g then v else tcur w t h.
Proof.
  unfold tcur, tmem. rewrite tfind_tset_cur. destruct (geqb h g) eqn:E; cbn [andb].
  - apply geqb_eq in E. subst h. destruct (tfind t g); reflexivity.
  - destruct (tfind t h); reflexivity.
Qed.
Lemma tkeys_tset_cur t g v : tkeys (tset_cur t g v) = tkeys t.
Proof. unfold tkeys. induction t as [|x t IH]; cbn [tset_cur map]; [reflexivity|]. destruct (geqb g (rg x)); cbn [map rg]; [reflexivity | rewrite IH; reflexivity]. Qed.
Lemma tkeys_textend_incl w gs : forall t g, In g (tkeys t) -> In g (tkeys (textend w t gs)).
Proof.
  intros t g H. apply tmem_keys. apply tmem_keys in H. unfold tmem in *. destruct (tfind t g) as [r|] eqn:E; [|discriminate].
  rewrite (tfind_textend_old w gs t g r E). reflexivity.
Qed.

(* ---------- state-level reads ---------- *)
Lemma ftab_set_tab s i t j : ftab (set_tab s i t) j = if Nat.eqb j i then t else ftab s j.
Proof. reflexivity. Qed.
Lemma fget_set_other s i t j g : j <> i -> fget (set_tab s i t) j g = fget s j g.
Proof. intros H. unfold fget, set_tab; cbn [ftab fwld]. destruct (Nat.eqb_spec j i); [contradiction | reflexivity]. Qed.
Lemma fget_fextend s i gs j g : fget (fextend s i gs) j g = fget s j g.
Proof.
  unfold fextend, fget, set_tab; cbn [ftab fwld]. destruct (Nat.eqb_spec j i) as [->|]; [apply tcur_textend | reflexivity].
Qed.
Lemma fwld_fextend s i gs : fwld (fextend s i gs) = fwld s. Proof. reflexivity. Qed.

(* the raw write used by f_write / f_write_many *)
Definition raw_set (s : fstate) (i : nat) (g : gnd) (v : bnd) : fstate := set_tab s i (tset_cur (ftab s i) g v).
Lemma fget_raw_set s i g v j h :
  fget (raw_set s i g v) j h = if (Nat.eqb j i && geqb h g && tmem (ftab s i) g)%bool then v else fget s j h.
Proof.
  unfold raw_set, fget, set_tab; cbn [ftab fwld]. destruct (Nat.eqb_spec j i) as [->|]; cbn [andb]; [|reflexivity].
  rewrite tcur_tset_cur. reflexivity.
Qed.
Lemma fwld_raw_set s i g v : fwld (raw_set s i g v) = fwld s. Proof. reflexivity. Qed.

(* ---------- invariants ---------- *)
(* FRange: every stored row and every world default lies in [0,1] *)
Definition FRange (s : fstate) : Prop :=
  (forall i, wf_bnd (fwld s i)) /\ forall i r, In r (ftab s i) -> wf_bnd (rcur r).
Lemma FRange_fget s i g : FRange s -> wf_bnd (fget s i g).
Proof.
  intros [Hw Hr]. unfold fget, tcur. destruct (tfind (ftab s i) g) as [r|] eqn:E; [|apply Hw].
  apply (Hr i). apply (tfind_key _ _ _ E).
Qed.

Lemma in_tadd w t g r : In r (tadd w t g) -> In r t \/ r = Row g w w.
Proof. unfold tadd. destruct (tmem t g); [left; assumption|]. intros H. apply in_app_or in H. destruct H as [H|[H|[]]]; auto. Qed.
Lemma in_textend w gs : forall t r, In r (textend w t gs) -> In r t \/ (rcur r = w /\ rleaf r = w).
Proof.
  induction gs as [|g gs IH]; intros t r H; [left; exact H|]. rewrite textend_cons in H.
  destruct (IH _ _ H) as [H1|H1]; [|right; exact H1]. destruct (in_tadd _ _ _ _ H1) as [H2|H2]; [left; exact H2 | right; rewrite H2; split; reflexivity].
Qed.
Lemma FRange_fextend s i gs : FRange s -> FRange (fextend s i gs).
Proof.
  intros [Hw Hr]. split; [exact Hw|]. intros j r Hin. unfold fextend, set_tab in Hin; cbn [ftab] in Hin.
  destruct (Nat.eqb_spec j i) as [->|]; [|apply (Hr j); exact Hin].
  destruct (in_textend _ _ _ _ Hin) as [H|[H _]]; [apply (Hr i); exact H | rewrite H; apply Hw].
Qed.
Lemma in_tset_cur t g v r : In r (tset_cur t g v) -> In r t \/ rcur r = v.
Proof.
  induction t as [|x t IH]; cbn [tset_cur]; [intros []|]. destruct (geqb g (rg x)).
  - intros [<-|H]; [right; reflexivity | left; right; exact H].
  - intros [<-|H]; [left; left; reflexivity|]. destruct (IH H); [left; right; assumption | right; assumption].
Qed.
Lemma FRange_raw_set s i g v : FRange s -> wf_bnd v -> FRange (raw_set s i g v).
Proof.
  intros [Hw Hr] Hv. split; [exact Hw|]. intros j r Hin. unfold raw_set, set_tab in Hin; cbn [ftab] in Hin.
  destruct (Nat.eqb_spec j i) as [->|]; [|apply (Hr j); exact Hin].
  destruct (in_tset_cur _ _ _ _ Hin) as [H|H]; [apply (Hr i); exact H | rewrite H; exact Hv].
Qed.

(* "reads only tighten": the order on states used by C05 for first-order tables *)
Definition fle (s s' : fstate) : Prop := forall i g, tighter (fget s i g) (fget s' i g).
Lemma fle_refl s : fle s s. Proof. intros i g. apply tighter_refl. Qed.
Lemma fle_trans a b c : fle a b -> fle b c -> fle a c.
Proof. intros H1 H2 i g. eapply tighter_trans; [apply H1 | apply H2]. Qed.
Lemma fle_fextend s i gs : fle s (fextend s i gs).
Proof. intros j g. rewrite fget_fextend. apply tighter_refl. Qed.
Lemma fle_raw_set s i g v : tighter (fget s i g) v -> fle s (raw_set s i g v).
Proof.
  intros H j h. rewrite fget_raw_set. destruct (Nat.eqb_spec j i) as [->|]; cbn [andb]; [|apply tighter_refl].
  destruct (geqb h g) eqn:E; cbn [andb]; [|apply tighter_refl]. apply geqb_eq in E. subst h.
  destruct (tmem (ftab s i) g); [exact H | apply tighter_refl].
Qed.

(* keys only grow; stored data (leaves) of existing rows is never touched by inference writes *)
Definition keys_le (s s' : fstate) : Prop := forall i g, In g (tkeys (ftab s i)) -> In g (tkeys (ftab s' i)).
Lemma keys_le_refl s : keys_le s s. Proof. intros i g H; exact H. Qed.
Lemma keys_le_trans a b c : keys_le a b -> keys_le b c -> keys_le a c.
Proof. intros H1 H2 i g H. apply H2, H1, H. Qed.
Lemma keys_le_fextend s i gs : keys_le s (fextend s i gs).
Proof.
  intros j g H. unfold fextend, set_tab; cbn [ftab]. destruct (Nat.eqb_spec j i) as [->|]; [apply tkeys_textend_incl; exact H | exact H].
Qed.
Lemma keys_le_raw_set s i g v : keys_le s (raw_set s i g v).
Proof.
  intros j h H. unfold raw_set, set_tab; cbn [ftab]. destruct (Nat.eqb_spec j i) as [->|]; [rewrite tkeys_tset_cur; exact H | exact H].
Qed.

(* the leaf (stored data) view: what reset_bounds returns to *)
Definition fleaf (s : fstate) (i : nat) (g : gnd) : option bnd := option_map rleaf (tfind (ftab s i) g).
Definition leaves_kept (s s' : fstate) : Prop :=
  fwld s' = fwld s /\
  forall i g, match fleaf s i g with
              | Some b => fleaf s' i g = Some b
              | None => fleaf s' i g = None \/ fleaf s' i g = Some (fwld s i)
              end.
Lemma leaves_kept_refl s : leaves_kept s s.
Proof. split; [reflexivity|]. intros i g. destruct (fleaf s i g); [reflexivity | left; reflexivity]. Qed.
Lemma leaves_kept_trans a b c : leaves_kept a b -> leaves_kept b c -> leaves_kept a c.
Proof.
  intros [W1 H1] [W2 H2]. split; [congruence|]. intros i g. specialize (H1 i g). specialize (H2 i g).
  destruct (fleaf a i g) as [x|].
  - rewrite H1 in H2. exact H2.
  - destruct H1 as [H1|H1]; rewrite H1 in H2; [rewrite W1 in H2; exact H2 | right; rewrite H2; reflexivity].
Qed.
Lemma leaves_kept_fextend s i gs : leaves_kept s (fextend s i gs).
Proof.
  split; [reflexivity|]. intros j g. unfold fleaf, fextend, set_tab; cbn [ftab].
  destruct (Nat.eqb_spec j i) as [->|]; [|destruct (tfind (ftab s j) g); [reflexivity | left; reflexivity]].
  destruct (tfind (ftab s i) g) as [r|] eqn:E; cbn [option_map].
  - rewrite (tfind_textend_old _ gs _ g r E). reflexivity.
  - destruct (tfind (textend (fwld s i) (ftab s i) gs) g) as [r'|] eqn:E2; [|left; reflexivity].
    right. rewrite (tfind_textend_new _ gs _ g r' E E2). reflexivity.
Qed.
Lemma leaves_kept_raw_set s i g v : leaves_kept s (raw_set s i g v).
Proof.
  split; [reflexivity|]. intros j h. unfold fleaf, raw_set, set_tab; cbn [ftab].
  destruct (Nat.eqb_spec j i) as [->|]; [|destruct (tfind (ftab s j) h); [reflexivity | left; reflexivity]].
  rewrite tfind_tset_cur. destruct (tfind (ftab s i) h) as [r|]; cbn [option_map]; [|left; reflexivity].
  destruct (geqb h g); reflexivity.
Qed.

(* the combined invariant-preservation statement *)
Definition fstep_ok (s s' : fstate) : Prop := FRange s' /\ fle s s' /\ keys_le s s' /\ leaves_kept s s'.
Lemma fstep_ok_refl s : FRange s -> fstep_ok s s.
Proof. intros H. split; [exact H|]. split; [apply fle_refl|]. split; [apply keys_le_refl | apply leaves_kept_refl]. Qed.
Lemma fstep_ok_trans a b c : fstep_ok a b -> fstep_ok b c -> fstep_ok a c.
Proof.
  intros (R1 & L1 & K1 & V1) (R2 & L2 & K2 & V2). split; [exact R2|]. split; [eapply fle_trans; eauto|].
  split; [eapply keys_le_trans; eauto | eapply leaves_kept_trans; eauto].
Qed.
Lemma fstep_ok_fextend s i gs : FRange s -> fstep_ok s (fextend s i gs).
Proof. intros H. split; [apply FRange_fextend; exact H|]. split; [apply fle_fextend|]. split; [apply keys_le_fextend | apply leaves_kept_fextend]. Qed.
Lemma fstep_ok_raw_set s i g v : FRange s -> wf_bnd v -> tighter (fget s i g) v -> fstep_ok s (raw_set s i g v).
Proof.
  intros HR Hv Ht. split; [apply FRange_raw_set; assumption|]. split; [apply fle_raw_set; exact Ht|].
  split; [apply keys_le_raw_set | apply leaves_kept_raw_set].
Qed.
Lemma fold_fextend_ok (f : nat -> list gnd) js : forall s, FRange s -> fstep_ok s (fold_left (fun st j => fextend st j (f j)) js s).
Proof.
  induction js as [|j js IH]; intros s HR; cbn [fold_left]; [apply fstep_ok_refl; exact HR|].
  eapply fstep_ok_trans; [apply fstep_ok_fextend; exact HR | apply IH; apply FRange_fextend; exact HR].
Qed.

(* ---------- aggregated writes ---------- *)
Lemma agg_wf_tighter old new : wf_bnd old -> wf_bnd (bred (agg_bnd WBoth old new)) /\ tighter old (bred (agg_bnd WBoth old new)).
Proof.
  intros [Hl Hu]. pose proof (agg_range WBoth old new) as [R1 R2]. pose proof (agg_tighter WBoth old new Hl Hu) as [T1 T2].
  unfold wf_bnd, tighter. rewrite lo_bred, hi_bred. repeat split; try apply R1; try apply R2; assumption.
Qed.

Lemma f_write_ok sa i g new : FRange (fst sa) -> fstep_ok (fst sa) (fst (f_write sa i g new)).
Proof.
  intros HR. unfold f_write. cbn [fst]. change (set_tab (fst sa) i (tset_cur (ftab (fst sa) i) g ?v)) with (raw_set (fst sa) i g v).
  destruct (agg_wf_tighter (fget (fst sa) i g) new (FRange_fget _ i g HR)) as [H1 H2].
  apply fstep_ok_raw_set; assumption.
Qed.
Lemma fold_f_write_ok i news : forall sa, FRange (fst sa) ->
  fstep_ok (fst sa) (fst (fold_left (fun sa gn => f_write sa i (fst gn) (snd gn)) news sa)).
Proof.
  induction news as [|gn news IH]; intros sa HR; cbn [fold_left]; [apply fstep_ok_refl; exact HR|].
  pose proof (f_write_ok sa i (fst gn) (snd gn) HR) as H1.
  eapply fstep_ok_trans; [exact H1 | apply IH; apply H1].
Qed.

(* merged duplicate proposals: every merged value is in range and at least as tight as what the row reads *)
Definition prop_ok (s : fstate) (j : nat) (gb : gnd * bnd) : Prop := wf_bnd (snd gb) /\ tighter (fget s j (fst gb)) (snd gb).
Lemma merge_ok a b old : wf_bnd a -> wf_bnd b -> tighter old a -> tighter old b -> wf_bnd (merge_bnd a b) /\ tighter old (merge_bnd a b).
Proof.
  intros [[? ?] [? ?]] [[? ?] [? ?]] [? ?] [? ?]. unfold wf_bnd, tighter, merge_bnd; cbn [lo hi]. repeat split; qcases; lra.
Qed.
Lemma merge_dups_ok s j props : Forall (prop_ok s j) props -> Forall (prop_ok s j) (merge_dups props).
Proof.
  unfold merge_dups. intros H.
  assert (G : forall acc, Forall (prop_ok s j) acc -> Forall (prop_ok s j)
            (fold_left (fun acc gb => if gmem (fst gb) (map fst acc)
               then map (fun a => if geqb (fst a) (fst gb) then (fst a, merge_bnd (snd a) (snd gb)) else a) acc
               else acc ++ [gb]) props acc)).
  { induction H as [|gb props Hgb H IH]; intros acc Hacc; cbn [fold_left]; [exact Hacc|]. apply IH.
    destruct (gmem (fst gb) (map fst acc)).
    - apply Forall_forall. intros x Hx. apply in_map_iff in Hx. destruct Hx as [a [<- Ha]].
      pose proof (proj1 (Forall_forall _ _) Hacc a Ha) as [A1 A2]. destruct Hgb as [B1 B2].
      destruct (geqb (fst a) (fst gb)) eqn:E; [|split; assumption]. apply geqb_eq in E. unfold prop_ok; cbn [fst snd].
      rewrite <- E in B2. apply merge_ok; assumption.
    - apply Forall_app. split; [exact Hacc | constructor; [exact Hgb | constructor]]. }
  apply G. constructor.
Qed.

(* writing a value that is tighter than what the START state reads keeps the end-to-end relation *)
Lemma fstep_ok_raw_start s0 cur j g v : fstep_ok s0 cur -> wf_bnd v -> tighter (fget s0 j g) v ->
  fstep_ok s0 (raw_set cur j g v).
Proof.
  intros (R & L & K & V) Hv Ht. split; [apply FRange_raw_set; assumption|]. split.
  - intros i h. rewrite fget_raw_set. destruct (Nat.eqb_spec i j) as [->|]; cbn [andb]; [|apply L].
    destruct (geqb h g) eqn:E; cbn [andb]; [|apply L]. apply geqb_eq in E. subst h.
    destruct (tmem (ftab cur j) g); [exact Ht | apply L].
  - split; [eapply keys_le_trans; [exact K | apply keys_le_raw_set] | eapply leaves_kept_trans; [exact V | apply leaves_kept_raw_set]].
Qed.

Lemma f_write_many_ok s a j props : FRange s -> fstep_ok s (fst (f_write_many (s, a) j props)).
Proof.
  intros HR. unfold f_write_many. cbn [fst snd].
  set (agg := map (fun gb => (fst gb, agg_bnd WBoth (fget s j (fst gb)) (snd gb))) props).
  assert (Hagg : Forall (prop_ok s j) agg).
  { apply Forall_forall. intros x Hx. apply in_map_iff in Hx. destruct Hx as [gb [<- _]]. unfold prop_ok; cbn [fst snd].
    destruct (FRange_fget s j (fst gb) HR) as [Hl Hu].
    split; [apply agg_range | apply agg_tighter; assumption]. }
  pose proof (merge_dups_ok s j agg Hagg) as Hm.
  assert (G : forall l, Forall (prop_ok s j) l -> forall sa, fstep_ok s (fst sa) ->
            fstep_ok s (fst (fold_left (fun sa' gb => (set_tab (fst sa') j (tset_cur (ftab (fst sa') j) (fst gb) (bred (snd gb))),
                                                       Qred (snd sa' + moved (fget s j (fst gb)) (snd gb)))) l sa))).
  { induction 1 as [|gb l [Hw Ht] Hl IH]; intros sa Hsa; cbn [fold_left]; [exact Hsa|]. apply IH. cbn [fst].
    change (set_tab (fst sa) j (tset_cur (ftab (fst sa) j) (fst gb) (bred (snd gb)))) with (raw_set (fst sa) j (fst gb) (bred (snd gb))).
    apply fstep_ok_raw_start; [exact Hsa | unfold wf_bnd; rewrite lo_bred, hi_bred; exact Hw | unfold tighter; rewrite lo_bred, hi_bred; exact Ht]. }
  apply G; [exact Hm | apply fstep_ok_refl; exact HR].
Qed.

(* ---------- every node-level and model-level inference operation ---------- *)
Lemma oper_groundings_ok k s i d gs s1 : FRange s -> oper_groundings k s i d = Some (gs, s1) -> fstep_ok s s1.
Proof.
  intros HR H. unfold oper_groundings in H. destruct (is_homog (getf k i)).
  - match type of H with context [fextend ?a i ?G] => set (s2 := fextend a i G) in * end.
    destruct (gdedup _) eqn:EG; [discriminate|]. inversion H; subst. clear H.
    eapply fstep_ok_trans; [apply (fold_fextend_ok (fun _ => g :: l) (fops (getf k i)) s HR)|].
    apply fstep_ok_fextend. apply (fold_fextend_ok (fun _ => g :: l) (fops (getf k i)) s HR).
  - destruct (map _ (combine (fops (getf k i)) (fmaps (getf k i)))) as [|d0 rest] eqn:Ed; [discriminate|].
    destruct (op_groundings (fold_left foj rest d0)) as [|g0 gl] eqn:Eo; [discriminate|]. inversion H; subst. clear H.
    assert (G : forall jms st, FRange st -> fstep_ok st (fold_left (fun st jm => fextend st (fst jm) (map (project (snd jm)) (g0 :: gl))) jms st)).
    { induction jms as [|jm jms IH]; intros st Hst; cbn [fold_left]; [apply fstep_ok_refl; exact Hst|].
      eapply fstep_ok_trans; [apply fstep_ok_fextend; exact Hst | apply IH; apply FRange_fextend; exact Hst]. }
    eapply fstep_ok_trans; [apply G; exact HR | apply fstep_ok_fextend; apply G; exact HR].
Qed.

Lemma f_conn_up_ok k s i : FRange s -> fstep_ok s (fst (f_conn_up k s i)).
Proof.
  intros HR. unfold f_conn_up. destruct (oper_groundings k s i DUp) as [[gs s1]|] eqn:E; [|apply fstep_ok_refl; exact HR].
  pose proof (oper_groundings_ok k s i DUp gs s1 HR E) as H1.
  eapply fstep_ok_trans; [exact H1|]. apply (fold_f_write_ok i _ (s1, 0)). apply H1.
Qed.

Lemma f_conn_down_ok k s i idx : FRange s -> fstep_ok s (fst (f_conn_down k s i idx)).
Proof.
  intros HR. unfold f_conn_down. destruct (oper_groundings k s i DDown) as [[gs s1]|] eqn:E; [|apply fstep_ok_refl; exact HR].
  pose proof (oper_groundings_ok k s i DDown gs s1 HR E) as H1.
  eapply fstep_ok_trans; [exact H1|].
  match goal with |- fstep_ok s1 (fst (fold_left ?f ?l (s1, 0))) => generalize l; intros targets;
    assert (G : forall tg sa, FRange (fst sa) -> fstep_ok (fst sa) (fst (fold_left f tg sa))) end.
  { induction tg as [|t tg IH]; intros sa Hsa; cbn [fold_left]; [apply fstep_ok_refl; exact Hsa|].
    destruct sa as [s' a']. cbn [fst] in *.
    pose proof (f_write_many_ok s' a' (fst (snd t)) (map (fun gn => (project (snd (snd t)) (fst gn), nth (fst t) (snd gn) unknown))
         (map (fun g => (g, act_down (fconn (getf k i)) (fpar (getf k i)) (fget s1 i g) (op_inputs k s1 i g)))
              (filter (fun g => negb (inputs_contra (falpha (getf k i)) (op_inputs k s1 i g) || is_contra (falpha (getf k i)) (fget s1 i g))) gs))) Hsa) as H2.
    eapply fstep_ok_trans; [exact H2 | apply IH; apply H2]. }
  apply (G targets (s1, 0)). apply H1.
Qed.

Lemma f_not_up_ok k s i : FRange s -> fstep_ok s (fst (f_not_up k s i)).
Proof.
  intros HR. unfold f_not_up. destruct (fops (getf k i)) as [|j r]; [apply fstep_ok_refl; exact HR|].
  eapply fstep_ok_trans; [apply fstep_ok_fextend; exact HR | apply f_write_many_ok; apply FRange_fextend; exact HR].
Qed.
Lemma f_not_down_ok k s i : FRange s -> fstep_ok s (fst (f_not_down k s i)).
Proof.
  intros HR. unfold f_not_down. destruct (fops (getf k i)) as [|j r]; [apply fstep_ok_refl; exact HR|].
  eapply fstep_ok_trans; [apply fstep_ok_fextend; exact HR | apply f_write_many_ok; apply FRange_fextend; exact HR].
Qed.

Lemma f_node_up_ok k s i : FRange s -> fstep_ok s (fst (f_node_up k s i)).
Proof. intros HR. unfold f_node_up. destruct (fkd (getf k i)); [apply fstep_ok_refl; exact HR | apply f_not_up_ok; exact HR | apply f_conn_up_ok; exact HR]. Qed.
Lemma f_node_down_ok k s i idx : FRange s -> fstep_ok s (fst (f_node_down k s i idx)).
Proof. intros HR. unfold f_node_down. destruct (fkd (getf k i)); [apply fstep_ok_refl; exact HR | apply f_not_down_ok; exact HR | apply f_conn_down_ok; exact HR]. Qed.

Lemma f_pass_ok k roots d src s : FRange s -> fstep_ok s (fst (f_pass k roots d src s)).
Proof.
  intros HR. unfold f_pass. generalize (f_traversal k roots d src). intros l.
  assert (G : forall l sa, FRange (fst sa) -> fstep_ok (fst sa) (fst (fold_left (fun sa i =>
               let r := match d with Up => f_node_up k (fst sa) i | Down => f_node_down k (fst sa) i None end in
               (fst r, Qred (snd sa + snd r))) l sa))).
  { clear. induction l as [|i l IH]; intros sa Hsa; cbn [fold_left]; [apply fstep_ok_refl; exact Hsa|].
    cbn zeta. set (r := match d with Up => f_node_up k (fst sa) i | Down => f_node_down k (fst sa) i None end).
    assert (H1 : fstep_ok (fst sa) (fst r)).
    { unfold r. destruct d; [apply f_node_up_ok | apply f_node_down_ok]; exact Hsa. }
    specialize (IH (fst r, Qred (snd sa + snd r))). cbn [fst] in IH.
    eapply fstep_ok_trans; [exact H1 | apply IH; apply H1]. }
  apply (G l (s, 0)). exact HR.
Qed.

Lemma f_infer_loop_ok k roots src : forall fuel dirs ms s steps total, FRange s ->
  fstep_ok s (fir_state (f_infer_loop fuel k roots dirs src ms s steps total)).
Proof.
  induction fuel as [|f IH]; intros dirs ms s steps total HR; cbn [f_infer_loop]; [apply fstep_ok_refl; exact HR|].
  set (r := match dirs with
            | None => let r1 := f_pass k roots Up src s in let r2 := f_pass k roots Down src (fst r1) in (fst r2, snd r1 + snd r2)
            | Some d => f_pass k roots d src s end).
  assert (Hr : fstep_ok s (fst r)).
  { unfold r. destruct dirs as [d|]; [apply f_pass_ok; exact HR|]. cbn zeta. cbn [fst].
    pose proof (f_pass_ok k roots Up src s HR) as H1.
    eapply fstep_ok_trans; [exact H1 | apply f_pass_ok; apply H1]. }
  cbn zeta. fold r. match goal with |- context [if ?c then _ else _] => destruct c end; cbn [fir_state]; [exact Hr|].
  destruct (negb (Nat.eqb ms 0) && Nat.leb ms (S steps))%bool; cbn [fir_state]; [exact Hr|].
  eapply fstep_ok_trans; [exact Hr | apply IH; apply Hr].
Qed.
