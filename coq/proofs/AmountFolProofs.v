(* AmountFolProofs.v -- C13, first-order engine, every public inference operation (node-level upward/downward of every
   node kind, model passes, infer): the reported amount is non-negative and an amount of ZERO means that no reading of any
   formula at any grounding changed.  (The converse -- nothing changed => zero -- additionally needs every written row to
   exist, see Properties/C13.v.) *)
From LNN Require Import Num Neuron Node PropEngine Fol.
From LNN.proofs Require Import NodeProofs NeuronProofs PropProofs DfsProofs MonoProofs EvalProofs FolProofs ConnProofs AmountProofs.
Open Scope Q_scope.

Definition same_reads (s s' : fstate) : Prop := forall i g, bnd_eq (fget s i g) (fget s' i g).
Lemma same_reads_refl s : same_reads s s. Proof. intros i g. apply bnd_eq_refl. Qed.
Lemma same_reads_trans a b c : same_reads a b -> same_reads b c -> same_reads a c.
Proof. intros H1 H2 i g. eapply bnd_eq_trans; [apply H1 | apply H2]. Qed.
Lemma same_reads_fextend s i gs : same_reads s (fextend s i gs).
Proof. intros j g. rewrite fget_fextend. apply bnd_eq_refl. Qed.

(* a step on (state, accumulated amount): the accumulator never decreases, and if it did not increase no reading changed *)
Definition quiet (s : fstate) (a : Q) (r : fstate * Q) : Prop := a <= snd r /\ (snd r == a -> same_reads s (fst r)).

Lemma quiet_refl s a : quiet s a (s, a).
Proof. split; cbn [fst snd]; [lra | intros _; apply same_reads_refl]. Qed.
Lemma quiet_trans s a r1 r2 : quiet s a r1 -> quiet (fst r1) (snd r1) r2 -> quiet s a r2.
Proof.
  intros [A1 B1] [A2 B2]. split; [lra|]. intros E.
  assert (E1 : snd r1 == a) by lra. assert (E2 : snd r2 == snd r1) by lra.
  eapply same_reads_trans; [apply B1; exact E1 | apply B2; exact E2].
Qed.

(* writing a value that equals the old reading leaves every reading as it was *)
Lemma same_reads_raw_set s0 cur j g v : same_reads s0 cur -> bnd_eq v (fget s0 j g) -> same_reads s0 (raw_set cur j g v).
Proof.
  intros H Hv i h. rewrite fget_raw_set. destruct (Nat.eqb i j && geqb h g && tmem (ftab cur j) g)%bool eqn:E; [|apply H].
  apply andb_true_iff in E. destruct E as [E _]. apply andb_true_iff in E. destruct E as [E1 E2].
  apply Nat.eqb_eq in E1. apply geqb_eq in E2. subst i h. apply bnd_eq_sym. exact Hv.
Qed.

Lemma f_write_quiet s a i g new : quiet s a (f_write (s, a) i g new).
Proof.
  unfold f_write, quiet. cbn [fst snd aggregate]. rewrite Qred_correct.
  pose proof (moved_nonneg (fget s i g) (agg_bnd WBoth (fget s i g) new)) as N. split; [lra|]. intros E.
  assert (Z : moved (fget s i g) (agg_bnd WBoth (fget s i g) new) == 0) by lra. apply moved_zero_iff in Z.
  change (set_tab s i (tset_cur (ftab s i) g (bred (agg_bnd WBoth (fget s i g) new)))) with (raw_set s i g (bred (agg_bnd WBoth (fget s i g) new))).
  apply same_reads_raw_set; [apply same_reads_refl|]. eapply bnd_eq_trans; [apply bnd_eq_bred | exact Z].
Qed.

Lemma f_write_many_quiet s a j props : quiet s a (f_write_many (s, a) j props).
Proof.
  unfold f_write_many. cbn [fst snd].
  set (rows := merge_dups (map (fun gb => (fst gb, agg_bnd WBoth (fget s j (fst gb)) (snd gb))) props)).
  assert (G : forall l sa, a <= snd sa -> (snd sa == a -> same_reads s (fst sa)) ->
     let r := fold_left (fun sa' gb => (set_tab (fst sa') j (tset_cur (ftab (fst sa') j) (fst gb) (bred (snd gb))),
                                       Qred (snd sa' + moved (fget s j (fst gb)) (snd gb)))) l sa in
     a <= snd r /\ (snd r == a -> same_reads s (fst r))).
  { induction l as [|gb l IH]; intros sa Ha Hs; cbn [fold_left]; [split; assumption|].
    pose proof (moved_nonneg (fget s j (fst gb)) (snd gb)) as N.
    apply IH; cbn [fst snd]; rewrite Qred_correct; [lra|]. intros E.
    assert (Ea : snd sa == a) by lra. assert (Z : moved (fget s j (fst gb)) (snd gb) == 0) by lra. apply moved_zero_iff in Z.
    change (set_tab (fst sa) j (tset_cur (ftab (fst sa) j) (fst gb) (bred (snd gb)))) with (raw_set (fst sa) j (fst gb) (bred (snd gb))).
    apply same_reads_raw_set; [apply Hs; exact Ea|]. eapply bnd_eq_trans; [apply bnd_eq_bred | exact Z]. }
  apply (G rows (s, a)); cbn [fst snd]; [lra | intros _; apply same_reads_refl].
Qed.

(* folds of quiet steps are quiet *)
Lemma fold_quiet {T} (F : fstate * Q -> T -> fstate * Q) (l : list T) :
  (forall sa x, quiet (fst sa) (snd sa) (F sa x)) -> forall sa, quiet (fst sa) (snd sa) (fold_left F l sa).
Proof.
  intros HF. induction l as [|x l IH]; intros sa; cbn [fold_left]; [destruct sa; apply quiet_refl|].
  eapply quiet_trans; [apply HF | apply IH].
Qed.

Lemma quiet_start s s1 r : same_reads s s1 -> quiet s1 0 r -> quiet s 0 r.
Proof. intros H [A B]. split; [exact A|]. intros E. eapply same_reads_trans; [exact H | apply B; exact E]. Qed.

Lemma fold_fextend_reads {T} (f : T -> nat) (h : T -> list gnd) l : forall s j g,
  bnd_eq (fget s j g) (fget (fold_left (fun st x => fextend st (f x) (h x)) l s) j g).
Proof.
  induction l as [|x l IH]; intros s j g; cbn [fold_left]; [apply bnd_eq_refl|].
  eapply bnd_eq_trans; [|apply IH]. rewrite fget_fextend. apply bnd_eq_refl.
Qed.

Lemma oper_groundings_reads k s i d gs s1 : oper_groundings k s i d = Some (gs, s1) -> same_reads s s1.
Proof.
  intros H. unfold oper_groundings in H. destruct (is_homog (getf k i)).
  - destruct (gdedup _) as [|gg0 ggl] eqn:EG; [discriminate|]. inversion H; subst. clear H. intros j g. rewrite fget_fextend.
    apply (fold_fextend_reads (fun j : nat => j) (fun _ => gg0 :: ggl)).
  - destruct (map _ (combine (fops (getf k i)) (fmaps (getf k i)))) as [|d0 rest]; [discriminate|].
    destruct (op_groundings (fold_left foj rest d0)) as [|g0 gl]; [discriminate|]. inversion H; subst. clear H. intros j g. rewrite fget_fextend.
    apply (fold_fextend_reads (fun jm : nat * list nat => fst jm) (fun jm => map (project (snd jm)) (g0 :: gl))).
Qed.

Lemma f_conn_up_quiet k s i : quiet s 0 (f_conn_up k s i).
Proof.
  unfold f_conn_up. destruct (oper_groundings k s i DUp) as [[gs s1]|] eqn:E; [|apply quiet_refl].
  eapply quiet_start; [eapply oper_groundings_reads; exact E|].
  apply (fold_quiet (fun sa gn => f_write sa i (fst gn) (snd gn)) _ (fun sa x => ltac:(destruct sa; apply f_write_quiet)) (s1, 0)).
Qed.

Lemma f_conn_down_quiet k s i idx : quiet s 0 (f_conn_down k s i idx).
Proof.
  unfold f_conn_down. destruct (oper_groundings k s i DDown) as [[gs s1]|] eqn:E; [|apply quiet_refl].
  eapply quiet_start; [eapply oper_groundings_reads; exact E|].
  match goal with |- quiet s1 0 (fold_left ?F ?l (s1, 0)) => apply (fold_quiet F l (fun sa x => ltac:(destruct sa; apply f_write_many_quiet)) (s1, 0)) end.
Qed.

Lemma f_not_up_quiet k s i : quiet s 0 (f_not_up k s i).
Proof.
  unfold f_not_up. destruct (fops (getf k i)) as [|j r]; [apply quiet_refl|].
  eapply quiet_start; [apply same_reads_fextend | apply f_write_many_quiet].
Qed.
Lemma f_not_down_quiet k s i : quiet s 0 (f_not_down k s i).
Proof.
  unfold f_not_down. destruct (fops (getf k i)) as [|j r]; [apply quiet_refl|].
  eapply quiet_start; [apply same_reads_fextend | apply f_write_many_quiet].
Qed.

Lemma f_node_up_quiet k s i : quiet s 0 (f_node_up k s i).
Proof. unfold f_node_up. destruct (fkd (getf k i)); [apply quiet_refl | apply f_not_up_quiet | apply f_conn_up_quiet]. Qed.
Lemma f_node_down_quiet k s i idx : quiet s 0 (f_node_down k s i idx).
Proof. unfold f_node_down. destruct (fkd (getf k i)); [apply quiet_refl | apply f_not_down_quiet | apply f_conn_down_quiet]. Qed.

Lemma f_pass_quiet k roots d src s : quiet s 0 (f_pass k roots d src s).
Proof.
  unfold f_pass.
  match goal with |- quiet s 0 (fold_left ?F ?l (s, 0)) => apply (fold_quiet F l) with (sa := (s, 0)) end.
  intros sa i. cbn zeta.
  set (r := match d with Up => f_node_up k (fst sa) i | Down => f_node_down k (fst sa) i None end).
  assert (Hr : quiet (fst sa) 0 r) by (unfold r; destruct d; [apply f_node_up_quiet | apply f_node_down_quiet]).
  destruct Hr as [A B]. split; cbn [fst snd]; rewrite Qred_correct; [lra|]. intros E. apply B. lra.
Qed.

(* one reasoning step of infer(): a pass, or an upward pass followed by a downward pass *)
Definition infer_step (k : fkb) (roots : list nat) (dirs : option dir) (src : option nat) (s : fstate) : fstate * Q :=
  match dirs with
  | None => let r1 := f_pass k roots Up src s in let r2 := f_pass k roots Down src (fst r1) in (fst r2, snd r1 + snd r2)
  | Some d => f_pass k roots d src s
  end.
Lemma infer_step_quiet k roots dirs src s : quiet s 0 (infer_step k roots dirs src s).
Proof.
  unfold infer_step. destruct dirs as [d|]; [apply f_pass_quiet|]. cbn zeta.
  destruct (f_pass_quiet k roots Up src s) as [A1 B1].
  destruct (f_pass_quiet k roots Down src (fst (f_pass k roots Up src s))) as [A2 B2].
  split; cbn [fst snd]; [lra|]. intros E. eapply same_reads_trans; [apply B1; lra | apply B2; lra].
Qed.

Lemma f_infer_loop_quiet k roots src : forall fuel dirs ms s steps total,
  let r := f_infer_loop fuel k roots dirs src ms s steps total in
  total <= fir_amount r /\ (fir_amount r == total -> same_reads s (fir_state r)).
Proof.
  induction fuel as [|f IH]; intros dirs ms s steps total; cbn [f_infer_loop]; cbn zeta; [cbn [fir_amount fir_state]; split; [lra | intros _; apply same_reads_refl]|].
  change (match dirs with
          | Some d => f_pass k roots d src s
          | None => (fst (f_pass k roots Down src (fst (f_pass k roots Up src s))), snd (f_pass k roots Up src s) + snd (f_pass k roots Down src (fst (f_pass k roots Up src s))))
          end) with (infer_step k roots dirs src s).
  destruct (infer_step_quiet k roots dirs src s) as [A B]. set (r := infer_step k roots dirs src s) in *.
  match goal with |- context [if ?c then _ else _] => destruct c end; cbn [fir_amount fir_state]; [split; [lra | intros E; apply B; lra]|].
  destruct (negb (Nat.eqb ms 0) && Nat.leb ms (S steps))%bool; cbn [fir_amount fir_state]; [split; [lra | intros E; apply B; lra]|].
  destruct (IH dirs ms (fst r) (S steps) (total + snd r)) as [A2 B2]. split; [lra|]. intros E.
  eapply same_reads_trans; [apply B; lra | apply B2; lra].
Qed.

(* every public inference operation *)
Theorem fexec_op_zero_sound k roots s o :
  0 <= snd (fexec_op k roots s o) /\ (snd (fexec_op k roots s o) == 0 -> same_reads s (fst (fexec_op k roots s o))).
Proof.
  destruct o as [i|i idx|src|src|src ms fuel]; cbn [fexec_op].
  - apply f_node_up_quiet.
  - apply f_node_down_quiet.
  - apply f_pass_quiet.
  - apply f_pass_quiet.
  - apply (f_infer_loop_quiet k roots src fuel None ms s 0%nat 0).
Qed.
