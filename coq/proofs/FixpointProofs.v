(* FixpointProofs.v -- C06: infer() terminates; a step that reports zero is a genuine fixpoint. *)
From LNN Require Import Num Neuron Node PropEngine.
From LNN.proofs Require Import NodeProofs NeuronProofs PropProofs.
Open Scope Q_scope.

Definition ext_eq (s s' : state) : Prop := forall i, s i = s' i.

Lemma map_ext_eq s s' (l : list nat) : ext_eq s s' -> map s l = map s' l.
Proof. intros H. apply map_ext. intros; apply H. Qed.

Lemma existsb_ext {T} (f g : T -> bool) l : (forall x, f x = g x) -> existsb f l = existsb g l.
Proof. intros H. induction l; cbn; [reflexivity | rewrite H, IHl; reflexivity]. Qed.

Lemma arrested_ext k s s' i : ext_eq s s' -> arrested k s i = arrested k s' i.
Proof.
  intros H. unfold arrested, obj_contra. rewrite (H i).
  f_equal; [f_equal|]; apply existsb_ext; intros x; rewrite (H x); reflexivity.
Qed.

Lemma plan_ext k s s' p : ext_eq s s' -> plan k s p = plan k s' p.
Proof.
  intros H. destruct p as [i|i idx|i|i]; cbn [plan].
  - rewrite (arrested_ext k s s' i H), (map_ext_eq s s' _ H). reflexivity.
  - rewrite (arrested_ext k s s' i H), (map_ext_eq s s' _ H), (H i). reflexivity.
  - destruct (oops (getobj k i)); [reflexivity | rewrite (H n); reflexivity].
  - destruct (oops (getobj k i)); [reflexivity | rewrite (H i); reflexivity].
Qed.

Lemma upd_ext s s' j b : ext_eq s s' -> ext_eq (upd s j b) (upd s' j b).
Proof. intros H i. unfold upd. destruct (Nat.eqb i j); [reflexivity | apply H]. Qed.

Lemma write_ext s s' a jb : ext_eq s s' ->
  ext_eq (fst (write (s, a) jb)) (fst (write (s', a) jb)) /\ snd (write (s, a) jb) = snd (write (s', a) jb).
Proof.
  intros H. unfold write. cbn [fst snd]. rewrite (H (fst jb)). split; [apply upd_ext; exact H | reflexivity].
Qed.

Lemma apply_batch_ext b : forall s s' a, ext_eq s s' ->
  ext_eq (fst (apply_batch (s, a) b)) (fst (apply_batch (s', a) b)) /\
  snd (apply_batch (s, a) b) = snd (apply_batch (s', a) b).
Proof.
  induction b as [|jb b IH]; intros s s' a H; cbn [apply_batch fold_left]; [split; [exact H | reflexivity]|].
  destruct (write_ext s s' a jb H) as [E1 E2].
  destruct (write (s, a) jb) as [t c]. destruct (write (s', a) jb) as [t' c']. cbn [fst snd] in *. subst c'.
  apply IH. exact E1.
Qed.

Lemma run_prim_ext k p s s' a : ext_eq s s' ->
  ext_eq (fst (run_prim k (s, a) p)) (fst (run_prim k (s', a) p)) /\
  snd (run_prim k (s, a) p) = snd (run_prim k (s', a) p).
Proof.
  intros H. unfold run_prim. cbn [fst]. rewrite (plan_ext k s s' p H). apply apply_batch_ext. exact H.
Qed.

Lemma run_prims_ext k ps : forall s s' a, ext_eq s s' ->
  ext_eq (fst (run_prims k (s, a) ps)) (fst (run_prims k (s', a) ps)) /\
  snd (run_prims k (s, a) ps) = snd (run_prims k (s', a) ps).
Proof.
  induction ps as [|p ps IH]; intros s s' a H; cbn [run_prims fold_left]; [split; [exact H | reflexivity]|].
  destruct (run_prim_ext k p s s' a H) as [E1 E2].
  destruct (run_prim k (s, a) p) as [t c]. destruct (run_prim k (s', a) p) as [t' c']. cbn [fst snd] in *. subst c'.
  apply IH. exact E1.
Qed.

(* with canonical states, "bnd_eq" is Leibniz equality *)
Lemma canon_eq s s' i : Canon s -> Canon s' -> bnd_eq (s i) (s' i) -> s i = s' i.
Proof. intros C C' E. rewrite <- (C i), <- (C' i). apply bred_complete. exact E. Qed.

(* amounts only accumulate *)
Lemma write_shift s a jb :
  snd (write (s, a) jb) == a + snd (write (s, 0) jb) /\ fst (write (s, a) jb) = fst (write (s, 0) jb).
Proof. unfold write. cbn [fst snd]. rewrite !Qred_correct. split; [lra | reflexivity]. Qed.

Lemma apply_batch_shift b : forall s a,
  snd (apply_batch (s, a) b) == a + snd (apply_batch (s, 0) b) /\
  fst (apply_batch (s, a) b) = fst (apply_batch (s, 0) b).
Proof.
  induction b as [|jb b IH]; intros s a; cbn [apply_batch fold_left]; [cbn [fst snd]; split; [lra | reflexivity]|].
  destruct (write_shift s a jb) as [W1 W2].
  destruct (write (s, a) jb) as [t c]. destruct (write (s, 0) jb) as [t0 c0]. cbn [fst snd] in *. subst t0.
  change (fold_left write b ?x) with (apply_batch x b).
  destruct (IH t c) as [E1 E2]. destruct (IH t c0) as [E3 E4].
  split; [|congruence]. rewrite E1, E3, W1. lra.
Qed.

Lemma run_prims_amount_shift k ps : forall s a,
  snd (run_prims k (s, a) ps) == a + snd (run_prims k (s, 0) ps) /\
  fst (run_prims k (s, a) ps) = fst (run_prims k (s, 0) ps).
Proof.
  induction ps as [|p ps IH]; intros s a; cbn [run_prims fold_left]; [cbn [fst snd]; split; [lra | reflexivity]|].
  destruct (apply_batch_shift (plan k s p) s a) as [B1 B2].
  unfold run_prim at 2 4 6 8. cbn [fst].
  destruct (apply_batch (s, a) (plan k s p)) as [t b]. destruct (apply_batch (s, 0) (plan k s p)) as [t0 b0].
  cbn [fst snd] in *. subst t0.
  change (fold_left (run_prim k) ps ?x) with (run_prims k x ps).
  destruct (IH t b) as [E1 E2]. destruct (IH t b0) as [E3 E4].
  split; [|congruence]. rewrite E1, E3, B1. lra.
Qed.

Section Fix.
Variable k : kb.
Hypothesis Hwf : wf_kb k.

(* a zero-amount list of steps leaves the state unchanged, and so does each single step of it *)
Lemma zero_amount_steps ps : Forall (valid_prim k) ps -> forall s, Range s -> Canon s ->
  snd (run_prims k (s, 0) ps) == 0 ->
  ext_eq (fst (run_prims k (s, 0) ps)) s /\
  forall p, In p ps -> ext_eq (fst (run_prim k (s, 0) p)) s /\ snd (run_prim k (s, 0) p) == 0.
Proof.
  induction 1 as [|p ps Hp Hps IH]; intros s HR HC Hz; cbn [run_prims fold_left] in *.
  - split; [intros i; reflexivity | intros p []].
  - change (fold_left (run_prim k) ps ?x) with (run_prims k x ps) in *.
    destruct (run_prim k (s, 0) p) as [s1 a1] eqn:E1.
    assert (HR1 : Range s1) by (pose proof (run_prim_range k (s, 0) p HR) as H; rewrite E1 in H; exact H).
    assert (HC1 : Canon s1).
    { pose proof (apply_batch_canon (plan k s p) (s, 0) HC) as H. unfold run_prim in E1. cbn [fst] in E1. rewrite E1 in H. exact H. }
    destruct (run_prims_amount_shift k ps s1 a1) as [Es Ef].
    assert (Ha1 : 0 <= a1).
    { pose proof (run_prims_amount_nonneg k [p] s Hwf ltac:(constructor; [exact Hp | constructor]) HR) as H.
      cbn [run_prims fold_left] in H. rewrite E1 in H. exact H. }
    pose proof (run_prims_amount_nonneg k ps s1 Hwf Hps HR1) as Ha2.
    assert (Z1 : a1 == 0) by lra. assert (Z2 : snd (run_prims k (s1, 0) ps) == 0) by lra.
    assert (X1 : ext_eq s1 s).
    { intros i. apply canon_eq; [exact HC1 | exact HC|].
      pose proof (proj1 (run_prims_zero_iff k [p] s Hwf ltac:(constructor; [exact Hp | constructor]) HR)) as H.
      cbn [run_prims fold_left] in H. rewrite E1 in H. cbn [fst snd] in H. apply H. exact Z1. }
    destruct (IH s1 HR1 HC1 Z2) as [X2 Hall].
    split.
    + intros i. rewrite Ef. rewrite (X2 i). apply X1.
    + intros q [<-|Hq].
      * rewrite E1. cbn [fst snd]. split; [exact X1 | exact Z1].
      * destruct (Hall q Hq) as [Q1 Q2].
        destruct (run_prims_ext k [q] s1 s 0 X1) as [R1 R2]. cbn [run_prims fold_left] in R1, R2.
        split; [|rewrite <- R2; exact Q2].
        intros i. rewrite <- (R1 i). rewrite (Q1 i). apply X1.
Qed.
End Fix.

(* ---------- termination ---------- *)
Lemma infer_eps_pos : 0 < infer_eps.
Proof. unfold infer_eps. reflexivity. Qed.

Lemma pass_range k roots d src s : Range s -> Range (fst (pass k roots d src s)).
Proof. intros H. unfold pass. apply (run_prims_range k _ (s, 0) H). Qed.

Lemma pass_phi k roots d src s : wf_kb k -> Range s ->
  snd (pass k roots d src s) == phi (length k) s - phi (length k) (fst (pass k roots d src s)).
Proof.
  intros Hwf HR. unfold pass. pose proof (run_prims_phi k _ Hwf (pass_steps_valid k roots d src) (s, 0) HR) as H.
  cbn [fst snd] in H. lra.
Qed.

Lemma infer_loop_terminates k roots src query ms : wf_kb k ->
  forall fuel s steps total, Range s ->
  phi (length k) s + inject_Z (Z.of_nat (length k)) < inject_Z (Z.of_nat fuel) * infer_eps ->
  ir_fuel_out (infer_loop fuel k roots None src query ms s steps total) = false.
Proof.
  intros Hwf. induction fuel as [|f IH]; intros s steps total HR Hm; cbn [infer_loop].
  - exfalso. pose proof (phi_bounds (length k) s HR) as [H1 H2]. change (inject_Z (Z.of_nat 0)) with 0 in Hm. lra.
  - destruct (match query with Some (q, conv) => (classically_resolved (s q) && negb conv)%bool | None => false end);
      cbn [ir_fuel_out]; [reflexivity|].
    set (r1 := pass k roots Up src s). set (r2 := pass k roots Down src (fst r1)).
    cbn [fst snd].
    destruct (infer_converged (snd r1 + snd r2)) eqn:Ec; cbn [ir_fuel_out]; [reflexivity|].
    destruct ((negb (ms =? 0)%nat && (ms <=? S steps)%nat)%bool); cbn [ir_fuel_out]; [reflexivity|].
    assert (HR1 : Range (fst r1)) by (apply pass_range; exact HR).
    assert (HR2 : Range (fst r2)) by (apply pass_range; exact HR1).
    apply IH; [exact HR2|].
    unfold infer_converged in Ec. apply qleb_false in Ec.
    pose proof (pass_phi k roots Up src s Hwf HR) as P1. pose proof (pass_phi k roots Down src (fst r1) Hwf HR1) as P2.
    fold r1 in P1. fold r2 in P2.
    rewrite Nat2Z.inj_succ in Hm. unfold Z.succ in Hm. rewrite inject_Z_plus in Hm. change (inject_Z 1) with 1 in Hm.
    lra.
Qed.
