(* OrderProofs.v -- C10: nothing an operation computes depends on the ORDER in which groundings are
   enumerated (the iteration order of a Python set, i.e. the hash seed) or in which facts were listed:
   rows are read by key, extensions are invisible to reads in any order, duplicate proposals are merged by
   max/min (a function of the SET of proposals per row). *)
From Coq Require Import Permutation.
From LNN Require Import Num Neuron Node PropEngine Fol.
From LNN.proofs Require Import NodeProofs NeuronProofs PropProofs DfsProofs MonoProofs EvalProofs FolProofs ConnProofs.
Open Scope Q_scope.

(* ---------- rows are found by key: the order of the rows of a table is irrelevant ---------- *)
Lemma tfind_in_nodup t r : NoDup (tkeys t) -> In r t -> tfind t (rg r) = Some r.
Proof.
  induction t as [|x t IH]; intros HN Hin; [contradiction|]. cbn [tkeys map] in HN. inversion HN as [|? ? Hx HN']; subst.
  cbn [tfind]. destruct Hin as [->|Hin]; [rewrite geqb_refl; reflexivity|].
  destruct (geqb (rg r) (rg x)) eqn:E.
  - apply geqb_eq in E. exfalso. apply Hx. rewrite <- E. unfold tkeys. apply in_map. exact Hin.
  - apply IH; assumption.
Qed.
Theorem tfind_perm t t' g : Permutation t t' -> NoDup (tkeys t) -> tfind t g = tfind t' g.
Proof.
  intros HP HN. assert (HN' : NoDup (tkeys t')) by (eapply Permutation_NoDup; [apply Permutation_map; exact HP | exact HN]).
  destruct (tfind t g) as [r|] eqn:E.
  - destruct (tfind_key _ _ _ E) as [<- Hin]. symmetry. apply tfind_in_nodup; [exact HN' | eapply Permutation_in; eassumption].
  - destruct (tfind t' g) as [r'|] eqn:E'; [|reflexivity].
    destruct (tfind_key _ _ _ E') as [<- Hin]. rewrite (tfind_in_nodup t r' HN) in E; [discriminate|].
    eapply Permutation_in; [apply Permutation_sym; exact HP | exact Hin].
Qed.
Theorem reads_row_order_free s s' : (forall i, Permutation (ftab s i) (ftab s' i)) -> (forall i, NoDup (tkeys (ftab s i))) -> fwld s = fwld s' ->
  forall i g, fget s i g = fget s' i g.
Proof. intros HP HN HW i g. unfold fget, tcur. rewrite (tfind_perm _ _ g (HP i) (HN i)), HW. reflexivity. Qed.

(* ---------- extensions: any order, any repetition of the groundings gives the same reads and the same key set ---------- *)
Theorem extension_order_free w t gs gs' : (forall g, In g gs <-> In g gs') ->
  (forall h, tcur w (textend w t gs) h = tcur w (textend w t gs') h) /\
  (forall h, tmem (textend w t gs) h = tmem (textend w t gs') h).
Proof.
  intros Hs. split; [intros h; rewrite !tcur_textend; reflexivity|].
  assert (G : forall l h, tmem (textend w t l) h = (tmem t h || gmem h l)%bool).
  { clear. intros l. revert t. induction l as [|x l IH]; intros t h; [cbn [gmem]; rewrite orb_false_r; reflexivity|].
    rewrite textend_cons, IH. cbn [gmem]. unfold tadd. destruct (tmem t x) eqn:E.
    - destruct (geqb h x) eqn:E2; [apply geqb_eq in E2; subst; rewrite E; reflexivity | reflexivity].
    - unfold tmem at 1. rewrite tfind_app. unfold tmem. destruct (tfind t h); [reflexivity|]. cbn [tfind rg]. destruct (geqb h x); reflexivity. }
  intros h. rewrite !G. f_equal. destruct (gmem h gs) eqn:E1; destruct (gmem h gs') eqn:E2; try reflexivity.
  - apply gmem_In in E1. apply Hs in E1. apply gmem_In in E1. congruence.
  - apply gmem_In in E2. apply Hs in E2. apply gmem_In in E2. congruence.
Qed.

(* ---------- duplicate merging is a function of the set of proposals per row ---------- *)
Lemma merge_dups_attained props :
  forall h v, In (h, v) (merge_dups props) ->
    exists a a', In (h, a) props /\ In (h, a') props /\ lo v == lo a /\ hi v == hi a'.
Proof.
  unfold merge_dups.
  assert (G : forall (props seen acc : list (gnd * bnd)),
     (forall h v, In (h, v) acc -> exists a a', In (h, a) seen /\ In (h, a') seen /\ lo v == lo a /\ hi v == hi a') ->
     forall h v, In (h, v) (fold_left (fun acc gb => if gmem (fst gb) (map fst acc)
               then map (fun a => if geqb (fst a) (fst gb) then (fst a, merge_bnd (snd a) (snd gb)) else a) acc
               else acc ++ [gb]) props acc) ->
     exists a a', In (h, a) (seen ++ props) /\ In (h, a') (seen ++ props) /\ lo v == lo a /\ hi v == hi a').
  { clear props. induction props as [|gb props IH]; intros seen acc Hacc h v Hin; cbn [fold_left] in Hin.
    - rewrite app_nil_r. apply Hacc; exact Hin.
    - replace (seen ++ gb :: props) with ((seen ++ [gb]) ++ props) by (rewrite <- app_assoc; reflexivity).
      eapply IH; [|exact Hin]. clear Hin h v. intros h v Hin.
      destruct (gmem (fst gb) (map fst acc)).
      + apply in_map_iff in Hin. destruct Hin as [[h0 v0] [E Hin0]]. cbn [fst snd] in E.
        destruct (Hacc h0 v0 Hin0) as (a & a' & A1 & A2 & A3 & A4).
        destruct (geqb h0 (fst gb)) eqn:Eg.
        * inversion E; subst h v. apply geqb_eq in Eg. destruct gb as [hb vb]. cbn [fst snd] in *. subst hb.
          unfold merge_bnd; cbn [lo hi].
          assert (exists x, In (h0, x) (seen ++ [(h0, vb)]) /\ qmax (lo v0) (lo vb) == lo x) as [x [X1 X2]].
          { destruct (qmax_spec (lo v0) (lo vb)) as [[? E1]|[? E1]]; rewrite E1;
              [exists vb; split; [apply in_or_app; right; left; reflexivity | reflexivity] | exists a; split; [apply in_or_app; left; exact A1 | exact A3]]. }
          assert (exists y, In (h0, y) (seen ++ [(h0, vb)]) /\ qmin (hi v0) (hi vb) == hi y) as [y [Y1 Y2]].
          { destruct (qmin_spec (hi v0) (hi vb)) as [[? E1]|[? E1]]; rewrite E1;
              [exists a'; split; [apply in_or_app; left; exact A2 | exact A4] | exists vb; split; [apply in_or_app; right; left; reflexivity | reflexivity]]. }
          exists x, y. repeat split; assumption.
        * inversion E; subst h v. exists a, a'. repeat split; try assumption; apply in_or_app; left; assumption.
      + apply in_app_or in Hin. destruct Hin as [Hin|[E|[]]].
        * destruct (Hacc h v Hin) as (a & a' & A1 & A2 & A3 & A4). exists a, a'. repeat split; try assumption; apply in_or_app; left; assumption.
        * subst gb. exists v, v. repeat split; try reflexivity; apply in_or_app; right; left; reflexivity. }
  intros h v Hin. apply (G props [] [] (fun h v H => match H with end) h v Hin).
Qed.

Theorem merge_order_free p1 p2 : (forall x, In x p1 <-> In x p2) ->
  forall h v1 v2, In (h, v1) (merge_dups p1) -> In (h, v2) (merge_dups p2) -> bnd_eq v1 v2.
Proof.
  intros Hs h v1 v2 H1 H2.
  destruct (merge_dups_spec p1) as (_ & C1 & _). destruct (merge_dups_spec p2) as (_ & C2 & _).
  destruct (merge_dups_spec p1) as (N1 & _ & _). destruct (merge_dups_spec p2) as (N2 & _ & _).
  destruct (merge_dups_attained p1 h v1 H1) as (a1 & a1' & A1 & A1' & E1 & E1').
  destruct (merge_dups_attained p2 h v2 H2) as (a2 & a2' & A2 & A2' & E2 & E2').
  (* every proposal for h is dominated by both merged values (unique keys) *)
  assert (D1 : forall a, In (h, a) p1 -> tighter a v1).
  { intros a Ha. destruct (C1 h a Ha) as [v [Hv Ht]]. assert (v = v1); [|subst; exact Ht].
    clear - N1 Hv H1. unfold keys_of in N1. induction (merge_dups p1) as [|x l IH]; [contradiction|]. cbn [map] in N1. inversion N1 as [|? ? Hx N']; subst.
    destruct Hv as [->|Hv]; destruct H1 as [E|H1].
    - inversion E; reflexivity.
    - exfalso. apply Hx. cbn [fst]. apply in_map_iff. exists (h, v1). split; [reflexivity | exact H1].
    - subst x. exfalso. apply Hx. cbn [fst]. apply in_map_iff. exists (h, v). split; [reflexivity | exact Hv].
    - apply IH; assumption. }
  assert (D2 : forall a, In (h, a) p2 -> tighter a v2).
  { intros a Ha. destruct (C2 h a Ha) as [v [Hv Ht]]. assert (v = v2); [|subst; exact Ht].
    clear - N2 Hv H2. unfold keys_of in N2. induction (merge_dups p2) as [|x l IH]; [contradiction|]. cbn [map] in N2. inversion N2 as [|? ? Hx N']; subst.
    destruct Hv as [->|Hv]; destruct H2 as [E|H2].
    - inversion E; reflexivity.
    - exfalso. apply Hx. cbn [fst]. apply in_map_iff. exists (h, v2). split; [reflexivity | exact H2].
    - subst x. exfalso. apply Hx. cbn [fst]. apply in_map_iff. exists (h, v). split; [reflexivity | exact Hv].
    - apply IH; assumption. }
  destruct (D2 a1 (proj1 (Hs _) A1)) as [L1 _]. destruct (D2 a1' (proj1 (Hs _) A1')) as [_ U1].
  destruct (D1 a2 (proj2 (Hs _) A2)) as [L2 _]. destruct (D1 a2' (proj2 (Hs _) A2')) as [_ U2].
  unfold bnd_eq. split; lra.
Qed.
