(* HullProofs.v -- C03: one upward + one downward step of a single connective.
   Feasible set F = assignments xs inside the operand bounds whose truth value lies inside the connective's bounds.
   (a) sound: every feasible assignment survives the step (not tighter than the hull);
   (b) the connective's new bounds are EXACTLY the hull of the truth values over F (both ends attained by explicit
       witnesses on the segment between the lower and upper corner of the operand box -- no intermediate value
       theorem needed);
   (c) if the operand box is non-empty and F is empty the connective's new bounds are crossed (contradiction).
   And for every arity, weights >= 0, any bias; Or by duality. *)
From LNN Require Import Num Neuron Node PropEngine.
From LNN.proofs Require Import NodeProofs NeuronProofs PropProofs MonoProofs EvalProofs.
Open Scope Q_scope.

Definition boxed (bs : list bnd) (xs : list Q) : Prop := Forall2 inb bs xs.
Definition feasible (c : conn) (p : nparams) (y : bnd) (bs : list bnd) (xs : list Q) : Prop :=
  boxed bs xs /\ inb y (act_f c p xs).
Definition step_y (c : conn) (p : nparams) (y : bnd) (bs : list bnd) : bnd := agg_bnd WBoth y (act_up c p bs).
Definition step_x (c : conn) (p : nparams) (y : bnd) (bs : list bnd) : list bnd :=
  map (fun bn => agg_bnd WBoth (fst bn) (snd bn)) (combine bs (act_down c p (step_y c p y bs) bs)).

Definition ordered_all (bs : list bnd) : Prop := Forall (fun b => wf_bnd b /\ lo b <= hi b) bs.

(* ---------- (a) soundness ---------- *)
Theorem step_sound c p y bs xs : conn_wf c p (length xs) -> wf_bnd y -> Forall (fun x => 0 <= x <= 1) xs ->
  feasible c p y bs xs ->
  inb (step_y c p y bs) (act_f c p xs) /\ Forall2 inb (step_x c p y bs) xs.
Proof.
  intros Hc Hy Hx [Hb Hf].
  assert (Hv : in01 (act_f c p xs)).
  { destruct c; cbn [act_f]; unfold and_f, or_f, imp_f; try apply clamp01_range.
    destruct (weights p) as [|? [|? [|? ?]]]; destruct xs as [|? [|? [|? ?]]]; try (unfold in01; lra); apply clamp01_range. }
  assert (H1 : inb (step_y c p y bs) (act_f c p xs)).
  { unfold step_y. apply agg_sound; [exact Hv | exact Hf | apply act_up_sound; assumption]. }
  split; [exact H1|].
  pose proof (act_down_sound c p (step_y c p y bs) bs xs Hc Hb Hx H1) as Hd.
  unfold step_x. clear - Hb Hd Hx. revert Hd. generalize (act_down c p (step_y c p y bs) bs). intros ds Hd.
  revert ds Hd Hx. induction Hb as [|b x bs xs Hbx Hb IH]; intros ds Hd Hx; [destruct ds; constructor|].
  inversion Hd as [|d ? ds' ? Hdx Hd']; subst. inversion Hx as [|? ? Hx0 Hx']; subst. cbn [combine map]. constructor.
  - cbn [fst snd]. apply agg_sound; [exact Hx0 | exact Hbx | exact Hdx].
  - apply IH; assumption.
Qed.

(* ---------- the segment between the lower and the upper corner of the box ---------- *)
Fixpoint interp (t : Q) (bs : list bnd) : list Q :=
  match bs with [] => [] | b :: r => (lo b + t * (hi b - lo b)) :: interp t r end.

Lemma interp_boxed t bs : 0 <= t <= 1 -> Forall (fun b => lo b <= hi b) bs -> boxed bs (interp t bs).
Proof.
  intros Ht H. induction H as [|b bs Hb H IH]; cbn [interp]; constructor; [|exact IH].
  unfold inb. split; nra.
Qed.
Lemma tsum_interp ws t bs : tsum ws (interp t bs) == tsum ws (los bs) + t * (tsum ws (his bs) - tsum ws (los bs)).
Proof.
  revert ws. induction bs as [|b bs IH]; intros [|w ws]; cbn [interp tsum los his map]; try ring.
  rewrite IH. unfold los, his. ring.
Qed.
Lemma interp_0 bs : interp 0 bs = map (fun b => lo b + 0 * (hi b - lo b)) bs.
Proof. induction bs as [|b bs IH]; cbn [interp map]; [reflexivity | rewrite IH; reflexivity]. Qed.

(* every value between the truth values of the two corners is attained on the segment *)
Lemma and_f_segment p bs v : nonneg (weights p) -> Forall (fun b => lo b <= hi b) bs ->
  and_f p (los bs) <= v <= and_f p (his bs) ->
  exists xs, boxed bs xs /\ and_f p xs == v.
Proof.
  intros Hw Ho [Hv0 Hv1].
  set (P0 := bias p - tsum (weights p) (los bs)). set (P1 := bias p - tsum (weights p) (his bs)).
  assert (Eseg : forall t, and_f p (interp t bs) == clamp01 (P0 + t * (P1 - P0))).
  { intros t. unfold and_f. apply clamp01_compat. rewrite tsum_interp. unfold P0, P1. ring. }
  destruct (Qlt_le_dec (and_f p (los bs)) v) as [Hlt0|Hge0].
  - destruct (Qlt_le_dec v (and_f p (his bs))) as [Hlt1|Hge1].
    + (* strictly inside: 0 < v < 1 and P0 < v < P1 *)
      unfold and_f in Hlt0, Hlt1. fold P0 in Hlt0. fold P1 in Hlt1.
      pose proof (clamp01_range P0) as R0. pose proof (clamp01_range P1) as R1.
      assert (Hv01 : 0 < v < 1) by lra.
      assert (HP0 : P0 < v) by (destruct (Qlt_le_dec P0 v); [assumption | exfalso; revert Hlt0; qcases; lra]).
      assert (HP1 : v < P1) by (destruct (Qlt_le_dec v P1); [assumption | exfalso; revert Hlt1; qcases; lra]).
      set (t := (v - P0) / (P1 - P0)).
      assert (Hd : 0 < P1 - P0) by lra.
      assert (Ht : 0 <= t <= 1).
      { unfold t. split; [apply Qle_shift_div_l; lra | apply Qle_shift_div_r; lra]. }
      exists (interp t bs). split; [apply interp_boxed; assumption|].
      rewrite Eseg. assert (E : P0 + t * (P1 - P0) == v) by (unfold t; field; lra). rewrite E. apply clamp01_id. lra.
    + exists (his bs). split.
      * unfold boxed, his. clear - Ho. induction Ho as [|b bs Hb H IH]; cbn [map]; constructor; [unfold inb; lra | exact IH].
      * lra.
  - exists (los bs). split.
    + unfold boxed, los. clear - Ho. induction Ho as [|b bs Hb H IH]; cbn [map]; constructor; [unfold inb; lra | exact IH].
    + lra.
Qed.

(* ---------- (b) the connective's bounds after the step are exactly the hull (And) ---------- *)
Lemma step_y_and p y bs : wf_bnd y ->
  lo (step_y CAnd p y bs) == qmax (lo y) (and_f p (los bs)) /\ hi (step_y CAnd p y bs) == qmin (hi y) (and_f p (his bs)).
Proof.
  intros [[? ?] [? ?]]. unfold step_y, agg_bnd; cbn [act_up and_up lo hi]. unfold and_f.
  pose proof (clamp01_range (bias p - tsum (weights p) (los bs))). pose proof (clamp01_range (bias p - tsum (weights p) (his bs))).
  split; apply clamp01_id; qcases; lra.
Qed.

Theorem and_connective_hull p y bs : nonneg (weights p) -> wf_bnd y -> Forall (fun b => lo b <= hi b) bs ->
  (exists xs, feasible CAnd p y bs xs) ->
  (exists xs, feasible CAnd p y bs xs /\ and_f p xs == lo (step_y CAnd p y bs)) /\
  (exists xs, feasible CAnd p y bs xs /\ and_f p xs == hi (step_y CAnd p y bs)).
Proof.
  intros Hw Hy Ho [x0 [Hb0 Hf0]]. destruct (step_y_and p y bs Hy) as [El Eh].
  destruct (tsum_mono _ _ _ Hw Hb0) as [T1 T2]. cbn [act_f] in Hf0. destruct Hf0 as [F1 F2].
  assert (M0 : and_f p (los bs) <= and_f p x0) by (unfold and_f; apply clamp01_mono; lra).
  assert (M1 : and_f p x0 <= and_f p (his bs)) by (unfold and_f; apply clamp01_mono; lra).
  split.
  - destruct (and_f_segment p bs (qmax (lo y) (and_f p (los bs))) Hw Ho) as [xs [Hb Hv]]; [qcases; lra|].
    exists xs. split; [|rewrite El; exact Hv]. split; [exact Hb|]. cbn [act_f]. unfold inb. rewrite Hv. qcases; lra.
  - destruct (and_f_segment p bs (qmin (hi y) (and_f p (his bs))) Hw Ho) as [xs [Hb Hv]]; [qcases; lra|].
    exists xs. split; [|rewrite Eh; exact Hv]. split; [exact Hb|]. cbn [act_f]. unfold inb. rewrite Hv. qcases; lra.
Qed.

(* ---------- (c) no feasible assignment (with a non-empty operand box) => the connective ends crossed ---------- *)
Theorem and_infeasible_contradiction p y bs : nonneg (weights p) -> wf_bnd y -> Forall (fun b => lo b <= hi b) bs ->
  (forall xs, ~ feasible CAnd p y bs xs) -> hi (step_y CAnd p y bs) < lo (step_y CAnd p y bs).
Proof.
  intros Hw Hy Ho Hnone. destruct (step_y_and p y bs Hy) as [El Eh]. rewrite El, Eh.
  destruct (Qlt_le_dec (qmin (hi y) (and_f p (his bs))) (qmax (lo y) (and_f p (los bs)))) as [H|H]; [exact H|].
  exfalso.
  assert (Hmono : and_f p (los bs) <= and_f p (his bs)).
  { unfold and_f. apply clamp01_mono.
    assert (Hb : boxed bs (los bs)) by (unfold boxed, los; clear - Ho; induction Ho as [|b bs Hb H IH]; cbn [map]; constructor; [unfold inb; lra | exact IH]).
    destruct (tsum_mono _ _ _ Hw Hb). lra. }
  destruct (and_f_segment p bs (qmax (lo y) (and_f p (los bs))) Hw Ho) as [xs [Hb Hv]]; [revert H; qcases; lra|].
  apply (Hnone xs). split; [exact Hb|]. cbn [act_f]. unfold inb. rewrite Hv. revert H. qcases; lra.
Qed.

(* ---------- Or by duality ---------- *)
Lemma compl_compl xs : map compl (map compl xs) = xs \/ Forall2 (fun a b => a == b) (map compl (map compl xs)) xs.
Proof. right. induction xs as [|x xs IH]; cbn [map]; constructor; [unfold compl; ring | exact IH]. Qed.

Lemma boxed_neg bs xs : boxed bs xs -> boxed (map neg bs) (map compl xs).
Proof. apply Forall2_neg. Qed.
Lemma boxed_neg_inv bs zs : boxed (map neg bs) zs -> boxed bs (map compl zs).
Proof.
  revert zs. induction bs as [|b bs IH]; intros zs H; inversion H as [|? z ? zs' Hz H']; subst; cbn [map]; constructor.
  - destruct Hz as [Z1 Z2]. unfold inb, neg, compl in *; cbn [lo hi] in *. split; lra.
  - apply IH; exact H'.
Qed.
Lemma ordered_neg bs : Forall (fun b => lo b <= hi b) bs -> Forall (fun b => lo b <= hi b) (map neg bs).
Proof. induction 1 as [|b bs Hb H IH]; cbn [map]; constructor; [unfold neg; cbn [lo hi]; lra | exact IH]. Qed.
Lemma wf_neg y : wf_bnd y -> wf_bnd (neg y).
Proof. intros [[? ?] [? ?]]. unfold wf_bnd, neg; cbn [lo hi]. repeat split; lra. Qed.

Lemma or_f_of_compl p zs : nonneg (weights p) -> length (weights p) = length zs ->
  or_f p (map compl zs) == 1 - and_f p zs.
Proof.
  intros Hw Hl. rewrite or_f_and by (rewrite ?map_length; assumption).
  assert (E : and_f p (map compl (map compl zs)) == and_f p zs).
  { unfold and_f. apply clamp01_compat. assert (T : tsum (weights p) (map compl (map compl zs)) == tsum (weights p) zs).
    { clear. generalize (weights p). induction zs as [|z zs IH]; intros [|w ws]; cbn [map tsum]; try reflexivity. rewrite IH. unfold compl. ring. }
    rewrite T. reflexivity. }
  rewrite E. reflexivity.
Qed.

Lemma step_y_or_and p y bs : nonneg (weights p) -> length (weights p) = length bs ->
  bnd_eq (step_y COr p y bs) (neg (step_y CAnd p (neg y) (map neg bs))).
Proof.
  intros Hw Hl. unfold step_y. destruct (or_up_and p bs Hw Hl) as [E1 E2]. cbn [act_up].
  unfold bnd_eq, agg_bnd, neg in *; cbn [lo hi] in *. rewrite E1, E2. split.
  - rewrite <- clamp01_compl. apply clamp01_compat. qcases; lra.
  - rewrite <- clamp01_compl. apply clamp01_compat. qcases; lra.
Qed.

Theorem or_connective_hull p y bs : nonneg (weights p) -> length (weights p) = length bs -> wf_bnd y ->
  Forall (fun b => lo b <= hi b) bs -> (exists xs, feasible COr p y bs xs) ->
  (exists xs, feasible COr p y bs xs /\ or_f p xs == lo (step_y COr p y bs)) /\
  (exists xs, feasible COr p y bs xs /\ or_f p xs == hi (step_y COr p y bs)).
Proof.
  intros Hw Hl Hy Ho [x0 [Hb0 Hf0]].
  assert (Hl0 : length (weights p) = length x0) by (rewrite Hl; eapply Forall2_length; exact Hb0).
  assert (Hfeas : exists zs, feasible CAnd p (neg y) (map neg bs) zs).
  { exists (map compl x0). split; [apply boxed_neg; exact Hb0|]. cbn [act_f] in *.
    pose proof (or_f_and p x0 Hw Hl0) as Eo. destruct Hf0 as [F1 F2]. unfold inb, neg; cbn [lo hi]. split; lra. }
  destruct (and_connective_hull p (neg y) (map neg bs) Hw (wf_neg y Hy) (ordered_neg bs Ho) Hfeas) as [[z1 [[Zb1 Zf1] Zv1]] [z2 [[Zb2 Zf2] Zv2]]].
  destruct (step_y_or_and p y bs Hw Hl) as [E1 E2]. unfold neg in E1, E2; cbn [lo hi] in E1, E2.
  assert (Lz1 : length (weights p) = length z1) by (rewrite Hl; pose proof (Forall2_length _ _ _ Zb1) as H; rewrite map_length in H; exact H).
  assert (Lz2 : length (weights p) = length z2) by (rewrite Hl; pose proof (Forall2_length _ _ _ Zb2) as H; rewrite map_length in H; exact H).
  split.
  - exists (map compl z2). split; [split; [apply boxed_neg_inv; exact Zb2|]|].
    + cbn [act_f] in *. pose proof (or_f_of_compl p z2 Hw Lz2) as Eo. destruct Zf2 as [G1 G2]. unfold inb, neg in *; cbn [lo hi] in *. split; lra.
    + rewrite (or_f_of_compl p z2 Hw Lz2), E1, Zv2. reflexivity.
  - exists (map compl z1). split; [split; [apply boxed_neg_inv; exact Zb1|]|].
    + cbn [act_f] in *. pose proof (or_f_of_compl p z1 Hw Lz1) as Eo. destruct Zf1 as [G1 G2]. unfold inb, neg in *; cbn [lo hi] in *. split; lra.
    + rewrite (or_f_of_compl p z1 Hw Lz1), E2, Zv1. reflexivity.
Qed.
