(* SchedProofs.v -- every public operation sequence is a list of valid primitive steps. *)
From LNN Require Import Num Neuron Node PropEngine.
From LNN.proofs Require Import NodeProofs NeuronProofs PropProofs FixpointProofs.
Open Scope Q_scope.

Definition as_prims (k : kb) (s s' : state) : Prop :=
  exists ps, Forall (valid_prim k) ps /\ s' = fst (run_prims k (s, 0) ps).

Lemma as_prims_refl k s : as_prims k s s.
Proof. exists []. split; [constructor | reflexivity]. Qed.

Lemma run_prims_app k ps qs sa : run_prims k sa (ps ++ qs) = run_prims k (run_prims k sa ps) qs.
Proof. unfold run_prims. apply fold_left_app. Qed.

Lemma as_prims_trans k s t u : as_prims k s t -> as_prims k t u -> as_prims k s u.
Proof.
  intros [ps [Hp ->]] [qs [Hq ->]]. exists (ps ++ qs). split; [apply Forall_app; split; assumption|].
  rewrite run_prims_app. destruct (run_prims k (s, 0) ps) as [t a]. cbn [fst].
  symmetry. apply (run_prims_amount_shift k qs t a).
Qed.

Lemma pass_as_prims k roots d src s : as_prims k s (fst (pass k roots d src s)).
Proof. exists (pass_steps k roots d src). split; [apply pass_steps_valid | reflexivity]. Qed.

Lemma infer_loop_as_prims k roots src : forall fuel dirs query ms s steps total,
  as_prims k s (ir_state (infer_loop fuel k roots dirs src query ms s steps total)).
Proof.
  induction fuel as [|f IH]; intros dirs query ms s steps total; cbn [infer_loop ir_state]; [apply as_prims_refl|].
  destruct (match query with Some (q, conv) => (classically_resolved (s q) && negb conv)%bool | None => false end);
    cbn [ir_state]; [apply as_prims_refl|].
  set (r := match dirs with
            | None => (fst (pass k roots Down src (fst (pass k roots Up src s))),
                       snd (pass k roots Up src s) + snd (pass k roots Down src (fst (pass k roots Up src s))))
            | Some d => pass k roots d src s end).
  assert (Hr : as_prims k s (fst r)).
  { unfold r. destruct dirs as [d|]; cbn [fst]; [apply pass_as_prims|].
    eapply as_prims_trans; apply pass_as_prims. }
  destruct (match dirs with Some _ => true | None => infer_converged (snd r) end); cbn [ir_state]; [exact Hr|].
  destruct ((negb (ms =? 0)%nat && (ms <=? S steps)%nat)%bool); cbn [ir_state]; [exact Hr|].
  eapply as_prims_trans; [exact Hr | apply IH].
Qed.

Lemma exec_op_as_prims k roots s o : as_prims k s (fst (exec_op k roots s o)).
Proof.
  destruct o as [i|i idx|src|src|src ms fuel]; cbn [exec_op fst].
  - exists (node_up k i). split; [apply node_up_valid | reflexivity].
  - exists (node_down k i idx). split; [apply node_down_valid | reflexivity].
  - apply pass_as_prims.
  - apply pass_as_prims.
  - unfold infer. apply infer_loop_as_prims.
Qed.

Lemma exec_ops_as_prims k roots ops : forall s, as_prims k s (exec_ops k roots s ops).
Proof.
  induction ops as [|o ops IH]; intros s; cbn [exec_ops fold_left]; [apply as_prims_refl|].
  eapply as_prims_trans; [apply exec_op_as_prims | apply IH].
Qed.
