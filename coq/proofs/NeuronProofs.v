(* NeuronProofs.v -- soundness and range of the M1 activations (all arities, weights >= 0,
   any bias, alpha <= 1, both variants). *)
From LNN Require Import Num Neuron.
Open Scope Q_scope.

Definition nonneg (ws : list Q) : Prop := Forall (fun w => 0 <= w) ws.
Definition compl (x : Q) : Q := 1 - x.

Lemma negw_zero p : nonneg (weights p) -> negw p == 0.
Proof.
  unfold negw, nonneg. destruct (nvar p); [reflexivity|].
  induction 1 as [|w ws Hw Hws IH]; cbn [map qsum]; [reflexivity|].
  rewrite IH. qcases; lra.
Qed.

(* ---------- monotonicity of the weighted sums ---------- *)
Lemma tsum_mono ws bs xs : nonneg ws -> Forall2 inb bs xs ->
  tsum ws (his bs) <= tsum ws xs /\ tsum ws xs <= tsum ws (los bs).
Proof.
  intros Hw Hin. revert ws Hw.
  induction Hin as [|b x bs xs [Hl Hu] Hin IH]; intros ws Hw; destruct ws as [|w ws]; cbn [tsum his los map]; try lra.
  inversion Hw as [|w0 ws0 Hw0 Hws]; subst. destruct (IH ws Hws). unfold his, los in *. split; nra.
Qed.

Lemma dot_tsum ws xs : length ws = length xs -> dot ws xs == qsum ws - tsum ws xs.
Proof.
  revert xs; induction ws as [|w ws IH]; intros [|x xs] H; cbn [dot tsum qsum length] in *; try lra; try discriminate.
  rewrite IH by lia. lra.
Qed.

Lemma tsum_compl ws xs : length ws = length xs -> tsum ws (map compl xs) == dot ws xs.
Proof.
  revert xs; induction ws as [|w ws IH]; intros [|x xs] H; cbn [dot tsum map length] in *; try lra; try discriminate.
  rewrite IH by lia. unfold compl. lra.
Qed.

(* partial sums: leaving operand k out *)
Lemma tsum_partial ws bs xs k : nonneg ws -> Forall2 inb bs xs -> length ws = length xs -> (k < length xs)%nat ->
  tsum ws (his bs) - nth k ws 0 * (1 - hi (nth k bs unknown)) <= tsum ws xs - nth k ws 0 * (1 - nth k xs 0) /\
  tsum ws xs - nth k ws 0 * (1 - nth k xs 0) <= tsum ws (los bs) - nth k ws 0 * (1 - lo (nth k bs unknown)).
Proof.
  intros Hw Hin. revert ws k Hw.
  induction Hin as [|b x bs xs [Hl Hu] Hin IH]; intros ws k Hw Hlen Hk; cbn [length] in *; [lia|].
  destruct ws as [|w ws]; cbn [length] in *; [discriminate|].
  inversion Hw as [|w0 ws0 Hw0 Hws]; subst.
  destruct k as [|k]; cbn [nth tsum his los map].
  - destruct (tsum_mono ws bs xs Hws Hin). unfold his, los in *. split; lra.
  - destruct (IH ws k Hws ltac:(lia) ltac:(lia)). unfold his, los in *. split; nra.
Qed.

(* ---------- upward ---------- *)
Lemma and_up_sound p bs xs : nonneg (weights p) -> Forall2 inb bs xs ->
  inb (and_up p bs) (and_f p xs).
Proof.
  intros Hw Hin. destruct (tsum_mono _ _ _ Hw Hin).
  unfold inb, and_up, and_f; cbn [lo hi]. split; apply clamp01_mono; lra.
Qed.

Lemma Forall2_neg bs xs : Forall2 inb bs xs -> Forall2 inb (map neg bs) (map compl xs).
Proof.
  induction 1 as [|b x bs xs [Hl Hu] H IH]; cbn [map]; constructor; auto.
  unfold inb, neg, compl; cbn [lo hi]. split; lra.
Qed.

Lemma Forall2_length {A B} (R : A -> B -> Prop) l1 l2 : Forall2 R l1 l2 -> length l1 = length l2.
Proof. induction 1; cbn; auto. Qed.

Lemma or_f_and p xs : nonneg (weights p) -> length (weights p) = length xs ->
  or_f p xs == 1 - and_f p (map compl xs).
Proof.
  intros Hw Hl. unfold or_f, and_f. rewrite (negw_zero p Hw), tsum_compl by exact Hl.
  rewrite <- clamp01_compl. apply clamp01_compat. lra.
Qed.

Lemma or_up_and p bs : nonneg (weights p) -> length (weights p) = length bs ->
  bnd_eq (or_up p bs) (neg (and_up p (map neg bs))).
Proof.
  intros Hw Hl. unfold bnd_eq, or_up, and_up, neg; cbn [lo hi].
  rewrite (negw_zero p Hw).
  assert (E1 : tsum (weights p) (his (map neg bs)) == dot (weights p) (los bs)).
  { unfold his, los. rewrite map_map. cbn [neg hi].
    rewrite <- (tsum_compl (weights p) (map lo bs)) by (rewrite map_length; exact Hl).
    rewrite map_map. reflexivity. }
  assert (E2 : tsum (weights p) (los (map neg bs)) == dot (weights p) (his bs)).
  { unfold his, los. rewrite map_map. cbn [neg lo].
    rewrite <- (tsum_compl (weights p) (map hi bs)) by (rewrite map_length; exact Hl).
    rewrite map_map. reflexivity. }
  rewrite E1, E2. rewrite <- !clamp01_compl. split; apply clamp01_compat; lra.
Qed.

Lemma or_up_sound p bs xs : nonneg (weights p) -> length (weights p) = length xs -> Forall2 inb bs xs ->
  inb (or_up p bs) (or_f p xs).
Proof.
  intros Hw Hl Hin.
  pose proof (Forall2_length _ _ _ Hin) as Hl2.
  destruct (or_up_and p bs Hw ltac:(congruence)) as [E1 E2].
  pose proof (and_up_sound p _ _ Hw (Forall2_neg _ _ Hin)) as [H1 H2].
  pose proof (or_f_and p xs Hw Hl) as Ef. unfold inb in *. unfold neg in *; cbn [lo hi] in *. split; lra.
Qed.

Lemma imp_up_sound p b0 b1 x0 x1 w0 w1 : weights p = [w0; w1] -> 0 <= w0 -> 0 <= w1 ->
  inb b0 x0 -> inb b1 x1 -> inb (imp_up p [b0; b1]) (imp_f p [x0; x1]).
Proof.
  intros E Hw0 Hw1 [? ?] [? ?]. unfold inb, imp_up, imp_f. rewrite E. cbn [lo hi].
  split; apply clamp01_mono; nra.
Qed.

(* ---------- downward ---------- *)
Lemma and_down_one_sound al b W Tl Tu L U w bx x Px y :
  al <= 1 -> 0 <= w ->
  L <= y -> y <= U -> y == clamp01 (b - (Px + w * (1 - x))) ->
  Tu - w * (1 - hi bx) <= Px -> Px <= Tl - w * (1 - lo bx) ->
  0 <= x <= 1 -> inb bx x ->
  inb (and_down_one al b W Tl Tu L U w bx) x.
Proof.
  intros Hal Hw HL HU Ey HPu HPl Hx [Hbl Hbu].
  unfold and_down_one, inb.
  destruct (qeqb w 0) eqn:Ew; [cbn [unknown lo hi]; lra|]. apply qeqb_false in Ew.
  assert (Hwpos : 0 < w) by (destruct (Qlt_le_dec 0 w); [assumption | exfalso; apply Ew; lra]).
  cbn [lo hi]. split.
  - destruct (qltb (1 - al) L) eqn:Eg; [apply qltb_true in Eg | lra].
    assert (HLpos : 0 < L) by lra.
    destruct (qleb L 0) eqn:E0; [apply qleb_true in E0; lra|].
    assert (Hy : L <= b - (Px + w * (1 - x))) by (apply clamp01_ge; [exact HLpos | rewrite <- Ey; exact HL]).
    assert (Hdiv : (L - b + (Tu - w * (1 - hi bx))) / w <= x - 1).
    { apply Qle_shift_div_r; [exact Hwpos | nra]. }
    qcases; lra.
  - destruct (qltb U al) eqn:Eg; [apply qltb_true in Eg | lra].
    assert (HU1 : U < 1) by lra.
    destruct (qleb 1 U) eqn:E1; [apply qleb_true in E1; lra|].
    assert (Hy : b - (Px + w * (1 - x)) <= U) by (apply clamp01_le; [exact HU1 | rewrite <- Ey; exact HU]).
    assert (Hdiv : x - 1 <= (U - b + (Tl - w * (1 - lo bx))) / w).
    { apply Qle_shift_div_l; [exact Hwpos | nra]. }
    qcases; lra.
Qed.

Lemma nth_and_down p y bs k : (k < length bs)%nat -> length (weights p) = length bs ->
  nth k (and_down p y bs) unknown =
  and_down_one (alpha p) (bias p) (qsum (weights p)) (tsum (weights p) (los bs)) (tsum (weights p) (his bs))
               (lo y) (hi y) (nth k (weights p) 0) (nth k bs unknown).
Proof.
  intros Hk Hl. unfold and_down.
  set (f := fun wx : Q * bnd => and_down_one _ _ _ _ _ _ _ (fst wx) (snd wx)).
  assert (Hd : unknown = f (0, unknown)).
  { unfold f, and_down_one; cbn [fst snd]. replace (qeqb 0 0) with true; [reflexivity|].
    symmetry; apply qeqb_true; reflexivity. }
  rewrite Hd at 1. rewrite map_nth. rewrite combine_nth by exact Hl. reflexivity.
Qed.

Lemma and_down_length p y bs : length (weights p) = length bs -> length (and_down p y bs) = length bs.
Proof. intros H. unfold and_down. rewrite map_length, combine_length. lia. Qed.

Lemma and_down_sound p y bs xs k :
  alpha p <= 1 -> nonneg (weights p) -> length (weights p) = length xs ->
  Forall2 inb bs xs -> Forall (fun x => 0 <= x <= 1) xs ->
  inb y (and_f p xs) -> (k < length xs)%nat ->
  inb (nth k (and_down p y bs) unknown) (nth k xs 0).
Proof.
  intros Hal Hw Hl Hin Hxs [HL HU] Hk.
  pose proof (Forall2_length _ _ _ Hin) as Hl2.
  rewrite nth_and_down by congruence.
  destruct (tsum_partial _ _ _ k Hw Hin Hl Hk) as [HPu HPl].
  apply and_down_one_sound with (Px := tsum (weights p) xs - nth k (weights p) 0 * (1 - nth k xs 0)) (y := and_f p xs); auto.
  - apply (proj1 (Forall_forall _ _) Hw). apply nth_In. lia.
  - unfold and_f. apply clamp01_compat. lra.
  - apply (proj1 (Forall_forall _ _) Hxs). apply nth_In. lia.
  - clear - Hin Hk. revert k Hk. induction Hin as [|b x bs xs H Hin IH]; intros k Hk; cbn [length] in *; [lia|].
    destruct k; cbn [nth]; [exact H | apply IH; lia].
Qed.

Lemma nth_map_neg k l : nth k (map neg l) unknown = neg (nth k l unknown) \/ (length l <= k)%nat.
Proof.
  destruct (Nat.lt_ge_cases k (length l)) as [H|H]; [left | right; exact H].
  rewrite (nth_indep _ unknown (neg unknown)) by (rewrite map_length; exact H). apply map_nth.
Qed.

Lemma or_down_sound p y bs xs k :
  alpha p <= 1 -> nonneg (weights p) -> length (weights p) = length xs ->
  Forall2 inb bs xs -> Forall (fun x => 0 <= x <= 1) xs ->
  inb y (or_f p xs) -> (k < length xs)%nat ->
  inb (nth k (or_down p y bs) unknown) (nth k xs 0).
Proof.
  intros Hal Hw Hl Hin Hxs Hy Hk.
  pose proof (Forall2_length _ _ _ Hin) as Hl2.
  unfold or_down.
  assert (Hlen : length (and_down p (neg y) (map neg bs)) = length bs).
  { rewrite and_down_length; rewrite map_length; congruence. }
  destruct (nth_map_neg k (and_down p (neg y) (map neg bs))) as [E|E]; [rewrite E | lia].
  assert (Hs : inb (nth k (and_down p (neg y) (map neg bs)) unknown) (nth k (map compl xs) 0)).
  { apply and_down_sound; auto.
    - rewrite map_length; exact Hl.
    - apply Forall2_neg; exact Hin.
    - apply Forall_forall. intros z Hz. apply in_map_iff in Hz. destruct Hz as [x [<- Hx]].
      pose proof (proj1 (Forall_forall _ _) Hxs x Hx) as Hz'. cbv beta in Hz'. unfold compl. lra.
    - pose proof (or_f_and p xs Hw Hl) as Ef. destruct Hy. unfold inb, neg; cbn [lo hi]. split; lra.
    - rewrite map_length; exact Hk. }
  assert (Ex : nth k (map compl xs) 0 == 1 - nth k xs 0).
  { rewrite (nth_indep _ 0 (compl 0)) by (rewrite map_length; exact Hk). rewrite map_nth. reflexivity. }
  destruct Hs as [H1 H2]. rewrite Ex in H1, H2. unfold inb, neg in *; cbn [lo hi] in *. split; lra.
Qed.

Lemma imp_f_and p x0 x1 w0 w1 : weights p = [w0; w1] ->
  imp_f p [x0; x1] == 1 - and_f p [x0; compl x1].
Proof.
  intros E. unfold imp_f, and_f. rewrite E. cbn [tsum]. rewrite <- clamp01_compl.
  apply clamp01_compat. unfold compl. lra.
Qed.

Lemma imp_down_sound p y b0 b1 x0 x1 w0 w1 :
  alpha p <= 1 -> weights p = [w0; w1] -> 0 <= w0 -> 0 <= w1 ->
  inb b0 x0 -> inb b1 x1 -> 0 <= x0 <= 1 -> 0 <= x1 <= 1 ->
  inb y (imp_f p [x0; x1]) ->
  Forall2 inb (imp_down p y [b0; b1]) [x0; x1].
Proof.
  intros Hal E Hw0 Hw1 H0 H1 Hx0 Hx1 Hy.
  assert (Hw : nonneg (weights p)) by (rewrite E; repeat constructor; assumption).
  assert (Hl : length (weights p) = length [x0; compl x1]) by (rewrite E; reflexivity).
  assert (Hin : Forall2 inb [b0; neg b1] [x0; compl x1]).
  { constructor; [exact H0|]. constructor; [|constructor].
    destruct H1. unfold inb, neg, compl; cbn [lo hi]. split; lra. }
  assert (Hxs : Forall (fun x => 0 <= x <= 1) [x0; compl x1]).
  { repeat constructor; unfold compl; lra. }
  assert (Hy' : inb (neg y) (and_f p [x0; compl x1])).
  { pose proof (imp_f_and p x0 x1 w0 w1 E) as Ef. destruct Hy. unfold inb, neg; cbn [lo hi]. split; lra. }
  pose proof (and_down_sound p (neg y) _ _ 0%nat Hal Hw Hl Hin Hxs Hy' ltac:(cbn; lia)) as S0.
  pose proof (and_down_sound p (neg y) _ _ 1%nat Hal Hw Hl Hin Hxs Hy' ltac:(cbn; lia)) as S1.
  unfold imp_down.
  pose proof (and_down_length p (neg y) [b0; neg b1] ltac:(rewrite E; reflexivity)) as Hlen.
  destruct (and_down p (neg y) [b0; neg b1]) as [|r0 [|r1 [|? ?]]]; cbn [length] in Hlen; try discriminate.
  cbn [nth] in S0, S1. constructor; [exact S0|]. constructor; [|constructor].
  destruct S1 as [A1 A2]. unfold inb, neg, compl in *; cbn [lo hi]. split; lra.
Qed.

(* ---------- ranges ---------- *)
Lemma and_down_one_range al b W Tl Tu L U w bx : wf_bnd (and_down_one al b W Tl Tu L U w bx).
Proof.
  unfold and_down_one, wf_bnd. destruct (qeqb w 0); cbn [unknown lo hi]; [lra|].
  destruct (qltb (1 - al) L); destruct (qltb U al);
  repeat match goal with |- context [clamp01 ?x] => pose proof (clamp01_range x); generalize dependent (clamp01 x); intros end; lra.
Qed.

Lemma act_up_range c p bs : wf_bnd (act_up c p bs).
Proof.
  destruct c; cbn [act_up]; unfold and_up, or_up, imp_up, wf_bnd.
  - cbn [lo hi]. split; apply clamp01_range.
  - cbn [lo hi]. split; apply clamp01_range.
  - destruct (weights p) as [|w0 [|w1 [|? ?]]]; try (cbn [unknown lo hi]; lra);
    destruct bs as [|x0 [|x1 [|? ?]]]; try (cbn [unknown lo hi]; lra).
    cbn [lo hi]. split; apply clamp01_range.
Qed.
