(* FolSoundProofs.v -- C02: first-order inference is sound for every ground interpretation.
   A GROUND INTERPRETATION gives a truth value to every formula object at every grounding of its
   variables, consistently with the weighted Lukasiewicz truth functions of the ground instances
   (operand groundings are the projections of the operator grounding).  If every reading of the
   initial tables (a grounding without a row reads as its world default) contains the interpretation,
   so does every reading after any inference: no bound is ever tighter than the ground theory justifies,
   facts cannot leak between groundings, consistent data is never driven to a contradiction. *)
From LNN Require Import Num Neuron Node PropEngine Fol.
From LNN.proofs Require Import NodeProofs NeuronProofs PropProofs MonoProofs FolProofs StoreProofs.
Open Scope Q_scope.

Definition ginterp := nat -> gnd -> Q.
Definition gvals (k : fkb) (v : ginterp) (i : nat) (g : gnd) : list Q :=
  map (fun jm => v (fst jm) (project (snd jm) g)) (combine (fops (getf k i)) (fmaps (getf k i))).
Definition gconsistent (k : fkb) (v : ginterp) : Prop :=
  (forall i g, 0 <= v i g <= 1) /\
  forall i g, (i < length k)%nat ->
    match fkd (getf k i) with
    | FPred => True
    | FNot => match fops (getf k i) with j :: _ => v i g == 1 - v j g | [] => True end
    | FConn c => v i g == act_f c (fpar (getf k i)) (gvals k v i g)
    end.
Definition FSound (s : fstate) (v : ginterp) : Prop := forall i g, inb (fget s i g) (v i g).

(* structural well-formedness used by the proofs (implied by the executable wf_fkbb) *)
Definition wf_fobj (k : fkb) (i : nat) : Prop :=
  let o := getf k i in
  length (fmaps o) = length (fops o) /\
  match fkd o with
  | FPred => True
  | FNot => exists j, fops o = [j] /\ fmaps o = [identity_map (fnv o)]
  | FConn c => conn_wf c (fpar o) (length (fops o))
  end.
Definition wf_fkb (k : fkb) : Prop := forall i, (i < length k)%nat -> wf_fobj k i.

Lemma FSound_fextend s v i gs : FSound s v -> FSound (fextend s i gs) v.
Proof. intros H j g. rewrite fget_fextend. apply H. Qed.

Lemma FSound_raw_set s v i g b : FSound s v -> inb b (v i g) -> FSound (raw_set s i g b) v.
Proof.
  intros H Hb j h. rewrite fget_raw_set. destruct (Nat.eqb_spec j i) as [->|]; cbn [andb]; [|apply H].
  destruct (geqb h g) eqn:E; cbn [andb]; [|apply H]. apply geqb_eq in E. subst h.
  destruct (tmem (ftab s i) g); [exact Hb | apply H].
Qed.

Lemma inb_bred b x : inb b x -> inb (bred b) x.
Proof. unfold inb. rewrite lo_bred, hi_bred. tauto. Qed.

Lemma f_write_sound sa i g new v : (forall i g, 0 <= v i g <= 1) -> FSound (fst sa) v -> inb new (v i g) ->
  FSound (fst (f_write sa i g new)) v.
Proof.
  intros Hv HS Hn. unfold f_write. cbn [fst]. change (set_tab (fst sa) i (tset_cur (ftab (fst sa) i) g ?b)) with (raw_set (fst sa) i g b).
  apply FSound_raw_set; [exact HS|]. apply inb_bred. cbn [aggregate fst]. apply agg_sound; [apply Hv | apply HS | exact Hn].
Qed.

(* proposals that all contain the interpretation stay so after duplicate merging *)
Definition prop_sound (v : ginterp) (j : nat) (gb : gnd * bnd) : Prop := inb (snd gb) (v j (fst gb)).
Lemma merge_sound a b x : inb a x -> inb b x -> inb (merge_bnd a b) x.
Proof. intros [? ?] [? ?]. unfold inb, merge_bnd; cbn [lo hi]. split; qcases; lra. Qed.
Lemma merge_dups_sound v j props : Forall (prop_sound v j) props -> Forall (prop_sound v j) (merge_dups props).
Proof.
  unfold merge_dups. intros H.
  assert (G : forall acc, Forall (prop_sound v j) acc -> Forall (prop_sound v j)
            (fold_left (fun acc gb => if gmem (fst gb) (map fst acc)
               then map (fun a => if geqb (fst a) (fst gb) then (fst a, merge_bnd (snd a) (snd gb)) else a) acc
               else acc ++ [gb]) props acc)).
  { induction H as [|gb props Hgb H IH]; intros acc Hacc; cbn [fold_left]; [exact Hacc|]. apply IH.
    destruct (gmem (fst gb) (map fst acc)).
    - apply Forall_forall. intros x Hx. apply in_map_iff in Hx. destruct Hx as [a [<- Ha]].
      pose proof (proj1 (Forall_forall _ _) Hacc a Ha) as A1.
      destruct (geqb (fst a) (fst gb)) eqn:E; [|exact A1]. apply geqb_eq in E. unfold prop_sound in *; cbn [fst snd].
      apply merge_sound; [exact A1 | rewrite E; exact Hgb].
    - apply Forall_app. split; [exact Hacc | constructor; [exact Hgb | constructor]]. }
  apply G. constructor.
Qed.

Lemma f_write_many_sound s a j props v : (forall i g, 0 <= v i g <= 1) -> FSound s v -> Forall (prop_sound v j) props ->
  FSound (fst (f_write_many (s, a) j props)) v.
Proof.
  intros Hv HS Hp. unfold f_write_many. cbn [fst snd].
  set (agg := map (fun gb => (fst gb, agg_bnd WBoth (fget s j (fst gb)) (snd gb))) props).
  assert (Hagg : Forall (prop_sound v j) agg).
  { apply Forall_forall. intros x Hx. apply in_map_iff in Hx. destruct Hx as [gb [<- Hin]]. unfold prop_sound; cbn [fst snd].
    apply agg_sound; [apply Hv | apply HS | exact (proj1 (Forall_forall _ _) Hp gb Hin)]. }
  pose proof (merge_dups_sound v j agg Hagg) as Hm.
  assert (G : forall l, Forall (prop_sound v j) l -> forall sa, FSound (fst sa) v ->
            FSound (fst (fold_left (fun sa' gb => (set_tab (fst sa') j (tset_cur (ftab (fst sa') j) (fst gb) (bred (snd gb))),
                                                   Qred (snd sa' + moved (fget s j (fst gb)) (snd gb)))) l sa)) v).
  { induction 1 as [|gb l Hgb Hl IH]; intros sa Hsa; cbn [fold_left]; [exact Hsa|]. apply IH. cbn [fst].
    change (set_tab (fst sa) j (tset_cur (ftab (fst sa) j) (fst gb) (bred (snd gb)))) with (raw_set (fst sa) j (fst gb) (bred (snd gb))).
    apply FSound_raw_set; [exact Hsa | apply inb_bred; exact Hgb]. }
  apply G; [exact Hm | exact HS].
Qed.

Section Sound.
Variable k : fkb.
Hypothesis Hwf : wf_fkb k.
Variable v : ginterp.
Hypothesis Hc : gconsistent k v.

Lemma fold_fextend_sound (f : nat -> list gnd) js : forall s, FSound s v -> FSound (fold_left (fun st j => fextend st j (f j)) js s) v.
Proof. induction js as [|j js IH]; intros s HS; cbn [fold_left]; [exact HS | apply IH; apply FSound_fextend; exact HS]. Qed.
Lemma fold_fextend_sound2 (f : nat * list nat -> list gnd) jms : forall s, FSound s v ->
  FSound (fold_left (fun st jm => fextend st (fst jm) (f jm)) jms s) v.
Proof. induction jms as [|j js IH]; intros s HS; cbn [fold_left]; [exact HS | apply IH; apply FSound_fextend; exact HS]. Qed.

Lemma oper_groundings_sound s i d gs s1 : FSound s v -> oper_groundings k s i d = Some (gs, s1) -> FSound s1 v.
Proof.
  intros HS H. unfold oper_groundings in H. destruct (is_homog (getf k i)).
  - destruct (gdedup _) as [|g0 gl] eqn:EG; [discriminate|]. inversion H; subst. clear H.
    apply FSound_fextend. apply (fold_fextend_sound (fun _ => g0 :: gl)). exact HS.
  - destruct (map _ (combine (fops (getf k i)) (fmaps (getf k i)))) as [|d0 rest] eqn:Ed; [discriminate|].
    destruct (op_groundings (fold_left foj rest d0)) as [|g0 gl] eqn:Eo; [discriminate|]. inversion H; subst. clear H.
    apply FSound_fextend. apply (fold_fextend_sound2 (fun jm => map (project (snd jm)) (g0 :: gl))). exact HS.
Qed.

Lemma inputs_sound s i g : FSound s v -> Forall2 inb (op_inputs k s i g) (gvals k v i g).
Proof.
  intros HS. unfold op_inputs, gvals. generalize (combine (fops (getf k i)) (fmaps (getf k i))). intros l.
  induction l as [|jm l IH]; cbn [map]; constructor; [apply HS | exact IH].
Qed.
Lemma gvals_length i g : (i < length k)%nat -> length (gvals k v i g) = length (fops (getf k i)).
Proof.
  intros Hi. unfold gvals. rewrite map_length, combine_length. destruct (Hwf i Hi) as [Hl _]. rewrite Hl. apply Nat.min_id.
Qed.
Lemma gvals_range i g : Forall (fun x => 0 <= x <= 1) (gvals k v i g).
Proof. unfold gvals. apply Forall_forall. intros x Hx. apply in_map_iff in Hx. destruct Hx as [jm [<- _]]. apply (proj1 Hc). Qed.

Lemma conn_facts i c : (i < length k)%nat -> fkd (getf k i) = FConn c ->
  conn_wf c (fpar (getf k i)) (length (fops (getf k i))) /\ forall g, v i g == act_f c (fpar (getf k i)) (gvals k v i g).
Proof.
  intros Hi E. destruct (Hwf i Hi) as [_ H]. rewrite E in H. split; [exact H|].
  intros g. pose proof (proj2 Hc i g Hi) as H2. rewrite E in H2. exact H2.
Qed.

Lemma inb_neg b x : inb b x -> inb (neg b) (1 - x).
Proof. intros [? ?]. unfold inb, neg; cbn [lo hi]. split; lra. Qed.

Lemma f_conn_up_sound s i c : (i < length k)%nat -> fkd (getf k i) = FConn c -> FSound s v -> FSound (fst (f_conn_up k s i)) v.
Proof.
  intros Hi Ek HS. unfold f_conn_up. destruct (oper_groundings k s i DUp) as [[gs s1]|] eqn:E; [|exact HS].
  pose proof (oper_groundings_sound s i DUp gs s1 HS E) as HS1.
  destruct (conn_facts i c Hi Ek) as [Hcw Hval]. unfold fconn. rewrite Ek.
  match goal with |- FSound (fst (fold_left _ (map _ ?keep) _)) v => generalize keep end. intros keep.
  assert (G : forall l sa, FSound (fst sa) v -> (forall gn, In gn l -> inb (snd gn) (v i (fst gn))) ->
            FSound (fst (fold_left (fun sa gn => f_write sa i (fst gn) (snd gn)) l sa)) v).
  { induction l as [|gn l IH]; intros sa Hsa Hl; cbn [fold_left]; [exact Hsa|].
    apply IH; [apply f_write_sound; [apply (proj1 Hc) | exact Hsa | apply Hl; left; reflexivity] | intros; apply Hl; right; assumption]. }
  apply G; [exact HS1|]. intros gn Hin. apply in_map_iff in Hin. destruct Hin as [g [<- _]]. cbn [fst snd].
  apply (inb_eq _ _ _ (Qeq_sym _ _ (Hval g))). apply act_up_sound; [rewrite gvals_length by exact Hi; exact Hcw | apply inputs_sound; exact HS1].
Qed.

Lemma f_conn_down_sound s i c idx : (i < length k)%nat -> fkd (getf k i) = FConn c -> FSound s v -> FSound (fst (f_conn_down k s i idx)) v.
Proof.
  intros Hi Ek HS. unfold f_conn_down. destruct (oper_groundings k s i DDown) as [[gs s1]|] eqn:E; [|exact HS].
  pose proof (oper_groundings_sound s i DDown gs s1 HS E) as HS1.
  destruct (conn_facts i c Hi Ek) as [Hcw Hval]. unfold fconn. rewrite Ek.
  match goal with |- FSound (fst (fold_left _ _ _)) v => idtac end.
  set (keep := filter (fun g => negb (inputs_contra (falpha (getf k i)) (op_inputs k s1 i g) || is_contra (falpha (getf k i)) (fget s1 i g))) gs).
  set (news := map (fun g => (g, act_down c (fpar (getf k i)) (fget s1 i g) (op_inputs k s1 i g))) keep).
  assert (Hnews : forall gn, In gn news -> Forall2 inb (snd gn) (gvals k v i (fst gn))).
  { intros gn Hin. apply in_map_iff in Hin. destruct Hin as [g [<- _]]. cbn [fst snd].
    apply act_down_sound; [rewrite gvals_length by exact Hi; exact Hcw | apply inputs_sound; exact HS1 | apply gvals_range|].
    apply (inb_eq _ _ _ (Hval g)). apply HS1. }
  assert (G : forall tg sa, FSound (fst sa) v ->
            (forall t, In t tg -> nth_error (combine (fops (getf k i)) (fmaps (getf k i))) (fst t) = Some (snd t)) ->
            FSound (fst (fold_left (fun sa pjm => f_write_many sa (fst (snd pjm))
                (map (fun gn => (project (snd (snd pjm)) (fst gn), nth (fst pjm) (snd gn) unknown)) news)) tg sa)) v).
  { induction tg as [|t tg IH]; intros sa Hsa Ht; cbn [fold_left]; [exact Hsa|].
    apply IH; [|intros; apply Ht; right; assumption]. destruct sa as [s' a']. cbn [fst] in *.
    apply f_write_many_sound; [apply (proj1 Hc) | exact Hsa|].
    apply Forall_forall. intros x Hx. apply in_map_iff in Hx. destruct Hx as [gn [<- Hgn]]. unfold prop_sound; cbn [fst snd].
    pose proof (Hnews gn Hgn) as HF. pose proof (Ht t (or_introl eq_refl)) as Hnth.
    assert (Hv : nth_error (gvals k v i (fst gn)) (fst t) = Some (v (fst (snd t)) (project (snd (snd t)) (fst gn)))).
    { unfold gvals. rewrite nth_error_map, Hnth. reflexivity. }
    pose proof (Forall2_length _ _ _ HF) as Hlen.
    destruct (nth_error (snd gn) (fst t)) as [b|] eqn:Eb.
    - rewrite (nth_error_nth _ _ unknown Eb). exact (Forall2_nth_error inb _ _ _ _ _ HF Eb Hv).
    - exfalso. apply nth_error_None in Eb. assert (fst t < length (gvals k v i (fst gn)))%nat by (apply nth_error_Some; congruence). lia. }
  apply (G _ (s1, 0)); [exact HS1|]. intros t Ht. apply in_select in Ht. exact Ht.
Qed.

Lemma not_facts i : (i < length k)%nat -> fkd (getf k i) = FNot -> exists j, fops (getf k i) = [j] /\ forall g, v i g == 1 - v j g.
Proof.
  intros Hi E. destruct (Hwf i Hi) as [_ H]. rewrite E in H. destruct H as [j [Ho _]]. exists j. split; [exact Ho|].
  intros g. pose proof (proj2 Hc i g Hi) as H2. rewrite E, Ho in H2. exact H2.
Qed.

Lemma f_not_up_sound s i : (i < length k)%nat -> fkd (getf k i) = FNot -> FSound s v -> FSound (fst (f_not_up k s i)) v.
Proof.
  intros Hi Ek HS. destruct (not_facts i Hi Ek) as [j [Ho Hval]]. unfold f_not_up. rewrite Ho.
  apply f_write_many_sound; [apply (proj1 Hc) | apply FSound_fextend; exact HS|].
  apply Forall_forall. intros x Hx. apply in_map_iff in Hx. destruct Hx as [g [<- _]]. unfold prop_sound; cbn [fst snd].
  apply (inb_eq _ _ _ (Qeq_sym _ _ (Hval g))). apply inb_neg. rewrite fget_fextend. apply HS.
Qed.
Lemma f_not_down_sound s i : (i < length k)%nat -> fkd (getf k i) = FNot -> FSound s v -> FSound (fst (f_not_down k s i)) v.
Proof.
  intros Hi Ek HS. destruct (not_facts i Hi Ek) as [j [Ho Hval]]. unfold f_not_down. rewrite Ho.
  apply f_write_many_sound; [apply (proj1 Hc) | apply FSound_fextend; exact HS|].
  apply Forall_forall. intros x Hx. apply in_map_iff in Hx. destruct Hx as [g [<- _]]. unfold prop_sound; cbn [fst snd].
  assert (E : v j g == 1 - v i g) by (rewrite (Hval g); ring).
  apply (inb_eq _ _ _ (Qeq_sym _ _ E)). apply inb_neg. rewrite fget_fextend. apply HS.
Qed.

Lemma getf_lt i : fkd (getf k i) <> FPred -> (i < length k)%nat.
Proof.
  intros H. destruct (Nat.lt_ge_cases i (length k)) as [Hl|Hg]; [exact Hl|].
  exfalso. apply H. unfold getf. rewrite nth_overflow by exact Hg. reflexivity.
Qed.

Lemma f_node_up_sound s i : FSound s v -> FSound (fst (f_node_up k s i)) v.
Proof.
  intros HS. unfold f_node_up. destruct (fkd (getf k i)) as [| |c] eqn:E; [exact HS | |].
  - apply f_not_up_sound; [apply getf_lt; rewrite E; discriminate | exact E | exact HS].
  - eapply f_conn_up_sound; [apply getf_lt; rewrite E; discriminate | exact E | exact HS].
Qed.
Lemma f_node_down_sound s i idx : FSound s v -> FSound (fst (f_node_down k s i idx)) v.
Proof.
  intros HS. unfold f_node_down. destruct (fkd (getf k i)) as [| |c] eqn:E; [exact HS | |].
  - apply f_not_down_sound; [apply getf_lt; rewrite E; discriminate | exact E | exact HS].
  - eapply f_conn_down_sound; [apply getf_lt; rewrite E; discriminate | exact E | exact HS].
Qed.

Lemma f_pass_sound roots d src s : FSound s v -> FSound (fst (f_pass k roots d src s)) v.
Proof.
  intros HS. unfold f_pass. generalize (f_traversal k roots d src). intros l.
  assert (G : forall l sa, FSound (fst sa) v -> FSound (fst (fold_left (fun sa i =>
               let r := match d with Up => f_node_up k (fst sa) i | Down => f_node_down k (fst sa) i None end in
               (fst r, Qred (snd sa + snd r))) l sa)) v).
  { clear l. induction l as [|i l IH]; intros sa Hsa; cbn [fold_left]; [exact Hsa|].
    cbn zeta. apply IH. cbn [fst]. destruct d; [apply f_node_up_sound | apply f_node_down_sound]; exact Hsa. }
  apply (G l (s, 0)). exact HS.
Qed.

Lemma f_infer_loop_sound roots src : forall fuel dirs ms s steps total, FSound s v ->
  FSound (fir_state (f_infer_loop fuel k roots dirs src ms s steps total)) v.
Proof.
  induction fuel as [|f IH]; intros dirs ms s steps total HS; cbn [f_infer_loop]; [exact HS|].
  set (r := match dirs with
            | None => let r1 := f_pass k roots Up src s in let r2 := f_pass k roots Down src (fst r1) in (fst r2, snd r1 + snd r2)
            | Some d => f_pass k roots d src s end).
  assert (Hr : FSound (fst r) v).
  { unfold r. destruct dirs as [d|]; [apply f_pass_sound; exact HS|]. cbn zeta. cbn [fst].
    apply f_pass_sound. apply f_pass_sound. exact HS. }
  cbn zeta. fold r. match goal with |- context [if ?c then _ else _] => destruct c end; cbn [fir_state]; [exact Hr|].
  destruct (negb (Nat.eqb ms 0) && Nat.leb ms (S steps))%bool; cbn [fir_state]; [exact Hr|].
  apply IH. exact Hr.
Qed.

Theorem fexec_ops_sound roots ops : forall s, FSound s v -> FSound (fexec_ops k roots s ops) v.
Proof.
  induction ops as [|o ops IH]; intros s HS; cbn [fexec_ops fold_left]; [exact HS|]. apply IH.
  destruct o; cbn [fexec_op fst].
  - apply f_node_up_sound; exact HS.
  - apply f_node_down_sound; exact HS.
  - apply f_pass_sound; exact HS.
  - apply f_pass_sound; exact HS.
  - apply f_infer_loop_sound; exact HS.
Qed.

(* consistent data is never driven to a contradiction *)
Theorem sound_no_fol_contradiction s i g al : alpha_ok al -> FRange s -> FSound s v -> is_contra al (fget s i g) = false.
Proof.
  intros Ha HR HS. destruct (is_contra al (fget s i g)) eqn:E; [|reflexivity].
  destruct (FRange_fget s i g HR) as [Hl Hu]. apply is_contra_iff in E; [|exact Ha | exact Hl | exact Hu].
  destruct E as [E _]. destruct (HS i g). lra.
Qed.
End Sound.

(* ---------- the executable well-formedness check (run by the correspondence driver on every scenario) implies the
   well-formedness the soundness theorem assumes ---------- *)
Lemma list_nat_eqb_eq a b : list_nat_eqb a b = true -> a = b.
Proof.
  revert b. induction a as [|x a IH]; intros [|y b] H; cbn [list_nat_eqb] in H; try discriminate; [reflexivity|].
  apply andb_true_iff in H. destruct H as [H1 H2]. apply Nat.eqb_eq in H1. rewrite (IH b H2), H1. reflexivity.
Qed.
Lemma forallb_qleb_nonneg ws : forallb (qleb 0) ws = true -> nonneg ws.
Proof. intros H. apply Forall_forall. intros w Hw. apply qleb_true. exact (proj1 (forallb_forall _ _) H w Hw). Qed.

Lemma wf_fobjb_sound k i : wf_fobjb k i (getf k i) = true -> wf_fobj k i.
Proof.
  unfold wf_fobjb, wf_fobj. intros H. repeat (apply andb_true_iff in H; destruct H as [H ?]).
  match goal with Hl : Nat.eqb (length (fmaps _)) (length (fops _)) = true |- _ => apply Nat.eqb_eq in Hl; split; [exact Hl|] end.
  match goal with Ha : qleb (falpha _) 1 = true |- _ => apply qleb_true in Ha end.
  destruct (fkd (getf k i)) as [| |c] eqn:Ek; [exact I | |].
  - match goal with Hn : (_ && _)%bool = true |- _ => apply andb_true_iff in Hn; destruct Hn as [N1 N2] end.
    apply Nat.eqb_eq in N1. destruct (fops (getf k i)) as [|j [|? ?]]; cbn [length] in N1; try discriminate.
    exists j. split; [reflexivity|].
    match goal with Hl : length (fmaps _) = _ |- _ => cbn [length] in Hl end.
    destruct (fmaps (getf k i)) as [|m [|? ?]]; cbn [length] in *; try discriminate. cbn [hd] in N2. apply list_nat_eqb_eq in N2. rewrite N2. reflexivity.
  - unfold conn_wf. unfold falpha in *.
    destruct c; match goal with Hn : (_ && _ && _)%bool = true |- _ => apply andb_true_iff in Hn; destruct Hn as [Hn N3]; apply andb_true_iff in Hn; destruct Hn as [N1 N2] end;
      apply Nat.eqb_eq in N2; apply forallb_qleb_nonneg in N3.
    + apply Nat.leb_le in N1. repeat split; try assumption; discriminate.
    + apply Nat.leb_le in N1. repeat split; try assumption; discriminate.
    + apply Nat.eqb_eq in N1. repeat split; try assumption; [congruence | intros _; exact N1].
Qed.

Lemma in_combine_seq_nth {T} (l : list T) d : forall a i, (i < length l)%nat -> In ((a + i)%nat, nth i l d) (combine (seq a (length l)) l).
Proof.
  induction l as [|x l IH]; intros a i Hi; cbn [length] in Hi; [lia|]. cbn [length seq combine].
  destruct i as [|i]; [left; rewrite Nat.add_0_r; reflexivity|]. right. replace (a + S i)%nat with (S a + i)%nat by lia. apply IH. lia.
Qed.

Theorem wf_fkbb_sound k : wf_fkbb k = true -> wf_fkb k.
Proof.
  intros H i Hi. apply wf_fobjb_sound. unfold wf_fkbb in H.
  apply (proj1 (forallb_forall _ _) H (i, getf k i)).
  unfold getf. apply (in_combine_seq_nth k dummy_fobj 0 i Hi).
Qed.
