(* ArityProofs.v -- row keys have the arity of their formula, and every row a connective's downward step writes exists
   after grounding propagation.  Hypotheses on the knowledge base (all true of every formula the library can build, all
   decidable): operand maps have the operand's arity, no repeated slot, every slot of the operator is used by some operand
   (its variable tuple is the union of its operands' variables), and a formula whose operands all use the same map uses the
   identity map (the variable tuple is built in order of first appearance). *)
From LNN Require Import Num Neuron Node PropEngine Fol.
From LNN.proofs Require Import NodeProofs NeuronProofs PropProofs DfsProofs MonoProofs EvalProofs FolProofs ConnProofs JoinProofs.

(* ---------- lists ---------- *)
Lemma project_identity g : project (identity_map (length g)) g = g.
Proof.
  unfold project, identity_map. induction g as [|x g IH]; cbn [length seq map nth]; [reflexivity|].
  f_equal. rewrite <- seq_shift, map_map. cbn [nth]. exact IH.
Qed.

Lemma length_insert_sorted x l : length (insert_sorted x l) = S (length l).
Proof. induction l as [|h l IH]; cbn [insert_sorted length]; [reflexivity|]. destruct (Nat.leb x h); cbn [length]; [reflexivity | rewrite IH; reflexivity]. Qed.
Lemma length_sort_nat l : length (sort_nat l) = length l.
Proof. unfold sort_nat. induction l as [|x l IH]; cbn [fold_right length]; [reflexivity|]. rewrite length_insert_sorted, IH. reflexivity. Qed.
Lemma NoDup_insert_sorted x l : NoDup l -> ~ In x l -> NoDup (insert_sorted x l).
Proof.
  induction l as [|h l IH]; intros N Hx; cbn [insert_sorted]; [constructor; [intros []|constructor]|].
  destruct (Nat.leb x h); [constructor; assumption|]. inversion N as [|? ? Hh Nl]; subst. constructor.
  - rewrite in_insert_sorted. intros [->|H]; [apply Hx; left; reflexivity | contradiction].
  - apply IH; [exact Nl | intros H; apply Hx; right; exact H].
Qed.
Lemma NoDup_sort_nat l : NoDup l -> NoDup (sort_nat l).
Proof.
  unfold sort_nat. induction 1 as [|x l Hx N IH]; cbn [fold_right]; [constructor|].
  apply NoDup_insert_sorted; [exact IH|]. change (fold_right insert_sorted [] l) with (sort_nat l). rewrite in_sort_nat. exact Hx.
Qed.
Lemma NoDup_filter {A} (f : A -> bool) l : NoDup l -> NoDup (filter f l).
Proof.
  induction 1 as [|x l Hx N IH]; cbn [filter]; [constructor|]. destruct (f x); [|exact IH].
  constructor; [|exact IH]. intros H. apply filter_In in H. apply Hx. apply H.
Qed.

Lemma NoDup_app_intro {A} (l1 l2 : list A) : NoDup l1 -> NoDup l2 -> (forall x, In x l1 -> In x l2 -> False) -> NoDup (l1 ++ l2).
Proof.
  induction 1 as [|x l1 Hx N IH]; intros N2 Hd; cbn [app]; [exact N2|]. constructor.
  - rewrite in_app_iff. intros [H|H]; [contradiction | exact (Hd x (or_introl eq_refl) H)].
  - apply IH; [exact N2 | intros y H1 H2; exact (Hd y (or_intror H1) H2)].
Qed.

(* ---------- columns of the joins ---------- *)
Lemma foj_cols ca ra cb rb : NoDup ca -> NoDup cb ->
  NoDup (fst (foj (ca, ra) (cb, rb))) /\ (forall c, In c (fst (foj (ca, ra) (cb, rb))) <-> In c ca \/ In c cb).
Proof.
  intros Na Nb.
  assert (C1 : NoDup (ca ++ filter (fun c => negb (memb c ca)) cb) /\
               (forall c, In c (ca ++ filter (fun c => negb (memb c ca)) cb) <-> In c ca \/ In c cb)).
  { split.
    - apply NoDup_app_intro; [exact Na | apply NoDup_filter; exact Nb|].
      intros c H1 H2. apply filter_In in H2. destruct H2 as [_ H2]. cbn beta in H2. apply negb_true_iff in H2.
      apply (proj2 (memb_true_in c ca)) in H1. congruence.
    - intros c. rewrite in_app_iff, filter_In. split; [intros [H|[H _]]; auto|].
      intros [H|H]; [left; exact H|]. destruct (memb c ca) eqn:E; [left; apply memb_true_in; exact E | right; split; [exact H | cbn beta; try rewrite E; reflexivity]]. }
  unfold foj. destruct ra as [|ra0 ra']; [cbn [fst]; exact C1|]. destruct rb as [|rb0 rb']; [cbn [fst]; exact C1|].
  destruct (filter (fun c => memb c cb) ca) as [|sh0 sh'] eqn:Es.
  - cbn [fst]. split.
    + apply NoDup_app_intro; [exact Na | exact Nb|]. intros c H1 H2.
      assert (X : In c (filter (fun c => memb c cb) ca)) by (apply filter_In; split; [exact H1 | apply memb_true_in; exact H2]).
      rewrite Es in X. exact X.
    + intros c. rewrite in_app_iff. tauto.
  - cbn [fst]. rewrite <- Es. set (shared := filter (fun c => memb c cb) ca).
    set (u := filter (fun c => negb (memb c cb)) ca ++ filter (fun c => negb (memb c ca)) cb).
    assert (Nu : NoDup u).
    { unfold u. apply NoDup_app_intro; [apply NoDup_filter; exact Na | apply NoDup_filter; exact Nb|].
      intros c H1 H2. apply filter_In in H1. apply filter_In in H2. destruct H1 as [H1 _]. destruct H2 as [_ H2].
      cbn beta in H2. apply negb_true_iff in H2. apply (proj2 (memb_true_in c ca)) in H1. congruence. }
    split.
    + apply NoDup_app_intro; [apply NoDup_sort_nat; exact Nu | apply NoDup_filter; exact Na|].
      intros c H1 H2. rewrite in_sort_nat in H1. unfold u in H1. apply in_app_iff in H1. unfold shared in H2. apply filter_In in H2.
      destruct H2 as [H2a H2b]. cbn beta in H2b. destruct H1 as [H1|H1]; apply filter_In in H1; destruct H1 as [_ H1]; cbn beta in H1; apply negb_true_iff in H1.
      * congruence.
      * apply (proj2 (memb_true_in c ca)) in H2a. congruence.
    + intros c. rewrite in_app_iff, in_sort_nat. unfold u, shared. rewrite in_app_iff, !filter_In. split.
      * intros [[[H _]|[H _]]|[H _]]; auto.
      * intros [H|H].
        -- destruct (memb c cb) eqn:E; [right; split; [exact H | cbn beta; try rewrite E; reflexivity] | left; left; split; [exact H | cbn beta; try rewrite E; reflexivity]].
        -- destruct (memb c ca) eqn:E; [right; split; [apply memb_true_in; exact E | apply memb_true_in; exact H] | left; right; split; [exact H | cbn beta; try rewrite E; reflexivity]].
Qed.

Lemma fold_foj_cols rest : forall d0, NoDup (fst d0) -> Forall (fun d : df => NoDup (fst d)) rest ->
  NoDup (fst (fold_left foj rest d0)) /\
  (forall c, In c (fst (fold_left foj rest d0)) <-> In c (fst d0) \/ exists d, In d rest /\ In c (fst d)).
Proof.
  induction rest as [|d rest IH]; intros d0 N0 NR; cbn [fold_left].
  - split; [exact N0|]. intros c. split; [auto | intros [H|[d [[] _]]]; exact H].
  - inversion NR as [|? ? Nd NR']; subst. destruct d0 as [ca ra]. destruct d as [cb rb]. cbn [fst] in *.
    destruct (foj_cols ca ra cb rb N0 Nd) as [N1 E1]. destruct (IH (foj (ca, ra) (cb, rb)) N1 NR') as [N2 E2]. split; [exact N2|].
    intros c. rewrite E2, E1. split.
    + intros [[H|H]|[d [Hd Hc]]]; [left; exact H | right; exists (cb, rb); split; [left; reflexivity | exact H] | right; exists d; split; [right; exact Hd | exact Hc]].
    + intros [H|[d [[<-|Hd] Hc]]]; [left; left; exact H | left; right; exact Hc | right; exists d; split; assumption].
Qed.

Lemma op_groundings_len J g : In g (op_groundings J) -> length g = length (fst J).
Proof.
  destruct J as [cols rows]. unfold op_groundings. intros H. apply in_map_iff in H. destruct H as [r [<- _]].
  rewrite map_length, length_sort_nat. reflexivity.
Qed.

Lemma in_combine_snd {A B} (l1 : list A) (l2 : list B) y : length l1 = length l2 -> In y l2 -> exists x, In (x, y) (combine l1 l2).
Proof.
  revert l2. induction l1 as [|a l1 IH]; intros [|b l2] Hl Hy; cbn [length] in Hl; try discriminate; [contradiction|].
  destruct Hy as [->|Hy]; [exists a; left; reflexivity|]. destruct (IH l2 ltac:(lia) Hy) as [x Hx]. exists x. right. exact Hx.
Qed.

(* ---------- the knowledge-base hypotheses and the arity invariant ---------- *)
Section Arity.
Variable k : fkb.
Hypothesis Hlen : forall i, length (fmaps (getf k i)) = length (fops (getf k i)).
Hypothesis Hmap : forall i j m, In (j, m) (combine (fops (getf k i)) (fmaps (getf k i))) ->
  length m = fnv (getf k j) /\ NoDup m /\ (forall sl, In sl m -> (sl < fnv (getf k i))%nat).
Hypothesis Hcov : forall i sl, is_homog (getf k i) = false -> (sl < fnv (getf k i))%nat -> exists m, In m (fmaps (getf k i)) /\ In sl m.
Hypothesis Hhom : forall i m, is_homog (getf k i) = true -> In m (fmaps (getf k i)) -> m = identity_map (fnv (getf k i)).

Definition arity_ok (s : fstate) : Prop := forall i g, In g (tkeys (ftab s i)) -> length g = fnv (getf k i).

Lemma in_map_combine i m : In m (fmaps (getf k i)) -> exists j, In (j, m) (combine (fops (getf k i)) (fmaps (getf k i))).
Proof. intros H. apply in_combine_snd; [symmetry; apply Hlen | exact H]. Qed.

Lemma homog_operand_arity i j m : is_homog (getf k i) = true -> In (j, m) (combine (fops (getf k i)) (fmaps (getf k i))) ->
  m = identity_map (fnv (getf k i)) /\ fnv (getf k j) = fnv (getf k i).
Proof.
  intros Hh Hin. assert (Hm : m = identity_map (fnv (getf k i))) by (apply Hhom; [exact Hh | eapply in_combine_r; exact Hin]).
  split; [exact Hm|]. destruct (Hmap i j m Hin) as [L _]. rewrite <- L, Hm. unfold identity_map. apply seq_length.
Qed.

Lemma arity_fextend s i gs : arity_ok s -> (forall g, In g gs -> length g = fnv (getf k i)) -> arity_ok (fextend s i gs).
Proof.
  intros H Hg j g Hin. unfold fextend in Hin. rewrite ftab_set_tab in Hin. destruct (Nat.eqb_spec j i) as [->|]; [|apply H; exact Hin].
  unfold tkeys in Hin. apply in_map_iff in Hin. destruct Hin as [r [<- Hr]].
  revert Hr. generalize (ftab s i) (H i). intros t Ht. revert t Ht. induction gs as [|x gs IH]; intros t Ht Hr; [apply Ht; apply in_map; exact Hr|].
  rewrite textend_cons in Hr. apply (IH (fun g Hg' => Hg g (or_intror Hg')) (tadd (fwld s i) t x)); [|exact Hr].
  intros g' Hg'. unfold tkeys in Hg'. apply in_map_iff in Hg'. destruct Hg' as [r' [<- Hr']]. apply in_tadd in Hr'.
  destruct Hr' as [Hr' | ->]; [apply Ht; apply in_map; exact Hr' | cbn [rg]; apply Hg; left; reflexivity].
Qed.

Lemma arity_raw_set s i g v : arity_ok s -> arity_ok (raw_set s i g v).
Proof.
  intros H j h Hin. unfold raw_set in Hin. rewrite ftab_set_tab in Hin. destruct (Nat.eqb_spec j i) as [->|]; [|apply H; exact Hin].
  rewrite tkeys_tset_cur in Hin. apply H. exact Hin.
Qed.

(* the join of a heterogeneous connective has exactly one column per variable of the connective *)
Lemma hetero_cols_len i s d0 rest : is_homog (getf k i) = false ->
  map (fun jm : nat * list nat => (snd jm, tkeys (ftab s (fst jm)))) (combine (fops (getf k i)) (fmaps (getf k i))) = d0 :: rest ->
  length (fst (fold_left foj rest d0)) = fnv (getf k i).
Proof.
  intros Hh Ed.
  set (dfs := map (fun jm : nat * list nat => (snd jm, tkeys (ftab s (fst jm)))) (combine (fops (getf k i)) (fmaps (getf k i)))) in *.
  assert (Hd : forall d, In d dfs -> exists j, In (j, fst d) (combine (fops (getf k i)) (fmaps (getf k i)))).
  { intros d Hin. unfold dfs in Hin. apply in_map_iff in Hin. destruct Hin as [[j m] [<- Hjm]]. exists j. exact Hjm. }
  assert (N0 : NoDup (fst d0)).
  { destruct (Hd d0) as [j Hj]; [rewrite Ed; left; reflexivity|]. apply (Hmap i j (fst d0) Hj). }
  assert (NR : Forall (fun d : df => NoDup (fst d)) rest).
  { apply Forall_forall. intros d Hin. destruct (Hd d) as [j Hj]; [rewrite Ed; right; exact Hin|]. apply (Hmap i j (fst d) Hj). }
  destruct (fold_foj_cols rest d0 N0 NR) as [Nc Ec]. set (cols := fst (fold_left foj rest d0)) in *.
  assert (Ein : forall c, In c cols <-> exists d, In d dfs /\ In c (fst d)).
  { intros c. rewrite Ec, Ed. split.
    - intros [H|[d [Hdr Hc]]]; [exists d0; split; [left; reflexivity | exact H] | exists d; split; [right; exact Hdr | exact Hc]].
    - intros [d [[<-|Hdr] Hc]]; [left; exact Hc | right; exists d; split; assumption]. }
  assert (I1 : incl cols (seq 0 (fnv (getf k i)))).
  { intros c Hc. apply Ein in Hc. destruct Hc as [d [Hdd Hc]]. destruct (Hd d Hdd) as [j Hj].
    apply in_seq. split; [lia|]. cbn [plus]. apply (Hmap i j (fst d) Hj). exact Hc. }
  assert (I2 : incl (seq 0 (fnv (getf k i))) cols).
  { intros c Hc. apply in_seq in Hc. destruct (Hcov i c Hh ltac:(lia)) as [m [Hm Hcm]]. destruct (in_map_combine i m Hm) as [j Hj].
    apply Ein. exists (m, tkeys (ftab s j)). split; [|exact Hcm]. unfold dfs. apply in_map_iff. exists (j, m). split; [reflexivity | exact Hj]. }
  pose proof (NoDup_incl_length Nc I1) as L1. pose proof (NoDup_incl_length (seq_NoDup (fnv (getf k i)) 0) I2) as L2.
  rewrite seq_length in L1, L2. lia.
Qed.

(* grounding propagation keeps the arities and makes every operand row of every evaluated grounding exist *)
Lemma fold_fextend_arity {T} (f : T -> nat) (h : T -> list gnd) l : forall s, arity_ok s ->
  (forall x g, In x l -> In g (h x) -> length g = fnv (getf k (f x))) ->
  arity_ok (fold_left (fun st x => fextend st (f x) (h x)) l s).
Proof.
  induction l as [|x l IH]; intros s Hs Hl; cbn [fold_left]; [exact Hs|].
  apply IH; [apply arity_fextend; [exact Hs | intros g Hg; apply (Hl x g (or_introl eq_refl) Hg)] | intros y g Hy Hg; apply (Hl y g (or_intror Hy) Hg)].
Qed.

Lemma fold_fextend_tmem {T} (f : T -> nat) (h : T -> list gnd) l : forall s,
  (forall j g, tmem (ftab s j) g = true -> tmem (ftab (fold_left (fun st x => fextend st (f x) (h x)) l s) j) g = true) /\
  (forall x g, In x l -> In g (h x) -> tmem (ftab (fold_left (fun st x => fextend st (f x) (h x)) l s) (f x)) g = true).
Proof.
  assert (K : forall s i gs j g, tmem (ftab s j) g = true -> tmem (ftab (fextend s i gs) j) g = true).
  { intros s i gs j g H. unfold fextend. rewrite ftab_set_tab. destruct (Nat.eqb_spec j i) as [->|]; [|exact H].
    apply tmem_keys. apply tkeys_textend_incl. apply tmem_keys. exact H. }
  induction l as [|x l IH]; intros s; cbn [fold_left]; [split; [auto | intros ? ? []]|].
  destruct (IH (fextend s (f x) (h x))) as [P1 P2]. split.
  - intros j g H. apply P1. apply K. exact H.
  - intros y g [<-|Hy] Hg; [|apply P2; assumption]. apply P1. unfold fextend. rewrite ftab_set_tab, Nat.eqb_refl. apply tmem_textend. exact Hg.
Qed.

Theorem oper_groundings_arity s i d gs s1 : arity_ok s -> oper_groundings k s i d = Some (gs, s1) ->
  arity_ok s1 /\ (forall g, In g gs -> length g = fnv (getf k i)) /\
  (forall j m g, In (j, m) (combine (fops (getf k i)) (fmaps (getf k i))) -> In g gs -> tmem (ftab s1 j) (project m g) = true).
Proof.
  intros Hs H. unfold oper_groundings in H. destruct (is_homog (getf k i)) eqn:Hh.
  - destruct (gdedup _) as [|gg0 ggl] eqn:EG; [discriminate|]. inversion H; subst gs s1. clear H.
    set (G := gg0 :: ggl) in *.
    assert (HG : forall g, In g G -> length g = fnv (getf k i)).
    { intros g Hg. rewrite <- EG in Hg. apply gdedup_acc_sub in Hg. apply in_app_iff in Hg. destruct Hg as [Hg|Hg].
      - apply in_flat_map in Hg. destruct Hg as [j [Hj Hg]].
        destruct (In_nth _ _ 0%nat Hj) as [n [Hn En]].
        assert (Hjm : In (j, nth n (fmaps (getf k i)) []) (combine (fops (getf k i)) (fmaps (getf k i)))).
        { rewrite <- En. rewrite <- combine_nth by (symmetry; apply Hlen). apply nth_In. rewrite combine_length, Hlen. lia. }
        destruct (homog_operand_arity i j _ Hh Hjm) as [_ Ea]. rewrite <- Ea. apply Hs. exact Hg.
      - destruct d; [contradiction | apply Hs; exact Hg]. }
    assert (A1 : arity_ok (fold_left (fun st j => fextend st j G) (fops (getf k i)) s)).
    { apply (fold_fextend_arity (fun j : nat => j) (fun _ => G)); [exact Hs|]. intros j g Hj Hg.
      destruct (In_nth _ _ 0%nat Hj) as [n [Hn En]].
      assert (Hjm : In (j, nth n (fmaps (getf k i)) []) (combine (fops (getf k i)) (fmaps (getf k i)))).
      { rewrite <- En. rewrite <- combine_nth by (symmetry; apply Hlen). apply nth_In. rewrite combine_length, Hlen. lia. }
      destruct (homog_operand_arity i j _ Hh Hjm) as [_ Ea]. rewrite Ea. apply HG. exact Hg. }
    split; [apply arity_fextend; [exact A1 | exact HG]|]. split; [exact HG|].
    intros j m g Hjm Hg. destruct (homog_operand_arity i j m Hh Hjm) as [Em _].
    assert (Ep : project m g = g) by (rewrite Em, <- (HG g Hg); apply project_identity). rewrite Ep.
    destruct (fold_fextend_tmem (fun j : nat => j) (fun _ => G) (fops (getf k i)) s) as [_ P2].
    assert (T : tmem (ftab (fold_left (fun st j0 => fextend st j0 G) (fops (getf k i)) s) j) g = true) by (apply (P2 j g); [eapply in_combine_l; exact Hjm | exact Hg]).
    unfold fextend at 1. rewrite ftab_set_tab. destruct (Nat.eqb_spec j i) as [->|]; [|exact T].
    apply tmem_keys. apply tkeys_textend_incl. apply tmem_keys. exact T.
  - destruct (map _ (combine (fops (getf k i)) (fmaps (getf k i)))) as [|d0 rest] eqn:Ed; [discriminate|].
    destruct (op_groundings (fold_left foj rest d0)) as [|g0 gl] eqn:Eo; [discriminate|]. inversion H; subst gs s1. clear H.
    set (ogs := g0 :: gl) in *.
    assert (HG : forall g, In g ogs -> length g = fnv (getf k i)).
    { intros g Hg. rewrite <- Eo in Hg. rewrite (op_groundings_len _ g Hg). eapply hetero_cols_len; [exact Hh | exact Ed]. }
    assert (A1 : arity_ok (fold_left (fun st jm => fextend st (fst jm) (map (project (snd jm)) ogs)) (combine (fops (getf k i)) (fmaps (getf k i))) s)).
    { apply (fold_fextend_arity (fun jm : nat * list nat => fst jm) (fun jm => map (project (snd jm)) ogs)); [exact Hs|].
      intros [j m] g Hjm Hg. cbn [fst snd] in *. apply in_map_iff in Hg. destruct Hg as [g' [<- _]]. unfold project. rewrite map_length. apply (Hmap i j m Hjm). }
    split; [apply arity_fextend; [exact A1 | exact HG]|]. split; [exact HG|].
    intros j m g Hjm Hg.
    destruct (fold_fextend_tmem (fun jm : nat * list nat => fst jm) (fun jm => map (project (snd jm)) ogs) (combine (fops (getf k i)) (fmaps (getf k i))) s) as [_ P2].
    assert (T : tmem (ftab (fold_left (fun st jm => fextend st (fst jm) (map (project (snd jm)) ogs)) (combine (fops (getf k i)) (fmaps (getf k i))) s) j) (project m g) = true).
    { apply (P2 (j, m) (project m g) Hjm). cbn [snd]. apply in_map. exact Hg. }
    unfold fextend at 1. rewrite ftab_set_tab. destruct (Nat.eqb_spec j i) as [->|]; [|exact T].
    apply tmem_keys. apply tkeys_textend_incl. apply tmem_keys. exact T.
Qed.
End Arity.

(* ---------- the executable shape check implies the hypotheses of the Arity section ---------- *)
Lemma nodupb_NoDup l : nodupb l = true -> NoDup l.
Proof.
  induction l as [|x l IH]; cbn [nodupb]; intros H; [constructor|]. apply andb_true_iff in H. destruct H as [H1 H2].
  constructor; [|apply IH; exact H2]. intros Hin. apply memb_true_in in Hin. rewrite Hin in H1. discriminate.
Qed.
Lemma list_nat_eqb_eq' a b : list_nat_eqb a b = true -> a = b.
Proof.
  revert b. induction a as [|x a IH]; intros [|y b] H; cbn [list_nat_eqb] in H; try discriminate; [reflexivity|].
  apply andb_true_iff in H. destruct H as [H1 H2]. apply Nat.eqb_eq in H1. rewrite (IH b H2), H1. reflexivity.
Qed.

Lemma shape_obj_all k i : shape_okb k = true -> shape_objb k (getf k i) = true.
Proof.
  intros H. unfold getf. destruct (Nat.lt_ge_cases i (length k)) as [Hi|Hi].
  - apply (proj1 (forallb_forall _ _) H). apply nth_In. exact Hi.
  - rewrite nth_overflow by exact Hi. reflexivity.
Qed.

Theorem shape_okb_sound k : shape_okb k = true ->
  (forall i, length (fmaps (getf k i)) = length (fops (getf k i))) /\
  (forall i j m, In (j, m) (combine (fops (getf k i)) (fmaps (getf k i))) ->
     length m = fnv (getf k j) /\ NoDup m /\ (forall sl, In sl m -> (sl < fnv (getf k i))%nat)) /\
  (forall i sl, is_homog (getf k i) = false -> (sl < fnv (getf k i))%nat -> exists m, In m (fmaps (getf k i)) /\ In sl m) /\
  (forall i m, is_homog (getf k i) = true -> In m (fmaps (getf k i)) -> m = identity_map (fnv (getf k i))) /\
  (forall i, fkd (getf k i) = FNot -> is_homog (getf k i) = true).
Proof.
  intros H.
  assert (P : forall i, shape_objb k (getf k i) = true) by (intros i; apply shape_obj_all; exact H).
  repeat split.
  - intros i. specialize (P i). unfold shape_objb in P. repeat (apply andb_true_iff in P; destruct P as [P ?]). apply Nat.eqb_eq. exact P.
  - specialize (P i). unfold shape_objb in P. repeat (apply andb_true_iff in P; destruct P as [P ?]).
    match goal with Hf : forallb _ (combine _ _) = true |- _ => pose proof (proj1 (forallb_forall _ _) Hf (j, m) H0) as Q end.
    cbn [fst snd] in Q. repeat (apply andb_true_iff in Q; destruct Q as [Q ?]). apply Nat.eqb_eq. exact Q.
  - specialize (P i). unfold shape_objb in P. repeat (apply andb_true_iff in P; destruct P as [P ?]).
    match goal with Hf : forallb _ (combine _ _) = true |- _ => pose proof (proj1 (forallb_forall _ _) Hf (j, m) H0) as Q end.
    cbn [fst snd] in Q. repeat (apply andb_true_iff in Q; destruct Q as [Q ?]). apply nodupb_NoDup. assumption.
  - intros sl Hsl. specialize (P i). unfold shape_objb in P. repeat (apply andb_true_iff in P; destruct P as [P ?]).
    match goal with Hf : forallb _ (combine _ _) = true |- _ => pose proof (proj1 (forallb_forall _ _) Hf (j, m) H0) as Q end.
    cbn [fst snd] in Q. repeat (apply andb_true_iff in Q; destruct Q as [Q ?]).
    match goal with Hs : forallb (fun sl => Nat.ltb sl _) m = true |- _ => pose proof (proj1 (forallb_forall _ _) Hs sl Hsl) as L end. apply Nat.ltb_lt. exact L.
  - intros i sl Hh Hsl. specialize (P i). unfold shape_objb in P. repeat (apply andb_true_iff in P; destruct P as [P ?]).
    rewrite Hh in *.
    match goal with Hc : forallb (fun sl => existsb _ _) (seq 0 _) = true |- _ => pose proof (proj1 (forallb_forall _ _) Hc sl ltac:(apply in_seq; lia)) as E end.
    apply existsb_exists in E. destruct E as [m [Hm Hs]]. exists m. split; [exact Hm | apply memb_true_in; exact Hs].
  - intros i m Hh Hm. specialize (P i). unfold shape_objb in P. repeat (apply andb_true_iff in P; destruct P as [P ?]).
    rewrite Hh in *.
    match goal with Hc : forallb (fun m => list_nat_eqb m _) _ = true |- _ => pose proof (proj1 (forallb_forall _ _) Hc m Hm) as E end.
    apply list_nat_eqb_eq'. exact E.
  - intros i Hk. specialize (P i). unfold shape_objb in P. repeat (apply andb_true_iff in P; destruct P as [P ?]).
    rewrite Hk in *. assumption.
Qed.
