(* ConnProofs.v -- C09 (values): what a first-order connective writes.
   upward: every evaluated, non-arrested grounding ends at aggregate(old row, truth function of the operand
   rows at its projections) -- for a fresh OPEN row that is exactly the truth-function value;
   downward: only operand tables are written, every dependent operand row ends at least as tight as
   aggregate(old row, inverse for that grounding) (duplicates merged by max/min), the operator is unchanged. *)
From LNN Require Import Num Neuron Node PropEngine Fol.
From LNN.proofs Require Import NodeProofs NeuronProofs PropProofs DfsProofs MonoProofs EvalProofs FolProofs.
Open Scope Q_scope.

Lemma agg_idem old new : bnd_eq (agg_bnd WBoth (agg_bnd WBoth old new) new) (agg_bnd WBoth old new).
Proof. unfold bnd_eq, agg_bnd; cbn [lo hi]. split; qcases; lra. Qed.
Lemma agg_compat old old' new : bnd_eq old old' -> bnd_eq (agg_bnd WBoth old new) (agg_bnd WBoth old' new).
Proof. intros [? ?]. unfold bnd_eq, agg_bnd; cbn [lo hi]. split; qcases; lra. Qed.
Lemma bnd_eq_bred b : bnd_eq (bred b) b. Proof. apply bred_eq. Qed.

(* ---------- frames ---------- *)
Lemma ftab_raw_set_other s i g v j : j <> i -> ftab (raw_set s i g v) j = ftab s j.
Proof. intros H. unfold raw_set, set_tab; cbn [ftab]. destruct (Nat.eqb_spec j i); [contradiction | reflexivity]. Qed.
Lemma ftab_f_write_other sa i g new j : j <> i -> ftab (fst (f_write sa i g new)) j = ftab (fst sa) j.
Proof. intros H. unfold f_write. cbn [fst]. apply (ftab_raw_set_other (fst sa) i g _ j H). Qed.
Lemma ftab_f_write_many_other s a j props x : x <> j -> ftab (fst (f_write_many (s, a) j props)) x = ftab s x.
Proof.
  intros H. unfold f_write_many. cbn [fst snd]. generalize (merge_dups (map (fun gb => (fst gb, agg_bnd WBoth (fget s j (fst gb)) (snd gb))) props)).
  intros l. assert (G : forall l sa, ftab (fst (fold_left (fun sa' gb => (set_tab (fst sa') j (tset_cur (ftab (fst sa') j) (fst gb) (bred (snd gb))),
              Qred (snd sa' + moved (fget s j (fst gb)) (snd gb)))) l sa)) x = ftab (fst sa) x).
  { clear l. induction l as [|gb l IH]; intros sa; cbn [fold_left]; [reflexivity|]. rewrite IH. cbn [fst].
    apply (ftab_raw_set_other (fst sa) j (fst gb) _ x H). }
  apply (G l (s, a)).
Qed.
Lemma fwld_f_write_many s a j props : fwld (fst (f_write_many (s, a) j props)) = fwld s.
Proof.
  unfold f_write_many. cbn [fst snd]. generalize (merge_dups (map (fun gb => (fst gb, agg_bnd WBoth (fget s j (fst gb)) (snd gb))) props)).
  intros l. assert (G : forall l sa, fwld (fst (fold_left (fun sa' gb => (set_tab (fst sa') j (tset_cur (ftab (fst sa') j) (fst gb) (bred (snd gb))),
              Qred (snd sa' + moved (fget s j (fst gb)) (snd gb)))) l sa)) = fwld (fst sa)).
  { clear l. induction l as [|gb l IH]; intros sa; cbn [fold_left]; [reflexivity|]. rewrite IH. reflexivity. }
  apply (G l (s, a)).
Qed.

Lemma f_write_fst sa i g new : fst (f_write sa i g new) = raw_set (fst sa) i g (bred (agg_bnd WBoth (fget (fst sa) i g) new)).
Proof. reflexivity. Qed.

(* ---------- upward: the value written for each evaluated grounding ---------- *)
Lemma tmem_raw_set s i g v h : tmem (ftab (raw_set s i g v) i) h = tmem (ftab s i) h.
Proof.
  unfold raw_set, set_tab, tmem; cbn [ftab]. rewrite Nat.eqb_refl, tfind_tset_cur. destruct (tfind (ftab s i) h); [|reflexivity].
  destruct (geqb h g); reflexivity.
Qed.

Lemma fold_write_fn i (F : gnd -> bnd) keep : forall s a,
  (forall g, In g keep -> tmem (ftab s i) g = true) ->
  let r := fold_left (fun sa gn => f_write sa i (fst gn) (snd gn)) (map (fun g => (g, F g)) keep) (s, a) in
  (forall g, In g keep -> bnd_eq (fget (fst r) i g) (agg_bnd WBoth (fget s i g) (F g))) /\
  (forall g, ~ In g keep -> fget (fst r) i g = fget s i g) /\
  (forall j, j <> i -> ftab (fst r) j = ftab s j) /\ fwld (fst r) = fwld s.
Proof.
  induction keep as [|h keep IH] using rev_ind; intros s a Hm; cbn zeta.
  - cbn [map fold_left fst]. split; [intros g []|]. split; [reflexivity|]. split; reflexivity.
  - rewrite map_app, fold_left_app. cbn [map fold_left].
    destruct (IH s a (fun g Hg => Hm g (in_or_app _ _ _ (or_introl Hg)))) as (I1 & I2 & I3 & I4). cbn zeta in *.
    set (r := fold_left (fun sa gn => f_write sa i (fst gn) (snd gn)) (map (fun g => (g, F g)) keep) (s, a)) in *.
    cbn [fst snd]. rewrite f_write_fst.
    assert (Hmem : tmem (ftab (fst r) i) h = true).
    { assert (G : forall l sa, tmem (ftab (fst (fold_left (fun sa gn => f_write sa i (fst gn) (snd gn)) l sa)) i) h = tmem (ftab (fst sa) i) h).
      { clear. induction l as [|gn l IHl]; intros sa; cbn [fold_left]; [reflexivity|]. rewrite IHl. unfold f_write. cbn [fst]. apply tmem_raw_set. }
      unfold r. rewrite G. cbn [fst]. apply Hm. apply in_or_app; right; left; reflexivity. }
    split; [|split; [|split]].
    + intros g Hg. rewrite fget_raw_set, Nat.eqb_refl. cbn [andb]. destruct (geqb g h) eqn:E; cbn [andb].
      * apply geqb_eq in E. subst g. rewrite Hmem. eapply bnd_eq_trans; [apply bnd_eq_bred|].
        destruct (in_dec (list_eq_dec Nat.eq_dec) h keep) as [Hin|Hnin].
        -- eapply bnd_eq_trans; [apply agg_compat; apply I1; exact Hin | apply agg_idem].
        -- rewrite (I2 h Hnin). apply bnd_eq_refl.
      * apply in_app_or in Hg. destruct Hg as [Hg|[Hg|[]]]; [apply I1; exact Hg|]. subst. rewrite geqb_refl in E. discriminate.
    + intros g Hg. rewrite fget_raw_set, Nat.eqb_refl. cbn [andb]. destruct (geqb g h) eqn:E; cbn [andb].
      * apply geqb_eq in E. exfalso. apply Hg. apply in_or_app; right; left; congruence.
      * apply I2. intro; apply Hg; apply in_or_app; left; assumption.
    + intros j Hj. rewrite (ftab_raw_set_other (fst r) i h _ j Hj). apply I3; exact Hj.
    + exact I4.
Qed.

Theorem conn_up_value k s i c gs s1 g : fkd (getf k i) = FConn c -> ~ In i (fops (getf k i)) ->
  oper_groundings k s i DUp = Some (gs, s1) -> (forall g, In g gs -> tmem (ftab s1 i) g = true) ->
  In g gs -> inputs_contra (falpha (getf k i)) (op_inputs k s1 i g) = false ->
  bnd_eq (fget (fst (f_conn_up k s i)) i g)
         (agg_bnd WBoth (fget s1 i g) (act_up c (fpar (getf k i)) (op_inputs k s1 i g))).
Proof.
  intros Ek Hself Hog Hmem Hg Harr. unfold f_conn_up. rewrite Hog. unfold fconn. rewrite Ek.
  set (keep := filter (fun g => negb (inputs_contra (falpha (getf k i)) (op_inputs k s1 i g))) gs).
  destruct (fold_write_fn i (fun g => act_up c (fpar (getf k i)) (op_inputs k s1 i g)) keep s1 0
              (fun g Hg' => Hmem g (proj1 (proj1 (filter_In _ _ _) Hg')))) as (I1 & _).
  apply I1. apply filter_In. split; [exact Hg | rewrite Harr; reflexivity].
Qed.

(* the rows an extension guarantees *)
Lemma oper_groundings_rows k s i d gs s1 : oper_groundings k s i d = Some (gs, s1) -> forall g, In g gs -> tmem (ftab s1 i) g = true.
Proof.
  intros H g Hg. unfold oper_groundings in H. destruct (is_homog (getf k i)).
  - destruct (gdedup _) as [|g0 gl] eqn:EG; [discriminate|]. inversion H; subst. clear H.
    unfold fextend, set_tab; cbn [ftab]. rewrite Nat.eqb_refl. apply tmem_textend. exact Hg.
  - destruct (map _ (combine (fops (getf k i)) (fmaps (getf k i)))) as [|d0 rest]; [discriminate|].
    destruct (op_groundings (fold_left foj rest d0)) as [|g0 gl] eqn:Eo; [discriminate|]. inversion H; subst. clear H.
    unfold fextend, set_tab; cbn [ftab]. rewrite Nat.eqb_refl. apply tmem_textend. exact Hg.
Qed.

(* fresh row (reads UNKNOWN): exactly the truth-function value of the operand rows *)
Theorem conn_up_fresh_value k s i c gs s1 g : fkd (getf k i) = FConn c -> ~ In i (fops (getf k i)) ->
  conn_wf c (fpar (getf k i)) (length (op_inputs k s1 i g)) ->
  oper_groundings k s i DUp = Some (gs, s1) -> In g gs ->
  inputs_contra (falpha (getf k i)) (op_inputs k s1 i g) = false -> bnd_eq (fget s1 i g) unknown ->
  bnd_eq (fget (fst (f_conn_up k s i)) i g) (act_up c (fpar (getf k i)) (op_inputs k s1 i g)).
Proof.
  intros Ek Hself Hcw Hog Hg Harr Hfresh.
  eapply bnd_eq_trans; [apply (conn_up_value k s i c gs s1 g Ek Hself Hog (oper_groundings_rows k s i DUp gs s1 Hog) Hg Harr)|].
  destruct (act_up_range c (fpar (getf k i)) (op_inputs k s1 i g)) as [[? ?] [? ?]]. destruct Hfresh as [F1 F2]. cbn [unknown lo hi] in *.
  unfold bnd_eq, agg_bnd; cbn [lo hi]. split; qcases; lra.
Qed.

Lemma NoDup_snoc {A} (l : list A) x : NoDup l -> ~ In x l -> NoDup (l ++ [x]).
Proof.
  induction l as [|y l IH]; intros HN Hx; cbn [app]; [constructor; [intros [] | constructor]|].
  inversion HN as [|? ? Hy HN']; subst. constructor.
  - intro Hin. apply in_app_or in Hin. destruct Hin as [Hin|[E|[]]]; [contradiction | apply Hx; left; congruence].
  - apply IH; [exact HN' | intro; apply Hx; right; assumption].
Qed.

(* ---------- downward ---------- *)
(* merged duplicates: unique keys; every proposal is dominated by the merged value of its key *)
Definition keys_of (l : list (gnd * bnd)) := map fst l.
Lemma merge_dups_spec props :
  NoDup (keys_of (merge_dups props)) /\
  (forall h a, In (h, a) props -> exists v, In (h, v) (merge_dups props) /\ tighter a v) /\
  (forall h v, In (h, v) (merge_dups props) -> In h (keys_of props)).
Proof.
  unfold merge_dups.
  assert (G : forall props acc, NoDup (keys_of acc) ->
     let r := fold_left (fun acc gb => if gmem (fst gb) (map fst acc)
               then map (fun a => if geqb (fst a) (fst gb) then (fst a, merge_bnd (snd a) (snd gb)) else a) acc
               else acc ++ [gb]) props acc in
     NoDup (keys_of r) /\
     (forall h a, (In (h, a) props \/ exists v0, In (h, v0) acc /\ tighter a v0) -> exists v, In (h, v) r /\ tighter a v) /\
     (forall h v, In (h, v) r -> In h (keys_of props) \/ In h (keys_of acc))).
  { clear props. induction props as [|gb props IH]; intros acc HN; cbn zeta; cbn [fold_left].
    - split; [exact HN|]. split; [|intros; right; apply in_map_iff; exists (h, v); split; [reflexivity | assumption]].
      intros h a [[]|[v0 [H1 H2]]]. exists v0. split; assumption.
    - destruct (gmem (fst gb) (map fst acc)) eqn:Em.
      + set (acc' := map (fun a => if geqb (fst a) (fst gb) then (fst a, merge_bnd (snd a) (snd gb)) else a) acc).
        assert (Hk : keys_of acc' = keys_of acc).
        { unfold acc', keys_of. rewrite map_map. apply map_ext. intros a. destruct (geqb (fst a) (fst gb)); reflexivity. }
        destruct (IH acc' ltac:(rewrite Hk; exact HN)) as (N & C & K). cbn zeta in *. split; [exact N|]. split.
        * intros h a Hh. apply C. destruct Hh as [[E|Hin]|[v0 [H1 H2]]].
          -- right. subst gb. cbn [fst snd] in *. apply gmem_In in Em. apply in_map_iff in Em. destruct Em as [[h' v'] [E' Hin']]. cbn [fst] in E'. subst h'.
             exists (merge_bnd v' a). split.
             ++ unfold acc'. apply in_map_iff. exists (h, v'). cbn [fst snd]. rewrite geqb_refl. split; [reflexivity | exact Hin'].
             ++ unfold tighter, merge_bnd; cbn [lo hi]. split; qcases; lra.
          -- left. exact Hin.
          -- right. destruct (geqb h (fst gb)) eqn:E.
             ++ exists (merge_bnd v0 (snd gb)). split.
                ** unfold acc'. apply in_map_iff. exists (h, v0). cbn [fst snd]. rewrite E. split; [reflexivity | exact H1].
                ** destruct H2 as [? ?]. unfold tighter, merge_bnd; cbn [lo hi]. split; qcases; lra.
             ++ exists v0. split; [|exact H2]. unfold acc'. apply in_map_iff. exists (h, v0). cbn [fst snd]. rewrite E. split; [reflexivity | exact H1].
        * intros h v Hin. destruct (K h v Hin) as [H|H]; [left; right; exact H | right; rewrite <- Hk; exact H].
      + assert (HN' : NoDup (keys_of (acc ++ [gb]))).
        { unfold keys_of. rewrite map_app. cbn [map]. apply NoDup_snoc; [exact HN|]. intro Hin. apply gmem_In in Hin. unfold keys_of in Hin. congruence. }
        destruct (IH (acc ++ [gb]) HN') as (N & C & K). cbn zeta in *. split; [exact N|]. split.
        * intros h a Hh. apply C. destruct Hh as [[E|Hin]|[v0 [H1 H2]]].
          -- right. exists a. subst gb. split; [apply in_or_app; right; left; reflexivity | apply tighter_refl].
          -- left. exact Hin.
          -- right. exists v0. split; [apply in_or_app; left; exact H1 | exact H2].
        * intros h v Hin. destruct (K h v Hin) as [H|H]; [left; right; exact H|].
          unfold keys_of in H. rewrite map_app in H. apply in_app_or in H. destruct H as [H|[H|[]]]; [right; exact H | left; left; exact H]. }
  destruct (G props [] ltac:(constructor)) as (N & C & K). cbn zeta in *. split; [exact N|]. split.
  - intros h a Hin. apply C. left; exact Hin.
  - intros h v Hin. destruct (K h v Hin) as [H|[]]. exact H.
Qed.

(* sequential raw writes at distinct keys *)
Lemma fold_raw_get j (amt : fstate -> gnd * bnd -> Q) l : NoDup (keys_of l) -> forall sa h v, In (h, v) l -> tmem (ftab (fst sa) j) h = true ->
  fget (fst (fold_left (fun sa' gb => (set_tab (fst sa') j (tset_cur (ftab (fst sa') j) (fst gb) (bred (snd gb))), Qred (snd sa' + amt (fst sa') gb))) l sa)) j h = bred v.
Proof.
  induction l as [|gb l IH]; intros HN sa h v Hin Hm; [contradiction|]. cbn [fold_left]. cbn [keys_of map] in HN. inversion HN as [|? ? Hn HN']; subst.
  change (set_tab (fst sa) j (tset_cur (ftab (fst sa) j) (fst gb) (bred (snd gb)))) with (raw_set (fst sa) j (fst gb) (bred (snd gb))).
  destruct Hin as [E|Hin].
  - subst gb. cbn [fst snd] in *.
    assert (G : forall l sa0, ~ In h (keys_of l) ->
              fget (fst (fold_left (fun sa' gb => (set_tab (fst sa') j (tset_cur (ftab (fst sa') j) (fst gb) (bred (snd gb))), Qred (snd sa' + amt (fst sa') gb))) l sa0)) j h = fget (fst sa0) j h).
    { clear. induction l as [|gb l IHl]; intros sa0 Hn; cbn [fold_left]; [reflexivity|]. rewrite IHl by (intro; apply Hn; right; assumption). cbn [fst].
      change (set_tab (fst sa0) j (tset_cur (ftab (fst sa0) j) (fst gb) (bred (snd gb)))) with (raw_set (fst sa0) j (fst gb) (bred (snd gb))).
      rewrite fget_raw_set. destruct (geqb h (fst gb)) eqn:E; [apply geqb_eq in E; exfalso; apply Hn; left; cbn; congruence|].
      rewrite andb_false_r. reflexivity. }
    rewrite G by exact Hn. cbn [fst]. rewrite fget_raw_set, Nat.eqb_refl, geqb_refl, Hm. reflexivity.
  - apply IH; [exact HN' | exact Hin|]. cbn [fst]. rewrite tmem_raw_set. exact Hm.
Qed.

Theorem write_many_tight s a j props h new : In (h, new) props -> tmem (ftab s j) h = true ->
  tighter (agg_bnd WBoth (fget s j h) new) (fget (fst (f_write_many (s, a) j props)) j h).
Proof.
  intros Hin Hm. unfold f_write_many. cbn [fst snd].
  set (agg := map (fun gb => (fst gb, agg_bnd WBoth (fget s j (fst gb)) (snd gb))) props).
  destruct (merge_dups_spec agg) as (N & C & _).
  destruct (C h (agg_bnd WBoth (fget s j h) new)) as [v [Hv Ht]].
  { unfold agg. apply in_map_iff. exists (h, new). split; [reflexivity | exact Hin]. }
  rewrite (fold_raw_get j (fun _ gb => moved (fget s j (fst gb)) (snd gb)) (merge_dups agg) N (s, a) h v Hv Hm).
  unfold tighter. rewrite lo_bred, hi_bred. exact Ht.
Qed.

(* downward writes only operand tables; the operator's own rows and every other object are untouched *)
Theorem conn_down_frame k s i idx x : ~ In x (fops (getf k i)) ->
  match oper_groundings k s i DDown with
  | Some (gs, s1) => ftab (fst (f_conn_down k s i idx)) x = ftab s1 x
  | None => fst (f_conn_down k s i idx) = s
  end.
Proof.
  intros Hx. unfold f_conn_down. destruct (oper_groundings k s i DDown) as [[gs s1]|]; [|reflexivity].
  match goal with |- ftab (fst (fold_left ?f ?tg0 (s1, 0))) x = _ =>
    assert (G : forall tg sa, (forall t, In t tg -> In (fst (snd t)) (fops (getf k i))) -> ftab (fst (fold_left f tg sa)) x = ftab (fst sa) x) end.
  { induction tg as [|t tg IH]; intros sa Ht; cbn [fold_left]; [reflexivity|]. rewrite IH by (intros; apply Ht; right; assumption).
    destruct sa as [s' a']. cbn [fst]. apply ftab_f_write_many_other. intro E. apply Hx. rewrite E. apply Ht. left; reflexivity. }
  apply (G _ (s1, 0)). intros t Ht. apply in_select in Ht. apply nth_error_In in Ht. destruct (snd t) as [j m]. cbn [fst]. apply (in_combine_l _ _ _ _ Ht).
Qed.
