(* Store.v -- M6: what Model.add_data accepts.  A user value is abstracted to the shapes the
   validation code distinguishes.  Mirrors lnn/model.py:add_data, lnn/_exceptions.py:AssertBounds
   (AssertBoundsType / AssertBoundsLen / AssertBoundsInputs), AssertFOLFacts, AssertFormulaInModel,
   lnn/symbolic/logic/formula.py:add_data (bool -> Fact, "FOL facts should be from dict"),
   lnn/_utils.py:fact_to_bounds. *)
From LNN Require Export Num Neuron Node.
From LNN.Generated Require Import Tables.
Open Scope Q_scope.

Inductive value :=
| VFact (b : Q * Q)        (* a member of Fact or World *)
| VBool (t : bool)
| VFloat (x : Q)
| VPair (l u : Q)          (* tuple of two numbers *)
| VTuple (n : nat)         (* tuple of n numbers in range, n <> 2 *)
| VStrPair                 (* tuple of two non-numbers *)
| VDict (inner : list value)   (* a dict {grounding: value} *)
| VOther.                  (* int, str, None, list, ... : not an accepted type *)

Inductive verr := ETypeError | EIndexError | EException.

Definition in_unit (x : Q) : bool := qleb 0 x && qleb x 1.
Definition pairb (p : Q * Q) : bnd := B (fst p) (snd p).

(* AssertBounds + conversion; inr = accepted bounds *)
Definition validate_bounds (v : value) : verr + bnd :=
  match v with
  | VFact b => inr (pairb b)
  | VBool t => inr (pairb (if t then Fact_TRUE else Fact_FALSE))
  | VFloat x => if in_unit x then inr (B x x) else inl EIndexError
  | VPair l u => if in_unit l && in_unit u then inr (B l u) else inl EIndexError
  | VTuple _ => inl EIndexError
  | VStrPair => inl ETypeError
  | VDict _ => inl ETypeError
  | VOther => inl ETypeError
  end.

Inductive target := TPropMember | TPropOutsider | TFolMember | TFolOutsider.

(* Model.add_data({formula: v}) : error class, or the bounds stored per asserted grounding
   (one entry for a propositional formula) *)
Fixpoint validate_all (vs : list value) : verr + list bnd :=
  match vs with
  | [] => inr []
  | v :: r => match validate_bounds v with
              | inl e => inl e
              | inr b => match validate_all r with inl e => inl e | inr bs => inr (b :: bs) end
              end
  end.
Definition validate (t : target) (v : value) : verr + list bnd :=
  match t with
  | TPropOutsider | TFolOutsider => inl EException
  | TPropMember => match validate_bounds v with inl e => inl e | inr b => inr [b] end
  | TFolMember => match v with
                  | VDict inner => validate_all inner
                  | _ => inl EException     (* formula.add_data: "FOL facts should be from [dict, set]" *)
                  end
  end.
