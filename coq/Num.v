(* Num.v -- exact rational number domain of the LNN model (stdlib Q).
   qmax/qmin/clamp01 return one of their arguments (Leibniz), are opaque, and are
   only reasoned about through qmax_spec/qmin_spec. *)
From Coq Require Export QArith List Bool Lia.
From Coq Require Export Lqa.
Export ListNotations.
Open Scope Q_scope.

Definition qmax (a b : Q) : Q := if Qlt_le_dec a b then b else a.
Definition qmin (a b : Q) : Q := if Qlt_le_dec a b then a else b.
Definition clamp01 (x : Q) : Q := qmax 0 (qmin 1 x).
Definition qabs (x : Q) : Q := if Qlt_le_dec x 0 then - x else x.

Lemma qmax_spec a b : (a < b /\ qmax a b = b) \/ (b <= a /\ qmax a b = a).
Proof. unfold qmax; destruct (Qlt_le_dec a b); auto. Qed.
Lemma qmin_spec a b : (a < b /\ qmin a b = a) \/ (b <= a /\ qmin a b = b).
Proof. unfold qmin; destruct (Qlt_le_dec a b); auto. Qed.
Lemma qabs_spec x : (x < 0 /\ qabs x = - x) \/ (0 <= x /\ qabs x = x).
Proof. unfold qabs; destruct (Qlt_le_dec x 0); auto. Qed.

(* boolean comparisons used by executable definitions *)
Definition qltb (a b : Q) : bool := if Qlt_le_dec a b then true else false.
Definition qleb (a b : Q) : bool := if Qlt_le_dec b a then false else true.
Definition qeqb (a b : Q) : bool := Qeq_bool a b.

Lemma qltb_true a b : qltb a b = true <-> a < b.
Proof. unfold qltb; destruct (Qlt_le_dec a b); split; intros; auto; try discriminate; lra. Qed.
Lemma qltb_false a b : qltb a b = false <-> b <= a.
Proof. unfold qltb; destruct (Qlt_le_dec a b); split; intros; auto; try discriminate; lra. Qed.
Lemma qleb_true a b : qleb a b = true <-> a <= b.
Proof. unfold qleb; destruct (Qlt_le_dec b a); split; intros; auto; try discriminate; lra. Qed.
Lemma qleb_false a b : qleb a b = false <-> b < a.
Proof. unfold qleb; destruct (Qlt_le_dec b a); split; intros; auto; try discriminate; lra. Qed.
Lemma qeqb_true a b : qeqb a b = true <-> a == b.
Proof. unfold qeqb; split; [apply Qeq_bool_eq | apply Qeq_eq_bool]. Qed.
Lemma qeqb_false a b : qeqb a b = false <-> ~ a == b.
Proof.
  unfold qeqb; split; intros H.
  - intro E; apply Qeq_eq_bool in E; congruence.
  - destruct (Qeq_bool a b) eqn:E; auto. apply Qeq_bool_eq in E; contradiction.
Qed.

Global Opaque qmax qmin qabs qltb qleb qeqb.

(* case analysis: one constructor occurrence at a time *)
Ltac qcase1 :=
  match goal with
  | |- context [qmax ?a ?b] =>
      let H := fresh "Hc" in let E := fresh "E" in
      destruct (qmax_spec a b) as [[H E]|[H E]]; rewrite E in *; clear E
  | |- context [qmin ?a ?b] =>
      let H := fresh "Hc" in let E := fresh "E" in
      destruct (qmin_spec a b) as [[H E]|[H E]]; rewrite E in *; clear E
  | |- context [qabs ?a] =>
      let H := fresh "Hc" in let E := fresh "E" in
      destruct (qabs_spec a) as [[H E]|[H E]]; rewrite E in *; clear E
  | H0 : context [qmax ?a ?b] |- _ =>
      let H := fresh "Hc" in let E := fresh "E" in
      destruct (qmax_spec a b) as [[H E]|[H E]]; rewrite E in *; clear E
  | H0 : context [qmin ?a ?b] |- _ =>
      let H := fresh "Hc" in let E := fresh "E" in
      destruct (qmin_spec a b) as [[H E]|[H E]]; rewrite E in *; clear E
  | H0 : context [qabs ?a] |- _ =>
      let H := fresh "Hc" in let E := fresh "E" in
      destruct (qabs_spec a) as [[H E]|[H E]]; rewrite E in *; clear E
  end.
Ltac qcases := unfold clamp01 in *; repeat qcase1.

(* boolean comparison case analysis *)
Ltac qbool1 :=
  match goal with
  | |- context [qltb ?a ?b] =>
      let E := fresh "Eb" in destruct (qltb a b) eqn:E;
      [apply qltb_true in E | apply qltb_false in E]
  | |- context [qleb ?a ?b] =>
      let E := fresh "Eb" in destruct (qleb a b) eqn:E;
      [apply qleb_true in E | apply qleb_false in E]
  | |- context [qeqb ?a ?b] =>
      let E := fresh "Eb" in destruct (qeqb a b) eqn:E;
      [apply qeqb_true in E | apply qeqb_false in E]
  | H0 : context [qltb ?a ?b] |- _ =>
      let E := fresh "Eb" in destruct (qltb a b) eqn:E;
      [apply qltb_true in E | apply qltb_false in E]
  | H0 : context [qleb ?a ?b] |- _ =>
      let E := fresh "Eb" in destruct (qleb a b) eqn:E;
      [apply qleb_true in E | apply qleb_false in E]
  | H0 : context [qeqb ?a ?b] |- _ =>
      let E := fresh "Eb" in destruct (qeqb a b) eqn:E;
      [apply qeqb_true in E | apply qeqb_false in E]
  end.
Ltac qbools := repeat qbool1.

Lemma clamp01_range x : 0 <= clamp01 x <= 1.
Proof. qcases; lra. Qed.
Lemma clamp01_id x : 0 <= x <= 1 -> clamp01 x == x.
Proof. intros H. qcases; lra. Qed.
Lemma clamp01_ge x y : 0 < y -> y <= clamp01 x -> y <= x.
Proof. intros Hy H. qcases; lra. Qed.
Lemma clamp01_le x y : y < 1 -> clamp01 x <= y -> x <= y.
Proof. intros Hy H. qcases; lra. Qed.
Lemma clamp01_mono x y : x <= y -> clamp01 x <= clamp01 y.
Proof. intros H. qcases; lra. Qed.
Lemma clamp01_compl x : clamp01 (1 - x) == 1 - clamp01 x.
Proof. qcases; lra. Qed.

Global Instance qmax_compat : Proper (Qeq ==> Qeq ==> Qeq) qmax.
Proof. intros a a' Ha b b' Hb. qcases; lra. Qed.
Global Instance qmin_compat : Proper (Qeq ==> Qeq ==> Qeq) qmin.
Proof. intros a a' Ha b b' Hb. qcases; lra. Qed.
Global Instance clamp01_compat : Proper (Qeq ==> Qeq) clamp01.
Proof. intros a a' Ha. qcases; lra. Qed.
Global Instance qabs_compat : Proper (Qeq ==> Qeq) qabs.
Proof. intros a a' Ha. qcases; lra. Qed.

Fixpoint qsum (l : list Q) : Q :=
  match l with [] => 0 | x :: r => x + qsum r end.

Lemma qsum_nonneg l : Forall (fun x => 0 <= x) l -> 0 <= qsum l.
Proof. induction 1; simpl; lra. Qed.
Lemma qsum_app l1 l2 : qsum (l1 ++ l2) == qsum l1 + qsum l2.
Proof. induction l1; simpl; lra. Qed.
Lemma qsum_zero_iff l : Forall (fun x => 0 <= x) l -> (qsum l == 0 <-> Forall (fun x => x == 0) l).
Proof.
  induction 1 as [|x l Hx Hl IH]; simpl.
  - split; auto; reflexivity.
  - pose proof (qsum_nonneg l Hl). split.
    + intros E. assert (x == 0) by lra. assert (qsum l == 0) by lra. constructor; tauto.
    + intros F. inversion F as [|? ? Fx Fl]; subst. apply IH in Fl. lra.
Qed.
