(* PropRun.v -- scenario decoding / observation encoding for the propositional engine (K3/K4). *)
From LNN Require Import Num Neuron Node Sx PropEngine.
Open Scope Z_scope.

Definition dkind (s : sx) : kind :=
  match dz s with
  | 0 => KProp | 1 => KNot | 2 => KConn CAnd | 3 => KConn COr | 4 => KConn CImp | 5 => KIff | _ => KXor
  end.
Definition dobj (s : sx) : obj :=
  match s with
  | L [kd; ops; p; aux] => Obj (dkind kd) (dlist dnat ops) (dparams p) (dlist dnat aux)
  | _ => dummy_obj
  end.
Definition dstate (data : list sx) (default : bnd) : state :=
  fold_left (fun s d => match d with L [i; b] => upd s (dnat i) (dbnd b) | _ => s end) data (fun _ => default).
Definition dopti (s : sx) : option nat := if Z.ltb (dz s) 0 then None else Some (dnat s).
Definition estate (n : nat) (s : state) : sx := L (map (fun i => ebnd (s i)) (seq 0 n)).

(* world state of the interpreter: current bounds + the stored data (leaves) for reset_bounds *)
(* pw_roots: the objects handed to add_knowledge so far, in call order (later calls append) *)
Record pworld := PW { pw_cur : state; pw_leaves : state; pw_query : option (nat * bool); pw_roots : list nat }.

Definition run_op (k : kb) (w : pworld) (op : sx) : pworld * sx :=
  let n := length k in
  let roots := pw_roots w in
  let s := pw_cur w in
  match op with
  | L [A 1; i] =>
      let r := run_prims k (s, 0%Q) (node_up k (dnat i)) in
      (PW (fst r) (pw_leaves w) (pw_query w) roots, L [eq_ (snd r); estate n (fst r)])
  | L [A 2; i; idx] =>
      let r := run_prims k (s, 0%Q) (node_down k (dnat i) (dopti idx)) in
      (PW (fst r) (pw_leaves w) (pw_query w) roots, L [eq_ (snd r); estate n (fst r)])
  | L [A 3; src] =>
      let r := infer 1 k roots (Some Up) (dopti src) (pw_query w) 0 s in
      (PW (ir_state r) (pw_leaves w) (pw_query w) roots, L [enat (ir_steps r); eq_ (ir_amount r); estate n (ir_state r)])
  | L [A 4; src] =>
      let r := infer 1 k roots (Some Down) (dopti src) (pw_query w) 0 s in
      (PW (ir_state r) (pw_leaves w) (pw_query w) roots, L [enat (ir_steps r); eq_ (ir_amount r); estate n (ir_state r)])
  | L [A 5; src; ms] =>
      let r := infer (S (dnat ms)) k roots None (dopti src) (pw_query w) (dnat ms) s in
      (PW (ir_state r) (pw_leaves w) (pw_query w) roots, L [enat (ir_steps r); eq_ (ir_amount r); estate n (ir_state r)])
  | L [A 6; q; conv] =>  (* set_query(q, converge): add_knowledge(q, world=OPEN) resets q to the OPEN world *)
      let q := dnat q in
      (PW (upd s q unknown) (upd (pw_leaves w) q unknown) (Some (q, dbool conv)) roots, L [estate n (upd s q unknown)])
  | L [A 7] =>  (* reset_bounds *)
      (PW (pw_leaves w) (pw_leaves w) (pw_query w) roots, L [estate n (pw_leaves w)])
  | L [A 8; i; b] =>  (* add_data on object i: stored as data (leaves) and as current bounds *)
      let s' := upd s (dnat i) (dbnd b) in
      (PW s' (upd (pw_leaves w) (dnat i) (dbnd b)) (pw_query w) roots, L [estate n s'])
  | L [A 10] =>  (* flush: every registered object back to UNKNOWN, stored data erased *)
      (PW (fun _ => unknown) (fun _ => unknown) (pw_query w) roots, L [estate n (fun _ => unknown)])
  | L [A 11; i; wl] =>  (* add_knowledge(i, world=wl) on a formula of the model: its bounds AND its stored data become the world *)
      let s' := upd s (dnat i) (dbnd wl) in
      (PW s' (upd (pw_leaves w) (dnat i) (dbnd wl)) (pw_query w) (roots ++ [dnat i]), L [estate n s'])
  | L [A 16] =>  (* read-only calls: Model.print(), state(), is_contradiction(), get_data() of every object: nothing changes *)
      (w, L [estate n s])
  | L [A 13; r] =>  (* a later add_knowledge(r) call: r joins the registered roots; no bounds change *)
      (PW s (pw_leaves w) (pw_query w) (roots ++ [dnat r]), L [estate n s])
  | L [A 9] =>  (* has_contradiction over all registered objects (= reachable from the roots) *)
      (w, L [ebool (has_contradiction k (postorder k roots) s)])
  | _ => (w, bad)
  end.

(* (3 kb roots data ops) *)
Definition run_k3 (args : list sx) : sx :=
  match args with
  | kbs :: roots :: data :: ops :: _ =>   (* an optional 5th field (hidden interpretation) is ignored *)
      let k := dlist dobj kbs in
      if negb (wf_kbb k) then L [A (-996)] else
      let roots := dlist dnat roots in
      let s0 := dstate (match data with L l => l | _ => [] end) unknown in
      let ops := match ops with L l => l | _ => [] end in
      L (rev (snd (fold_left (fun (acc : pworld * list sx) op =>
                                let r := run_op k (fst acc) op in (fst r, snd r :: snd acc))
                             ops (PW s0 s0 None roots, []))))
  | _ => bad
  end.

(* (4 kb roots1 roots2 data ops1 ops2 ...): the same KB and data under two root orders / schedules *)
Definition run_k4 (args : list sx) : sx :=
  match args with
  | kbs :: roots1 :: roots2 :: data :: ops1 :: ops2 :: _ =>
      L [run_k3 [kbs; roots1; data; ops1]; run_k3 [kbs; roots2; data; ops2]]
  | _ => bad
  end.
