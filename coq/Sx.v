(* Sx.v -- integer s-expressions: the wire format between the harness and the extracted
   model.  All decoding of scenarios and encoding of observations is done in Gallina, so the
   OCaml driver only tokenises. *)
From LNN Require Import Num Neuron.
Open Scope Z_scope.

Inductive sx := A (z : Z) | L (l : list sx).

Definition bad : sx := L [A (-999)].

Definition dq (s : sx) : Q :=
  match s with
  | L [A n; A d] => Qmake n (Z.to_pos d)
  | A n => inject_Z n
  | _ => 0%Q
  end.
Definition eq_ (q : Q) : sx := let r := Qred q in L [A (Qnum r); A (Zpos (Qden r))].
Definition dbnd (s : sx) : bnd :=
  match s with L [a; b] => B (dq a) (dq b) | _ => unknown end.
Definition ebnd (b : bnd) : sx := L [eq_ (lo b); eq_ (hi b)].
Definition dlist {T} (f : sx -> T) (s : sx) : list T :=
  match s with L l => map f l | A _ => [] end.
Definition dz (s : sx) : Z := match s with A z => z | _ => 0 end.
Definition dnat (s : sx) : nat := Z.to_nat (dz s).
Definition enat (n : nat) : sx := A (Z.of_nat n).
Definition ebool (b : bool) : sx := A (if b then 1 else 0).
Definition dbool (s : sx) : bool := negb (Z.eqb (dz s) 0).
Definition dconn (s : sx) : conn :=
  match dz s with 0 => CAnd | 1 => COr | _ => CImp end.
Definition dvariant (s : sx) : variant :=
  match dz s with 0 => VPlain | _ => VTransparent end.
Definition dopt {T} (f : sx -> T) (s : sx) : option T :=
  match s with L [x] => Some (f x) | _ => None end.
Definition eopt {T} (f : T -> sx) (o : option T) : sx :=
  match o with Some x => L [f x] | None => L [] end.
(* params: (alpha bias (w...) variant) *)
Definition dparams (s : sx) : nparams :=
  match s with
  | L [a; b; ws; v] => NP (dq a) (dq b) (dlist dq ws) (dvariant v)
  | _ => NP 1 1 [] VTransparent
  end.
