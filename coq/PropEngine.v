(* PropEngine.v -- M3/M4/M5 for propositional knowledge bases.

   Objects are identified by their index in the knowledge base list (object identity, not
   structure: two structurally equal formulae written twice are two indices).  Every public
   inference call of the code is expanded into a list of PRIMITIVE steps; a primitive step reads
   the current state, plans a batch of (object, proposed bounds) writes and applies them by
   aggregation.  Mirrors
     lnn/symbolic/logic/connective_neuron.py:upward/downward,
     lnn/symbolic/_gm.py:upward_bounds/downward_bounds/_is_contradiction/_propositional_bounds,
     lnn/symbolic/logic/unary_operator.py:Not, binary_neuron.py:Iff, n_ary_neuron.py:XOr,
     lnn/model.py:_traverse_execute/_infer (DFS post-order of networkx over the formula graph). *)
From LNN Require Export Num Neuron Node.
Open Scope Q_scope.

Inductive kind := KProp | KNot | KConn (c : conn) | KIff | KXor.

(* oops: operand ids.  Iff: [Imp1; Imp2].  XOr: negations ++ [disjunction], oaux = conjunctions.
   opar: neuron parameters (alpha is also the node alpha of leaves and Not). *)
Record obj := Obj { okind : kind; oops : list nat; opar : nparams; oaux : list nat }.
Definition kb := list obj.
Definition dummy_obj : obj := Obj KProp [] (NP 1 1 [] VTransparent) [].
Definition getobj (k : kb) (i : nat) : obj := nth i k dummy_obj.
Definition oalpha (o : obj) : Q := alpha (opar o).

Definition state := nat -> bnd.
Definition upd (s : state) (j : nat) (b : bnd) : state := fun i => if Nat.eqb i j then b else s i.

(* the connective whose activation an object uses (Iff and XOr compute an And) *)
Definition conn_of (kd : kind) : conn :=
  match kd with KConn c => c | _ => CAnd end.

(* ---------- atomic write = aggregate_bounds on one object ---------- *)
Definition batch := list (nat * bnd).
(* Qred keeps the representation of the rationals small; it does not change their value *)
Definition write (sa : state * Q) (jb : nat * bnd) : state * Q :=
  let s := fst sa in
  let r := aggregate WBoth (s (fst jb)) (snd jb) in
  (upd s (fst jb) (bred (fst r)), Qred (snd sa + snd r)).
Definition apply_batch (sa : state * Q) (b : batch) : state * Q := fold_left write b sa.

(* ---------- contradiction arresting (propositional) ---------- *)
Definition obj_contra (k : kb) (s : state) (i : nat) : bool := is_contra (oalpha (getobj k i)) (s i).
(* _is_contradiction(operator, operands) or is_contradiction(input_bounds, stacked=True):
   every operand with its own alpha, the operator, and the first two operand columns with the
   operator's alpha *)
Definition arrested (k : kb) (s : state) (i : nat) : bool :=
  let o := getobj k i in
  obj_contra k s i
  || existsb (obj_contra k s) (oops o)
  || existsb (fun j => is_contra (oalpha o) (s j)) (firstn 2 (oops o)).

(* ---------- primitive steps ---------- *)
Inductive pstep :=
| PUp (i : nat)                       (* _ConnectiveNeuron.upward of a neuron object *)
| PDown (i : nat) (idx : option nat)  (* _ConnectiveNeuron.downward, optional operand index *)
| PNotUp (i : nat)
| PNotDown (i : nat).

Definition select {T} (idx : option nat) (l : list T) : list (nat * T) :=
  let il := combine (seq 0 (length l)) l in
  match idx with
  | None => il
  | Some n => filter (fun p => Nat.eqb (fst p) n) il
  end.

Definition plan (k : kb) (s : state) (p : pstep) : batch :=
  match p with
  | PUp i =>
      let o := getobj k i in
      if arrested k s i then [] else [(i, act_up (conn_of (okind o)) (opar o) (map s (oops o)))]
  | PDown i idx =>
      let o := getobj k i in
      if arrested k s i then [] else
      let new := act_down (conn_of (okind o)) (opar o) (s i) (map s (oops o)) in
      map (fun p => (snd (snd p), fst (snd p)))
          (select idx (combine new (oops o)))
  | PNotUp i =>
      match oops (getobj k i) with
      | j :: _ => [(i, neg (s j))]
      | [] => []
      end
  | PNotDown i =>
      match oops (getobj k i) with
      | j :: _ => [(j, neg (s i))]
      | [] => []
      end
  end.

Definition run_prim (k : kb) (sa : state * Q) (p : pstep) : state * Q :=
  apply_batch sa (plan k (fst sa) p).
Definition run_prims (k : kb) (sa : state * Q) (ps : list pstep) : state * Q :=
  fold_left (run_prim k) ps sa.

(* ---------- expansion of node-level calls into primitive steps ---------- *)
(* what a sub-call made by Iff / XOr on one of its private sub-objects does *)
Definition simple_up (k : kb) (i : nat) : list pstep :=
  match okind (getobj k i) with
  | KNot => [PNotUp i]
  | KConn _ => [PUp i]
  | _ => []
  end.
Definition simple_down (k : kb) (i : nat) (idx : option nat) : list pstep :=
  match okind (getobj k i) with
  | KNot => [PNotDown i]
  | KConn _ => [PDown i idx]
  | _ => []
  end.

Definition xor_negs (o : obj) : list nat := removelast (oops o).
Definition xor_disj (o : obj) : list nat := match rev (oops o) with d :: _ => [d] | [] => [] end.

Definition node_up (k : kb) (i : nat) : list pstep :=
  let o := getobj k i in
  match okind o with
  | KProp => []
  | KNot => [PNotUp i]
  | KConn _ => [PUp i]
  | KIff => flat_map (simple_up k) (oops o) ++ [PUp i]
  | KXor => flat_map (simple_up k) (oaux o) ++ flat_map (simple_up k) (xor_negs o)
            ++ flat_map (simple_up k) (xor_disj o) ++ [PUp i]
  end.

Definition node_down (k : kb) (i : nat) (idx : option nat) : list pstep :=
  let o := getobj k i in
  match okind o with
  | KProp => []
  | KNot => [PNotDown i]
  | KConn _ => [PDown i idx]
  | KIff => PDown i idx :: flat_map (fun j => simple_down k j idx) (oops o)
  | KXor => PDown i idx :: flat_map (fun j => simple_down k j None) (xor_negs o)
            ++ flat_map (fun j => simple_down k j None) (oaux o)
            ++ flat_map (fun j => simple_down k j None) (xor_disj o)
  end.

(* ---------- graph traversal: networkx dfs_postorder_nodes ---------- *)
Definition children (k : kb) (i : nat) : list nat := oops (getobj k i).
Fixpoint memb (x : nat) (l : list nat) : bool :=
  match l with [] => false | y :: r => Nat.eqb x y || memb x r end.

(* acc = post-order emitted so far; in a DAG "already emitted" = "already visited" *)
Fixpoint dfs (fuel : nat) (k : kb) (acc : list nat) (i : nat) : list nat :=
  match fuel with
  | O => acc
  | S f => if memb i acc then acc else fold_left (dfs f k) (children k i) acc ++ [i]
  end.
Definition postorder (k : kb) (roots : list nat) : list nat :=
  fold_left (dfs (S (length k)) k) roots [].

Inductive dir := Up | Down.
(* the nodes a traversal visits: source = None -> from all roots *)
Definition traversal (k : kb) (roots : list nat) (d : dir) (src : option nat) : list nat :=
  let po := match src with None => postorder k roots | Some s => postorder k [s] end in
  match d with Up => po | Down => rev po end.

Definition pass_steps (k : kb) (roots : list nat) (d : dir) (src : option nat) : list pstep :=
  flat_map (fun i => match d with Up => node_up k i | Down => node_down k i None end)
           (traversal k roots d src).

(* one model pass; returns the new state and the amount it reports *)
Definition pass (k : kb) (roots : list nat) (d : dir) (src : option nat) (s : state) : state * Q :=
  run_prims k (s, 0) (pass_steps k roots d src).

(* ---------- Model._infer ---------- *)
(* query: Some (q, converge_flag); is_classically_resolved: bounds are exactly AXIOM, CONTRADICTION
   or FALSE as tuples *)
Definition classically_resolved (b : bnd) : bool :=
  (qeqb (lo b) 1 && qeqb (hi b) 1) || (qeqb (lo b) 1 && qeqb (hi b) 0) || (qeqb (lo b) 0 && qeqb (hi b) 0).

Record infer_result := IR { ir_state : state; ir_steps : nat; ir_amount : Q; ir_fuel_out : bool }.

(* dirs: None = [UPWARD; DOWNWARD] until convergence, Some d = a single pass of d.
   max_steps: 0 = unlimited (Python: `if max_steps and ...`). *)
Fixpoint infer_loop (fuel : nat) (k : kb) (roots : list nat) (dirs : option dir) (src : option nat)
         (query : option (nat * bool)) (max_steps : nat)
         (s : state) (steps : nat) (total : Q) : infer_result :=
  match fuel with
  | O => IR s steps total true
  | S f =>
      let stop_q := match query with
                    | Some (q, conv) => classically_resolved (s q) && negb conv
                    | None => false
                    end in
      if stop_q then IR s steps total false else
      let r := match dirs with
               | None => let r1 := pass k roots Up src s in
                         let r2 := pass k roots Down src (fst r1) in
                         (fst r2, snd r1 + snd r2)
               | Some d => pass k roots d src s
               end in
      let converged := match dirs with Some _ => true | None => infer_converged (snd r) end in
      let total' := total + snd r in
      let steps' := S steps in
      if converged then IR (fst r) steps' total' false
      else if (negb (Nat.eqb max_steps 0) && Nat.leb max_steps steps')%bool then IR (fst r) steps' total' false
      else infer_loop f k roots dirs src query max_steps (fst r) steps' total'
  end.

Definition infer (fuel : nat) (k : kb) (roots : list nat) (dirs : option dir) (src : option nat)
           (query : option (nat * bool)) (max_steps : nat) (s : state) : infer_result :=
  infer_loop fuel k roots dirs src query max_steps s 0 0.

Definition has_contradiction (k : kb) (registered : list nat) (s : state) : bool :=
  existsb (obj_contra k s) registered.

(* ---------- semantics: interpretations ---------- *)
(* an interpretation assigns a value to EVERY object consistently with the truth functions *)
Definition obj_value (o : obj) (vals : nat -> Q) : Q :=
  match okind o with
  | KProp => 0  (* unconstrained: see consistent *)
  | KNot => match oops o with j :: _ => 1 - vals j | [] => 0 end
  | kd => act_f (conn_of kd) (opar o) (map vals (oops o))
  end.
Definition consistent (k : kb) (vals : nat -> Q) : Prop :=
  (forall i, 0 <= vals i <= 1) /\
  forall i, (i < length k)%nat -> okind (getobj k i) <> KProp -> vals i == obj_value (getobj k i) vals.

(* ---------- well-formedness of a knowledge base ---------- *)
Definition wf_obj (k : kb) (i : nat) (o : obj) : Prop :=
  Forall (fun j => (j < i)%nat) (oops o) /\ Forall (fun j => (j < i)%nat) (oaux o) /\
  (1 # 2 < alpha (opar o) /\ alpha (opar o) <= 1) /\
  match okind o with
  | KProp => oops o = []
  | KNot => length (oops o) = 1%nat
  | KConn CImp => length (oops o) = 2%nat /\ length (weights (opar o)) = 2%nat /\ Forall (fun w => 0 <= w) (weights (opar o))
  | KConn _ | KIff | KXor =>
      (2 <= length (oops o))%nat /\ length (weights (opar o)) = length (oops o) /\ Forall (fun w => 0 <= w) (weights (opar o))
  end /\
  (* the conjunctions an XOr updates are the operands of its negations *)
  Forall (fun c => exists m, In m (oops o) /\ In c (oops (getobj k m))) (oaux o).
Definition wf_kb (k : kb) : Prop := forall i, (i < length k)%nat -> wf_obj k i (getobj k i).

(* executable wf check used by the correspondence driver *)
Definition wf_objb (k : kb) (i : nat) (o : obj) : bool :=
  forallb (fun c => existsb (fun m => memb c (oops (getobj k m))) (oops o)) (oaux o) &&
  forallb (fun j => Nat.ltb j i) (oops o) && forallb (fun j => Nat.ltb j i) (oaux o) &&
  qltb (1 # 2) (alpha (opar o)) && qleb (alpha (opar o)) 1 &&
  match okind o with
  | KProp => match oops o with [] => true | _ => false end
  | KNot => Nat.eqb (length (oops o)) 1
  | KConn CImp => Nat.eqb (length (oops o)) 2 && Nat.eqb (length (weights (opar o))) 2 && forallb (qleb 0) (weights (opar o))
  | _ => Nat.leb 2 (length (oops o)) && Nat.eqb (length (weights (opar o))) (length (oops o)) && forallb (qleb 0) (weights (opar o))
  end.
Definition wf_kbb (k : kb) : bool :=
  forallb (fun p => wf_objb k (fst p) (snd p)) (combine (seq 0 (length k)) k).

(* ---------- public operations (what a user can call between two data updates) ---------- *)
Inductive pubop :=
| ONodeUp (i : nat)
| ONodeDown (i : nat) (idx : option nat)
| OModelUp (src : option nat)
| OModelDown (src : option nat)
| OInfer (src : option nat) (max_steps : nat) (fuel : nat).

(* new state and reported amount *)
Definition exec_op (k : kb) (roots : list nat) (s : state) (o : pubop) : state * Q :=
  match o with
  | ONodeUp i => run_prims k (s, 0) (node_up k i)
  | ONodeDown i idx => run_prims k (s, 0) (node_down k i idx)
  | OModelUp src => pass k roots Up src s
  | OModelDown src => pass k roots Down src s
  | OInfer src ms fuel =>
      let r := infer fuel k roots None src None ms s in (ir_state r, ir_amount r)
  end.
Definition exec_ops (k : kb) (roots : list nat) (s : state) (ops : list pubop) : state :=
  fold_left (fun st o => fst (exec_op k roots st o)) ops s.
