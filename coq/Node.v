(* Node.v -- M2: bound aggregation, output regions, contradiction, state.
   Mirrors lnn/neural/activations/node.py (aggregate_bounds, output_regions,
   is_contradiction, state).  Region thresholds, the contradiction rule and the state
   table come from Generated/Tables.v, i.e. from the current source. *)
From LNN Require Export Neuron StateCodes.
From LNN.Generated Require Export Tables.

Inductive which := WBoth | WLower | WUpper.

(* aggregate_bounds without duplicates: L := max, U := min, val_clamp; returns the
   new bounds and the amount moved *)
Definition agg_bnd (w : which) (old new : bnd) : bnd :=
  B (clamp01 (match w with WUpper => lo old | _ => qmax (lo old) (lo new) end))
    (clamp01 (match w with WLower => hi old | _ => qmin (hi old) (hi new) end)).
Definition moved (old new : bnd) : Q := qabs (lo new - lo old) + qabs (hi new - hi old).
Definition aggregate (w : which) (old new : bnd) : bnd * Q :=
  let r := agg_bnd w old new in (r, moved old r).

(* merging of duplicate rows (duplicates=True): running max of lowers, min of uppers *)
Definition merge_bnd (a b : bnd) : bnd := B (qmax (lo a) (lo b)) (qmin (hi a) (hi b)).

(* output_regions: 0 means "raises" *)
Definition region_of (al y : Q) : Z :=
  fold_left (fun (acc : Z) (r : bool * Z) => if fst r then snd r else acc)
            (region_rules (Yf_of al) (Yt_of al) y) 0%Z.

Definition is_contra (al : Q) (b : bnd) : bool :=
  contra_rule (lo b) (hi b) (region_of al (lo b)) (region_of al (hi b)).

Definition state_code (al : Q) (b : bnd) : option scode :=
  let rl := region_of al (lo b) in
  let ru := region_of al (hi b) in
  if (Z.eqb rl 0 || Z.eqb ru 0)%bool then None else
  fold_left (fun (acc : option scode) (r : bool * scode) => if fst r then Some (snd r) else acc)
            (state_rules (lo b) (hi b) rl ru) None.

(* the closed form the property talks about *)
Definition crossed_outside_tolerance (al : Q) (b : bnd) : Prop :=
  hi b < lo b /\ ~ (lo b <= 1 - al /\ hi b <= 1 - al) /\ ~ (al <= lo b /\ al <= hi b).
