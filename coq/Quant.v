(* Quant.v -- M8: Forall / Exists over first-order tables (after the fix commits: the fully quantified
   inverse ranges over all instances, a fully quantified formula keeps its bounds across upward passes,
   table rows of a quantifier with free variables follow its grounding table).

   A quantifier object reads the table of its operand.  The FREE variables of the quantified formula
   select, for every operand grounding, the GROUP it belongs to (its projection on the free-variable
   positions; the empty tuple when everything is quantified).  Every group owns one And (Forall) / Or
   (Exists) neuron with unit weights whose arity is the number of instances of the group.
   Mirrors lnn/symbolic/logic/unary_operator.py:_Quantifier.upward/downward/_fully_quantified_upward/
   _fully_quantified_downward/_get_groupings/_create_neuron/_add_neuron.
   A group's neuron is resized when its instance count changes and keeps its bounds (after the fix),
   the quantifier's visible table is what the last upward() stacked, a
   downward() before any upward() of a grounding fails.  Not modelled: bounds written into a quantifier's
   table from outside (parent downward, add_data) -- see the recorded known finding --, downward through a
   quantifier whose operand is itself a quantifier. *)
From LNN Require Export Num Neuron Node PropEngine Fol.
Open Scope Q_scope.

Inductive qkind := QForall | QExists.
Record qobj := QObj { qk : qkind; qop : nat; qfree : list nat; qfull : bool; qworld : bnd }.

(* per group: neuron arity and neuron bounds; qtab: the table get_data() reads (stacked by the last upward) *)
Record qstate := QS { qneu : list (gnd * (nat * bnd)); qtab : list (gnd * bnd) }.
Definition qempty : qstate := QS [] [].

Fixpoint qfind {T} (l : list (gnd * T)) (g : gnd) : option T :=
  match l with [] => None | (h, x) :: r => if geqb g h then Some x else qfind r g end.
Fixpoint qset {T} (l : list (gnd * T)) (g : gnd) (x : T) : list (gnd * T) :=
  match l with
  | [] => [(g, x)]
  | (h, y) :: r => if geqb g h then (h, x) :: r else (h, y) :: qset r g x
  end.

Definition unit_np (n : nat) : nparams := NP 1 1 (repeat 1 n) VTransparent.
Definition qconn (q : qobj) : conn := match qk q with QForall => CAnd | QExists => COr end.
(* aggregation restricted to UPPER for Forall and LOWER for Exists unless fully_grounded *)
Definition qwhich (q : qobj) : which :=
  if qfull q then WBoth else match qk q with QForall => WUpper | QExists => WLower end.

(* the operand's rows as (grounding, bounds) *)
Definition group_keys (q : qobj) (rows : list (gnd * bnd)) : list gnd := gdedup (map (fun r => project (qfree q) (fst r)) rows).
Definition group_rows (q : qobj) (rows : list (gnd * bnd)) (g : gnd) : list (gnd * bnd) :=
  filter (fun r => geqb (project (qfree q) (fst r)) g) rows.
Definition fully_quantified (q : qobj) : bool := match qfree q with [] => true | _ => false end.

(* the bounds a group's neuron holds when upward/downward reaches it with n instances *)
Definition neuron_bounds (q : qobj) (s : qstate) (g : gnd) (n : nat) : bnd :=
  match qfind (qneu s) g with
  | Some (a, b) => b       (* a neuron resized to n instances keeps the bounds its grounding had reached *)
  | None => qworld q
  end.

(* upward; rows = current rows of the operand *)
Definition q_up (q : qobj) (s : qstate) (rows : list (gnd * bnd)) : qstate * Q :=
  match rows with
  | [] => (s, 0)
  | _ =>
      let r := fold_left (fun (acc : list (gnd * (nat * bnd)) * Q) g =>
                  let inst := map snd (group_rows q rows g) in
                  let n := length inst in
                  let old := neuron_bounds q (QS (fst acc) []) g n in
                  let a := aggregate (qwhich q) old (act_up (qconn q) (unit_np n) inst) in
                  (qset (fst acc) g (n, bred (fst a)), Qred (snd acc + snd a)))
               (group_keys q rows) (qneu s, 0) in
      (QS (fst r) (map (fun e => (fst e, snd (snd e))) (fst r)), snd r)
  end.

(* downward: proposals for the operand rows (to be aggregated into the operand's table), the new neuron store;
   None = the implementation raises (a grounding without a neuron) *)
Definition q_down (q : qobj) (s : qstate) (rows : list (gnd * bnd)) : option (qstate * list (gnd * bnd)) :=
  match rows with
  | [] => Some (s, [])
  | _ =>
      if fully_quantified q then
        let n := length rows in
        let y := match qfind (qneu s) [] with Some (_, b) => b | None => qworld q end in
        let new := act_down (qconn q) (unit_np n) y (map snd rows) in
        Some (s, combine (map fst rows) new)
      else
        fold_left (fun (acc : option (qstate * list (gnd * bnd))) g =>
                     match acc with
                     | None => None
                     | Some (st, props) =>
                         match qfind (qneu st) g with
                         | None => None
                         | Some (a, b) =>
                             let grp := group_rows q rows g in
                             let n := length grp in
                             let y := b in
                             let st' := if Nat.eqb a n then st else QS (qset (qneu st) g (n, b)) (qtab st) in
                             let new := act_down (qconn q) (unit_np n) y (map snd grp) in
                             Some (st', props ++ combine (map fst grp) new)
                         end
                     end)
                  (group_keys q rows) (Some (s, []))
  end.

(* downward through a quantifier whose operand is itself a quantifier (with free variables): the proposals are aggregated
   into the operand's PRIVATE per-grounding neurons (unary_operator.py: `for i, neuron in enumerate(operand.neurons): ...
   neuron.aggregate_bounds([0], bounds[None, i])`); the operand's visible table is re-stacked only by its next upward() *)
Definition q_push_inner (inner : qstate) (props : list (gnd * bnd)) : qstate * Q :=
  fold_left (fun (acc : qstate * Q) gp =>
               match qfind (qneu (fst acc)) (fst gp) with
               | Some (a, b) =>
                   let b' := agg_bnd WBoth b (snd gp) in
                   (QS (qset (qneu (fst acc)) (fst gp) (a, bred b')) (qtab (fst acc)), Qred (snd acc + moved b b'))
               | None => acc
               end) props (inner, 0).
(* the rows a quantifier over a quantifier reads: a fully quantified one reads the operand's neurons, one with free
   variables the operand's table *)
Definition nested_rows (q : qobj) (inner : qstate) : list (gnd * bnd) :=
  if fully_quantified q then map (fun e => (fst e, snd (snd e))) (qneu inner) else qtab inner.

(* reset_bounds() of a quantifier (after the fix): every per-grounding neuron goes back to the world default and the table is
   restacked from the neurons; a fully quantified formula's single neuron goes back to its world default *)
Definition q_reset (q : qobj) (s : qstate) : qstate :=
  let neu := map (fun e => (fst e, (fst (snd e), qworld q))) (qneu s) in
  QS neu (if fully_quantified q then qtab s else map (fun e => (fst e, qworld q)) neu).
