(* Neuron.v -- M1: weighted Lukasiewicz activations, upward and downward.
   Mirrors lnn/neural/methods/lukasiewicz.py, lukasiewicztransparent.py,
   lnn/neural/activations/neuron/neuron.py:downward_conditional,
   lnn/_utils.py:negate_bounds/val_clamp (value part). *)
From LNN Require Export Num.

Record bnd := B { lo : Q; hi : Q }.
Definition neg (b : bnd) : bnd := B (1 - hi b) (1 - lo b).
Definition unknown : bnd := B 0 1.

Inductive conn := CAnd | COr | CImp.
Inductive variant := VPlain | VTransparent.
Record nparams := NP { alpha : Q; bias : Q; weights : list Q; nvar : variant }.

(* Σ w_j (1 - x_j)   and   Σ w_j x_j *)
Fixpoint tsum (ws xs : list Q) : Q :=
  match ws, xs with w :: ws', x :: xs' => w * (1 - x) + tsum ws' xs' | _, _ => 0 end.
Fixpoint dot (ws xs : list Q) : Q :=
  match ws, xs with w :: ws', x :: xs' => w * x + dot ws' xs' | _, _ => 0 end.

Definition los (xs : list bnd) := map lo xs.
Definition his (xs : list bnd) := map hi xs.

(* weights.minimum(0).sum(), only subtracted by the transparent variant's Or *)
Definition negw (p : nparams) : Q :=
  match nvar p with
  | VPlain => 0
  | VTransparent => qsum (map (qmin 0) (weights p))
  end.

Definition and_up (p : nparams) (xs : list bnd) : bnd :=
  B (clamp01 (bias p - tsum (weights p) (los xs)))
    (clamp01 (bias p - tsum (weights p) (his xs))).

Definition or_up (p : nparams) (xs : list bnd) : bnd :=
  B (clamp01 (1 - bias p - negw p + dot (weights p) (los xs)))
    (clamp01 (1 - bias p - negw p + dot (weights p) (his xs))).

(* Implies is binary; any other shape is rejected by the constructors of the code *)
Definition imp_up (p : nparams) (xs : list bnd) : bnd :=
  match weights p, xs with
  | [w0; w1], [x0; x1] =>
      B (clamp01 (1 - bias p + w0 * (1 - hi x0) + w1 * lo x1))
        (clamp01 (1 - bias p + w0 * (1 - lo x0) + w1 * hi x1))
  | _, _ => unknown
  end.

(* one operand of _and_downward + downward_conditional *)
Definition and_down_one (al b W Tl Tu L U : Q) (w : Q) (x : bnd) : bnd :=
  let fL := if qleb L 0 then L + (b - W) else L in
  let fU := if qleb 1 U then U + (b - 1) else U in
  if qeqb w 0 then unknown else
  B (if qltb (1 - al) L then clamp01 (1 + (fL - b + (Tu - w * (1 - hi x))) / w) else 0)
    (if qltb U al then clamp01 (1 + (fU - b + (Tl - w * (1 - lo x))) / w) else 1).

Definition and_down (p : nparams) (y : bnd) (xs : list bnd) : list bnd :=
  let ws := weights p in
  let W := qsum ws in
  let Tl := tsum ws (los xs) in
  let Tu := tsum ws (his xs) in
  map (fun wx => and_down_one (alpha p) (bias p) W Tl Tu (lo y) (hi y) (fst wx) (snd wx))
      (combine ws xs).

Definition or_down (p : nparams) (y : bnd) (xs : list bnd) : list bnd :=
  map neg (and_down p (neg y) (map neg xs)).

Definition imp_down (p : nparams) (y : bnd) (xs : list bnd) : list bnd :=
  match xs with
  | [x0; x1] =>
      match and_down p (neg y) [x0; neg x1] with
      | [r0; r1] => [r0; neg r1]
      | _ => map (fun _ => unknown) xs
      end
  | _ => map (fun _ => unknown) xs
  end.

Definition act_up (c : conn) : nparams -> list bnd -> bnd :=
  match c with CAnd => and_up | COr => or_up | CImp => imp_up end.
Definition act_down (c : conn) : nparams -> bnd -> list bnd -> list bnd :=
  match c with CAnd => and_down | COr => or_down | CImp => imp_down end.

(* real-valued truth functions (weighted Lukasiewicz) *)
Definition and_f (p : nparams) (xs : list Q) : Q := clamp01 (bias p - tsum (weights p) xs).
Definition or_f (p : nparams) (xs : list Q) : Q := clamp01 (1 - bias p - negw p + dot (weights p) xs).
Definition imp_f (p : nparams) (xs : list Q) : Q :=
  match weights p, xs with
  | [w0; w1], [x0; x1] => clamp01 (1 - bias p + w0 * (1 - x0) + w1 * x1)
  | _, _ => 0
  end.
Definition act_f (c : conn) : nparams -> list Q -> Q :=
  match c with CAnd => and_f | COr => or_f | CImp => imp_f end.

Definition inb (b : bnd) (x : Q) : Prop := lo b <= x /\ x <= hi b.
Definition wf_bnd (b : bnd) : Prop := 0 <= lo b <= 1 /\ 0 <= hi b <= 1.
Definition bnd_eq (a b : bnd) : Prop := lo a == lo b /\ hi a == hi b.
Definition tighter (a b : bnd) : Prop := lo a <= lo b /\ hi b <= hi a.  (* b at least as tight as a *)

Definition bred (b : bnd) : bnd := B (Qred (lo b)) (Qred (hi b)).
