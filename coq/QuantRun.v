(* QuantRun.v -- scenario decoding / observation encoding for quantifier scenarios (K7, tag 50). *)
From LNN Require Import Num Neuron Node Sx PropEngine PropRun Fol FolRun Quant.
Open Scope Z_scope.

(* (kind operand (free positions) fully_grounded world ...); fully_grounded: 1 = True, 0 = not passed (the default),
   2 = False passed explicitly *)
Definition dqobj (s : sx) : qobj :=
  match s with
  | L (kd :: op :: fr :: full :: w :: _) =>
      QObj (match dz kd with 0 => QForall | _ => QExists end) (dnat op) (dlist dnat fr) (Z.eqb (dz full) 1) (dbnd w)
  | _ => QObj QForall 0 [] false unknown
  end.

Definition qworld_state := (fstate * list qstate)%type.
Definition nthq (qs : list qstate) (i : nat) : qstate := nth i qs qempty.
Fixpoint setq (qs : list qstate) (i : nat) (x : qstate) : list qstate :=
  match qs, i with
  | [], _ => []
  | _ :: r, O => x :: r
  | h :: r, S i' => h :: setq r i' x
  end.

Definition visible (q : qobj) (s : qstate) : list (gnd * bnd) :=
  if fully_quantified q then [([], match qfind (qneu s) [] with Some (_, b) => b | None => qworld q end)] else qtab s.
(* rows of an operand: a base formula's table or a quantifier's visible table *)
Definition operand_rows (nb : nat) (w : qworld_state) (j : nat) : list (gnd * bnd) :=
  if Nat.ltb j nb then map (fun r => (rg r, rcur r)) (ftab (fst w) j)
  else qtab (nthq (snd w) (j - nb)).
Definition operand_rows_q (qk : list qobj) (nb : nat) (w : qworld_state) (j : nat) : list (gnd * bnd) :=
  if Nat.ltb j nb then operand_rows nb w j
  else visible (nth (j - nb) qk (QObj QForall 0 [] false unknown)) (nthq (snd w) (j - nb)).

Fixpoint ins_gb (x : gnd * bnd) (l : list (gnd * bnd)) : list (gnd * bnd) :=
  match l with [] => [x] | h :: t => if gleb (fst x) (fst h) then x :: l else h :: ins_gb x t end.
Definition eqtab (t : list (gnd * bnd)) : sx := L (map (fun e => L [egnd (fst e); ebnd (snd e)]) (fold_right ins_gb [] t)).
Definition eqworld (qk : list qobj) (nb : nat) (w : qworld_state) : sx :=
  L [efstate nb (fst w); L (map (fun qs => eqtab (visible (fst qs) (snd qs))) (combine qk (snd w)))].

Definition qrun_op (k : fkb) (qk : list qobj) (roots : list nat) (w : qworld_state) (op : sx) : option (qworld_state * sx) :=
  let nb := length k in
  match op with
  | L [A 20; qi] =>
      let i := dnat qi in let q := nth i qk (QObj QForall 0 [] false unknown) in
      let r := q_up q (nthq (snd w) i) (operand_rows_q qk nb w (qop q)) in
      let w' := (fst w, setq (snd w) i (fst r)) in
      Some (w', L [eq_ (snd r); eqworld qk nb w'])
  | L [A 21; qi] =>
      let i := dnat qi in let q := nth i qk (QObj QForall 0 [] false unknown) in
      if negb (Nat.ltb (qop q) nb) then
        (* the operand is itself a quantifier (with free variables): the proposals go into its PRIVATE per-grounding neurons;
           a fully quantified outer formula reads those neurons, one with free variables reads the operand's table *)
        let j := (qop q - nb)%nat in
        let inner := nthq (snd w) j in
        let rows := nested_rows q inner in
        match q_down q (nthq (snd w) i) rows with
        | None => None
        | Some (st, props) =>
            let r := q_push_inner inner props in
            let w' := (fst w, setq (setq (snd w) i st) j (fst r)) in
            Some (w', L [eq_ (snd r); eqworld qk nb w'])
        end
      else
      match q_down q (nthq (snd w) i) (operand_rows nb w (qop q)) with
      | None => None
      | Some (st, props) =>
          let r := f_write_many (fst w, 0%Q) (qop q) props in
          let w' := (fst r, setq (snd w) i st) in
          Some (w', L [eq_ (snd r); eqworld qk nb w'])
      end
  | L [A 7] =>     (* Model.reset_bounds(): every base object back to its data, every quantifier back to its world *)
      let reg := postorder (fshadow k) roots in
      let w' := (f_reset_bounds (seq 0 nb) (fst w), map (fun qs => q_reset (fst qs) (snd qs)) (combine qk (snd w))) in
      Some (w', L [eqworld qk nb w'])
  | L [A 15; oi] =>     (* reset_bounds() of one base object *)
      let i := dnat oi in
      let w' := (set_tab (fst w) i (t_reset (ftab (fst w) i)), snd w) in
      Some (w', L [eqworld qk nb w'])
  | L (A t :: _) =>
      if (Z.eqb t 1 || Z.eqb t 2 || Z.eqb t 8 || Z.eqb t 12 || Z.eqb t 16)%bool then
        let r := frun_op k roots (fst w) op in
        let w' := (fst r, snd w) in
        Some (w', match snd r with
                  | L [a; _] => L [a; eqworld qk nb w']
                  | L [_] => L [eqworld qk nb w']
                  | x => x end)
      else Some (w, bad)
  | _ => Some (w, bad)
  end.

(* (50 fkb roots worlds data qobjs ops) *)
Definition run_k50 (args : list sx) : sx :=
  match args with
  | kbs :: roots :: worlds :: data :: qobjs :: ops :: _ =>
      let k := dlist dfobj kbs in
      if negb (wf_fkbb k && shape_okb k) then L [A (-996)] else
      let roots := dlist dnat roots in
      let ws := dlist dbnd worlds in
      let qk := dlist dqobj qobjs in
      let s0 := FS (fun _ => []) (fun i => nth i ws unknown) in
      let s1 := fold_left (fun s d => match d with L [i; dd] => f_add_data s (dnat i) (ddata dd) | _ => s end)
                          (match data with L l => l | _ => [] end) s0 in
      let ops := match ops with L l => l | _ => [] end in
      let r := fold_left (fun (acc : option (qworld_state * list sx)) op =>
                            match acc with
                            | None => None
                            | Some (w, out) => match qrun_op k qk roots w op with
                                               | None => None
                                               | Some (w', o) => Some (w', o :: out)
                                               end
                            end)
                         ops (Some ((s1, map (fun _ => qempty) qk), [])) in
      match r with
      | None => L [A (-900); A 5]     (* KeyError *)
      | Some (_, out) => L (rev out)
      end
  | _ => bad
  end.
