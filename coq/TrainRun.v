(* TrainRun.v -- scenario decoding / observation encoding for training traces (K9, tag 60). *)
From LNN Require Import Num Neuron Node Sx PropEngine PropRun Train.
Open Scope Z_scope.

Definition doptq (s : sx) : option Q := match s with L [x] => Some (dq x) | _ => None end.
Definition dpcfg (s : sx) : pcfg :=
  match s with L [wm; bm; ng] => PC (doptq wm) (doptq bm) (dbool ng) | _ => default_pcfg end.
(* one optimiser step of the script: ((i (w...) b) ...) *)
Definition set_params (k : kb) (i : nat) (ws : list Q) (b : Q) : kb :=
  map (fun jo => if Nat.eqb (fst jo) i
                 then let o := snd jo in Obj (okind o) (oops o) (NP (alpha (opar o)) b ws (nvar (opar o))) (oaux o)
                 else snd jo) (combine (seq 0 (length k)) k).
Definition apply_script (k : kb) (step : sx) : kb :=
  fold_left (fun kk e => match e with L [i; ws; b] => set_params kk (dnat i) (dlist dq ws) (dq b) | _ => kk end)
            (match step with L l => l | _ => [] end) k.
Definition scripted_opt (script : list sx) (epoch : nat) (k : kb) (_ : state) : kb :=
  match nth_error script epoch with Some st => apply_script k st | None => k end.

Definition eparams (k : kb) : sx := L (map (fun o => L [L (map eq_ (weights (opar o))); eq_ (bias (opar o))]) k).
Definition dlabels (l : list sx) : labels :=
  fun i => fold_left (fun acc d => match d with L [j; b] => if Nat.eqb (dnat j) i then Some (dbnd b) else acc | _ => acc end) l None.

(* (60 kb roots data labels cfg script epochs (use_sup use_con stop)) *)
Definition run_k60 (args : list sx) : sx :=
  match args with
  | kbs :: roots :: data :: labs :: cfgs :: script :: epochs :: L [us; uc; st] :: _ =>
      let k := dlist dobj kbs in
      if negb (wf_kbb k) then L [A (-996)] else
      let roots := dlist dnat roots in
      let s0 := dstate (match data with L l => l | _ => [] end) unknown in
      let cfgl := dlist dpcfg cfgs in
      let cfg := fun i => nth i cfgl default_pcfg in
      let lab := dlabels (match labs with L l => l | _ => [] end) in
      let scr := match script with L l => l | _ => [] end in
      let r := train (scripted_opt scr) cfg roots lab (dbool us) (dbool uc) (dbool st) 200 (dnat epochs) k s0 s0 in
      L [L (map (fun h => L [eq_ (fst h); eparams (snd h)]) (snd r));
         estate (length k) (snd (fst r)); eparams (fst (fst r));
         (* facts and labels cannot change; exact rationals are finite; one record per executed epoch *)
         L [A 1; A 1; enat (length (snd r)); enat (length (snd r))]]
  | _ => bad
  end.
