"""Implementation runner for propositional scenarios (tag 3)."""
from fractions import Fraction as F
import torch
import sx
from lnn import (Model, Proposition, And, Or, Implies, Not, Iff, XOr, Fact, World, Direction, NeuralActivation)

VARIANT_ENUM = {0: NeuralActivation.Lukasiewicz, 1: NeuralActivation.LukasiewiczTransparent}
KCLS = {2: And, 3: Or, 4: Implies}


def fr(x):
    return F(float(x))


def activation(p):
    al, b, ws, v = p
    return {"alpha": float(sx.q(al)), "bias": float(sx.q(b)), "weights": tuple(float(sx.q(w)) for w in ws),
            "type": VARIANT_ENUM[v]}


def build_kb(kbs):
    """returns list of lnn objects, index = object id"""
    n = len(kbs)
    objs = [None] * n
    owned = set()
    for i, (kd, ops, p, aux) in enumerate(kbs):
        if kd == 5:
            owned.update(ops)
        elif kd == 6:
            owned.update(ops)
            owned.update(aux)
    for i, (kd, ops, p, aux) in enumerate(kbs):
        if i in owned:
            continue
        if kd == 0:
            objs[i] = Proposition(f"p{i}", alpha=float(sx.q(p[0])))
        elif kd == 1:
            # both documented ways of giving a negation its alpha
            if i % 2:
                objs[i] = Not(objs[ops[0]], activation={"alpha": float(sx.q(p[0]))})
            else:
                objs[i] = Not(objs[ops[0]], alpha=float(sx.q(p[0])))
        elif kd in KCLS:
            objs[i] = KCLS[kd](*[objs[j] for j in ops], activation=activation(p))
        elif kd == 5:
            i1, i2 = ops
            a, b = kbs[i1][1]
            f = Iff(objs[a], objs[b], activation=activation(p))
            objs[i1], objs[i2], objs[i] = f.Imp1, f.Imp2, f
        elif kd == 6:
            negs, disj = ops[:-1], ops[-1]
            operands = kbs[disj][1]
            f = XOr(*[objs[j] for j in operands])
            # map the private sub-objects by the operands they read (not by position), so that a
            # change in which sub-formulae XOr creates shows up as a semantic difference, not a harness crash
            used = set()
            for j, ng in zip(aux, negs):
                a, b = kbs[j][1]
                for ci, c in enumerate(f.conjunctions):
                    if ci not in used and len(c.operands) == 2 and c.operands[0] is objs[a] and c.operands[1] is objs[b]:
                        used.add(ci)
                        objs[j] = c
                        objs[ng] = f.negations[ci]
                        break
            objs[disj] = f.disjunction
            objs[i] = f
    return objs


def dump(objs):
    out = []
    for o in objs:
        if o is None:  # a sub-object the implementation did not create
            out.append([F(-1), F(-1)])
            continue
        t = o.get_data().tolist()
        out.append([fr(t[0]), fr(t[1])])
    return out


def opt(i, objs=None):
    if i < 0:
        return None
    return objs[i] if objs is not None else i


def run_ops(model, objs, ops):
    res = []
    for op in ops:
        t = op[0]
        if t == 1:
            r = objs[op[1]].upward()
            res.append([fr(r), dump(objs)])
        elif t == 2:
            o = objs[op[1]]
            if isinstance(o, Not):
                r = o.downward()
            else:
                r = o.downward(index=opt(op[2]))
            res.append([fr(r), dump(objs)])
        elif t == 3:
            steps, amt = model.upward(source=opt(op[1], objs))
            res.append([steps, fr(amt), dump(objs)])
        elif t == 4:
            steps, amt = model.downward(source=opt(op[1], objs))
            res.append([steps, fr(amt), dump(objs)])
        elif t == 5:
            if op[1] >= 0 and getattr(model, "query", None) is objs[op[1]]:
                steps, amt = model.infer_query(max_steps=op[2])      # documented as infer(source=model.query)
            else:
                steps, amt = model.infer(source=opt(op[1], objs), max_steps=op[2])
            res.append([steps, fr(amt), dump(objs)])
        elif t == 6:
            model.set_query(objs[op[1]], converge=bool(op[2]))
            res.append([dump(objs)])
        elif t == 7:
            model.reset_bounds()
            res.append([dump(objs)])
        elif t == 8:
            b = op[2]
            model.add_data({objs[op[1]]: (float(sx.q(b[0])), float(sx.q(b[1])))})
            res.append([dump(objs)])
        elif t == 10:
            model.flush()
            res.append([dump(objs)])
        elif t == 9:
            res.append([bool(model.has_contradiction())])
        elif t == 11:
            b = op[2]
            model.add_knowledge(objs[op[1]], world=(float(sx.q(b[0])), float(sx.q(b[1]))))
            res.append([dump(objs)])
        elif t == 16:
            import io, contextlib
            with contextlib.redirect_stdout(io.StringIO()):
                model.print()
                model.print(params=True)
            for o in objs:
                if o is not None:
                    o.state(); o.is_contradiction(); o.get_data()
            res.append([dump(objs)])
        elif t == 13:
            model.add_knowledge(objs[op[1]])
            res.append([dump(objs)])
        else:
            raise ValueError("unknown op")
    return res


def k3(args):
    kbs, roots, data, ops = args[:4]
    objs = build_kb(kbs)
    model = Model()
    model.add_knowledge(*[objs[r] for r in roots])
    for i, b in data:
        model.add_data({objs[i]: (float(sx.q(b[0])), float(sx.q(b[1])))})
    return run_ops(model, objs, ops)


def k4(args):
    kbs, roots1, roots2, data, ops1, ops2 = args[:6]
    return [k3([kbs, roots1, data, ops1]), k3([kbs, roots2, data, ops2])]


def k30(args):
    kbs, calls = args[:2]
    objs = build_kb(kbs)
    model = Model()
    out = []

    def idx(o):
        for i, x in enumerate(objs):
            if x is o:
                return i
        return -2

    for c in calls:
        model.add_knowledge(*[objs[r] for r in c])
        nums = [(-1 if o.formula_number is None else o.formula_number) for o in objs]
        nodes = [(idx(model.nodes[key]) if key in model.nodes else -1) for key in range(model.num_formulae)]
        params = model.parameters()
        cnt = []
        for o in objs:
            own = list(o.parameters())
            cnt.append(sum(1 for p in params if p is own[0]) if own else 0)
        out.append([model.num_formulae, nums, nodes, len(model.nodes), cnt])
    return out


HANDLERS = {3: k3, 4: k4, 30: k30}
