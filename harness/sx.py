"""Integer s-expressions: the wire format shared by the extracted model and the impl runner."""
from fractions import Fraction


def dumps(o):
    if isinstance(o, bool):
        return "1" if o else "0"
    if isinstance(o, int):
        return str(o)
    if isinstance(o, Fraction):
        return f"({o.numerator} {o.denominator})"
    if isinstance(o, (list, tuple)):
        return "(" + " ".join(dumps(x) for x in o) + ")"
    raise TypeError(f"cannot encode {type(o)}: {o!r}")


def loads(s):
    toks = s.replace("(", " ( ").replace(")", " ) ").split()
    pos = 0

    def item():
        nonlocal pos
        t = toks[pos]
        pos += 1
        if t == "(":
            out = []
            while toks[pos] != ")":
                out.append(item())
            pos += 1
            return out
        return int(t)

    r = item()
    return r


def q(x):
    """decode (n d) or int"""
    if isinstance(x, Fraction):
        return x
    if isinstance(x, int):
        return Fraction(x)
    return Fraction(x[0], x[1])


def bnd(x):
    return (q(x[0]), q(x[1]))
