"""dbg_replay.py <replay.json>: prints the first violation of a replay file with the implementation's tables before/after every op (first-order scenarios)"""
import json, sys
sys.path.insert(0, '/verif/harness')
import sx, lib
from checks_fol import Trace
r = json.load(open(sys.argv[1]))
v = r['violation']
print(v.get('monitor')); print(' exp', v.get('expected')); print(' obs', v.get('observed'))
line = v['scenario']; print(line)
sc = sx.loads(line)
obs = sx.loads(lib.run_impl([line])[0])
tr = Trace(sc, obs)
for st in tr.steps():
    print(st['op'], 'ret', st.get('ret'), 'amt', st.get('amt'))
    if st['after'] is None:
        break
    for i, (b, a) in enumerate(zip(st['before'], st['after'])):
        if a != b:
            print('  ', i, {k: (str(x[0]), str(x[1])) for k, x in sorted(b.items())}); print('   ->', {k: (str(x[0]), str(x[1])) for k, x in sorted(a.items())})
