"""Checks over the propositional engine: C01, C05, C13, C17 (engine part), later C04/C06/C07/C08/C16/C20."""
from fractions import Fraction as F
import sx, lib, gen_prop
from framework import Ctx, standard_prologue

MONITORS = {}
FLOAT_TOL = F(1, 2 ** 18)


def monitor(name):
    def deco(f):
        MONITORS[name] = f
        return f
    return deco


def crossed(al, l, u):
    return l > u and not (l <= 1 - al and u <= 1 - al) and not (l >= al and u >= al)


def initial_state(sc):
    kb, data = sc[1], sc[3]
    st = [(F(0), F(1))] * len(kb)
    for i, b in data:
        st[i] = sx.bnd(b)
    return st


def states_of(sc, obs):
    """yields (op, ret_amount or None, state_before, state_after) for each op"""
    cur = initial_state(sc)
    for op, o in zip(sc[4], obs):
        if o and o[0] == -900:
            yield op, None, cur, None, o
            return
        t = op[0]
        if t in (1, 2):
            amt, st = sx.q(o[0]), [sx.bnd(b) for b in o[1]]
        elif t in (3, 4, 5):
            amt, st = sx.q(o[1]), [sx.bnd(b) for b in o[2]]
        elif t in (7, 8, 10, 11, 13, 16):
            amt, st = None, [sx.bnd(b) for b in o[0]]
        else:
            amt, st = None, cur
        yield op, amt, cur, st, o
        cur = st


def whole_error(obs):
    return isinstance(obs, list) and len(obs) == 2 and obs[0] == -900


@monitor("c01_sound")
def mon_c01(sc, obs):
    """bounds of every object contain the value of the hidden consistent interpretation after every call"""
    if len(sc) < 6 or not sc[5]:
        return None
    if whole_error(obs):
        return ("no exception on consistent data", f"raised error class {obs[1]}", None)
    hidden = [sx.q(x) for x in sc[5]]
    kb = sc[1]
    for n, (op, amt, before, after, raw) in enumerate(states_of(sc, obs)):
        if after is None:
            return (f"op #{n} {op} completes on consistent data", f"raised error class {raw[1]}", None)
        if op[0] in (7, 8, 10):
            continue
        for i, (l, u) in enumerate(after):
            # float32 rounding is not modelled: a bound off the coarse dyadic grid may be a rounded result, allow a few ulps
            tol = F(0) if (l.denominator <= 1024 and u.denominator <= 1024) else FLOAT_TOL
            if not (l - tol <= hidden[i] <= u + tol):
                return (f"after op #{n} {op}: bounds of object {i} (kind {kb[i][0]}) contain the interpretation's value {hidden[i]}",
                        f"({l}, {u})", None)
            if l - u > tol and crossed(sx.q(kb[i][2][0]), l, u):
                return (f"after op #{n} {op}: object {i} not a contradiction (data is consistent)", f"({l}, {u})", None)
    return None


@monitor("c05_monotone")
def mon_c05(sc, obs):
    if whole_error(obs):
        return None
    for n, (op, amt, before, after, raw) in enumerate(states_of(sc, obs)):
        if after is None or op[0] in (7, 8, 10):
            continue
        for i, ((l0, u0), (l1, u1)) in enumerate(zip(before, after)):
            if l1 < l0 or u1 > u0:
                return (f"op #{n} {op}: object {i} only tightens from ({l0}, {u0})", f"({l1}, {u1})", None)
    return None


@monitor("c13_amount")
def mon_c13(sc, obs):
    if whole_error(obs):
        return None
    for n, (op, amt, before, after, raw) in enumerate(states_of(sc, obs)):
        if after is None or amt is None:
            continue
        changed = before != after
        if (amt == 0) == changed:
            return (f"op #{n} {op}: reported amount is zero iff nothing changed (changed={changed})", f"amount {amt}", None)
        if amt < 0:
            return (f"op #{n} {op}: amount >= 0", f"{amt}", None)
    return None


@monitor("c17_engine")
def mon_c17_engine(sc, obs):
    if whole_error(obs):
        return None
    kb = sc[1]
    reg = gen_prop.reachable(kb, sc[2])       # formulae in the model: everything reachable from what add_knowledge received so far
    for n, (op, amt, before, after, raw) in enumerate(states_of(sc, obs)):
        if after is None:
            continue
        if op[0] == 13:
            reg |= gen_prop.reachable(kb, [op[1]])
        for i, (l, u) in enumerate(after):
            if not (0 <= l <= 1 and 0 <= u <= 1):
                return (f"after op #{n} {op}: bounds of object {i} in [0,1]", f"({l}, {u})", None)
        if op[0] == 9:
            who = [i for i, (l, u) in enumerate(after) if i in reg and crossed(sx.q(kb[i][2][0]), l, u)]
            if bool(raw[0]) != bool(who):
                return (f"op #{n}: has_contradiction() == {bool(who)} (formulae of the model with crossed bounds outside the tolerance: {who})", f"{bool(raw[0])}", None)
    return None


def k3_batch(ctx, tag, n, mode_mix=("consistent", "free"), with_has_contra=False, weighted=True, nops=(3, 6, 10)):
    rng = ctx.rng(tag)
    scs, meta = gen_prop.gen_k3(rng, n, mode_mix=mode_mix, weighted=weighted, nops=nops)
    for sc, me in zip(scs, meta):
        if with_has_contra:
            ops = sc[4]
            for pos in sorted(rng.sample(range(len(ops) + 1), min(2, len(ops) + 1)), reverse=True):
                ops.insert(pos, [9])
        sc.append(me["hidden"] if me["hidden"] is not None else [])
    return scs, meta


def run_k3(ctx, comp, scs, monitors, hashseeds=(0,)):
    def nontrivial(sc, mo):
        try:
            obs = sx.loads(mo)
        except Exception:
            return False
        for o in obs:
            if not (isinstance(o, list) and o):
                continue
            if isinstance(o[0], list) and len(o[0]) == 2 and isinstance(o[0][0], int) and o[0] != [0, 1]:
                return True      # node-level call with a non-zero amount
            if isinstance(o[0], int) and len(o) >= 3 and isinstance(o[1], list) and o[1] != [0, 1]:
                return True      # model-level call with a non-zero amount
        return False
    m, impl, lines = ctx.correspond(comp, scs, hashseeds=hashseeds, per_proc=120, nontrivial=nontrivial)
    for hs in hashseeds:
        for sc, line, o in zip(scs, lines, impl[hs]):
            lo = sx.loads(line)
            oo = sx.loads(o)
            for mn in monitors:
                r = MONITORS[mn](lo, oo)
                if r and mn == "c01_sound" and r[2] is None:
                    # known finding float32-rounding-amplified: the interpretation is excluded only in the part of the trace
                    # where the exact model has left the float32-exact domain (comparison truncated there, equal before), and
                    # the exact model itself keeps the interpretation inside all bounds throughout
                    k = lines.index(line)
                    ok, ncmp, trunc = lib.compare_ops(m[k], o)
                    if ok and trunc and MONITORS[mn](lo, sx.loads(m[k])) is None:
                        r = (r[0], r[1] + f" [exact model: interpretation inside all bounds; float32-exact domain left at op #{ncmp}]", "float32-rounding-amplified")
                if r:
                    ctx.violation(mn, line, hs, r[0], r[1], r[2])
    return m, impl, lines


def dist(meta):
    h = {}
    for me in meta:
        key = f"{me['mode']}/objs{min(me['nobj'], 12)}"
        h[key] = h.get(key, 0) + 1
        for kd in me["kinds"]:
            h[f"kind{kd}"] = h.get(f"kind{kd}", 0) + 1
    return h


RULE_K3 = ("K3/K4: random propositional KBs (2-4 atoms, 1-5 formulae over And/Or/Implies/Not/Iff/XOr, shared objects, structurally equal twins, "
           "several roots, weights in {0,1/4,1/2,1,2}, bias in {1/2,1,3/2,2}, alpha in {1,7/8,3/4}, both variants), data either around a hidden "
           "interpretation (consistent stream) or free incl. crossed (inconsistent stream), 3-10 random node-level upward/downward(index) and "
           "model-level upward/downward/infer(source,max_steps) calls; every object's bounds and every return value compared exactly after every call; "
           "non-trivial = some operation returned a non-zero amount; distinct = distinct scenario text")


def check_C01(ctx):
    st, pr = standard_prologue(ctx)
    n = 500 if ctx.quick else 6000
    scs, meta = k3_batch(ctx, "c01", n, mode_mix=("consistent", "consistent", "consistent", "free"))
    # witness of the recorded known finding (float32 rounding slip amplified by a weight above 1) runs first
    import os
    with open(os.path.join(lib.VERIF, "harness", "corpus", "kf_c01_float_amplified.txt")) as f:
        scs.insert(0, sx.loads(f.read().strip()))
    meta.insert(0, {"mode": "consistent", "hidden": None, "nobj": 10, "kinds": [0, 1, 2, 3, 4, 6]})
    run_k3(ctx, "K3/K4 propositional engine", scs, ["c01_sound"])
    ctx.cov["distribution"] = dist(meta)
    ctx.assumptions.append("rational interpretations (extension to real ones by density of rational points in rational polyhedra: paper argument)")
    return ctx.finish("proof", pr, st, rule=RULE_K3 + "; C01 monitor: exact rational evaluation of the hidden interpretation against the implementation's bounds after every call")


def check_C05(ctx):
    st, pr = standard_prologue(ctx)
    n = 500 if ctx.quick else 6000
    scs, meta = k3_batch(ctx, "c05", n)
    run_k3(ctx, "K3/K4 propositional engine", scs, ["c05_monotone"])
    scs2, meta2 = gen_prop.gen_k3_conflict(ctx.rng("c05conflict"), 300 if ctx.quick else 4000)
    for sc in scs2:
        sc.append([])
    run_k3(ctx, "K3 resolved formulae over graded operands, node-level downward first", scs2, ["c05_monotone"])
    ctx.cov["conflict_distribution"] = dist(meta2)
    ctx.known_witness("partial-quantifier-two-stores", "d3b_partial_forget.py")
    ctx.corpus(["d3_fq_forget.py"])
    ctx.cov["distribution"] = dist(meta)
    try:
        import checks_fol
        checks_fol.c05_fol_part(ctx)
        import checks_quant
        checks_quant.c05_quant_part(ctx)
    except (ImportError, AttributeError):
        ctx.assumptions.append("first-order / quantifier part not yet covered by this check")
    return ctx.finish("proof", pr, st, rule=RULE_K3 + "; C05 monitor: before/after snapshot of every object around every call; quantifier part: K7 scenarios (instance sets growing through add_data between calls, nested quantifiers), every row of every base and quantifier table only tightens across every inference call")


def check_C13(ctx):
    st, pr = standard_prologue(ctx)
    n = 500 if ctx.quick else 6000
    scs, meta = k3_batch(ctx, "c13", n)
    run_k3(ctx, "K3/K4 propositional engine", scs, ["c13_amount"])
    ctx.corpus(["d2_iff_amount.py"])
    ctx.cov["distribution"] = dist(meta)
    try:
        import checks_fol
        checks_fol.c13_fol_part(ctx)
        import checks_quant
        checks_quant.c13_quant_part(ctx)
    except (ImportError, AttributeError):
        ctx.assumptions.append("first-order / quantifier part not yet covered by this check")
    return ctx.finish("proof", pr, st, rule=RULE_K3 + "; C13 monitor: returned amount vs before/after snapshot of all objects")


def c17_engine_part(ctx):
    n = 250 if ctx.quick else 3000
    scs, meta = k3_batch(ctx, "c17", n, with_has_contra=True)
    run_k3(ctx, "K3/K4 propositional engine (+has_contradiction)", scs, ["c17_engine"])
    ctx.cov["engine_distribution"] = dist(meta)
    # leaves and negations with their own alpha (given to Not both ways: keyword and activation dictionary),
    # crossed data inside and outside the classical regions written on them, has_contradiction after each
    scs3, meta3 = k3_batch(ctx, "c17alpha", 150 if ctx.quick else 2000, with_has_contra=True)
    rng3 = ctx.rng("c17alpha-nodes")
    for sc in scs3:
        kb = sc[1]
        owned = {j for o in kb if o[0] in (5, 6) for j in list(o[1]) + list(o[3])}    # private sub-formulae of Iff / XOr
        plain = [i for i, o in enumerate(kb) if o[0] in (0, 1) and i not in owned]
        for i in plain:
            kb[i][2] = [rng3.choice([F(1), F(7, 8), F(3, 4), F(3, 4)])] + list(kb[i][2][1:])
        reg = sorted(gen_prop.reachable(kb, sc[2]) & set(plain))
        for _ in range(rng3.choice([1, 2, 3])):
            if not reg:
                break
            nots = [j for j in reg if kb[j][0] == 1]
            i = rng3.choice(nots) if nots and rng3.random() < 0.6 else rng3.choice(reg)
            al = kb[i][2][0]
            c = rng3.random()
            if c < 0.6 and al < 1:      # both bounds inside one classical region of this node (tolerated when crossed)
                grid = [F(k, 16) for k in range(17)]
                side = [x for x in grid if x >= al] if rng3.random() < 0.5 else [x for x in grid if x <= 1 - al]
                u, l = sorted((rng3.choice(side), rng3.choice(side)))
            else:
                u, l = sorted((rng3.choice(gen_prop.G8 + [F(13, 16), F(3, 16)]), rng3.choice(gen_prop.G8 + [F(15, 16), F(1, 16)])))
            pos = rng3.randrange(len(sc[4]) + 1)
            sc[4][pos:pos] = [[8, i, [l, u]], [9]]
    run_k3(ctx, "K3/K4 propositional engine, leaves and negations with alpha < 1 and crossed data", scs3, ["c17_engine"])
    scs2, meta2 = gen_prop.gen_k3_late(ctx.rng("c17late"), 150 if ctx.quick else 2000)
    run_k3(ctx, "K3 knowledge added over several add_knowledge calls (structural twins, has_contradiction between the calls)", scs2, ["c17_engine"])
    ctx.cov["late_distribution"] = dist(meta2)


CHECKS = {"C01": check_C01, "C05": check_C05, "C13": check_C13}


# ====================================================================== C06
def all_node_ops(kb):
    ops = []
    for i, o in enumerate(kb):
        if o[0] != 0:
            ops.append([1, i])
            ops.append([2, i, -1])
    return ops


def gen_c06(ctx, n):
    rng = ctx.rng("c06")
    scs, metas = [], []
    for _ in range(n):
        weighted = rng.random() < 0.25
        if rng.random() < 0.3:
            # rule chains: the fixpoint is several passes away and the root order decides which pass finds what
            kb, roots, data = gen_prop.gen_chain(rng)
            weighted, mode, hidden = False, "chain", None
        else:
            kb = gen_prop.gen_kb(rng, weighted=weighted)
            roots = gen_prop.roots_of(rng, kb)
            kb, roots = gen_prop.restrict(kb, roots)
            mode = rng.choice(["consistent", "consistent", "free"])
            data, hidden = gen_prop.gen_data(rng, kb, mode)
        ops = [[5, -1, 60]] + all_node_ops(kb) + [[5, -1, 60]]
        scs.append([3, kb, roots, data, ops, hidden or []])
        metas.append({"mode": mode, "hidden": hidden, "nobj": len(kb), "kinds": sorted(set(o[0] for o in kb)), "weighted": weighted})
    return scs, metas


def residue_tolerance(state):
    """exactly representable bounds (coarse dyadic grid): a converged infer() is an exact fixpoint up to the library's own
    1e-7 threshold.  Once a bound has left that grid (weighted KBs halving towards a limit) infer() stops while a geometric
    tail of the same order as its threshold is still outstanding -- outside the property's "exactly representable" domain;
    only a movement far above that tail (1e-5) is reported there"""
    off = any(v.denominator > 1024 for b in state for v in b)
    return F(1, 10 ** 5) if off else F(1, 10 ** 7)


@monitor("c06_fixpoint")
def mon_c06(sc, obs):
    if whole_error(obs):
        return ("infer() returns", f"raised error class {obs[1]}", None)
    sts = list(states_of(sc, obs))
    if not sts or sts[0][3] is None:
        return ("infer() returns", "raised", None)
    op0, amt0, before0, after0, raw0 = sts[0]
    steps0 = raw0[0]
    if steps0 >= 60:
        return None  # did not converge within the guard (asymptotic convergence of weighted KBs, D9): outside "exactly representable"
    last_amt_exact_zero = True
    for n, (op, amt, before, after, raw) in enumerate(sts[1:], 1):
        if after is None:
            return (f"op #{n} {op} completes", "raised", None)
        if op[0] in (1, 2):
            if before != after or amt != 0:
                # tolerate sub-eps asymptotic residue only when the KB is weighted and the movement is below 1e-7
                tot = sum(abs(a[0] - b[0]) + abs(a[1] - b[1]) for a, b in zip(before, after))
                if tot <= residue_tolerance(before):
                    continue
                return (f"after infer() converged in {steps0} steps, node call {op} changes nothing", f"amount {amt}, moved {tot}", None)
        if op[0] == 5:
            tol = residue_tolerance(before)
            if (raw[0] != 1 and tol == F(1, 10 ** 7)) or amt > tol or before != after and amt == 0:
                return ("second infer() takes 1 step, reports zero, changes nothing", f"steps {raw[0]} amount {amt}", None)
    return None


def check_C06(ctx):
    st, pr = standard_prologue(ctx)
    scs, meta = gen_c06(ctx, 300 if ctx.quick else 4000)
    m, impl, lines = run_k3(ctx, "K4 infer-to-convergence + node-level sweep + second infer", scs, ["c06_fixpoint", "c13_amount"])
    conv = sum(1 for o in impl[0] if not o.startswith("(-900") and sx.loads(o)[0][0] < 60)
    ctx.cov["converged_within_guard"] = conv
    try:
        import checks_fol
        checks_fol.c06_fol_part(ctx)
    except (ImportError, AttributeError):
        pass
    ctx.cov["distribution"] = dist(meta)
    ctx.assumptions.append("C06_fixpoint_partial needs the last step to report exactly zero (grid-closed KBs); infer() stops at <= 1e-7 (D9, DESIGN.md section 10)")
    ctx.assumptions.append("first-order knowledge bases: the fixpoint/termination theorems are propositional; the first-order part (after the row-creation fix) is checked on the implementation against the model (fol_c06 monitor); quantifiers: see C11/C12")
    return ctx.finish("proof", pr, st, rule="K4: random propositional KBs (75% unit-weight, 25% weighted), consistent or free data, 30% chains of 2-4 asserted rules (Implies either way, Iff, Or(Not a, b)) with a classical fact at one end and shuffled roots; ops = infer(max_steps=60 guard), then upward and downward of EVERY non-leaf object, then infer again; "
                      "monitor: convergence within the guard, every later node call is a no-op, second infer = (1 step, 0); non-trivial = first infer moved a bound")


# ====================================================================== C07
def gen_c07(ctx, n):
    rng = ctx.rng("c07")
    scs, metas = [], []
    for _ in range(n):
        weighted = rng.random() < 0.2
        kb = gen_prop.gen_kb(rng, weighted=weighted, nforms=rng.choice([2, 3, 4, 5]))
        roots = gen_prop.roots_of(rng, kb, extra=0.0)
        kb, roots = gen_prop.restrict(kb, roots)
        mode = rng.choice(["consistent", "consistent", "consistent", "free"])
        data, hidden = gen_prop.gen_data(rng, kb, mode)
        roots2 = list(roots)
        rng.shuffle(roots2)
        ops1 = [[5, -1, 60], [9]]
        # fair random schedule: rounds of every node op in random order, then a verification sweep
        ops2 = []
        base = all_node_ops(kb)
        for _r in range(rng.choice([6, 8])):
            rr = list(base)
            rng.shuffle(rr)
            if rng.random() < 0.3:
                rr.insert(rng.randrange(len(rr) + 1), [rng.choice([3, 4]), -1])
            ops2 += rr
        nsched = len(ops2)
        ops2 += base + [[9]]
        scs.append([4, kb, roots, roots2, data, ops1, ops2, nsched])
        metas.append({"mode": mode, "hidden": hidden, "nobj": len(kb), "kinds": sorted(set(o[0] for o in kb)), "weighted": weighted})
    return scs, metas


def arrested_py(kb, st, i):
    o = kb[i]
    al = sx.q(o[2][0])
    if crossed(al, *st[i]):
        return True
    for j in o[1]:
        if crossed(sx.q(kb[j][2][0]), *st[j]):
            return True
    for j in o[1][:2]:
        if crossed(al, *st[j]):
            return True
    return False


@monitor("c07_confluence")
def mon_c07(sc, obs):
    if whole_error(obs):
        return None
    kb, roots1, roots2, data, ops1, ops2, nsched = sc[1:8]
    o1, o2 = obs
    if whole_error(o1) or whole_error(o2):
        return None
    sc1 = [3, kb, roots1, data, ops1]
    sc2 = [3, kb, roots2, data, ops2]
    s1 = list(states_of(sc1, o1))
    s2 = list(states_of(sc2, o2))
    if any(x[3] is None for x in s1) or any(x[3] is None for x in s2):
        return None
    steps1 = o1[0][0]
    if steps1 >= 60:
        return None
    fin1 = s1[0][3]
    clean1 = not any(arrested_py(kb, fin1, i) for i in range(len(kb)) if kb[i][0] != 0) and not any(crossed(sx.q(kb[i][2][0]), *fin1[i]) for i in range(len(kb)))
    # schedule 2 quiescent? the verification sweep must report zeros
    sweep = s2[nsched:-1]
    quiescent = all(x[1] == 0 and x[2] == x[3] for x in sweep)
    fin2 = s2[-1][3]
    hc1, hc2 = bool(o1[1][0]), bool(o2[-1][0])
    def differs(a, b):
        tol = F(0) if all(x.denominator <= 1024 for x in a + b) else FLOAT_TOL   # schedules round differently in float32
        return abs(a[0] - b[0]) > tol or abs(a[1] - b[1]) > tol
    if clean1 and quiescent:
        if any(differs(fin1[i], fin2[i]) for i in range(len(kb))):
            d = [(i, fin1[i], fin2[i]) for i in range(len(kb)) if differs(fin1[i], fin2[i])][0]
            return (f"infer() under roots {roots1} and a fair node-level schedule under roots {roots2} reach the same bounds", f"object {d[0]}: {d[1]} vs {d[2]}", None)
        if hc2:
            return ("contradiction found is order independent (infer: none)", "schedule 2 reports has_contradiction()", None)
    if clean1:
        # any state reached by schedule 2 is never tighter than the clean fixpoint
        for n, x in enumerate(s2):
            for i, ((l, u), (L, U)) in enumerate(zip(x[3], fin1)):
                tol2 = F(0) if all(x.denominator <= 1024 for x in (l, u, L, U)) else FLOAT_TOL
                if l > L + tol2 or u < U - tol2:
                    return (f"state after op #{n} of schedule 2 is not tighter than the contradiction-free fixpoint ({L},{U}) at object {i}", f"({l},{u})", None)
    return None


@monitor("c07_sequential")
def mon_c07_seq(sc, obs):
    """the same knowledge and data: all roots in one add_knowledge call vs one call per root in another order; infer() ends
    in the same bounds (when the first run is contradiction-free and both converge) and reports the same contradiction verdict"""
    if whole_error(obs):
        return None
    kb, roots1, roots2, data, ops1, ops2 = sc[1:7]
    o1, o2 = obs
    if whole_error(o1) or whole_error(o2):
        return ("no exception", "raised", None)
    s1 = list(states_of([3, kb, roots1, data, ops1], o1))
    s2 = list(states_of([3, kb, roots2, data, ops2], o2))
    if any(x[3] is None for x in s1) or any(x[3] is None for x in s2):
        return None
    i1 = [x for x in s1 if x[0][0] == 5][-1]
    i2 = [x for x in s2 if x[0][0] == 5][-1]
    if i1[4][0] >= 60 or i2[4][0] >= 60:
        return None
    fin1, fin2 = i1[3], i2[3]
    clean1 = not any(arrested_py(kb, fin1, i) for i in range(len(kb)) if kb[i][0] != 0) and not any(crossed(sx.q(kb[i][2][0]), *fin1[i]) for i in range(len(kb)))
    if not clean1:
        return None
    for i in range(len(kb)):
        a, b = fin1[i], fin2[i]
        tol = F(0) if all(x.denominator <= 1024 for x in a + b) else FLOAT_TOL
        if abs(a[0] - b[0]) > tol or abs(a[1] - b[1]) > tol:
            return (f"roots {roots1} added in one call and roots added one call at a time ({roots2} then {[op[1] for op in ops2 if op[0] == 13]}) infer the same bounds: object {i} = {a}", f"{b}", None)
    if bool(o1[-1][0]) != bool(o2[-1][0]):
        return ("has_contradiction() does not depend on how the roots were added", f"{bool(o1[-1][0])} vs {bool(o2[-1][0])}", None)
    return None


def c07_sequential_part(ctx):
    rng = ctx.rng("c07seq")
    scs = []
    n = 150 if ctx.quick else 2000
    while len(scs) < n:
        kb = gen_prop.gen_kb(rng, weighted=rng.random() < 0.2, nforms=rng.choice([2, 3, 4, 5]), twins=0.5)
        roots = gen_prop.roots_of(rng, kb, extra=0.0)
        kb, roots = gen_prop.restrict(kb, roots)
        if len(roots) < 2:
            continue
        data, hidden = gen_prop.gen_data(rng, kb, rng.choice(["consistent", "consistent", "free"]))
        dops = [[8, i, b] for i, b in data]
        order = list(roots)
        rng.shuffle(order)
        ops1 = dops + [[5, -1, 60], [9]]
        ops2 = [[13, r] for r in order[1:]] + dops + [[5, -1, 60], [9]]
        scs.append([4, kb, roots, [order[0]], [], ops1, ops2])
    m, impl, lines = ctx.correspond("K4 pair: all roots in one add_knowledge call vs one call per root (structural twins likely)", scs, per_proc=60,
                                    nontrivial=lambda s, mo: True)
    for sc, line, o in zip(scs, lines, impl[0]):
        r = MONITORS["c07_sequential"](sx.loads(line), sx.loads(o))
        if r:
            ctx.violation("c07_sequential", line, 0, r[0], r[1], r[2])


def check_C07(ctx):
    st, pr = standard_prologue(ctx)
    scs, meta = gen_c07(ctx, 250 if ctx.quick else 3000)
    m, impl, lines = ctx.correspond("K4 pair: infer() vs fair random node-level schedule under permuted roots", scs, per_proc=60,
                                    nontrivial=lambda s, mo: "((0 1) (1 1))" not in mo[:40])
    nclean = 0
    for sc, line, o in zip(scs, lines, impl[0]):
        r = MONITORS["c07_confluence"](sx.loads(line), sx.loads(o))
        if r:
            ctx.violation("c07_confluence", line, 0, r[0], r[1], r[2])
    ctx.cov["distribution"] = dist(meta)
    c07_sequential_part(ctx)
    return ctx.finish("proof", pr, st, rule="sequential registration: the same KB (structural twins 50%) with all roots in one add_knowledge call vs one call per root in a shuffled order, data added afterwards, infer() compared; K4 pairs: same KB and data; run 1 = infer() under one root order, run 2 = 6-8 rounds of every node-level upward/downward in random order (+ occasional model passes) "
                      "under a shuffled root order, followed by a verification sweep; monitor: when run 1 ends contradiction-free and run 2 is quiescent the bounds are identical, and no state of run 2 is tighter than run 1's fixpoint")


# ====================================================================== C20
def descendants(kb, i):
    seen = set()
    todo = [i]
    while todo:
        x = todo.pop()
        if x in seen:
            continue
        seen.add(x)
        todo.extend(kb[x][1])
    return seen


def gen_c20(ctx, n):
    rng = ctx.rng("c20")
    rng2 = ctx.rng("c20reask")
    scs, metas = [], []
    for _ in range(n):
        kb = gen_prop.gen_kb(rng, weighted=rng.random() < 0.3, nforms=rng.choice([3, 4, 5, 6]), twins=0.1)
        roots = gen_prop.roots_of(rng, kb, extra=0.0)
        kb, roots = gen_prop.restrict(kb, roots)
        data, hidden = gen_prop.gen_data(rng, kb, "consistent")
        nonleaf = [i for i, o in enumerate(kb) if o[0] != 0]
        ops = []
        if rng.random() < 0.5:   # a full-model pass first (anything cached by it must not leak into restricted runs)
            ops.append(rng.choice([[5, -1, 1], [5, -1, 30], [3, -1], [4, -1], [16]]))
        for _k in range(rng.choice([1, 2, 3])):
            src = rng.choice(nonleaf) if rng.random() < 0.5 else rng.choice(roots)
            if rng.random() < 0.3:
                src = roots[0]   # the first formula added to the model
            t = rng.choice([5, 5, 3, 4])
            ops.append([5, src, rng.choice([1, 2, 30])] if t == 5 else [t, src])
            if rng.random() < 0.25:
                ops.append(rng.choice([[5, -1, 1], [3, -1], [4, -1]]))
            if rng.random() < 0.3 and hidden:   # a data update between calls (consistent with the hidden interpretation)
                j = rng.randrange(len(kb))
                if hidden[j] in gen_prop.G8 and not gen_prop.owned(kb, j):
                    ops.append([8, j, [hidden[j], hidden[j]]])
        # query part: a query without own data, early exit, then node-level convergence
        cands = [i for i in nonleaf if not any(d[0] == i for d in data) and not gen_prop.owned(kb, i)]
        nq = 0
        if cands and rng.random() < 0.7:
            q = rng.choice(cands)
            ops.append([6, q, rng.choice([0, 0, 1])])      # converge=True: keep reasoning after the query is proved -- inside the source's sub-graph
            ops.append([5, rng.choice([-1, q]), 30])
            if ops[-1][1] == q and rng2.random() < 0.6:
                ops.append([5, q, 30])      # the query asked again straight away: nothing left to do below it, still local
            nq = len(ops)
            for _r in range(4):
                ops += all_node_ops(kb)
            if rng.random() < 0.4:
                # the same model is used again: bounds go back to the data, the query is asked again
                ops += [[7], [5, rng.choice([-1, q]), 30]]
        scs.append([3, kb, roots, data, ops, hidden or [], nq])
        metas.append({"mode": "consistent", "hidden": hidden, "nobj": len(kb), "kinds": sorted(set(o[0] for o in kb))})
    return scs, metas


@monitor("c20_local")
def mon_c20(sc, obs):
    if whole_error(obs):
        return ("no exception on consistent data", f"raised error class {obs[1]}", None)
    kb = sc[1]
    nq = sc[6] if len(sc) > 6 else 0
    verdict = None
    for n, (op, amt, before, after, raw) in enumerate(states_of(sc, obs)):
        if after is None:
            return (f"op #{n} {op} completes", "raised", None)
        if op[0] in (3, 4, 5) and op[1] >= 0:
            desc = descendants(kb, op[1])
            for i in range(len(kb)):
                if i not in desc and before[i] != after[i]:
                    return (f"op #{n} {op}: object {i} is not a sub-formula of source {op[1]} and stays {before[i]}", f"{after[i]}", None)
        if op[0] == 6:
            q = op[1]
        if op[0] == 7:
            verdict = None       # reset_bounds() legitimately takes every bound back to the data
        if op[0] == 5 and nq and n > nq and raw[0] == 0 and after[q] not in ((F(1), F(1)), (F(0), F(0))):
            return (f"op #{n} {op}: infer() stops before its first step only when the query {q} is classically resolved", f"0 steps with the query at {after[q]}", None)
        if nq and n == nq - 1:
            b = after[q]
            if b in ((F(1), F(1)), (F(0), F(0))):
                verdict = (q, b)
        if nq and n >= nq and verdict is not None:
            if after[verdict[0]] != verdict[1]:
                return (f"query {verdict[0]} resolved as {verdict[1]} at early exit keeps its verdict under further inference", f"{after[verdict[0]]} after op #{n} {op}", None)
    return None


def check_C20(ctx):
    st, pr = standard_prologue(ctx)
    scs, meta = gen_c20(ctx, 400 if ctx.quick else 5000)
    # witness of the recorded known finding (float32 rounding slip amplified by a weight above 1) runs first
    import os
    with open(os.path.join(lib.VERIF, "harness", "corpus", "kf_c01_float_amplified.txt")) as f:
        scs.insert(0, sx.loads(f.read().strip()))
    meta.insert(0, {"mode": "consistent", "hidden": None, "nobj": 10, "kinds": [0, 1, 2, 3, 4, 6]})
    run_k3(ctx, "K4 source/query-restricted inference", scs, ["c20_local", "c01_sound"])
    ctx.cov["distribution"] = dist(meta)
    ctx.cov["with_query"] = sum(1 for s in scs if s[6])
    ctx.assumptions.append("quantified first-order theories are not in this theorem (propositional engine)")
    return ctx.finish("proof", pr, st, rule="K4: multi-root propositional KBs with consistent data; 1-3 source-restricted infer/upward/downward calls with random source; then set_query + infer (early exit) + 4 rounds of all node-level calls; "
                      "monitor: nothing outside the source's sub-formulae moves; a TRUE/FALSE verdict at early exit survives full node-level convergence; hidden interpretation stays inside all bounds")


CHECKS.update({"C06": check_C06, "C07": check_C07, "C20": check_C20})


# ====================================================================== C16 (propositional part)
@monitor("c16_prop")
def mon_c16_prop(sc, obs):
    if whole_error(obs):
        return None
    k1, k2 = sc[6], sc[7]
    sts = list(states_of(sc, obs))
    if any(x[3] is None for x in sts):
        return None
    if sts[k1][4][0] >= 30 or sts[k2][4][0] >= 30:
        return None
    if sts[k1][3] != sts[k2][3]:
        d = [(i, a, b) for i, (a, b) in enumerate(zip(sts[k1][3], sts[k2][3])) if a != b][0]
        return (f"after reset_bounds(), infer() reproduces the bounds of the first run: object {d[0]} = {d[1]}", f"{d[2]}", None)
    return None


def c16_prop_part(ctx):
    rng = ctx.rng("c16prop")
    scs, metas = [], []
    for _ in range(300 if ctx.quick else 4000):
        kb = gen_prop.gen_kb(rng, weighted=rng.random() < 0.3, nforms=rng.choice([2, 3, 4, 5]))
        roots = gen_prop.roots_of(rng, kb)
        kb, roots = gen_prop.restrict(kb, roots)
        mode = rng.choice(["consistent", "consistent", "free"])
        data, hidden = gen_prop.gen_data(rng, kb, mode)
        pre = [[9]] if rng.random() < 0.3 else []
        if rng.random() < 0.4:
            # worlds declared through add_knowledge(f, world=...) on formulae already in the model (axioms, closed / open world)
            for r in rng.sample(range(len(kb)), min(len(kb), rng.choice([1, 2]))):
                if kb[r][0] != 0 and gen_prop.owned(kb, r):
                    continue
                pre.append([11, r, rng.choice([[F(1), F(1)], [F(1), F(1)], [F(0), F(0)], [F(0), F(1)]])])
        ops = pre + [[5, -1, 30]]
        k1 = len(ops) - 1
        ops += gen_prop.gen_ops(rng, kb, roots, rng.choice([0, 2, 4])) + ([[16]] if rng.random() < 0.5 else []) + [[9], [7], [5, -1, 30]]
        k2 = len(ops) - 1
        scs.append([3, kb, roots, data, ops, hidden or [], k1, k2])
        metas.append({"mode": mode, "hidden": hidden, "nobj": len(kb), "kinds": sorted(set(o[0] for o in kb))})
    run_k3(ctx, "K4 propositional run 1 / further calls / reset_bounds / run 2", scs, ["c16_prop"])
    ctx.cov["prop_distribution"] = dist(metas)
