"""Checks over the propositional engine: C01, C05, C13, C17 (engine part), later C04/C06/C07/C08/C16/C20."""
from fractions import Fraction as F
import sx, lib, gen_prop
from framework import Ctx, standard_prologue

MONITORS = {}


def monitor(name):
    def deco(f):
        MONITORS[name] = f
        return f
    return deco


def crossed(al, l, u):
    return l > u and not (l <= 1 - al and u <= 1 - al) and not (l >= al and u >= al)


def initial_state(sc):
    kb, data = sc[1], sc[3]
    st = [(F(0), F(1))] * len(kb)
    for i, b in data:
        st[i] = sx.bnd(b)
    return st


def states_of(sc, obs):
    """yields (op, ret_amount or None, state_before, state_after) for each op"""
    cur = initial_state(sc)
    for op, o in zip(sc[4], obs):
        if o and o[0] == -900:
            yield op, None, cur, None, o
            return
        t = op[0]
        if t in (1, 2):
            amt, st = sx.q(o[0]), [sx.bnd(b) for b in o[1]]
        elif t in (3, 4, 5):
            amt, st = sx.q(o[1]), [sx.bnd(b) for b in o[2]]
        elif t == 7:
            amt, st = None, [sx.bnd(b) for b in o[0]]
        else:
            amt, st = None, cur
        yield op, amt, cur, st, o
        cur = st


def whole_error(obs):
    return isinstance(obs, list) and len(obs) == 2 and obs[0] == -900


@monitor("c01_sound")
def mon_c01(sc, obs):
    """bounds of every object contain the value of the hidden consistent interpretation after every call"""
    if len(sc) < 6 or not sc[5]:
        return None
    if whole_error(obs):
        return ("no exception on consistent data", f"raised error class {obs[1]}", None)
    hidden = [sx.q(x) for x in sc[5]]
    kb = sc[1]
    for n, (op, amt, before, after, raw) in enumerate(states_of(sc, obs)):
        if after is None:
            return (f"op #{n} {op} completes on consistent data", f"raised error class {raw[1]}", None)
        if op[0] == 7:
            continue
        for i, (l, u) in enumerate(after):
            if not (l <= hidden[i] <= u):
                return (f"after op #{n} {op}: bounds of object {i} (kind {kb[i][0]}) contain the interpretation's value {hidden[i]}",
                        f"({l}, {u})", None)
            if crossed(sx.q(kb[i][2][0]), l, u):
                return (f"after op #{n} {op}: object {i} not a contradiction (data is consistent)", f"({l}, {u})", None)
    return None


@monitor("c05_monotone")
def mon_c05(sc, obs):
    if whole_error(obs):
        return None
    for n, (op, amt, before, after, raw) in enumerate(states_of(sc, obs)):
        if after is None or op[0] == 7:
            continue
        for i, ((l0, u0), (l1, u1)) in enumerate(zip(before, after)):
            if l1 < l0 or u1 > u0:
                return (f"op #{n} {op}: object {i} only tightens from ({l0}, {u0})", f"({l1}, {u1})", None)
    return None


@monitor("c13_amount")
def mon_c13(sc, obs):
    if whole_error(obs):
        return None
    for n, (op, amt, before, after, raw) in enumerate(states_of(sc, obs)):
        if after is None or amt is None:
            continue
        changed = before != after
        if (amt == 0) == changed:
            return (f"op #{n} {op}: reported amount is zero iff nothing changed (changed={changed})", f"amount {amt}", None)
        if amt < 0:
            return (f"op #{n} {op}: amount >= 0", f"{amt}", None)
    return None


@monitor("c17_engine")
def mon_c17_engine(sc, obs):
    if whole_error(obs):
        return None
    kb = sc[1]
    for n, (op, amt, before, after, raw) in enumerate(states_of(sc, obs)):
        if after is None:
            continue
        for i, (l, u) in enumerate(after):
            if not (0 <= l <= 1 and 0 <= u <= 1):
                return (f"after op #{n} {op}: bounds of object {i} in [0,1]", f"({l}, {u})", None)
        if op[0] == 9:
            exp = any(crossed(sx.q(kb[i][2][0]), l, u) for i, (l, u) in enumerate(after))
            if bool(raw[0]) != exp:
                return (f"op #{n}: has_contradiction() == {exp} (some formula crossed outside tolerance)", f"{bool(raw[0])}", None)
    return None


def k3_batch(ctx, tag, n, mode_mix=("consistent", "free"), with_has_contra=False, weighted=True, nops=(3, 6, 10)):
    rng = ctx.rng(tag)
    scs, meta = gen_prop.gen_k3(rng, n, mode_mix=mode_mix, weighted=weighted, nops=nops)
    for sc, me in zip(scs, meta):
        if with_has_contra:
            ops = sc[4]
            for pos in sorted(rng.sample(range(len(ops) + 1), min(2, len(ops) + 1)), reverse=True):
                ops.insert(pos, [9])
        sc.append(me["hidden"] if me["hidden"] is not None else [])
    return scs, meta


def run_k3(ctx, comp, scs, monitors, hashseeds=(0,)):
    def nontrivial(sc, mo):
        try:
            obs = sx.loads(mo)
        except Exception:
            return False
        return any((o[0] != [0, 1]) for o in obs if isinstance(o, list) and o and isinstance(o[0], list) and len(o[0]) == 2)
    m, impl, lines = ctx.correspond(comp, scs, hashseeds=hashseeds, per_proc=120, nontrivial=nontrivial)
    for hs in hashseeds:
        for sc, line, o in zip(scs, lines, impl[hs]):
            lo = sx.loads(line)
            oo = sx.loads(o)
            for mn in monitors:
                r = MONITORS[mn](lo, oo)
                if r:
                    ctx.violation(mn, line, hs, r[0], r[1], r[2])
    return m, impl, lines


def dist(meta):
    h = {}
    for me in meta:
        key = f"{me['mode']}/objs{min(me['nobj'], 12)}"
        h[key] = h.get(key, 0) + 1
        for kd in me["kinds"]:
            h[f"kind{kd}"] = h.get(f"kind{kd}", 0) + 1
    return h


RULE_K3 = ("K3/K4: random propositional KBs (2-4 atoms, 1-5 formulae over And/Or/Implies/Not/Iff/XOr, shared objects, structurally equal twins, "
           "several roots, weights in {0,1/4,1/2,1,2}, bias in {1/2,1,3/2,2}, alpha in {1,7/8,3/4}, both variants), data either around a hidden "
           "interpretation (consistent stream) or free incl. crossed (inconsistent stream), 3-10 random node-level upward/downward(index) and "
           "model-level upward/downward/infer(source,max_steps) calls; every object's bounds and every return value compared exactly after every call; "
           "non-trivial = some operation returned a non-zero amount; distinct = distinct scenario text")


def check_C01(ctx):
    st, pr = standard_prologue(ctx)
    n = 500 if ctx.quick else 6000
    scs, meta = k3_batch(ctx, "c01", n, mode_mix=("consistent", "consistent", "consistent", "free"))
    run_k3(ctx, "K3/K4 propositional engine", scs, ["c01_sound"])
    ctx.cov["distribution"] = dist(meta)
    ctx.assumptions.append("rational interpretations (extension to real ones by density of rational points in rational polyhedra: paper argument)")
    return ctx.finish("proof", pr, st, rule=RULE_K3 + "; C01 monitor: exact rational evaluation of the hidden interpretation against the implementation's bounds after every call")


def check_C05(ctx):
    st, pr = standard_prologue(ctx)
    n = 500 if ctx.quick else 6000
    scs, meta = k3_batch(ctx, "c05", n)
    run_k3(ctx, "K3/K4 propositional engine", scs, ["c05_monotone"])
    ctx.cov["distribution"] = dist(meta)
    try:
        import checks_fol
        checks_fol.c05_fol_part(ctx)
    except (ImportError, AttributeError):
        ctx.assumptions.append("first-order / quantifier part not yet covered by this check")
    return ctx.finish("proof", pr, st, rule=RULE_K3 + "; C05 monitor: before/after snapshot of every object around every call")


def check_C13(ctx):
    st, pr = standard_prologue(ctx)
    n = 500 if ctx.quick else 6000
    scs, meta = k3_batch(ctx, "c13", n)
    run_k3(ctx, "K3/K4 propositional engine", scs, ["c13_amount"])
    ctx.cov["distribution"] = dist(meta)
    try:
        import checks_fol
        checks_fol.c13_fol_part(ctx)
    except (ImportError, AttributeError):
        ctx.assumptions.append("first-order / quantifier part not yet covered by this check")
    return ctx.finish("proof", pr, st, rule=RULE_K3 + "; C13 monitor: returned amount vs before/after snapshot of all objects")


def c17_engine_part(ctx):
    n = 250 if ctx.quick else 3000
    scs, meta = k3_batch(ctx, "c17", n, with_has_contra=True)
    run_k3(ctx, "K3/K4 propositional engine (+has_contradiction)", scs, ["c17_engine"])
    ctx.cov["engine_distribution"] = dist(meta)


CHECKS = {"C01": check_C01, "C05": check_C05, "C13": check_C13}
