#!/bin/sh
# seeded_run.sh <seeded-dir> <pid> [pid...] : apply the seeded change to /repo, run the checks, undo it
D=$(cd "$1" && pwd); shift
git -C /repo diff --quiet || { echo "/repo not clean"; exit 2; }
git -C /repo apply $D/patch.diff || exit 2
for P in "$@"; do
  OUT=$(cd /verif && bin/check $P 2>&1 | grep -E "VIOLATION|KNOWN|^\[" | tr '\n' ' ')
  echo "$(basename $D) -> $P: $OUT"
  if echo "$OUT" | grep -q VIOLATION; then cp /verif/replays/${P}_quick_0.json $D/replay_$P.json 2>/dev/null; fi
done
git -C /repo checkout -- .
