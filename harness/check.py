#!/venv/bin/python
"""check <Cxx> [--tier quick|thorough] [--replay file]"""
import sys, os, json, argparse
sys.path.insert(0, os.path.dirname(os.path.abspath(__file__)))
import lib, sx, framework


def all_checks():
    checks, monitors = {}, {}
    for modname in ("checks_base", "checks_prop", "checks_truth", "checks_hull", "checks_registry", "checks_store", "checks_fol", "checks_quant", "checks_train"):
        try:
            mod = __import__(modname)
        except ImportError as e:
            if modname in str(e):
                continue
            raise
        checks.update(getattr(mod, "CHECKS", {}))
        monitors.update(getattr(mod, "MONITORS", {}))
    return checks, monitors


def replay(pid, path, monitors):
    with open(path) as f:
        r = json.load(f)
    if r.get("kind") != "failing-input":
        print(json.dumps(r, indent=1))
        print("this replay names a theorem/correspondence that no longer checks; no concrete input to re-execute")
        return 1
    v = r["violation"]
    if v.get("monitor") == "corpus":
        import subprocess
        env = dict(os.environ); env.update({"PYTHONPATH": lib.REPO})
        p = subprocess.run([lib.PY, os.path.join(lib.VERIF, v["scenario"])], cwd="/tmp", env=env, stdout=subprocess.PIPE, stderr=subprocess.STDOUT, text=True)
        out = [l for l in p.stdout.strip().split("\n") if "WARNING" not in l]
        print("\n".join(out[-8:]))
        if not out or out[-1].strip() != "PASS":
            print(f"VIOLATION property={pid} replay={path}")
            return 1
        print("property holds on this input now")
        return 0
    line = v["scenario"]
    out = lib.run_impl([line], hashseed=v.get("hashseed", 0))[0]
    print("scenario:", line)
    print("implementation:", out)
    res = monitors[v["monitor"]](sx.loads(line), sx.loads(out))
    if res:
        print("expected:", res[0])
        print("observed:", res[1])
        print(f"VIOLATION property={pid} replay={path}")
        return 1
    print("property holds on this input now")
    return 0


def main():
    ap = argparse.ArgumentParser()
    ap.add_argument("pid")
    ap.add_argument("--tier", default=os.environ.get("VERIF_TIER", "quick"))
    ap.add_argument("--replay")
    a = ap.parse_args()
    checks, monitors = all_checks()
    if a.replay:
        sys.exit(replay(a.pid, a.replay, monitors))
    if a.pid not in checks:
        print(f"no check registered for {a.pid}")
        sys.exit(2)
    ctx = framework.Ctx(a.pid, a.tier, lib.seed_from_env())
    sys.exit(checks[a.pid](ctx))


if __name__ == "__main__":
    main()
