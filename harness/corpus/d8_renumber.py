# D8 (C08): a formula that is already a member of the model (inner formula added again as a root,
# a root repeated, set_query on a member) was re-numbered: its old key stayed in Model.nodes, so the
# object was registered twice and counted twice by Model.parameters().
import warnings; warnings.filterwarnings("ignore")
from lnn import *
A, B, C = Propositions("A", "B", "C")
f = And(A, B); g = Implies(f, C)
m = Model(); m.add_knowledge(g); m.add_knowledge(f); m.set_query(A); m.add_knowledge(g, g)
ok = True
for o in (A, B, C, f, g):
    keys = [k for k, v in m.nodes.items() if v is o]
    if keys != [o.formula_number]:
        ok = False; print("object", o.name, "number", o.formula_number, "keys", keys)
own = list(f.parameters())[0]
if sum(1 for p in m.parameters() if p is own) != 1:
    ok = False; print("parameters of", f.name, "collected more than once")
print("PASS" if ok else "FAIL")
