# D1 (C08): structurally equal sub-formulae written as separate objects.
# Before the fix: the twin is not registered / never updated, and data on a twin makes the next infer() raise.
import warnings; warnings.filterwarnings("ignore")
from lnn import *
A, B, C = Propositions("A", "B", "C")
f1 = And(A, B); f2 = And(A, B); r = Implies(f2, C)
m = Model(); m.add_knowledge(f1, r); m.add_data({A: Fact.TRUE, B: Fact.TRUE}); m.infer()
ok = any(n is f2 for n in m.nodes.values()) and tuple(f2.get_data().tolist()) == (1.0, 1.0)
try:
    m.add_data({f1: Fact.TRUE}); m.infer()
except Exception as e:
    ok = False; print("raised", type(e).__name__, e)
print("PASS" if ok else "FAIL")
