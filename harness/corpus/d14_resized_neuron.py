# D14 (C05, C12): a quantifier with a free variable replaced a grounding's private neuron by a fresh one at the world default
# whenever the grounding's number of instances changed: a bound the grounding had reached (Forall declared fully_grounded
# proved TRUE, Exists refuted) was dropped by the next upward pass, and a downward pass right after the change pushed the
# world default instead of the grounding's bounds.
import warnings; warnings.filterwarnings("ignore")
from lnn import *
x, y = Variable("x"), Variable("y"); ok = True
N = Predicate("N", arity=2)
fa = Forall(y, Not(N(x, y)), fully_grounded=True)
ex = Exists(y, Not(N(x, y)), fully_grounded=True)
m = Model(); m.add_knowledge(fa, ex)
m.add_data({N: {("a", "1"): Fact.FALSE, ("b", "1"): Fact.TRUE}})
m.upward()
b_fa = fa.get_data(("a",)).tolist()[0]; b_ex = ex.get_data(("b",)).tolist()[0]
if b_fa != [1.0, 1.0] or b_ex != [0.0, 0.0]:
    ok = False; print("setup: Forall(a) should be TRUE and Exists(b) FALSE, got", b_fa, b_ex)
m.add_data({N: {("a", "2"): Fact.UNKNOWN, ("b", "2"): Fact.UNKNOWN}})
m.upward()
a_fa = fa.get_data(("a",)).tolist()[0]; a_ex = ex.get_data(("b",)).tolist()[0]
if a_fa[0] < b_fa[0] or a_fa[1] > b_fa[1]:
    ok = False; print("Forall(a) loosened from", b_fa, "to", a_fa, "after a second instance appeared")
if a_ex[0] < b_ex[0] or a_ex[1] > b_ex[1]:
    ok = False; print("Exists(b) loosened from", b_ex, "to", a_ex, "after a second instance appeared")
print("PASS" if ok else "FAIL")
