# D3b (C05): a quantifier with free variables re-created the neuron of a grounding from the world default whenever the
# number of its instances changed: bounds concluded earlier (e.g. by a parent's downward step) were loosened.
import warnings; warnings.filterwarnings("ignore")
from lnn import *
x, y = Variables("x", "y"); P = Predicate("P", 2); R = Predicate("R"); S = Predicate("S")
fa = Forall(x, And(P(x, y), R(y)))          # free variable y
root = And(fa, S(y))
m = Model(); m.add_knowledge(root)
m.add_data({P: {("a", "m"): Fact.UNKNOWN}, R: {"m": Fact.UNKNOWN}, S: {"m": Fact.TRUE}})
m.upward()
m.add_data({root: {"m": Fact.TRUE}})
root.downward()
before = fa.get_data("m").tolist()[0]
fa.operands[0]._add_groundings(("b", "m"))    # a new instance appears (as a join or propagation would add it)
fa.upward()
after = fa.get_data("m").tolist()[0]
ok = before == [1.0, 1.0] and after[0] >= before[0]
if not ok:
    print("Forall_x(y=m) was", before, "after the parent's downward; after a new instance and upward it reads", after)
print("PASS" if ok else "FAIL")
