# D12 (C15): add_data on a formula object that is NOT in the model was accepted whenever a structurally equal
# formula was: the data went to the outsider object and the model silently ignored it.
import warnings; warnings.filterwarnings("ignore")
from lnn import *
A, B = Propositions("A", "B")
f = And(A, B); outsider = And(A, B)
m = Model(); m.add_knowledge(f)
ok = True
try:
    m.add_data({outsider: Fact.TRUE})
    ok = False; print("add_data on a formula that is not in the model was accepted; member reads", f.get_data().tolist())
except Exception as e:
    if tuple(outsider.get_data().tolist()) != (0.0, 1.0):
        ok = False; print("rejected but the table changed")
x = Variable("x"); P = Predicate("P"); Q = Predicate("P")   # same name, different object
m2 = Model(); m2.add_knowledge(P)
try:
    m2.add_data({Q: {"a": Fact.TRUE}})
    ok = False; print("add_data on an outsider predicate accepted; member groundings", P.groundings)
except Exception:
    pass
m.add_data({f: Fact.TRUE, A: (0.25, 0.5)})
if tuple(f.get_data().tolist()) != (1.0, 1.0) or tuple(A.get_data().tolist()) != (0.25, 0.5):
    ok = False; print("member data not stored")
print("PASS" if ok else "FAIL")
