# D15 (C12): fully quantified downward over a quantifier operand (Forall(x, y, f) nests) inverted with a one-input neuron per
# inner grounding: a FALSE Forall(x, y, f) decided the undetermined instances of EVERY x-group at once.
import warnings; warnings.filterwarnings("ignore")
from lnn import *
x, y = Variable("x"), Variable("y"); ok = True
N = Predicate("N", arity=2)
fa = Forall(x, y, Not(N(x, y)))
m = Model(); m.add_knowledge(fa, world=World.FALSE)
m.add_data({N: {("a", "1"): Fact.FALSE, ("a", "2"): Fact.UNKNOWN, ("b", "1"): Fact.FALSE, ("b", "2"): Fact.UNKNOWN}})
m.infer()
for g in [("a", "2"), ("b", "2")]:
    b = N.get_data(g).tolist()[0]
    print(g, b)
    if b != [0.0, 1.0]:
        ok = False
print("PASS" if ok else "FAIL: a FALSE Forall(x, y, ...) made undetermined instances of BOTH x-groups decided")
