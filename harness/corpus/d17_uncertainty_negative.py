# D17 (C18): with alpha < 1 bounds may cross inside one classical region without being a contradiction; such a row entered
# the uncertainty loss with its negative width, so Model.train(losses={Loss.UNCERTAINTY: c}) (and Model.loss_fn) reported a
# negative loss.
import warnings; warnings.filterwarnings("ignore")
from lnn import *
m = Model(); ok = True
A = Proposition("A", alpha=0.75); B = Proposition("B", alpha=0.75)
R = Implies(A, B, activation={"alpha": 0.75})
m.add_knowledge(R, world=World.AXIOM)
m.add_data({A: (0.875, 1.0), B: (0.0, 0.8125)})
m.infer()
if m.has_contradiction():
    ok = False; print("bounds crossed inside the TRUE region at alpha 0.75 reported as a contradiction")
loss = float(m.loss_fn({Loss.UNCERTAINTY: 1.0})[0])
if loss < 0:
    ok = False; print("loss_fn reports an uncertainty loss of", loss)
(running, hist), _ = m.train(losses={Loss.UNCERTAINTY: 1.0}, epochs=2, learning_rate=0.0)
if any(v < 0 for v in running) or any(v < 0 for row in hist for v in row):
    ok = False; print("Model.train reports losses", running, hist)
P = Predicate("P", alpha=0.75); m2 = Model(); m2.add_knowledge(P)
m2.add_data({P: {"a": (0.9375, 0.8125), "b": (0.25, 0.5)}})
l2 = float(m2.loss_fn({Loss.UNCERTAINTY: 1.0})[0])
if abs(l2 - 0.25) > 1e-6:
    ok = False; print("first-order: rows (15/16, 13/16) [tolerated] and (1/4, 1/2): uncertainty loss", l2, "instead of 0.25")
print("PASS" if ok else "FAIL")
