# D3 (C05, C06, C13): _fully_quantified_upward rebuilt its neuron from the world default on every call: it forgot what a
# parent's downward step had concluded, re-reported the same tightening on every pass, and infer() never converged.
import warnings; warnings.filterwarnings("ignore")
from lnn import *
x = Variable("x"); ok = True
P = Predicate("P"); fa = Forall(x, P(x)); m = Model(); m.add_knowledge(fa)
m.add_data({P: {"a": Fact.TRUE, "b": Fact.FALSE}})
r1 = float(m.upward()[1]); r2 = float(m.upward()[1])
if r2 != 0.0:
    ok = False; print("second identical upward pass reports", r2, "(first:", r1, ")")
steps, _ = m.infer(max_steps=20)
if steps >= 20:
    ok = False; print("infer() used all", steps, "steps")
Q = Proposition("Q"); P2 = Predicate("P2"); fa2 = Forall(x, P2(x)); root = And(fa2, Q)
m2 = Model(); m2.add_knowledge(root); m2.add_data({root: Fact.TRUE, P2: {"a": Fact.UNKNOWN}})
m2.downward(); before = fa2.get_data().tolist(); m2.upward(); after = fa2.get_data().tolist()
if before != [1.0, 1.0] or after[0] < before[0]:
    ok = False; print("Forall concluded", before, "by the parent's downward, then upward gives", after)
print("PASS" if ok else "FAIL")
