# D6 (C15/C17): a float outside [0,1] was accepted and stored.
import warnings; warnings.filterwarnings("ignore")
from lnn import *
P = Proposition("P"); m = Model(); m.add_knowledge(P)
try:
    m.add_data({P: 1.5}); rejected = False
except Exception as e:
    rejected = True
print(tuple(P.get_data().tolist()), "rejected" if rejected else "accepted")
print("PASS" if rejected and tuple(P.get_data().tolist()) == (0.0, 1.0) else "FAIL")
