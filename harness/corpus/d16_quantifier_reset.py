# D16 (C16, C15): reset_bounds() left quantifiers unusable until the next upward pass: a quantifier with free variables had
# its table emptied while its groundings stayed registered (get_data(g), state(g) and Model.print() raised IndexError), a fully
# quantified one got a table of the wrong shape (a downward pass right after the reset raised RuntimeError); the per-grounding
# neurons of the former were not reset at all.
import warnings; warnings.filterwarnings("ignore")
import io, contextlib
from lnn import *
x, y = Variable("x"), Variable("y"); ok = True
N = Predicate("N", arity=2)
fa = Forall(y, Not(N(x, y)), world=World.AXIOM)
m = Model(); m.add_knowledge(fa)
m.add_data({N: {("a", "1"): Fact.UNKNOWN, ("b", "1"): Fact.FALSE}})
m.infer(); m.reset_bounds()
for what, f in [("get_data(grounding)", lambda: fa.get_data(("a",)).tolist()), ("state(grounding)", lambda: fa.state(("a",))), ("Model.print()", lambda: m.print())]:
    try:
        with contextlib.redirect_stdout(io.StringIO()):
            r = f()
        if what == "get_data(grounding)" and r != [[1.0, 1.0]]:
            ok = False; print("after reset_bounds() the axiom Forall(a) reads", r, "instead of its world default")
    except Exception as e:
        ok = False; print(what, "after reset_bounds() raises", type(e).__name__)
P = Predicate("P"); fq = Forall(x, P(x), world=World.AXIOM); m2 = Model(); m2.add_knowledge(fq); m2.add_data({P: {"a": Fact.UNKNOWN}})
m2.infer(); m2.reset_bounds()
try:
    m2.downward()
    if P.get_data("a").tolist() != [[1.0, 1.0]]:
        ok = False; print("axiom Forall after reset_bounds(): downward leaves P(a) at", P.get_data("a").tolist())
except Exception as e:
    ok = False; print("downward pass right after reset_bounds() raises", type(e).__name__)
print("PASS" if ok else "FAIL")
