# D4 (C12): _fully_quantified_downward inverted with the initial arity-1 neuron, once per instance: every instance got the
# quantifier's own bounds -- a FALSE Forall made TRUE instances FALSE, a TRUE Exists made FALSE instances TRUE.
import warnings; warnings.filterwarnings("ignore")
from lnn import *
x = Variable("x"); ok = True
P = Predicate("P"); fa = Forall(x, P(x)); m = Model(); m.add_knowledge(fa)
m.add_data({P: {"a": Fact.TRUE, "b": Fact.FALSE}}); m.infer(max_steps=10)
if P.get_data("a").tolist()[0] != [1.0, 1.0] or m.has_contradiction():
    ok = False; print("FALSE Forall over {TRUE, FALSE}: P(a) =", P.get_data("a").tolist()[0])
P2 = Predicate("P2"); ex = Exists(x, P2(x), world=World.AXIOM); m2 = Model(); m2.add_knowledge(ex)
m2.add_data({P2: {"a": Fact.UNKNOWN, "b": Fact.UNKNOWN, "c": Fact.FALSE}}); m2.infer(max_steps=10)
if P2.get_data("c").tolist()[0] != [0.0, 0.0] or P2.get_data("a").tolist()[0] != [0.0, 1.0] or m2.has_contradiction():
    ok = False; print("TRUE Exists over {U, U, FALSE}:", {g: P2.get_data(g).tolist()[0] for g in "abc"})
P3 = Predicate("P3"); fa3 = Forall(x, P3(x), world=World.AXIOM); m3 = Model(); m3.add_knowledge(fa3)
m3.add_data({P3: {"a": Fact.UNKNOWN, "b": (0.25, 1.0)}}); m3.infer(max_steps=10)
if [P3.get_data(g).tolist()[0] for g in "ab"] != [[1.0, 1.0], [1.0, 1.0]]:
    ok = False; print("axiom Forall makes each instance TRUE:", [P3.get_data(g).tolist()[0] for g in "ab"])
P4 = Predicate("P4"); ex4 = Exists(x, P4(x), world=World.AXIOM); m4 = Model(); m4.add_knowledge(ex4)
m4.add_data({P4: {"a": Fact.FALSE, "b": Fact.UNKNOWN, "c": Fact.FALSE}}); m4.infer(max_steps=10)
if P4.get_data("b").tolist()[0] != [1.0, 1.0]:
    ok = False; print("TRUE Exists with all other instances FALSE forces the last one:", P4.get_data("b").tolist()[0])
print("PASS" if ok else "FAIL")
