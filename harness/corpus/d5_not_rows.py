# D5 (C10, C02, C05): first-order Not.upward/downward aggregated its operand's bounds against its own table
# WITHOUT row indices, in the iteration order of a Python set: rows misaligned (hash-seed dependent), a one-row
# side silently broadcast to every grounding, and a size mismatch raised RuntimeError once another formula had
# propagated groundings into the Not.
import warnings; warnings.filterwarnings("ignore")
from lnn import *
x = Variable("x")
ok = True
# (1) size mismatch after groundings were propagated into the Not by its parent
P, Q = Predicates("P", "Q")
n = Not(P(x)); f = And(n, Q(x))
m = Model(); m.add_knowledge(f)
m.add_data({P: {"a": Fact.TRUE, "b": Fact.FALSE}})
try:
    m.upward()
    m.add_data({Q: {"c": Fact.TRUE, "d": Fact.TRUE, "e": Fact.TRUE}, P: {"f": Fact.TRUE}})
    m.upward(); m.upward()
except RuntimeError as e:
    ok = False; print("raised RuntimeError:", str(e)[:80])
# (2) alignment: every grounding of Not(P) is the negation of the same grounding of P
if ok:
    for g in n.groundings:
        pb = P.get_data(*g).tolist()[0] if False else P.get_data(g[0]).tolist()[0]
        nb = n.get_data(g[0]).tolist()[0]
        if pb in ([1.0, 1.0], [0.0, 0.0]) and nb != [1 - pb[1], 1 - pb[0]]:
            ok = False; print("grounding", g, "P", pb, "Not(P)", nb)
# (3) no silent broadcast: one asserted grounding on the Not must not leak to the operand's other rows
P2 = Predicate("P2"); n2 = Not(P2(x)); m2 = Model(); m2.add_knowledge(n2)
m2.add_data({P2: {"a": Fact.UNKNOWN, "b": Fact.UNKNOWN, "c": Fact.UNKNOWN}})
m2.add_data({n2: {"a": Fact.TRUE}})
try:
    m2.downward()
    got = {g: P2.get_data(g).tolist()[0] for g in ("a", "b", "c")}
    if got["b"] != [0.0, 1.0] or got["c"] != [0.0, 1.0] or got["a"] != [0.0, 0.0]:
        ok = False; print("leak between groundings:", got)
except RuntimeError as e:
    ok = False; print("raised RuntimeError:", str(e)[:80])
print("PASS" if ok else "FAIL")
