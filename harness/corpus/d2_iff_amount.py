# D2 (C13): Iff/XOr dropped the amounts of the sub-formulae they update.
import warnings; warnings.filterwarnings("ignore")
from lnn import *
A, B = Propositions("A", "B"); i = Iff(A, B)
m = Model(); m.add_knowledge(i); m.add_data({i: Fact.TRUE}); m.downward()
m.add_data({A: Fact.TRUE})
before = tuple(B.get_data().tolist())
steps, amount = m.downward()
after = tuple(B.get_data().tolist())
print(before, after, float(amount))
print("PASS" if (before == after) == (float(amount) == 0.0) else "FAIL")
