# D13 (C11): a quantifier with free variables stacked its per-grounding bounds in sorted (groupby) order, but looked them up
# through grounding_table (order of first appearance): after a second upward with a new grounding that sorts first, the
# groundings read each other's bounds.
import warnings; warnings.filterwarnings("ignore")
from lnn import *
x, y = Variables("x", "y"); P = Predicate("P", 2); R = Predicate("R")
fa = Forall(x, And(P(x, y), R(y)))          # free variable y
m = Model(); m.add_knowledge(fa)
m.add_data({P: {("a", "m"): Fact.TRUE, ("b", "m"): Fact.FALSE}, R: {"m": Fact.TRUE}})
m.upward()
m.add_data({P: {("a", "c"): Fact.TRUE, ("b", "c"): Fact.TRUE}, R: {"c": Fact.TRUE}})
m.upward()
got = {g: fa.get_data(g).tolist()[0] for g in ("m", "c")}
ok = got == {"m": [0.0, 0.0], "c": [0.0, 1.0]}
if not ok:
    print("Forall_x for y=m (one FALSE instance) and y=c (only TRUE instances) read", got)
print("PASS" if ok else "FAIL")
