# D10 (C06, C16): Model.infer() declared convergence after a step that moved no bound but CREATED rows (groundings
# propagated into an operand by the downward pass): the state it left was not a fixpoint -- a further upward step
# tightened a bound -- and reset_bounds() + infer() gave different bounds than the first run.
import warnings; warnings.filterwarnings("ignore")
from lnn import *
x = Variable("x")
P = Predicate("P", world=World.CLOSED)
f = Implies(P(x), P(x))
m = Model(); m.add_knowledge(f)
m.add_data({f: {"a": Fact.UNKNOWN, "c": Fact.TRUE}})
m.infer()
run1 = {g: f.get_data(g).tolist()[0] for g in ("a", "c")}
ok = True
moved = float(f.upward())
if moved != 0.0:
    ok = False; print("after infer() a further upward() of the formula still tightens by", moved, "run1 was", run1)
m.reset_bounds(); m.infer()
run2 = {g: f.get_data(g).tolist()[0] for g in ("a", "c")}
m2 = Model(); P2 = Predicate("P", world=World.CLOSED); f2 = Implies(P2(x), P2(x)); m2.add_knowledge(f2)
m2.add_data({f2: {"a": Fact.UNKNOWN, "c": Fact.TRUE}}); m2.infer()
fresh = {g: f2.get_data(g).tolist()[0] for g in ("a", "c")}
if run2 != fresh:
    ok = False; print("reset_bounds()+infer() gives", run2, "a fresh model gives", fresh)
print("PASS" if ok else "FAIL")
