"""Generators of propositional knowledge bases and operation sequences (K3/K4)."""
from fractions import Fraction as F
import itertools

G8 = [F(i, 8) for i in range(9)]
DEFP = [F(1), F(1), [], 1]


def params(rng, arity, weighted=True):
    al = rng.choice([a for a in (F(1), F(1), F(1), F(7, 8), F(3, 4)) if a >= F(arity, arity + 1)])
    if weighted and rng.random() < 0.5:
        ws = [rng.choice([F(1), F(1), F(1, 2), F(2), F(0), F(1, 4)]) for _ in range(arity)]
        b = rng.choice([F(1), F(1), F(1, 2), F(3, 2), F(2)])
    else:
        ws = [F(1)] * arity
        b = F(1)
    return [al, b, ws, rng.choice([0, 1])]


def gen_kb(rng, natoms=None, nforms=None, weighted=True, kinds=None, twins=0.25):
    """returns (kb, all object ids that are 'user objects')"""
    natoms = natoms or rng.choice([2, 3, 4])
    nforms = nforms or rng.choice([1, 2, 3, 4, 5])
    kinds = kinds or ["And", "Or", "Implies", "Not", "Iff", "XOr", "And", "Or", "Implies"]
    kb = []
    avail = []   # ids usable as operands by the user
    for i in range(natoms):
        kb.append([0, [], [F(1), F(1), [], 1], []])
        avail.append(i)
    last_sig = None
    for _ in range(nforms):
        if last_sig is not None and rng.random() < twins:
            kind, ops, p = last_sig          # structurally equal twin written as a separate object
        else:
            kind = rng.choice(kinds)
            k = 1 if kind == "Not" else 2 if kind in ("Implies", "Iff") else rng.choice([2, 2, 3])
            ops = [rng.choice(avail) for _ in range(k)]
            p = None
        if kind == "Not":
            kb.append([1, ops, [F(1), F(1), [], 1], []])
        elif kind in ("And", "Or", "Implies"):
            p = p or params(rng, len(ops), weighted)
            kb.append([{"And": 2, "Or": 3, "Implies": 4}[kind], ops, p, []])
        elif kind == "Iff":
            p = p or params(rng, 2, weighted)
            a, b = ops
            i1 = len(kb)
            kb.append([4, [a, b], p, []])
            kb.append([4, [b, a], p, []])
            kb.append([5, [i1, i1 + 1], p, []])
        else:  # XOr, default parameters everywhere
            conjs = []
            for a, b in itertools.combinations(ops, 2):
                conjs.append(len(kb))
                kb.append([2, [a, b], [F(1), F(1), [F(1), F(1)], 1], []])
            negs = []
            for c in conjs:
                negs.append(len(kb))
                kb.append([1, [c], [F(1), F(1), [], 1], []])
            disj = len(kb)
            kb.append([3, list(ops), [F(1), F(1), [F(1)] * len(ops), 1], []])
            m = len(negs) + 1
            kb.append([6, negs + [disj], [F(1), F(1), [F(1)] * m, 1], conjs])
        avail.append(len(kb) - 1)
        last_sig = (kind, ops, p)
    return kb


def roots_of(rng, kb, extra=0.2):
    used = set()
    for o in kb:
        used.update(o[1])
        used.update(o[3])
    roots = [i for i, o in enumerate(kb) if i not in used and o[0] != 0]
    if not roots:
        roots = [len(kb) - 1]
    # sometimes also add an inner formula explicitly as a root (repeated registration)
    inner = [i for i, o in enumerate(kb) if o[0] != 0 and i in used and not owned(kb, i)]
    if inner and rng.random() < extra:
        roots.append(rng.choice(inner))
    rng.shuffle(roots)
    return roots


def owned(kb, i):
    for o in kb:
        if o[0] == 5 and i in o[1]:
            return True
        if o[0] == 6 and (i in o[1] or i in o[3]):
            return True
    return False


def reachable(kb, roots):
    seen = set()
    todo = list(roots)
    while todo:
        i = todo.pop()
        if i in seen:
            continue
        seen.add(i)
        todo.extend(kb[i][1])
    return seen


def restrict(kb, roots):
    """drop objects not reachable from the roots (they are not in the model) and renumber"""
    keep = sorted(reachable(kb, roots))
    ren = {o: n for n, o in enumerate(keep)}
    kb2 = []
    for i in keep:
        kd, ops, p, aux = kb[i]
        kb2.append([kd, [ren[j] for j in ops], p, [ren[j] for j in aux]])
    return kb2, [ren[r] for r in roots]


def eval_kb(kb, atoms_val):
    """exact weighted Lukasiewicz value of every object under an interpretation of the atoms"""
    def clamp(x):
        return max(F(0), min(F(1), x))
    vals = []
    for i, (kd, ops, p, aux) in enumerate(kb):
        if kd == 0:
            vals.append(atoms_val[i])
            continue
        xs = [vals[j] for j in ops]
        b, ws = p[1], p[2]
        if kd == 1:
            vals.append(1 - xs[0])
        elif kd in (2, 5, 6):
            vals.append(clamp(b - sum(w * (1 - x) for w, x in zip(ws, xs))))
        elif kd == 3:
            vals.append(clamp(1 - b + sum(w * x for w, x in zip(ws, xs))))
        elif kd == 4:
            vals.append(clamp(1 - b + ws[0] * (1 - xs[0]) + ws[1] * xs[1]))
    return vals


def gen_data(rng, kb, mode):
    """mode 'consistent': bounds around a hidden interpretation; 'free': arbitrary incl. crossed"""
    data = []
    hidden = None
    if mode == "consistent":
        hidden = eval_kb(kb, {i: rng.choice(G8) for i, o in enumerate(kb) if o[0] == 0})
    for i, o in enumerate(kb):
        if rng.random() < 0.55:
            if mode == "consistent":
                x = hidden[i]
                c = rng.random()
                if c < 0.3:
                    l, u = x, x
                elif c < 0.5 and x in (0, 1):
                    l, u = x, x
                else:
                    l = rng.choice([g for g in G8 if g <= x])
                    u = rng.choice([g for g in G8 if g >= x])
                    if x not in G8:
                        continue
            else:
                l, u = sorted((rng.choice(G8), rng.choice(G8)))
                if rng.random() < 0.1:
                    l, u = u, l
                if rng.random() < 0.4:
                    l, u = rng.choice([(F(0), F(0)), (F(1), F(1))])
            data.append([i, [l, u]])
    return data, hidden


def gen_ops(rng, kb, roots, n, model_level=0.4):
    ops = []
    nonleaf = [i for i, o in enumerate(kb) if o[0] != 0]
    for _ in range(n):
        c = rng.random()
        if c < (1 - model_level) / 2:
            ops.append([1, rng.choice(nonleaf)])
        elif c < (1 - model_level):
            i = rng.choice(nonleaf)
            idx = -1
            if kb[i][0] in (2, 3, 4, 5) and rng.random() < 0.3:
                idx = rng.randrange(len(kb[i][1]))
            ops.append([2, i, idx])
        else:
            src = -1
            if rng.random() < 0.25:
                src = rng.choice(nonleaf)
            t = rng.choice([3, 4, 5, 5])
            if t == 5:
                ops.append([5, src, rng.choice([1, 2, 3, 30])])
            else:
                ops.append([t, src])
    return ops


def gen_k3(rng, n, mode_mix=("consistent", "free"), nops=(3, 6, 10), weighted=True):
    out, meta = [], []
    for _ in range(n):
        kb = gen_kb(rng, weighted=weighted)
        roots = roots_of(rng, kb)
        kb, roots = restrict(kb, roots)
        mode = rng.choice(mode_mix)
        data, hidden = gen_data(rng, kb, mode)
        ops = gen_ops(rng, kb, roots, rng.choice(nops))
        out.append([3, kb, roots, data, ops])
        meta.append({"mode": mode, "hidden": hidden, "nobj": len(kb), "kinds": sorted(set(o[0] for o in kb))})
    return out, meta


def gen_k3_conflict(rng, n):
    """formulae asserted TRUE / FALSE over operands that already carry graded bounds, node-level downward calls first
    (before any upward call has seen the conflict), then an arbitrary mix: the inverse of a resolved formula has to be
    intersected with what the operand already holds"""
    out, meta = [], []
    for _ in range(n):
        kb = gen_kb(rng, weighted=rng.random() < 0.3, nforms=rng.choice([1, 2, 3]),
                    kinds=["Not", "Not", "Not", "And", "Or", "Implies", "Iff"])
        roots = roots_of(rng, kb)
        kb, roots = restrict(kb, roots)
        owned = {j for o in kb if o[0] in (5, 6) for j in list(o[1]) + list(o[3])}
        data = []
        for i, o in enumerate(kb):
            if o[0] == 0:
                if rng.random() < 0.85:
                    l, u = sorted((rng.choice(G8), rng.choice(G8)))
                    data.append([i, [l, u]])
            elif i not in owned and rng.random() < 0.8:
                data.append([i, rng.choice([[F(1), F(1)], [F(1), F(1)], [F(0), F(0)], [F(0), F(0)], [F(1), F(0)]])])
        forms = [i for i, o in enumerate(kb) if o[0] != 0]
        ops = [[2, rng.choice(forms), -1] for _ in range(rng.choice([1, 2, 3]))]
        ops += gen_ops(rng, kb, roots, rng.choice([2, 4]), model_level=0.3)
        out.append([3, kb, roots, data, ops])
        meta.append({"mode": "conflict", "hidden": None, "nobj": len(kb), "kinds": sorted(set(o[0] for o in kb))})
    return out, meta


def gen_k3_late(rng, n):
    """knowledge added over several add_knowledge calls: a first call with some roots, later calls (op 13) with the others,
    structurally equal twins likely; has_contradiction() probed between the calls"""
    out, meta = [], []
    while len(out) < n:
        targeted = rng.random() < 0.5
        if targeted:
            # one rule written three (or four) times as separate objects over shared atoms, one copy asserted against the atoms
            kind = rng.choice([2, 3, 4])
            k = 2 if kind == 4 else rng.choice([2, 3])
            kb = [[0, [], [F(1), F(1), [], 1], []] for _ in range(k)]
            p = params(rng, k, weighted=False)
            ncopy = rng.choice([3, 3, 4])
            for _ in range(ncopy):
                kb.append([kind, list(range(k)), p, []])
            roots = list(range(k, k + ncopy))
            vals = [rng.choice([F(0), F(1)]) for _ in range(k)]
            v = eval_kb(kb, dict(enumerate(vals)))[k]
            data_all = [[i, [vals[i], vals[i]]] for i in range(k)]
            for c in rng.sample(roots, rng.choice([1, 1, 2])):
                data_all.append([c, [1 - v, 1 - v]] if rng.random() < 0.8 else [c, [v, v]])
            first, late = roots[:1], roots[1:]
        else:
            kb = gen_kb(rng, weighted=rng.random() < 0.3, nforms=rng.choice([2, 3, 4]), twins=0.6)
            roots = roots_of(rng, kb, extra=0)
            kb, roots = restrict(kb, roots)
            if len(roots) < 2:
                continue
            k0 = rng.randrange(1, len(roots))
            first, late = roots[:k0], roots[k0:]
            data_all, _ = gen_data(rng, kb, "free")
        reg = reachable(kb, first)
        data = [d for d in data_all if d[0] in reg]
        pending = [d for d in data_all if d[0] not in reg]

        def some_ops(m):
            res = []
            for op in gen_ops(rng, kb, first, m, model_level=0.7):
                if op[0] in (3, 4, 5) and op[1] >= 0 and op[1] not in reg:
                    op[1] = -1
                res.append(op)
            return res
        ops = some_ops(rng.choice([0, 1, 2])) + [[9]]
        for r in late:
            ops.append([13, r])
            reg |= reachable(kb, [r])
            for d in [d for d in pending if d[0] in reg]:
                ops.append([8, d[0], d[1]])
                pending.remove(d)
            if targeted:
                ops.append(rng.choice([[3, -1], [3, -1], [5, -1, 30]]))
            else:
                ops += some_ops(rng.choice([1, 2, 3]))
            ops.append([9])
        out.append([3, kb, first, data, ops])
        meta.append({"mode": "late-targeted" if targeted else "late-random", "hidden": None, "nobj": len(kb), "kinds": sorted(set(o[0] for o in kb))})
    return out, meta


def gen_chain(rng):
    """a chain of rules a0 - a1 - ... - ak (Implies in either direction, Iff, Or(Not a, b)), every rule asserted TRUE, one
    classical fact at an end (sometimes also inside): information has to travel through several passes and the order of the
    roots decides how many. Returns (kb, roots, data)."""
    k = rng.choice([2, 3, 3, 4])
    kb = [[0, [], [F(1), F(1), [], 1], []] for _ in range(k + 1)]
    roots, data = [], []
    unit = [F(1), F(1), [F(1), F(1)], 1]
    for i in range(k):
        a, b = i, i + 1
        kind = rng.choice(["imp", "imp", "rimp", "iff", "iff", "or", "xor", "xor"])
        if kind == "xor":
            # XOr(a, b) asserted TRUE: exactly one of the two; built as the library builds it (pairwise And, Not, Or, root)
            conj = len(kb)
            kb.append([2, [a, b], [F(1), F(1), [F(1), F(1)], 1], []])
            kb.append([1, [conj], [F(1), F(1), [], 1], []])
            kb.append([3, [a, b], [F(1), F(1), [F(1), F(1)], 1], []])
            kb.append([6, [conj + 1, conj + 2], [F(1), F(1), [F(1), F(1)], 1], [conj]])
        elif kind == "imp":
            kb.append([4, [a, b], list(unit), []])
        elif kind == "rimp":
            kb.append([4, [b, a], list(unit), []])
        elif kind == "or":
            kb.append([1, [a], [F(1), F(1), [], 1], []])
            kb.append([3, [len(kb) - 1, b], list(unit), []])
        else:
            if rng.random() < 0.5:
                a, b = b, a
            i1 = len(kb)
            kb.append([4, [a, b], list(unit), []])
            kb.append([4, [b, a], list(unit), []])
            kb.append([5, [i1, i1 + 1], list(unit), []])
        roots.append(len(kb) - 1)
        data.append([len(kb) - 1, [F(1), F(1)]])
    # observers: negations of atoms as extra roots without data (something further down the line has to hear about the atom)
    for _o in range(rng.choice([0, 1, 2])):
        kb.append([1, [rng.randrange(k + 1)], [F(1), F(1), [], 1], []])
        roots.append(len(kb) - 1)
    rng.shuffle(roots)
    end = rng.choice([0, k])
    data.append([end, rng.choice([[F(1), F(1)], [F(0), F(0)]])])
    if rng.random() < 0.3:
        data.append([rng.randrange(k + 1), rng.choice([[F(1), F(1)], [F(0), F(0)], [F(1, 2), F(1)]])])
    seen, dd = set(), []
    for i, b in reversed(data):
        if i not in seen:
            seen.add(i)
            dd.append([i, b])
    return kb, roots, list(reversed(dd))
