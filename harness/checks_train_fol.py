"""C18, first-order training (implementation only -- there is no Coq model of first-order training runs): Model.train with a
scripted optimiser on first-order knowledge bases; monitors: asserted facts and labels untouched, parameters admissible and
finite, losses non-negative, and the bounds left behind equal reset_bounds()+infer() of a fresh model under the final
parameters (read as maps with the world default)."""
from fractions import Fraction as F
import sx, lib, gen_fol
from checks_fol import all_gnds, tabs, reads_equal, crossed


def gen_train_fol(rng, n):
    scs = []
    while len(scs) < n:
        kb, worlds = gen_fol.gen_fkb(rng, nforms=rng.choice([1, 1, 2]), kinds=["And", "Or", "Implies", "And"], hetero=0.5, weighted=rng.random() < 0.5, maxar=2)
        roots = gen_fol.froots(rng, kb)
        kb, worlds, roots = gen_fol.frestrict(kb, worlds, roots)
        neurons = [i for i, o in enumerate(kb) if o[0] >= 2]
        if not neurons:
            continue
        for o in kb:
            o[4] = list(o[4])
            o[4][0] = F(1)
        worlds = [(w if o[0] == 0 else gen_fol.OPEN) for o, w in zip(kb, worlds)]
        data = []
        for i, o in enumerate(kb):
            if o[0] == 0:
                d = [[list(g), rng.choice([[F(1), F(1)], [F(0), F(0)], [F(1, 4), F(3, 4)], [F(1, 2), F(1)]])] for g in all_gnds(o[3], 2) if rng.random() < 0.7]
                if d:
                    data.append([i, d])
        labs = []
        for i in neurons:
            gs = all_gnds(kb[i][3], 2)
            rng.shuffle(gs)
            d = [[list(g), rng.choice([[F(1), F(1)], [F(0), F(0)], [F(1, 2), F(1)]])] for g in gs[:rng.choice([1, 2, 4])]]
            labs.append([i, d])
        cfgs = []
        for i, o in enumerate(kb):
            wm = [rng.choice([F(1), F(2), F(3, 2)])] if (o[0] >= 2 and rng.random() < 0.4) else []
            bm = [rng.choice([F(1), F(2)])] if (o[0] >= 2 and rng.random() < 0.3) else []
            cfgs.append([wm, bm, 0])
        epochs = rng.choice([1, 2, 3])
        script = []
        for _e in range(epochs):
            step = []
            for i in neurons:
                if rng.random() < 0.8:
                    ar = len(kb[i][1])
                    ws = [rng.choice([F(1), F(1, 2), F(2), F(-1, 2), F(3), F(0), F(-2), F(5, 4)]) for _ in range(ar)]
                    b = rng.choice([F(1), F(1, 2), F(3, 2), F(-1), F(3), F(0)])
                    step.append([i, ws, b])
            script.append(step)
        flags = [1, rng.choice([0, 1]), rng.choice([0, 1, 1])]
        scs.append([61, kb, roots, worlds, data, labs, cfgs, script, epochs, flags])
    return scs


def monitor_trace(sc, obs):
    if obs and obs[0] == -900:
        return ("Model.train completes", f"raised error class {obs[1]}")
    kb, roots, worlds, data, labs, cfgs, script, epochs, flags = sc[1:10]
    losses, final, params, (facts_same, labels_same, finite, nrun) = obs
    if not facts_same:
        return ("Model.train never changes asserted facts", "stored data differ after train()")
    if not labels_same:
        return ("Model.train never changes labels", "labels differ after train()")
    if not finite:
        return ("all parameters finite after train()", "non-finite parameter")
    if nrun >= 1:
        for i, (o, p) in enumerate(zip(kb, params)):
            if o[0] < 2:
                continue
            ws, b = [sx.q(w) for w in p[0]], sx.q(p[1])
            wm, bm, ng = cfgs[i]
            if any(w < 0 for w in ws):
                return (f"after train(): weights of object {i} are non-negative (negative weights not requested)", f"{ws}")
            if wm and any(w > sx.q(wm[0]) for w in ws):
                return (f"after train(): weights of object {i} are within w_max {sx.q(wm[0])}", f"{ws}")
            if b < 0 or (bm and b > sx.q(bm[0])):
                return (f"after train(): bias of object {i} is in [0, b_max]", f"{b}")
    for e, loss in enumerate(losses):
        if sx.q(loss) < 0:
            return (f"epoch {e}: reported loss is non-negative", f"{sx.q(loss)}")
    return None


def fresh_scenario(sc, params):
    kb2 = []
    for o, p in zip(sc[1], params):
        o = list(o)
        if o[0] >= 2:
            o[4] = [o[4][0], sx.q(p[1]), [sx.q(w) for w in p[0]], o[4][3]]
        kb2.append(o)
    return [40, kb2, sc[2], sc[3], sc[4], [[5, -1, 200]]]


def c18_fol_training_part(ctx):
    rng = ctx.rng("c18foltrain")
    scs = gen_train_fol(rng, 120 if ctx.quick else 1500)
    lines = [sx.dumps(s) for s in scs]
    outs = lib.run_impl(lines, per_proc=20)
    ctx.cov["evaluations"] += len(lines)
    fin = []
    for sc, line, o in zip(scs, lines, outs):
        oo = sx.loads(o)
        r = monitor_trace(sc, oo)
        if r:
            ctx.violation("c18_fol_trace", line, 0, r[0], r[1], None)
        elif not (oo and oo[0] == -900):
            fin.append((sc, line, oo))
    flines = [sx.dumps(fresh_scenario(sc, oo[2])) for sc, _, oo in fin]
    fouts = lib.run_impl(flines, per_proc=60)
    ctx.cov["evaluations"] += len(flines)
    compared = 0
    for (sc, line, oo), fl, fo in zip(fin, flines, fouts):
        fo = sx.loads(fo)
        if (fo and fo[0] == -900) or (fo and fo[0] and fo[0][0] == -900):
            continue
        if fo[0][0] >= 200:
            continue
        want, got = tabs(fo[0][2]), tabs(oo[1])
        world = [sx.bnd(w) for w in sc[3]]
        if any(crossed(F(1), l, u) for t in want for (l, u) in t.values()):
            continue          # contradictory data: arresting depends on the rows that already exist (known finding of C16)
        compared += 1
        d = reads_equal(want, got, world)
        if d:
            ctx.violation("c18_fol_final", line, 0, f"bounds left by train() equal reset_bounds()+infer() of a fresh model under the final parameters: object {d[0]} grounding {d[1]} = {d[2]} (fresh-model scenario: {fl})", f"{d[3]}", None)
    ctx.cov["fol_training"] = {"traces": len(scs), "final_states_compared": compared}
    ctx.assumptions.append("first-order training runs have no Coq model: facts/labels untouched, admissible finite parameters, non-negative losses and final bounds = fresh reset+infer are monitored on the implementation only (scripted optimiser)")
