#!/venv/bin/python
"""Runs scenarios on the real implementation (/repo working tree) and prints observations
in the same integer s-expression format the extracted model prints.

stdin: one scenario per line.  stdout: one observation per line.
Run as:  PYTHONPATH=/repo PYTHONHASHSEED=<n> /venv/bin/python impl_runner.py
Errors raised by the implementation become (-900 <class-code>).
"""
import sys, os, warnings, io, contextlib
warnings.filterwarnings("ignore")
os.environ.setdefault("OMP_NUM_THREADS", "1")
_cwd = os.environ.get("LNN_SCRATCH_CWD", "/tmp/lnn_verif_scratch")
os.makedirs(_cwd, exist_ok=True)
os.chdir(_cwd)  # lnn writes LNN_INFO.log into cwd
from fractions import Fraction as F

sys.path.insert(0, os.path.dirname(os.path.abspath(__file__)))
import sx

with contextlib.redirect_stdout(io.StringIO()), contextlib.redirect_stderr(io.StringIO()):
    import torch
    torch.set_num_threads(1)
    import lnn
    from lnn import (Model, Proposition, Predicate, Variable, And, Or, Implies, Not, Iff, XOr,
                     Forall, Exists, Fact, World, Direction, NeuralActivation, Loss)
    from lnn.constants import Bound
    from lnn.neural.methods.lukasiewicztransparent import LukasiewiczTransparent
    from lnn.neural.methods.lukasiewicz import Lukasiewicz
    from lnn.neural.activations.node import _NodeActivation

ERR = {"RuntimeError": 1, "NetworkXError": 2, "IndexError": 3, "TypeError": 4, "KeyError": 5,
       "ValueError": 6, "Exception": 7, "AttributeError": 8, "LookupError": 9, "AssertionError": 10}


def fr(x):
    return F(float(x))


def tb(t):
    l = t.tolist()
    return [fr(l[0]), fr(l[1])]


def fl(x):
    return float(sx.q(x))


CONN = {0: "And", 1: "Or", 2: "Implies"}
VARIANT = {0: Lukasiewicz, 1: LukasiewiczTransparent}
VARIANT_ENUM = {0: NeuralActivation.Lukasiewicz, 1: NeuralActivation.LukasiewiczTransparent}


def mk_neuron(p, arity):
    al, b, ws, v = p
    return VARIANT[v](propositional=True, arity=arity, bias=fl(b), weights=tuple(fl(w) for w in ws), alpha=fl(al))


def k1(args):
    c, p, y, xs = args
    n = mk_neuron(p, len(xs))
    ib = torch.tensor([[fl(x[0]) for x in xs], [fl(x[1]) for x in xs]])
    up = n.activation(CONN[c], Direction.UPWARD)(ib)
    dn = n.activation(CONN[c], Direction.DOWNWARD)(torch.tensor([fl(y[0]), fl(y[1])]), ib)
    dl = dn.tolist()
    return [tb(up), [[fr(dl[0][i]), fr(dl[1][i])] for i in range(len(xs))]]


STATE_NUM = {"U": 0, "T": 1, "F": 2, "C": 3, "~F": 4, "~U": 5, "=U": 6, "~T": 7}
WHICH = {0: None, 1: Bound.LOWER, 2: Bound.UPPER}


def k2(args):
    al, w, old, new = args
    n = _NodeActivation(propositional=True, alpha=fl(al))
    n.add_data((fl(old[0]), fl(old[1])))
    oldt = n.get_data().clone()

    def obs(t):
        try:
            regs = n.output_regions(t).tolist()
            regs = [int(regs[0]), int(regs[1])]
        except Exception:
            regs = [0, 0]
        try:
            c = bool(n.is_contradiction(t))
        except Exception:
            c = False
        try:
            s = STATE_NUM[n.state(t).item()]
        except Exception:
            s = -1
        return regs, c, s

    r_old, c_old, s_old = obs(oldt)
    moved = n.aggregate_bounds(None, torch.tensor([fl(new[0]), fl(new[1])]), bound=WHICH[w])
    agg = n.get_data()
    _, c_new, s_new = obs(agg)
    return [tb(agg), fr(moved), r_old[0], r_old[1], c_old, s_old, c_new, s_new]


def k8(args):
    c, b, ws, xs = args
    bt = torch.tensor(fl(b[0]), requires_grad=True)
    wt = torch.tensor([fl(w[0]) for w in ws], requires_grad=True)
    xt = torch.tensor([fl(x[0]) for x in xs], requires_grad=True)
    n = LukasiewiczTransparent(propositional=True, arity=len(ws), bias=1.0, weights=(1.0,) * len(ws))
    # substitute the parameters by graph leaves we can differentiate against
    from torch.nn.parameter import Parameter
    bt = Parameter(bt)
    wt = Parameter(wt)
    n.bias = bt
    n.weights = wt
    # operand bounds tensor with both rows equal to xs (a point); row 0 is observed
    if c == 2:
        # _implies_upward reads the flipped first operand: feed x0 in both rows
        ib = torch.stack([xt, xt])
    else:
        ib = torch.stack([xt, xt])
    out = n.activation(CONN[c], Direction.UPWARD)(ib)[0]
    gb, gw, gx = torch.autograd.grad(out, [bt, wt, xt], allow_unused=True)
    dd = F(0)
    if gb is not None:
        dd += fr(gb) * sx.q(b[1])
    if gw is not None:
        for g, w in zip(gw.tolist(), ws):
            dd += F(g) * sx.q(w[1])
    if gx is not None:
        for g, x in zip(gx.tolist(), xs):
            dd += F(g) * sx.q(x[1])
    # val_clamp alone on b
    from lnn._utils import val_clamp
    b2 = torch.tensor(fl(b[0]), requires_grad=True)
    v = val_clamp(b2)
    (g2,) = torch.autograd.grad(v, [b2])
    return [fr(out), dd, fr(v), fr(g2) * sx.q(b[1])]


def k9(args):
    """formula level: the bound a connective formula / a Forall / an Exists over it STORES after upward(), and its
    directional derivative w.r.t. (bias, weights) of the connective, through the library's default activation"""
    mode, c, b, ws, rows, lower = args
    cls = {0: And, 1: Or, 2: Implies}[c]
    n = len(ws)
    act = {"bias": fl(b[0]), "weights": tuple(fl(w[0]) for w in ws), "bias_learning": True}
    model = Model()
    if mode == 0:
        atoms = [Proposition(f"a{i}") for i in range(n)]
        f = cls(*atoms, activation=act)
        model.add_knowledge(f)
        model.add_data({a: (fl(x[0]), fl(x[1])) for a, x in zip(atoms, rows[0])})
        top = f
    else:
        x = Variable("x")
        preds = [Predicate(f"p{i}") for i in range(n)]
        f = cls(*[p(x) for p in preds], activation=act)
        top = (Forall if mode == 1 else Exists)(x, f)
        model.add_knowledge(top)
        model.add_data({p: {f"c{j}": (fl(r[i][0]), fl(r[i][1])) for j, r in enumerate(rows)} for i, p in enumerate(preds)})
    model.upward()
    d = top.get_data()
    while d.dim() > 1:
        d = d[0]
    out = d[0 if lower else 1]
    dd = F(0)
    if out.requires_grad:
        gb, gw = torch.autograd.grad(out, [f.neuron.bias, f.neuron.weights], allow_unused=True)
        if gb is not None:
            dd += fr(gb) * sx.q(b[1])
        if gw is not None:
            for g, w in zip(gw.tolist(), ws):
                dd += F(g) * sx.q(w[1])
    return [fr(out), dd]


def k10(args):
    """val_clamp on a whole tensor: values and, per entry, the directional derivative along the given seeds"""
    (xs,) = args
    from lnn._utils import val_clamp
    t = torch.tensor([fl(x[0]) for x in xs], requires_grad=True)
    v = val_clamp(t)
    out = []
    for j in range(len(xs)):
        (g,) = torch.autograd.grad(v[j], [t], retain_graph=True)
        dd = sum((F(gv) * sx.q(x[1]) for gv, x in zip(g.tolist(), xs)), F(0))
        out.append([fr(v[j]), dd])
    return out


HANDLERS = {1: k1, 2: k2, 8: k8, 9: k9, 10: k10}

try:
    import impl_prop
    HANDLERS.update(impl_prop.HANDLERS)
except ImportError:
    pass
try:
    import impl_fol
    HANDLERS.update(impl_fol.HANDLERS)
except ImportError:
    pass
try:
    import impl_quant
    HANDLERS.update(impl_quant.HANDLERS)
except ImportError:
    pass
try:
    import impl_train
    HANDLERS.update(impl_train.HANDLERS)
    import impl_train_fol
    HANDLERS.update(impl_train_fol.HANDLERS)
except ImportError:
    pass


def main():
    out = sys.stdout
    for line in sys.stdin:
        line = line.strip()
        if not line:
            out.write("\n")
            continue
        sc = sx.loads(line)
        try:
            with contextlib.redirect_stdout(io.StringIO()):
                res = HANDLERS[sc[0]](sc[1:])
        except Exception as e:  # noqa
            res = [-900, ERR.get(type(e).__name__, 99)]
            if os.environ.get("LNN_VERIF_DEBUG"):
                import traceback
                traceback.print_exc()
        out.write(sx.dumps(res) + "\n")
    out.flush()


if __name__ == "__main__":
    main()
