"""Generators for quantifier scenarios (K7, tag 50)."""
from fractions import Fraction as F
import gen_fol
from gen_fol import G8, OPEN, CLOSED, AXIOM


def gen_k50(rng, n, nconst=3, downward=True, nested=0.2, fresh_only=False):
    out, meta = [], []
    while len(out) < n:
        kb, worlds = gen_fol.gen_fkb(rng, nforms=rng.choice([1, 1, 2]), kinds=["And", "Or", "Implies", "And"], hetero=0.5, weighted=rng.random() < 0.3)
        roots = gen_fol.froots(rng, kb)
        kb, worlds, roots = gen_fol.frestrict(kb, worlds, roots)
        nb = len(kb)
        # variable names of every object (as the impl sees them)
        vars_of = []
        for o in kb:
            if o[0] == 0:
                vars_of.append(None)
            elif o[0] == 1:
                vars_of.append(list(o[5][0]))
            else:
                uv = []
                for vs in o[5]:
                    for v in vs:
                        if v not in uv:
                            uv.append(v)
                vars_of.append(uv)
        qobjs = []
        qvars = []
        for _ in range(rng.choice([1, 1, 2])):
            kd = rng.choice([0, 1])
            cands = [i for i, o in enumerate(kb) if o[0] != 0 or o[3] == 1]
            if not cands:
                continue
            op = rng.choice(cands)
            if kb[op][0] == 0:
                ovars = [rng.randrange(3)]
                free = []                      # a quantifier over a bare predicate must bind its only variable
            else:
                ovars = list(vars_of[op])
                k = len(ovars)
                bound = rng.randrange(k)       # every quantifier object binds exactly one variable
                free = [p for p in range(k) if p != bound]
            w = rng.choice([OPEN, OPEN, AXIOM])
            qobjs.append([kd, op, free, rng.choice([1, 1, 0, 0, 0, 0, 0, 0, 2, 2]), w, ovars])
            qvars.append([ovars[p] for p in free])
        if not qobjs:
            continue
        if rng.random() < nested and qobjs[0][2]:
            # a quantifier over the first quantifier, binding one of its free variables
            fv = list(qvars[0])
            bound = rng.randrange(len(fv))
            okd = rng.choice([0, 1])
            if rng.random() < 0.5:
                # explicit nest of the same kind whose inner quantifier is declared fully grounded: the outer one stays open-world
                okd = qobjs[0][0]
                qobjs[0][3] = 1
            qobjs.append([okd, nb, [p for p in range(len(fv)) if p != bound], 0, rng.choice([OPEN, AXIOM]), fv])
        data = []
        # polar tables (all facts near TRUE / near FALSE) are the ones on which the bound a quantifier must NOT touch would move
        polar = rng.choice([None, None, None, 1, 0])

        # repeated tables: several instances carry the very same fuzzy bounds (aggregation must still count each of them)
        repeated = rng.choice([None, None, None, [F(3, 4), F(7, 8)], [F(1, 8), F(1, 4)], [F(1, 2), F(3, 4)]])

        def fact():
            if repeated is not None and rng.random() < 0.8:
                return list(repeated)
            if polar is None:
                return gen_fol.rnd_fact(rng, 0.5)
            b = rng.choice([[F(1), F(1)], [F(1), F(1)], [F(7, 8), F(1)], [F(3, 4), F(7, 8)]])
            return b if polar else [1 - b[1], 1 - b[0]]
        for i, o in enumerate(kb):
            if o[0] == 0:
                d = {}
                for _k in range(rng.choice([1, 2, 3, 4, 5])):
                    d[tuple(gen_fol.rnd_gnd(rng, o[3], nconst))] = fact()
                data.append([i, [[list(g), b] for g, b in d.items()]])
        ops = []
        nonleaf = [i for i, o in enumerate(kb) if o[0] != 0]
        for i in nonleaf:
            ops.append([1, i])
        order = list(range(len(qobjs)))
        for qi in order:
            ops.append([20, qi])
        if not fresh_only:
            for _k in range(rng.choice([1, 2, 4])):
                c = rng.random()
                qi = rng.randrange(len(qobjs))
                if c < 0.35 and downward and qobjs[qi][1] < nb:
                    ops.append([21, qi])
                elif c < 0.6:
                    ops.append([20, qi])
                elif c < 0.75 and nonleaf:
                    ops.append(rng.choice([[1, rng.choice(nonleaf)], [2, rng.choice(nonleaf), -1]]))
                else:
                    preds = [i for i, o in enumerate(kb) if o[0] == 0]
                    i = rng.choice(preds)
                    ops.append([8, i, [[gen_fol.rnd_gnd(rng, kb[i][3], nconst), gen_fol.rnd_fact(rng, 0.5)]]])
                    for j in nonleaf:
                        ops.append([1, j])
                    ops.append([20, qi])
        out.append([50, kb, roots, worlds, data, qobjs, ops])
        meta.append({"nq": len(qobjs), "partial": any(q[2] for q in qobjs), "nested": any(q[1] >= nb for q in qobjs), "full": any(q[3] == 1 for q in qobjs)})
    return out, meta
