"""Generators for quantifier scenarios (K7, tag 50)."""
from fractions import Fraction as F
import gen_fol
from gen_fol import G8, OPEN, CLOSED, AXIOM


def gen_k50(rng, n, nconst=3, downward=True, nested=0.2, fresh_only=False):
    out, meta = [], []
    while len(out) < n:
        kb, worlds = gen_fol.gen_fkb(rng, nforms=rng.choice([1, 1, 2]), kinds=["And", "Or", "Implies", "And"], hetero=0.5, weighted=rng.random() < 0.3)
        roots = gen_fol.froots(rng, kb)
        kb, worlds, roots = gen_fol.frestrict(kb, worlds, roots)
        nb = len(kb)
        # variable names of every object (as the impl sees them)
        vars_of = []
        for o in kb:
            if o[0] == 0:
                vars_of.append(None)
            elif o[0] == 1:
                vars_of.append(list(o[5][0]))
            else:
                uv = []
                for vs in o[5]:
                    for v in vs:
                        if v not in uv:
                            uv.append(v)
                vars_of.append(uv)
        qobjs = []
        qvars = []
        for _ in range(rng.choice([1, 1, 2])):
            kd = rng.choice([0, 1])
            cands = [i for i, o in enumerate(kb) if o[0] != 0 or o[3] == 1]
            if not cands:
                continue
            op = rng.choice(cands)
            if kb[op][0] == 0:
                ovars = [rng.randrange(3)]
                free = []                      # a quantifier over a bare predicate must bind its only variable
            else:
                ovars = list(vars_of[op])
                k = len(ovars)
                bound = rng.randrange(k)       # every quantifier object binds exactly one variable
                free = [p for p in range(k) if p != bound]
            w = rng.choice([OPEN, OPEN, AXIOM])
            qobjs.append([kd, op, free, rng.choice([1, 1, 0, 0, 0, 0, 0, 0, 2, 2]), w, ovars])
            qvars.append([ovars[p] for p in free])
        if not qobjs:
            continue
        if rng.random() < nested and qobjs[0][2]:
            # a quantifier over the first quantifier, binding one of its free variables
            fv = list(qvars[0])
            bound = rng.randrange(len(fv))
            okd = rng.choice([0, 1])
            if rng.random() < 0.5:
                # explicit nest of the same kind whose inner quantifier is declared fully grounded: the outer one stays open-world
                okd = qobjs[0][0]
                qobjs[0][3] = 1
            qobjs.append([okd, nb, [p for p in range(len(fv)) if p != bound], 0, rng.choice([OPEN, AXIOM]), fv])
        data = []
        # polar tables (all facts near TRUE / near FALSE) are the ones on which the bound a quantifier must NOT touch would move
        polar = rng.choice([None, None, None, 1, 0])

        # repeated tables: several instances carry the very same fuzzy bounds (aggregation must still count each of them)
        repeated = rng.choice([None, None, None, [F(3, 4), F(7, 8)], [F(1, 8), F(1, 4)], [F(1, 2), F(3, 4)]])

        def fact():
            if repeated is not None and rng.random() < 0.8:
                return list(repeated)
            if polar is None:
                return gen_fol.rnd_fact(rng, 0.5)
            b = rng.choice([[F(1), F(1)], [F(1), F(1)], [F(7, 8), F(1)], [F(3, 4), F(7, 8)]])
            return b if polar else [1 - b[1], 1 - b[0]]
        for i, o in enumerate(kb):
            if o[0] == 0:
                d = {}
                for _k in range(rng.choice([1, 2, 3, 4, 5])):
                    d[tuple(gen_fol.rnd_gnd(rng, o[3], nconst))] = fact()
                data.append([i, [[list(g), b] for g, b in d.items()]])
        ops = []
        nonleaf = [i for i, o in enumerate(kb) if o[0] != 0]
        for i in nonleaf:
            ops.append([1, i])
        order = list(range(len(qobjs)))
        for qi in order:
            ops.append([20, qi])
        if not fresh_only:
            for _k in range(rng.choice([1, 2, 4])):
                c = rng.random()
                qi = rng.randrange(len(qobjs))
                if c < 0.35 and downward:
                    ops.append([21, qi])
                    if qobjs[qi][1] >= nb:
                        # downward through a quantifier: follow the pushed bounds further down (inner downward, body downward)
                        inner = qobjs[qi][1] - nb
                        ops.append(rng.choice([[21, inner], [20, inner]]))
                        if qobjs[inner][1] < nb and kb[qobjs[inner][1]][0] != 0 and rng.random() < 0.5:
                            ops.append([2, qobjs[inner][1], -1])
                elif c < 0.6:
                    ops.append([20, qi])
                elif c < 0.75 and nonleaf:
                    ops.append(rng.choice([[1, rng.choice(nonleaf)], [2, rng.choice(nonleaf), -1]]))
                else:
                    preds = [i for i, o in enumerate(kb) if o[0] == 0]
                    i = rng.choice(preds)
                    ops.append([8, i, [[gen_fol.rnd_gnd(rng, kb[i][3], nconst), gen_fol.rnd_fact(rng, 0.5)]]])
                    for j in nonleaf:
                        ops.append([1, j])
                    ops.append([20, qi])
        out.append([50, kb, roots, worlds, data, qobjs, ops])
        meta.append({"nq": len(qobjs), "partial": any(q[2] for q in qobjs), "nested": any(q[1] >= nb for q in qobjs), "full": any(q[3] == 1 for q in qobjs)})
    return out, meta


def gen_k50_interleaved(rng, n):
    """nested quantifiers whose outer quantifier keeps a free variable and binds a variable that PRECEDES another free variable
    of the inner one (e.g. Forall(x, Exists(y, f(x, y, z)))): the inner groundings of one outer group are not adjacent"""
    out, meta = [], []
    for _ in range(n):
        kb = [[0, [], [], 3, list(gen_fol.DEFP), []], [1, [0], [[0, 1, 2]], 3, list(gen_fol.DEFP), [[0, 1, 2]]]]
        body = 1 if rng.random() < 0.7 else 0
        if body == 0:
            kb = kb[:1] + [[2, [0, 0], [[0, 1, 2], [0, 1, 2]], 3, [F(1), F(1), [F(1), F(1)], 1], [[0, 1, 2], [0, 1, 2]]]]
            body = 1
        k1, k2 = rng.choice([0, 1]), rng.choice([0, 1])
        inner = [k1, body, [0, 2], rng.choice([0, 0, 2]), OPEN, [0, 1, 2]]                     # binds y, free (x, z)
        outer = [k2, 2, [1], rng.choice([0, 0, 2]), rng.choice([OPEN, CLOSED, AXIOM]), [0, 2]]   # binds x, free (z)
        d = {}
        for x in range(2):
            for y in range(rng.choice([1, 2])):
                for z in range(2):
                    if rng.random() < 0.85:
                        d[(x, y, z)] = rng.choice([[F(1), F(1)], [F(0), F(0)], [F(0), F(1)], gen_fol.rnd_fact(rng, 0.3)])
        if not d:
            d[(0, 0, 0)] = [F(1), F(1)]
        items = list(d.items())
        rng.shuffle(items)
        data = [[0, [[list(g), b] for g, b in items]]]
        cycle = [[1, 1], [20, 0], [20, 1], [21, 1], [21, 0], [2, 1, -1]]
        ops = list(cycle)
        if rng.random() < 0.6:
            g = [rng.randrange(2), rng.randrange(2), rng.randrange(2)]
            ops += [[8, 0, [[g, gen_fol.rnd_fact(rng, 0.5)]]]] + cycle
        out.append([50, kb, [], [OPEN, OPEN], data, [inner, outer], ops])
        meta.append({"nq": 2, "partial": True, "nested": True, "full": False})
    return out, meta


def gen_k50_resize_chain(rng, n):
    """a quantifier with a free variable whose group gains an instance between its upward and its downward call (the
    group's neuron is resized inside downward), followed by several NEW groups and further upward/downward calls: every
    grounding has to keep its own neuron"""
    out, meta = [], []
    for _ in range(n):
        kb = [[0, [], [], 2, list(gen_fol.DEFP), []], [1, [0], [[0, 1]], 2, list(gen_fol.DEFP), [[0, 1]]]]
        if rng.random() < 0.3:
            kb = kb[:1] + [[2, [0, 0], [[0, 1], [0, 1]], 2, [F(1), F(1), [F(1), F(1)], 1], [[0, 1], [0, 1]]]]
        q = [rng.choice([0, 0, 1]), 1, [0], rng.choice([0, 0, 2]), rng.choice([OPEN, OPEN, AXIOM]), [0, 1]]   # binds y, free x
        fact = lambda: rng.choice([[F(1), F(1)], [F(0), F(0)], [F(0), F(1)], [F(1), F(1)], [F(0), F(0)], gen_fol.rnd_fact(rng, 0.3)])
        ngroups = rng.choice([1, 2])
        d = [[[x, 0], fact()] for x in range(ngroups)]
        ops = [[1, 1], [20, 0]]
        grow = rng.randrange(ngroups)
        ops += [[8, 0, [[[grow, 1], fact()]]], [1, 1], [21, 0]]                     # resized inside downward
        if rng.random() < 0.5:
            ops += [[2, 1, -1]]
        for x in range(ngroups, ngroups + rng.choice([2, 3])):                      # new groups afterwards
            ops += [[8, 0, [[[x, y], fact()] for y in range(rng.choice([1, 2, 2]))]]]
        ops += [[1, 1], [20, 0], [21, 0], [2, 1, -1], [1, 1], [20, 0]]
        out.append([50, kb, [], [OPEN, OPEN], [[0, d]], [q], ops])
        meta.append({"nq": 1, "partial": True, "nested": False, "full": q[3] == 1})
    return out, meta


def gen_k50_nested_full(rng, n):
    """a fully quantified quantifier over a quantifier with a free variable, all four Forall/Exists combinations
    (Forall(x, Exists(y, f)), Exists(x, Forall(y, f)), and the same-kind nests that Forall(x, y, f) builds), random worlds"""
    out, meta = [], []
    for _ in range(n):
        kb = [[0, [], [], 2, list(gen_fol.DEFP), []], [1, [0], [[0, 1]], 2, list(gen_fol.DEFP), [[0, 1]]]]
        k1, k2 = rng.choice([0, 1]), rng.choice([0, 1])
        inner = [k1, 1, [0], rng.choice([0, 0, 2]), rng.choice([OPEN, OPEN, AXIOM]), [0, 1]]
        outer = [k2, 2, [], rng.choice([0, 0, 2]), rng.choice([OPEN, CLOSED, AXIOM]), [0]]
        d = {}
        for x in range(rng.choice([2, 2, 3])):
            for y in range(rng.choice([1, 2, 2])):
                if rng.random() < 0.9:
                    d[(x, y)] = rng.choice([[F(1), F(1)], [F(0), F(0)], [F(0), F(1)], gen_fol.rnd_fact(rng, 0.3)])
        if not d:
            d[(0, 0)] = [F(0), F(1)]
        items = list(d.items())
        rng.shuffle(items)
        cycle = [[1, 1], [20, 0], [20, 1], [21, 1], [21, 0], [2, 1, -1]]
        ops = list(cycle)
        if rng.random() < 0.5:
            ops += [[8, 0, [[[rng.randrange(3), rng.randrange(2)], gen_fol.rnd_fact(rng, 0.5)]]]] + cycle
        out.append([50, kb, [], [OPEN, OPEN], [[0, [[list(g), b] for g, b in items]]], [inner, outer], ops])
        meta.append({"nq": 2, "partial": True, "nested": True, "full": False})
    return out, meta
