"""Checks over the first-order engine: C14, C15 (+FOL parts of C05, C13, C17), C09, C10, C02, C16."""
from fractions import Fraction as F
import itertools, copy
import sx, lib, gen_fol, gen_prop
from framework import Ctx, standard_prologue

MONITORS = {}
UNK = (F(0), F(1))


def monitor(name):
    def deco(f):
        MONITORS[name] = f
        return f
    return deco


def crossed(al, l, u):
    return l > u and not (l <= 1 - al and u <= 1 - al) and not (l >= al and u >= al)


def whole_error(obs):
    return isinstance(obs, list) and len(obs) == 2 and obs[0] == -900


def tabs(dump):
    return [{tuple(r[0]): sx.bnd(r[1]) for r in t} for t in dump]


class Trace:
    """walks a tag-40 scenario with the implementation's observations"""

    def __init__(self, sc, obs):
        self.kb, self.roots, self.worlds0, self.data, self.ops = sc[1:6]
        self.n = len(self.kb)
        self.obs = obs

    def steps(self):
        """yields dicts: op, ret, amt, before (tables or None for the first), after, world (per object, before the op)"""
        world = [sx.bnd(w) for w in self.worlds0]
        cur = [dict() for _ in self.kb]
        for i, d in self.data:
            for g, b in d:
                cur[i][tuple(g)] = sx.bnd(b)
        for n, (op, o) in enumerate(zip(self.ops, self.obs)):
            if o and o[0] == -900:
                yield {"n": n, "op": op, "error": o[1], "before": cur, "after": None, "world": list(world)}
                return
            t = op[0]
            amt = ret = None
            if t in (1, 2):
                amt, after = sx.q(o[0]), tabs(o[1])
            elif t in (3, 4, 5):
                ret, amt, after = o[0], sx.q(o[1]), tabs(o[2])
            elif t in (7, 8, 10, 11, 16):
                after = tabs(o[0])
            elif t == 9:
                ret, after = bool(o[0]), cur
            elif t == 12:
                ret, after = sx.bnd(o[0]), tabs(o[1])
            elif t == 14:
                ret, after = sx.q(o[0]), cur
            elif t == 17:
                ret, after = o, cur
            elif t == 18:
                ret, after = sx.q(o[0]), cur
            else:
                after = cur
            yield {"n": n, "op": op, "ret": ret, "amt": amt, "before": cur, "after": after, "world": list(world), "error": None}
            if t == 11:
                world[op[1]] = sx.bnd(op[2])
            cur = after


def initial_tables(sc):
    """tables right after the initial add_data calls (every asserted grounding present with its data)"""
    kb, data = sc[1], sc[4]
    t = [dict() for _ in kb]
    for i, d in data:
        for g, b in d:
            t[i][tuple(g)] = sx.bnd(b)
    return t


INFER_OPS = (1, 2, 3, 4, 5)


@monitor("fol_c05")
def mon_c05(sc, obs):
    if whole_error(obs):
        return None
    tr = Trace(sc, obs)
    prev = initial_tables(sc)
    for st in tr.steps():
        if st["error"] is not None:
            return None
        op = st["op"]
        before = st["before"] if st["before"] is not None else prev
        if op[0] in INFER_OPS or op[0] in (9, 12):
            for i in range(tr.n):
                for g, (l0, u0) in before[i].items():
                    if g not in st["after"][i]:
                        return (f"op #{st['n']} {op}: grounding {g} of object {i} stays in the table", "disappeared", None)
                    l1, u1 = st["after"][i][g]
                    if l1 < l0 or u1 > u0:
                        return (f"op #{st['n']} {op}: object {i} grounding {g} only tightens from ({l0}, {u0})", f"({l1}, {u1})", None)
        prev = st["after"]
    return None


@monitor("fol_c13")
def mon_c13(sc, obs):
    if whole_error(obs):
        return None
    tr = Trace(sc, obs)
    prev = initial_tables(sc)
    for st in tr.steps():
        if st["error"] is not None:
            return None
        op = st["op"]
        before = st["before"] if st["before"] is not None else prev
        if op[0] in INFER_OPS:
            changed = False
            for i in range(tr.n):
                for g, b in st["after"][i].items():
                    b0 = before[i].get(g, st["world"][i])   # a grounding without a row reads as the world default
                    if b != b0:
                        changed = (i, g, b0, b)
            amt = st["amt"]
            if amt < 0:
                return (f"op #{st['n']} {op}: amount >= 0", f"{amt}", None)
            if (amt == 0) == bool(changed):
                return (f"op #{st['n']} {op}: reported amount is zero iff nothing changed (changed: {changed})", f"amount {amt}", None)
        prev = st["after"]
    return None


@monitor("fol_c17")
def mon_c17(sc, obs):
    if whole_error(obs):
        return None
    tr = Trace(sc, obs)
    for st in tr.steps():
        if st["error"] is not None or st["after"] is None:
            return None
        for i in range(tr.n):
            for g, (l, u) in st["after"][i].items():
                if not (0 <= l <= 1 and 0 <= u <= 1):
                    return (f"after op #{st['n']} {st['op']}: bounds of object {i} grounding {g} in [0,1]", f"({l}, {u})", None)
        if st["op"][0] == 9:
            exp = any(crossed(sx.q(tr.kb[i][4][0]), l, u) for i in range(tr.n) for (l, u) in st["after"][i].values())
            if st["ret"] != exp:
                return (f"op #{st['n']}: has_contradiction() == {exp}", f"{st['ret']}", None)
    return None


@monitor("fol_c14")
def mon_c14(sc, obs):
    """world default for everything not asserted"""
    if whole_error(obs):
        return ("no exception", f"raised error class {obs[1]}", None)
    tr = Trace(sc, obs)
    prev = initial_tables(sc)
    for st in tr.steps():
        if st["error"] is not None:
            return None
        op, n = st["op"], st["n"]
        before = st["before"] if st["before"] is not None else prev
        after = st["after"]
        if op[0] == 12:
            i, g = op[1], tuple(op[2])
            exp = before[i].get(g, st["world"][i])
            if st["ret"] != exp:
                what = "its stored bounds" if g in before[i] else f"its formula's world default {st['world'][i]}"
                return (f"op #{n} get_data({g}) on object {i} returns {what}", f"{st['ret']}", None)
            if after != before:
                return (f"op #{n} get_data({g}) on object {i} does not create or change any row", "tables changed", None)
        if op[0] == 11:         # add_knowledge(f, world=w) / reset_world: EVERY row of f reads the new default, also rows that joins introduced
            i, w = op[1], sx.bnd(op[2])
            for g, b in after[i].items():
                if b != w:
                    return (f"op #{n} add_knowledge(object {i}, world={w}): every grounding of it reads the new default, also {g} (was {before[i].get(g)})", f"{b}", None)
        if op[0] == 1:          # node upward: writes only the operator; rows it introduces into operands start at their default
            i = op[1]
            for j in set(tr.kb[i][1]):
                if j == i:
                    continue
                for g, b in after[j].items():
                    if g not in before[j] and b != st["world"][j]:
                        return (f"op #{n} {op}: grounding {g} introduced into operand {j} starts at its world default {st['world'][j]}", f"{b}", None)
        if op[0] == 2 and tr.kb[op[1]][0] >= 2:   # node downward of a connective: rows it introduces into itself start at the default
            i = op[1]
            if i not in tr.kb[i][1]:
                for g, b in after[i].items():
                    if g not in before[i] and b != st["world"][i]:
                        return (f"op #{n} {op}: grounding {g} introduced into the operator {i} starts at its world default {st['world'][i]}", f"{b}", None)
        prev = after
    return None


@monitor("fol_c14_axiom")
def mon_c14_axiom(sc, obs):
    """a formula added as an axiom starts TRUE and stays TRUE unless contradicted: every row has lower bound 1"""
    if whole_error(obs):
        return None
    tr = Trace(sc, obs)
    asserted = set()
    for i, d in tr.data:
        for g, b in d:
            asserted.add((i, tuple(g)))
    for st in tr.steps():
        if st["error"] is not None or st["after"] is None:
            return None
        if st["op"][0] in (8, 10, 11):
            return None   # explicit data/flush/world change on top: outside this monitor
        for i in range(tr.n):
            if st["world"][i] == (F(1), F(1)):
                for g, (l, u) in st["after"][i].items():
                    if (i, g) not in asserted and l != 1:
                        return (f"after op #{st['n']} {st['op']}: axiom object {i} grounding {g} has lower bound 1", f"({l}, {u})", None)
    return None


@monitor("fol_c15")
def mon_c15(sc, obs):
    """add_data round-trip, locality, reset_bounds returns to the data"""
    if whole_error(obs):
        return ("no exception on valid data", f"raised error class {obs[1]}", None)
    tr = Trace(sc, obs)
    prev = initial_tables(sc)
    # what reset_bounds must return to: last asserted bounds, else the world default when the row was created
    leaf = [dict(t) for t in prev]
    for st in tr.steps():
        if st["error"] is not None:
            return (f"op #{st['n']} {st['op']} completes", f"raised error class {st['error']}", None)
        op, n = st["op"], st["n"]
        before = st["before"] if st["before"] is not None else prev
        after = st["after"]
        if st["before"] is None:
            # first observation: initial data must read back exactly (before any inference if the first op is a probe)
            pass
        if op[0] == 8:
            i = op[1]
            want = {tuple(g): sx.bnd(b) for g, b in op[2]}
            for g, b in want.items():
                if after[i].get(g) != b:
                    return (f"op #{n} add_data on object {i}: get_data({g}) returns exactly the asserted {b}", f"{after[i].get(g)}", None)
                leaf[i][g] = b
            for j in range(tr.n):
                for g, b in before[j].items():
                    if (j != i or g not in want) and after[j].get(g) != b:
                        return (f"op #{n} add_data on object {i}: grounding {g} of object {j} is untouched ({b})", f"{after[j].get(g)}", None)
                for g in after[j]:
                    if g not in before[j] and not (j == i and g in want):
                        return (f"op #{n} add_data on object {i} creates no other rows", f"new row {g} in object {j}", None)
        # rows created by anything else start (as data) at the world default of that moment
        for j in range(tr.n):
            for g in after[j]:
                if g not in leaf[j]:
                    leaf[j][g] = st["world"][j]
        if op[0] == 7:
            for j in range(tr.n):
                for g, b in after[j].items():
                    if b != leaf[j][g]:
                        return (f"op #{n} reset_bounds(): object {j} grounding {g} returns to its data {leaf[j][g]}", f"{b}", None)
        prev = after
    return None


# ---------------------------------------------------------------- independent interval oracle
def clamp(x):
    return max(F(0), min(F(1), x))


def up_oracle(kd, p, xs):
    b, ws = sx.q(p[1]), [sx.q(w) for w in p[2]]
    if kd == 2:
        return (clamp(b - sum(w * (1 - x[0]) for w, x in zip(ws, xs))), clamp(b - sum(w * (1 - x[1]) for w, x in zip(ws, xs))))
    if kd == 3:
        return (clamp(1 - b + sum(w * x[0] for w, x in zip(ws, xs))), clamp(1 - b + sum(w * x[1] for w, x in zip(ws, xs))))
    if kd == 4:
        return (clamp(1 - b + ws[0] * (1 - xs[0][1]) + ws[1] * xs[1][0]), clamp(1 - b + ws[0] * (1 - xs[0][0]) + ws[1] * xs[1][1]))
    raise ValueError


def down_oracle(kd, p, y, xs):
    """the inverse the paper prescribes (alpha = 1): per operand, from the operator bounds and the OTHER operands' opposite bounds"""
    b, ws = sx.q(p[1]), [sx.q(w) for w in p[2]]
    if kd == 3:
        r = down_oracle(2, p, (1 - y[1], 1 - y[0]), [(1 - x[1], 1 - x[0]) for x in xs])
        return [(1 - u, 1 - l) for l, u in r]
    if kd == 4:
        r = down_oracle(2, p, (1 - y[1], 1 - y[0]), [xs[0], (1 - xs[1][1], 1 - xs[1][0])])
        return [r[0], (1 - r[1][1], 1 - r[1][0])]
    L, U = y
    out = []
    for k, (w, x) in enumerate(zip(ws, xs)):
        if w == 0:
            out.append(UNK)
            continue
        others_u = sum(wj * (1 - xj[1]) for j, (wj, xj) in enumerate(zip(ws, xs)) if j != k)
        others_l = sum(wj * (1 - xj[0]) for j, (wj, xj) in enumerate(zip(ws, xs)) if j != k)
        lo = clamp(1 - (b - L - others_u) / w) if L > 0 else F(0)
        hi = clamp(1 - (b - U - others_l) / w) if U < 1 else F(1)
        out.append((lo, hi))
    return out


def fully_asserted(kb, facts, i, g, memo, worlds=None):
    """bounds of object i at grounding g when every predicate fact it depends on is asserted, else None
    (a formula's own world default is aggregated in; None as soon as a contradiction is involved: arresting)"""
    key = (i, g)
    if key in memo:
        return memo[key]
    kd, ops, maps = kb[i][0], kb[i][1], kb[i][2]
    if kd == 0:
        r = facts[i].get(g)
    else:
        xs = []
        for j, m in zip(ops, maps):
            xs.append(fully_asserted(kb, facts, j, tuple(g[s] for s in m), memo, worlds))
        if any(x is None for x in xs) or any(x[0] > x[1] for x in xs):
            r = None
        else:
            r = (1 - xs[0][1], 1 - xs[0][0]) if kd == 1 else up_oracle(kd, kb[i][4], xs)
            own = facts[i].get(g)
            w = own if own is not None else (sx.bnd(worlds[i]) if worlds is not None else UNK)
            r = (max(w[0], r[0]), min(w[1], r[1]))
            if r[0] > r[1]:
                r = None
    memo[key] = r
    return r


def candidate_groundings(kb, facts, i, nconst):
    return itertools.product(range(nconst), repeat=kb[i][3])


@monitor("fol_c09_up")
def mon_c09_up(sc, obs):
    """fresh model, facts on predicates only, Model.upward(): every grounding whose predicate facts are all asserted is
    present with the truth-function value"""
    if whole_error(obs):
        return ("no exception", f"raised error class {obs[1]}", None)
    kb, data = sc[1], sc[4]
    nconst = sc[6]
    facts = initial_tables(sc)
    first = obs[0]
    if first and first[0] == -900:
        return ("Model.upward() completes", f"raised error class {first[1]}", None)
    after = tabs(first[2])
    memo = {}
    for i, o in enumerate(kb):
        if o[0] == 0:
            continue
        for g in candidate_groundings(kb, facts, i, nconst):
            e = fully_asserted(kb, facts, i, g, memo, sc[3])
            if e is None:
                continue
            if g not in after[i]:
                return (f"after Model.upward(): grounding {g} of object {i} (kind {o[0]}), all of whose predicate facts are asserted, is in its table", "missing", None)
            if after[i][g] != e:
                return (f"after Model.upward(): object {i} grounding {g} = truth function of the asserted facts = {e}", f"{after[i][g]}", None)
    return None


@monitor("fol_c09_down")
def mon_c09_down(sc, obs):
    """node-level downward of a connective from fully asserted groundings: exactly the operand rows it depends on are
    tightened, each at least as much as the inverse prescribes"""
    if whole_error(obs):
        return None
    tr = Trace(sc, obs)
    kb = tr.kb
    prev = initial_tables(sc)
    for st in tr.steps():
        if st["error"] is not None:
            return None
        op = st["op"]
        before = st["before"] if st["before"] is not None else prev
        after = st["after"]
        if op[0] == 2 and kb[op[1]][0] >= 2 and sx.q(kb[op[1]][4][0]) == 1:
            i = op[1]
            kd, ops, maps, nv, p = kb[i][:5]
            touched = set(ops)
            for j in range(tr.n):
                if j not in touched and j != i and after[j] != before[j]:
                    return (f"op #{st['n']} {op}: object {j} is not an operand of {i} and is untouched", "changed", None)
            if after[i] != {**after[i], **before[i]}:
                return (f"op #{st['n']} {op}: downward does not change the operator's own bounds", "changed", None)
            for g, y in before[i].items():
                xs = [before[j].get(tuple(g[s] for s in m)) for j, m in zip(ops, maps)]
                if any(x is None for x in xs):
                    continue
                # skip arrested groundings (contradictory inputs/outputs)
                if y[0] > y[1] or any(x[0] > x[1] for x in xs):
                    continue
                presc = down_oracle(kd, p, y, xs)
                for pos, (j, m) in enumerate(zip(ops, maps)):
                    if op[2] >= 0 and op[2] != pos:
                        continue
                    og = tuple(g[s] for s in m)
                    l1, u1 = after[j][og]
                    el = max(xs[pos][0], presc[pos][0])
                    eu = min(xs[pos][1], presc[pos][1])
                    if l1 < el or u1 > eu:
                        return (f"op #{st['n']} {op}: operand {j} row {og} is tightened at least to ({el}, {eu}) (inverse of grounding {g} with output {y}, inputs {xs})", f"({l1}, {u1})", None)
        prev = after
    return None


@monitor("fol_c03_exact")
def mon_c03_exact(sc, obs):
    """one first-order connective, downward: every operand row ends as its old bounds met with the inverses of ALL the
    (non-contradictory) groundings of the connective that read it -- neither looser (a grounding ignored) nor tighter"""
    if whole_error(obs):
        return None
    tr = Trace(sc, obs)
    kb = tr.kb
    for st in tr.steps():
        if st["error"] is not None or st["after"] is None:
            return None
        op = st["op"]
        if not (op[0] == 2 and kb[op[1]][0] >= 2 and sx.q(kb[op[1]][4][0]) == 1):
            continue
        before, after = st["before"], st["after"]
        i = op[1]
        kd, ops, maps, nv, p = kb[i][:5]
        if set(before[i]) != set(after[i]):
            continue      # the step also created groundings: covered by the model correspondence
        # must: inverses of the groundings whose operand rows all exist; may: also those whose missing operand rows the step
        # creates with the world default (OPEN in these scenarios) -- whether it creates them is the join's business (model)
        must = {(j, og): b for j in set(ops) for og, b in before[j].items()}
        may = dict(must)
        for g, y in sorted(before[i].items()):
            raw = [before[j].get(tuple(g[s_] for s_ in m)) for j, m in zip(ops, maps)]
            xs = [UNK if x is None else x for x in raw]
            # a grounding with a crossed bound somewhere may be arrested or not (which ones are is not C03's business)
            optional = any(x is None for x in raw) or y[0] > y[1] or any(x[0] > x[1] for x in xs)
            presc = down_oracle(kd, p, y, xs)
            for pos, (j, m) in enumerate(zip(ops, maps)):
                if op[2] >= 0 and op[2] != pos:
                    continue
                key = (j, tuple(g[s_] for s_ in m))
                for d in ([may] if optional else [may, must]):
                    e = d.get(key, UNK)
                    d[key] = (max(e[0], presc[pos][0]), min(e[1], presc[pos][1]))
        for (j, og), hi_ in sorted(may.items()):
            got = after[j].get(og)
            if got is None:
                continue
            lo_ = must.get((j, og), UNK)
            vals = [v for b_ in (lo_, hi_, got) for v in b_]
            tol = F(0) if all(v.denominator <= 1024 for v in vals) else F(1, 2 ** 16)
            was = before[j].get(og, UNK)
            if got[0] < lo_[0] - tol or got[1] > lo_[1] + tol:
                return (f"op #{st['n']} {op}: operand {j} row {og} (was {was}) is at least as tight as its old bounds met with the inverse of every non-contradictory grounding that reads it = {lo_}", f"{got} (looser)", None)
            if got[0] > hi_[0] + tol or got[1] < hi_[1] - tol:
                return (f"op #{st['n']} {op}: operand {j} row {og} (was {was}) is no tighter than its old bounds met with the inverse of every non-contradictory grounding that reads it = {hi_}", f"{got} (tighter)", None)
    return None


def gen_c03_fol(rng, n):
    """one first-order connective over predicates with different variable tuples (join path), complete fact tables with
    some crossed rows (arrested groundings), facts on the connective: upward then downward"""
    out, meta = [], []
    while len(out) < n:
        kb, worlds = gen_fol.gen_fkb(rng, npreds=rng.choice([2, 2, 3]), nforms=1, kinds=["And", "Or", "Implies"], hetero=0.9, weighted=rng.random() < 0.3, maxar=2)
        if len([o for o in kb if o[0] != 0]) != 1:
            continue
        roots = gen_fol.froots(rng, kb)
        kb, worlds, roots = gen_fol.frestrict(kb, worlds, roots)
        f = [i for i, o in enumerate(kb) if o[0] != 0][0]
        if sx.q(kb[f][4][0]) != 1:
            kb[f][4][0] = F(1)
        worlds = [gen_fol.OPEN for _ in kb]
        nconst = rng.choice([2, 2, 3])
        pcross = rng.choice([0, 0.1, 0.25])

        def fact():
            b = gen_fol.rnd_fact(rng, 0.4)
            if b[0] < b[1] and rng.random() < pcross:
                b = [b[1], b[0]]
            return b
        data = []
        for i, o in enumerate(kb):
            if o[0] == 0:
                d = [[list(g), fact()] for g in all_gnds(o[3], nconst) if rng.random() < 0.85]
                if d:
                    data.append([i, d])
        d = [[list(g), fact()] for g in all_gnds(kb[f][3], nconst) if rng.random() < 0.4]
        if d:
            data.append([f, d])
        ops = [[1, f], [2, f, -1]]
        if rng.random() < 0.3:
            ops += [[2, f, rng.randrange(len(kb[f][1]))]]
        if rng.random() < 0.3:
            ops += [[1, f], [2, f, -1]]
        out.append([40, kb, roots, worlds, data, ops])
        meta.append({"nobj": len(kb), "hetero": len(set(map(tuple, kb[f][2]))) > 1, "maxar": max(o[3] for o in kb), "crossed": pcross > 0})
    return out, meta


def c03_fol_part(ctx):
    scs, meta = gen_c03_fol(ctx.rng("c03fol"), 300 if ctx.quick else 4000)
    run_fol(ctx, "K6 one first-order connective: upward then downward over joined groundings", scs, ["fol_c03_exact", "fol_c09_down"])
    d = fdist(meta)
    d["with_crossed_rows"] = sum(1 for me in meta if me["crossed"])
    ctx.cov["fol_distribution"] = d


# ---------------------------------------------------------------- generic runner
@monitor("fol_c18_loss")
def mon_c18_loss(sc, obs):
    """the contradiction loss Model.loss_fn reports: >= 0, the sum of L-U over the crossing rows, zero iff nothing crosses"""
    if whole_error(obs):
        return None
    tr = Trace(sc, obs)
    for st in tr.steps():
        if st["error"] is not None or st["after"] is None:
            return None
        if st["op"][0] == 18:
            # uncertainty loss (coefficient 1): nodes with a contradictory row contribute nothing, the others their total width,
            # a row crossed inside the tolerance (alpha < 1) counting as zero width: non-negative in every state
            exp = F(0)
            for i in range(tr.n):
                rs = list(st["after"][i].values())
                if any(crossed(sx.q(tr.kb[i][4][0]), l, u) for l, u in rs):
                    continue
                exp += sum((max(u - l, F(0)) for l, u in rs), F(0))
            vals = [v for i in range(tr.n) for b in st["after"][i].values() for v in b]
            tol = F(0) if all(v.denominator <= 1024 for v in vals) else F(1, 2 ** 14)
            if abs(st["ret"] - exp) > tol or st["ret"] < 0:
                return (f"op #{st['n']}: uncertainty loss = total width of the rows of every formula without a contradictory row = {exp} (>= 0)", f"{st['ret']}", None)
            continue
        if st["op"][0] != 14:
            continue
        rows = [(i, g, l, u) for i in range(tr.n) for g, (l, u) in st["after"][i].items() if crossed(sx.q(tr.kb[i][4][0]), l, u)]
        exp = sum((l - u for _, _, l, u in rows), F(0))
        tol = F(0) if all(v.denominator <= 1024 for _, _, l, u in rows for v in (l, u)) else F(1, 2 ** 16)
        if st["ret"] < 0 or abs(st["ret"] - exp) > tol or (st["ret"] == 0) != (not rows):
            return (f"op #{st['n']}: contradiction loss >= 0, zero iff no bounds cross, = sum of L-U over the crossing rows {[(i, g) for i, g, _, _ in rows]} = {exp}", f"{st['ret']}", None)
    return None


@monitor("fol_c18_sup")
def mon_c18_sup(sc, obs):
    """supervised loss of a first-order formula = mean squared error over the labelled groundings present in its table:
    >= 0, zero iff every such row equals its label, independent of the order in which labels were given"""
    if whole_error(obs):
        return None
    tr = Trace(sc, obs)
    for st in tr.steps():
        if st["error"] is not None or st["after"] is None:
            return None
        if st["op"][0] != 17:
            continue
        labs = {}
        for i, d in st["op"][1]:
            for g, b in d:
                labs.setdefault(i, {})[tuple(g)] = sx.bnd(b)
        for i in range(tr.n):
            rows = [(st["after"][i][g], l) for g, l in labs.get(i, {}).items() if g in st["after"][i]]
            r = st["ret"][i]
            if not rows:
                if r != -1:
                    return (f"op #{st['n']}: formula {i} has no labelled grounding in its table: no supervised loss", f"{r}", None)
                continue
            if r == -1:
                return (f"op #{st['n']}: formula {i} has {len(rows)} labelled groundings in its table: a supervised loss", "none", None)
            sse = sum(((a[0] - l[0]) ** 2 + (a[1] - l[1]) ** 2 for a, l in rows), F(0))
            if sx.q(r[0]) != sse or r[1] != len(rows):
                return (f"op #{st['n']}: supervised loss of formula {i} x 2n = sum of squared errors over its {len(rows)} labelled rows = {sse} (zero iff every row equals its label)", f"{sx.q(r[0])} over {r[1]} rows", None)
    return None


def c18_fol_part(ctx):
    rng = ctx.rng("c18fol")
    scs, meta = gen_fol.gen_k40(rng, 200 if ctx.quick else 2500)
    mixed = 0
    for sc in scs:
        ops = []
        for op in sc[5]:
            ops.append(op)
            if op[0] in (3, 4, 5, 8) or rng.random() < 0.2:
                ops.append([14])
        sc[5] = ops + [[5, -1, 30], [14], [18], [9]]
    # supervised loss: unit-weight KBs (bounds stay on the 1/8 grid, so loss x 2n is recovered exactly), labels in random
    # order on random groundings (present or not), some equal to the row they label
    scs2, meta2 = gen_fol.gen_k40(rng, 150 if ctx.quick else 2000, weighted=False)
    for sc in scs2:
        kb = sc[1]
        labs = []
        for i, o in enumerate(kb):
            if rng.random() < 0.7:
                gs = all_gnds(o[3], 3)
                rng.shuffle(gs)
                d = [[list(g), rng.choice([[F(1), F(1)], [F(0), F(0)], [F(0), F(1)], gen_fol.rnd_fact(rng, 0.3)])] for g in gs[:rng.choice([1, 2, 3, 5, 9])]]
                labs.append([i, d])
        sc[5] = [op for op in sc[5] if op[0] != 11] + [[5, -1, 30], [17, labs]]
    run_fol(ctx, "K6 first-order engine (+supervised loss per formula against labels in random order)", scs2, ["fol_c18_sup"])
    # uncertainty loss with alpha < 1 on predicates and negations: facts crossed INSIDE one classical region are tolerated
    # (no contradiction) and count as zero width, so the loss stays non-negative (D17)
    rng3 = ctx.rng("c18unc")
    scs3, meta3 = gen_fol.gen_k40(rng3, 100 if ctx.quick else 1500)
    tolerated = 0
    for sc in scs3:
        kb = sc[1]
        plain = [i for i, o in enumerate(kb) if o[0] in (0, 1)]
        for i in plain:
            kb[i][4] = [rng3.choice([F(3, 4), F(3, 4), F(7, 8)])] + list(kb[i][4][1:])
        ops = list(sc[5])
        for _ in range(rng3.choice([1, 2, 3])):
            i = rng3.choice(plain)
            al = kb[i][4][0]
            grid = [F(k, 16) for k in range(17)]
            side = [x for x in grid if x >= al] if rng3.random() < 0.5 else [x for x in grid if x <= 1 - al]
            u, l = sorted((rng3.choice(side), rng3.choice(side)))
            tolerated += l > u
            pos = rng3.randrange(len(ops) + 1)
            ops[pos:pos] = [[8, i, [[gen_fol.rnd_gnd(rng3, kb[i][3], 3), [l, u]]]], [18], [14], [9]]
        sc[5] = ops + [[18]]
    run_fol(ctx, "K6 first-order engine, alpha < 1 on predicates and negations, facts crossed inside a classical region (+uncertainty loss)", scs3, ["fol_c18_loss", "fol_c17"])
    ctx.cov["uncertainty_tolerated_crossed_facts"] = int(tolerated)
    ctx.corpus(["d17_uncertainty_negative.py"])
    m, impl, lines = run_fol(ctx, "K6 first-order engine (+contradiction loss after model-level calls)", scs, ["fol_c18_loss", "fol_c17"])
    pos = 0
    for sc, o in zip(scs, impl[0]):
        tr = Trace(sc, sx.loads(o))
        if whole_error(tr.obs):
            continue
        hit = mix = False
        for st in tr.steps():
            if st["after"] is None:
                break
            if st["op"][0] == 14 and st["ret"] > 0:
                hit = True
                for i in range(tr.n):
                    rs = list(st["after"][i].values())
                    if any(crossed(sx.q(tr.kb[i][4][0]), l, u) for l, u in rs) and any(l < u for l, u in rs):
                        mix = True
        pos += hit
        mixed += mix
    ctx.cov["fol_loss"] = {"scenarios": len(scs), "with_positive_loss": pos, "with_a_formula_mixing_crossing_and_open_rows": mixed}


def run_fol(ctx, comp, scs, monitors, hashseeds=(0,), per_proc=60):
    def nontrivial(sc, mo):
        return "-900" not in mo[:8] and mo.count("(") > 40
    m, impl, lines = ctx.correspond(comp, scs, hashseeds=hashseeds, per_proc=per_proc, nontrivial=nontrivial)
    for hs in hashseeds:
        for sc, line, o in zip(scs, lines, impl[hs]):
            lo, oo = sx.loads(line), sx.loads(o)
            for mn in monitors:
                r = MONITORS[mn](lo, oo)
                if r:
                    ctx.violation(mn, line, hs, r[0], r[1], r[2])
    return m, impl, lines


def fdist(meta):
    h = {}
    for me in meta:
        k = f"objs{min(me['nobj'], 8)}/{'hetero' if me['hetero'] else 'homog'}/maxar{me['maxar']}"
        h[k] = h.get(k, 0) + 1
    return h


RULE_K6 = ("K5/K6: random first-order KBs (1-3 predicates of arity 1-3 under OPEN/CLOSED/AXIOM, 1-3 formulae over And/Or/Implies/Not with equal, permuted, "
           "overlapping and disjoint variable tuples, nested uncalled sub-formulae, the same predicate in several operand positions, weights in {1/2,1,2}, bias in {1/2,1,3/2}), "
           "facts on predicates and sometimes on formulae over 3 constants, 3-8 random operations: node-level upward/downward(index), model-level upward/downward/infer(source,max_steps), "
           "add_data, get_data probes of unknown groundings, reset_bounds, flush, has_contradiction, add_knowledge(world=...); every table compared exactly after every operation")


def c05_fol_part(ctx):
    scs, meta = gen_fol.gen_k40(ctx.rng("c05fol"), 250 if ctx.quick else 3000)
    run_fol(ctx, "K6 first-order engine", scs, ["fol_c05"])
    ctx.cov["fol_distribution"] = fdist(meta)


def c13_fol_part(ctx):
    scs, meta = gen_fol.gen_k40(ctx.rng("c13fol"), 250 if ctx.quick else 3000)
    run_fol(ctx, "K6 first-order engine", scs, ["fol_c13"])
    ctx.cov["fol_distribution"] = fdist(meta)


def c17_fol_part(ctx):
    scs, meta = gen_fol.gen_k40(ctx.rng("c17fol"), 200 if ctx.quick else 2500)
    run_fol(ctx, "K6 first-order engine (+has_contradiction)", scs, ["fol_c17"])
    ctx.cov["fol_distribution"] = fdist(meta)


def check_C14(ctx):
    st, pr = standard_prologue(ctx)
    scs, meta = gen_fol.gen_k40(ctx.rng("c14"), 500 if ctx.quick else 6000, data_ops=0.35)
    run_fol(ctx, "K5/K6 first-order engine with world defaults", scs, ["fol_c14", "fol_c14_axiom"], hashseeds=(0, 1))
    ctx.cov["distribution"] = fdist(meta)
    return ctx.finish("proof", pr, st, rule=RULE_K6 + "; C14 monitors: get_data of an unknown grounding returns the world default (tracked through add_knowledge(world=...)) and changes no table; "
                      "rows introduced into operands by upward / into the operator by downward start at the default; rows of AXIOM formulae keep lower bound 1")


def check_C15(ctx):
    st, pr = standard_prologue(ctx)
    scs, meta = gen_fol.gen_k40(ctx.rng("c15"), 500 if ctx.quick else 6000, data_ops=0.45)
    run_fol(ctx, "K5 data API on first-order formulae", scs, ["fol_c15"], hashseeds=(0,))
    ctx.cov["distribution"] = fdist(meta)
    try:
        import checks_store
        checks_store.c15_store_part(ctx)
    except ImportError:
        ctx.assumptions.append("value encodings / validation part not covered by this run")
    ctx.corpus(["d6_float_range.py"])
    return ctx.finish("proof", pr, st, rule=RULE_K6 + "; C15 monitors: asserted groundings read back exactly, nothing else changes, reset_bounds returns every row to its data (last assertion, else the world default at creation); "
                      "plus the value-encoding / validation scenarios of the store component")


def gen_c09(ctx, n):
    rng = ctx.rng("c09")
    scs, meta = [], []
    nconst = 3
    while len(scs) < n:
        kb, worlds = gen_fol.gen_fkb(rng, nforms=rng.choice([1, 2, 2, 3]))
        roots = gen_fol.froots(rng, kb)
        kb, worlds, roots = gen_fol.frestrict(kb, worlds, roots)
        if not any(o[0] != 0 for o in kb):
            continue
        # facts on predicates only: dense, so that natural joins are non-empty
        data = []
        for i, o in enumerate(kb):
            if o[0] == 0:
                d = {}
                for _ in range(rng.choice([1, 2, 3, 4, 6])):
                    d[tuple(gen_fol.rnd_gnd(rng, o[3], nconst))] = gen_fol.rnd_fact(rng, 0.4)
                data.append([i, [[list(g), b] for g, b in d.items()]])
        nonleaf = [i for i, o in enumerate(kb) if o[0] >= 2]
        ops = [[3, -1]]
        for _ in range(rng.choice([1, 2, 3])):
            if nonleaf:
                i = rng.choice(nonleaf)
                if rng.random() < 0.3:
                    g = gen_fol.rnd_gnd(rng, kb[i][3], nconst)
                    ops.append([8, i, [[g, rng.choice([[F(1), F(1)], [F(0), F(0)], [F(1, 2), F(1)]])]]])
                ops.append([2, i, rng.choice([-1, -1, 0, 1])])
        scs.append([40, kb, roots, worlds, data, ops, nconst])
        hom = all(all(m == o[2][0] for m in o[2]) for o in kb if o[0] >= 2)
        meta.append({"nobj": len(kb), "kinds": sorted(set(o[0] for o in kb)), "hetero": not hom, "maxar": max(o[3] for o in kb)})
    return scs, meta


def check_C09(ctx):
    st, pr = standard_prologue(ctx)
    scs, meta = gen_c09(ctx, 500 if ctx.quick else 6000)
    run_fol(ctx, "K6 upward over fresh first-order connective nests + downward", scs, ["fol_c09_up", "fol_c09_down"], hashseeds=(0, 2))
    ctx.cov["distribution"] = fdist(meta)
    return ctx.finish("proof", pr, st, rule="K6: fresh first-order KBs with dense predicate facts over 3 constants; ops = Model.upward(), then add_data on a formula grounding and node-level downward(index); "
                      "C09 monitors: an independent Python oracle enumerates ALL groundings over the constants, keeps those whose predicate facts are all asserted (recursively through nests and Not), "
                      "demands presence + exact truth-function value after upward, and after downward demands every dependent operand row at least as tight as the independently computed inverse and every non-operand untouched")


# ---------------------------------------------------------------- C10
def permute_scenario(rng, sc):
    """same program: facts listed in another order (inside each dict and across formulae)"""
    sc2 = copy.deepcopy(sc)
    data = sc2[4]
    for d in data:
        rng.shuffle(d[1])
    # keep the relative order of add_data calls per object, shuffle across objects
    rng.shuffle(data)
    for op in sc2[5]:
        if op[0] == 8:
            rng.shuffle(op[2])
    return sc2


def check_C10(ctx):
    st, pr = standard_prologue(ctx)
    rng = ctx.rng("c10")
    n = 300 if ctx.quick else 3000
    scs, meta = gen_fol.gen_k40(rng, n, nops=(4, 6, 9), data_ops=0.1)
    for sc in scs:
        # several facts per add_data so that dict order matters
        for i, o in enumerate(sc[1]):
            if o[0] == 0 and rng.random() < 0.7:
                d = {}
                for _ in range(rng.choice([2, 3, 5])):
                    d[tuple(gen_fol.rnd_gnd(rng, o[3], 3))] = gen_fol.rnd_fact(rng)
                sc[4].append([i, [[list(g), b] for g, b in d.items()]])
    seeds = (0, 1, 2, 3, 4, 5, 6, 7) if ctx.quick else tuple(range(32))
    m, impl, lines = run_fol(ctx, "K6 first-order engine under several PYTHONHASHSEEDs", scs, [], hashseeds=seeds, per_proc=40)
    for k, line in enumerate(lines):
        base = impl[seeds[0]][k]
        for hs in seeds[1:]:
            if impl[hs][k] != base:
                ctx.violation("fol_c10_seed", line, hs, f"identical bounds for every formula and grounding under PYTHONHASHSEED={seeds[0]} and {hs}",
                              first_diff(base, impl[hs][k]), None, extra={"hashseed_a": seeds[0], "hashseed_b": hs})
                break
    # fact order: permuted data dictionaries, merged last-writer-wins conflicts excluded by construction (distinct keys per dict)
    perm = [permute_scenario(rng, sc) for sc in scs]
    ok_perm = []
    for a, b in zip(scs, perm):
        # permuting across objects is only the same program if no grounding is asserted twice with different values
        seen = {}
        same = True
        for i, d in a[4]:
            for g, bb in d:
                key = (i, tuple(g))
                if key in seen and seen[key] != bb:
                    same = False
                seen[key] = bb
        ok_perm.append(same)
    plines = [sx.dumps(s) for s in perm]
    pout = lib.run_impl(plines, hashseed=seeds[1], per_proc=40)
    ctx.cov["evaluations"] += len(plines)
    nperm = 0
    for k, (line, o, ok) in enumerate(zip(lines, pout, ok_perm)):
        if not ok:
            continue
        nperm += 1
        if strip_data_ops(sx.loads(o), scs[k]) != strip_data_ops(sx.loads(impl[seeds[0]][k]), scs[k]):
            ctx.violation("fol_c10_order", line, seeds[1], "identical bounds when the facts are listed in another order (permuted scenario: " + plines[k] + ")",
                          first_diff(impl[seeds[0]][k], o), None)
    ctx.cov["distribution"] = fdist(meta)
    ctx.cov["hashseeds"] = list(seeds)
    ctx.cov["fact_order_pairs"] = nperm
    ctx.corpus(["d5_not_rows.py"])
    ctx.assumptions.append("the theorem covers ALL row orders of the model; on the implementation only the listed PYTHONHASHSEEDs are run")
    import checks_quant
    checks_quant.c10_quant_part(ctx)
    return ctx.finish("proof", pr, st, rule=RULE_K6 + f"; quantifier scenarios (K7, growth in any order, nests) under 4 (8) hash seeds against the deterministic model; C10: each program is run in fresh interpreters under PYTHONHASHSEED in {list(seeds)} and once more with every data dictionary and the list of add_data calls permuted; "
                      "canonical (sorted by grounding) dumps after every operation must be identical")


def strip_data_ops(obs, sc):
    return obs


def first_diff(a, b):
    if a == b:
        return "equal"
    try:
        la, lb = sx.loads(a), sx.loads(b)
        for n, (x, y) in enumerate(zip(la, lb)):
            if x != y:
                return f"first difference at op #{n}: {sx.dumps(x)[:300]}  vs  {sx.dumps(y)[:300]}"
    except Exception:
        pass
    return f"{a[:200]} vs {b[:200]}"


@monitor("fol_c10_seed")
def mon_c10_seed(sc, obs):
    return None


CHECKS = {"C14": check_C14, "C15": check_C15, "C09": check_C09, "C10": check_C10}


# ---------------------------------------------------------------- C02
def all_gnds(ar, nconst):
    return list(itertools.product(range(nconst), repeat=ar))


def gen_consistent(rng, nconst=3, **kw):
    """KB + hidden ground interpretation + data around it"""
    while True:
        kb, worlds = gen_fol.gen_fkb(rng, **kw)
        roots = gen_fol.froots(rng, kb)
        kb, worlds, roots = gen_fol.frestrict(kb, worlds, roots)
        if any(o[0] != 0 for o in kb):
            break
    worlds = [(w if o[0] == 0 and w != gen_fol.AXIOM else gen_fol.OPEN) for o, w in zip(kb, worlds)]
    hidden = {}
    data = []
    for i, o in enumerate(kb):
        if o[0] != 0:
            continue
        closed = worlds[i] == gen_fol.CLOSED
        d = []
        for g in all_gnds(o[3], nconst):
            assert_it = rng.random() < 0.45
            if closed and not assert_it:
                hidden[(i, g)] = F(0)
                continue
            x = rng.choice([F(0), F(1), F(0), F(1), F(1, 2), F(1, 4), F(3, 4), F(1, 8)])
            hidden[(i, g)] = x
            if assert_it:
                c = rng.random()
                if c < 0.5:
                    b = [x, x]
                else:
                    b = [rng.choice([v for v in G8 if v <= x]), rng.choice([v for v in G8 if v >= x])]
                d.append([list(g), b])
        if d:
            data.append([i, d])

    def val(i, g):
        if (i, g) in hidden:
            return hidden[(i, g)]
        kd, ops, maps = kb[i][0], kb[i][1], kb[i][2]
        xs = [val(j, tuple(g[s] for s in m)) for j, m in zip(ops, maps)]
        if kd == 1:
            r = 1 - xs[0]
        else:
            pt = up_oracle(kd, kb[i][4], [(x, x) for x in xs])
            r = pt[0]
        hidden[(i, g)] = r
        return r
    for i, o in enumerate(kb):
        if o[0] != 0:
            d = []
            for g in all_gnds(o[3], nconst):
                x = val(i, g)
                if rng.random() < 0.2 and x in G8:
                    d.append([list(g), rng.choice([[x, x], [rng.choice([v for v in G8 if v <= x]), F(1)]])])
            if d:
                data.append([i, d])
    return kb, worlds, roots, data, hidden


G8 = gen_fol.G8


@monitor("fol_c02_hidden")
def mon_c02_hidden(sc, obs):
    if whole_error(obs):
        return ("no exception on ground-consistent data", f"raised error class {obs[1]}", None)
    hidden = {}
    for i, g, x in sc[6]:
        hidden[(i, tuple(g))] = sx.q(x)
    tr = Trace(sc, obs)
    for st in tr.steps():
        if st["error"] is not None:
            return (f"op #{st['n']} {st['op']} completes on ground-consistent data", f"raised error class {st['error']}", None)
        if st["after"] is None:
            continue
        for i in range(tr.n):
            al = sx.q(tr.kb[i][4][0])
            for g, (l, u) in st["after"][i].items():
                x = hidden.get((i, g))
                if x is None:
                    continue
                tol = F(0) if (l.denominator <= 1024 and u.denominator <= 1024) else F(1, 2 ** 18)
                if not (l - tol <= x <= u + tol):
                    return (f"after op #{st['n']} {st['op']}: bounds of object {i} grounding {g} contain the ground interpretation's value {x} (the ground theory has this model)", f"({l}, {u})", None)
    return None


def ground_kb(sc, nconst):
    """propositional theory of the ground instances (atoms P(c..) for all groundings, one connective object per formula grounding)"""
    kb, roots, worlds, data = sc[1], sc[2], sc[3], sc[4]
    facts = initial_tables(sc)
    index = {}
    pkb, pdata = [], []
    for i, o in enumerate(kb):
        for g in all_gnds(o[3], nconst):
            kd = o[0]
            if kd == 0:
                pkb.append([0, [], [F(1), F(1), [], 1], []])
            else:
                ops = [index[(j, tuple(g[s] for s in m))] for j, m in zip(o[1], o[2])]
                if kd == 1:
                    pkb.append([1, ops, [sx.q(o[4][0]) if not isinstance(o[4][0], F) else o[4][0], F(1), [], 1], []])
                else:
                    pkb.append([kd, ops, o[4], []])
            index[(i, g)] = len(pkb) - 1
            b = facts[i].get(g)
            w = sx.bnd(worlds[i]) if not isinstance(worlds[i][0], F) else tuple(worlds[i])
            if b is not None:
                pdata.append([index[(i, g)], [b[0], b[1]]])
            elif tuple(w) != (F(0), F(1)):
                pdata.append([index[(i, g)], [w[0], w[1]]])
    proots = [index[(r, g)] for r in roots for g in all_gnds(kb[r][3], nconst)]
    return [3, pkb, proots, pdata, [[5, -1, 60], [9]]], index


def check_C02(ctx):
    st, pr = standard_prologue(ctx)
    rng = ctx.rng("c02")
    n = 300 if ctx.quick else 3000
    nconst = 3
    scs, meta = [], []
    for _ in range(n):
        kb, worlds, roots, data, hidden = gen_consistent(rng, nconst, maxar=2 if rng.random() < 0.7 else 3)
        ops = gen_fol.gen_fops(rng, kb, roots, rng.choice([3, 5, 8]), nconst, data_ops=0.0)
        hid = [[i, list(g), x] for (i, g), x in hidden.items()]
        scs.append([40, kb, roots, worlds, data, ops, hid])
        hom = all(all(m == o[2][0] for m in o[2]) for o in kb if o[0] >= 2)
        meta.append({"nobj": len(kb), "kinds": sorted(set(o[0] for o in kb)), "hetero": not hom, "maxar": max(o[3] for o in kb)})
    run_fol(ctx, "K6 first-order engine on ground-consistent data", scs, ["fol_c02_hidden", "fol_c05"], hashseeds=(0, 5))
    # ground-propagation oracle: FOL infer() vs the implementation's own propositional inference over the ground instances
    m2 = 60 if ctx.quick else 600
    pairs = []
    fol_lines, gr_lines = [], []
    for sc in scs[:m2]:
        sc2 = [40, sc[1], sc[2], sc[3], sc[4], [[5, -1, 40]]]
        g, index = ground_kb(sc2, nconst)
        pairs.append((sc2, index))
        fol_lines.append(sx.dumps(sc2))
        gr_lines.append(sx.dumps(g))
    fo = lib.run_impl(fol_lines, per_proc=20)
    go = lib.run_impl(gr_lines, per_proc=10)
    ctx.cov["evaluations"] += 2 * len(fol_lines)
    ncmp = 0
    for (sc2, index), fl, gl, fo_, go_ in zip(pairs, fol_lines, gr_lines, fo, go):
        fobs, gobs = sx.loads(fo_), sx.loads(go_)
        if whole_error(fobs) or whole_error(gobs) or (gobs[0] and gobs[0][0] == -900) or (fobs[0] and fobs[0][0] == -900):
            continue
        if gobs[0][0] >= 60 or bool(gobs[1][0]):
            continue   # ground propagation did not converge within the guard / found a contradiction (arresting differs)
        gstate = [sx.bnd(b) for b in gobs[0][2]]
        ftabs = tabs(fobs[0][2])
        ncmp += 1
        for i, t in enumerate(ftabs):
            for g, (l, u) in t.items():
                gl_, gu_ = gstate[index[(i, g)]]
                if l > gl_ or u < gu_:
                    ctx.violation("fol_c02_ground", fl, 0, f"bounds of object {i} grounding {g} are not tighter than exhaustive propagation over the ground instances yields ({gl_}, {gu_}) (ground theory: {gl[:200]}...)",
                                  f"({l}, {u})", None)
                    break
    ctx.cov["ground_fixpoint_comparisons"] = ncmp
    ctx.cov["distribution"] = fdist(meta)
    ctx.corpus(["d5_not_rows.py"])
    ctx.assumptions.append("proved: semantic soundness w.r.t. every ground interpretation (C02_ground_sound); the comparison with the ground propagation fixpoint is checked on the implementation, not proved")
    return ctx.finish("proof", pr, st, rule="K6 on ground-consistent data: random first-order KBs; a hidden ground interpretation assigns every ground atom over 3 constants a value (CLOSED predicates: non-zero only where asserted), formula instances are evaluated exactly; "
                      "facts = bounds around it; 3-8 random inference calls; monitor: every stored bound contains the hidden value after every call. Ground oracle: the same KB instantiated at all groundings as a propositional theory "
                      "(unasserted atoms at their world default) run through the implementation's propositional infer(); every first-order bound after infer() must be no tighter than the ground fixpoint (compared when the ground run converges without contradiction)")


@monitor("fol_c02_ground")
def mon_c02_ground(sc, obs):
    return None


# ---------------------------------------------------------------- C16
def reads_moved(ta, tb, world):
    """total movement between two table states read as maps-with-default"""
    tot = F(0)
    for i, (a, b) in enumerate(zip(ta, tb)):
        for g in set(a) | set(b):
            x, y = a.get(g, world[i]), b.get(g, world[i])
            tot += abs(x[0] - y[0]) + abs(x[1] - y[1])
    return tot


def reads_equal(ta, tb, world):
    """tables equal as maps-with-default"""
    for i, (a, b) in enumerate(zip(ta, tb)):
        for g in set(a) | set(b):
            if a.get(g, world[i]) != b.get(g, world[i]):
                return (i, g, a.get(g, world[i]), b.get(g, world[i]))
    return None


@monitor("fol_c16")
def mon_c16(sc, obs):
    if whole_error(obs):
        return None
    tr = Trace(sc, obs)
    sts = list(tr.steps())
    if any(s["error"] is not None for s in sts):
        return None
    k1, k2 = sc[6], sc[7]      # index of the op that ends run 1, index of the op that ends run 2
    kb = tr.kb
    world = sts[0]["world"]

    def contra(t):
        return any(crossed(sx.q(kb[i][4][0]), l, u) for i in range(tr.n) for (l, u) in t[i].values())
    runs = [sts[k1], sts[k2]] + ([sts[-1]] if len(sts) > k2 + 1 and sts[-1]["op"][0] == 5 else [])
    if any(r["ret"] is not None and r["ret"] >= 30 for r in runs):
        return None
    site = None
    if any(contra(r["after"]) for r in runs):
        site = "arresting-on-contradictory-data"
    for n, r in enumerate(runs[1:], 2):
        d = reads_equal(runs[0]["after"], r["after"], world)
        if d:
            return (f"after reset_bounds(), infer() (run {n}) reproduces the bounds of the first run: object {d[0]} grounding {d[1]} = {d[2]}", f"{d[3]}", site)
    return None


def gen_c16(ctx, n, fol=True):
    rng = ctx.rng("c16")
    scs, meta = [], []
    for _ in range(n):
        kb, worlds, roots, data, hidden = gen_consistent(rng, 3, maxar=2 if rng.random() < 0.7 else 3)
        if rng.random() < 0.3:
            data = gen_fol.gen_fdata(rng, kb, 3)   # free (possibly inconsistent) data
        pre = []
        for _k in range(rng.choice([0, 1, 2])):
            i = rng.randrange(len(kb))
            pre.append(rng.choice([[12, i, gen_fol.rnd_gnd(rng, kb[i][3], 4)], [9], [16]]))
        mid = gen_fol.gen_fops(rng, kb, roots, rng.choice([0, 2, 4]), 3, data_ops=0.0) if rng.random() < 0.5 else []
        if rng.random() < 0.6:
            # state queries about groundings nobody asserted, between run 1 and the reset: they must leave no trace in run 2
            for _k in range(rng.choice([1, 2, 3])):
                i = rng.randrange(len(kb))
                mid.append([12, i, gen_fol.rnd_gnd(rng, kb[i][3], 4)])
        ops = pre + [[5, -1, 30]]
        k1 = len(ops) - 1
        ops += [[9]] + mid + ([[16]] if rng.random() < 0.4 else []) + [[7], [5, -1, 30]]
        k2 = len(ops) - 1
        ops += [[7], [5, -1, 30]]      # a third cycle: whatever run 2 inferred must not have become data
        scs.append([40, kb, roots, worlds, data, ops, k1, k2])
        hom = all(all(m == o[2][0] for m in o[2]) for o in kb if o[0] >= 2)
        meta.append({"nobj": len(kb), "kinds": sorted(set(o[0] for o in kb)), "hetero": not hom, "maxar": max(o[3] for o in kb)})
    return scs, meta


def gen_c16_propagation(rng, n):
    """rows that reach a predicate T only because another formula propagates its groundings to it, while no bound moves
    in that step: a formula over T that is visited EARLIER in the pass sees them one step later; run 1 has to take that
    further step exactly as run 2 (which starts with the rows in place) does"""
    P1 = [F(1), F(1), [], 1]
    scs, meta = [], []
    for _ in range(n):
        P2 = [F(1), F(1), [F(1), F(1)], rng.choice([0, 1])]
        kb = [[0, [], [], 1, list(P1), []] for _ in range(3)]                 # 0: U, 1: T, 2: S
        kb.append([1, [1], [[0]], 1, list(P1), [[0]]])                           # 3: Not(T(x))
        first = rng.choice([3, 3, 1])                                           # antecedent of the rule: Not(T(x)) or T(x)
        kb.append([4, [first, 2], [[0], [0]], 1, list(P2), [[0], [0]]])          # 4: first(x) -> S(x)
        kb.append([rng.choice([2, 3, 3, 4]), [0, 1], [[0], [0]], 1, list(P2), [[0], [0]]])   # 5: U(x) op T(x)
        worlds = [gen_fol.OPEN, rng.choice([gen_fol.CLOSED, gen_fol.CLOSED, gen_fol.AXIOM]), gen_fol.OPEN, gen_fol.OPEN,
                  rng.choice([gen_fol.AXIOM, gen_fol.AXIOM, gen_fol.OPEN]), rng.choice([gen_fol.OPEN, gen_fol.OPEN, gen_fol.AXIOM])]
        roots = rng.choice([[4, 5], [4, 5], [5, 4], [3, 5, 4]])
        consts = rng.sample(range(3), rng.choice([1, 2, 3]))
        data = [[0, [[[c], rng.choice([[F(0), F(1)], [F(0), F(1)], [F(1), F(1)], gen_fol.rnd_fact(rng, 0.2)])] for c in consts]]]
        if rng.random() < 0.3:
            data.append([2, [[[rng.randrange(3)], gen_fol.rnd_fact(rng)]]])
        ops = [[5, -1, 30], [9], [7], [5, -1, 30], [7], [5, -1, 30]]
        scs.append([40, kb, roots, worlds, data, ops, 0, 3])
        meta.append({"nobj": 6, "kinds": [0, 1, 3, 4], "hetero": False, "maxar": 1})
    return scs, meta


CHECKS.update({"C02": check_C02})


def check_C16(ctx):
    st, pr = standard_prologue(ctx)
    scs, meta = gen_c16(ctx, 400 if ctx.quick else 5000)
    # witness of the recorded known finding (arresting on contradictory data) runs first
    import os
    with open(os.path.join(lib.VERIF, "harness", "corpus", "kf_c16_arresting.txt")) as f:
        kf = sx.loads(f.read().strip())
    scs.insert(0, kf)
    meta.insert(0, {"nobj": 3, "kinds": [0, 2], "hetero": False, "maxar": 2})
    run_fol(ctx, "K6 run 1 / reset_bounds / run 2 / reset_bounds / run 3 on first-order KBs", scs, ["fol_c16", "fol_c15"], hashseeds=(0,))
    ctx.cov["distribution"] = fdist(meta)
    scs2, meta2 = gen_c16_propagation(ctx.rng("c16prop"), 150 if ctx.quick else 2000)
    run_fol(ctx, "K6 run 1 / reset / run 2 where groundings reach a predicate by propagation without any bound moving", scs2, ["fol_c16", "fol_c15"], hashseeds=(0,))
    try:
        import checks_prop
        checks_prop.c16_prop_part(ctx)
    except (ImportError, AttributeError):
        pass
    import checks_quant
    checks_quant.c16_quant_part(ctx)
    return ctx.finish("proof", pr, st, rule="quantifier part: K7 scenarios (one and two quantifier levels, worlds OPEN/AXIOM/CLOSED), the same sequence of body / quantifier upward and downward calls before and after Model.reset_bounds(), tables compared; run 1 = (queries/probes) + infer(); then has_contradiction / further inference calls; reset_bounds(); run 2 = infer(); canonical dumps of run 1 and run 2 compared as maps with the world default for missing rows")


CHECKS.update({"C16": check_C16})


# ---------------------------------------------------------------- C06 (first-order part)
def fol_residue_tolerance(tables):
    """see checks_prop.residue_tolerance: 1e-7 on the exactly representable grid, 1e-5 once a bound has left it"""
    off = any(v.denominator > 1024 for t in tables for b in t.values() for v in b)
    return F(1, 10 ** 5) if off else F(1, 10 ** 7)


@monitor("fol_c06")
def mon_fol_c06(sc, obs):
    """whenever infer() has converged (and no data arrived since): no node-level call of any formula changes anything and a
    further infer() = (1 step, 0)"""
    if whole_error(obs):
        return ("infer() returns", f"raised error class {obs[1]}", None)
    tr = Trace(sc, obs)
    sts = list(tr.steps())
    if not sts or sts[0]["error"] is not None:
        return ("infer() returns", "raised", None)
    kb = tr.kb
    converged = None       # number of steps the last infer() took, None = not at a claimed fixpoint
    for st in sts:
        if st["error"] is not None:
            return (f"op #{st['n']} {st['op']} completes", "raised", None)
        world = st["world"]
        t = st["op"][0]
        if t in (7, 8, 10, 11):
            converged = None
            continue
        if t == 5:
            if converged is not None:
                d = reads_equal(st["before"], st["after"], world)
                tol = fol_residue_tolerance(st["before"])
                if (st["ret"] != 1 and tol == F(1, 10 ** 7)) or st["amt"] > tol or reads_moved(st["before"], st["after"], world) > tol:
                    return (f"op #{st['n']}: a further infer() takes 1 step, reports zero, changes nothing", f"steps {st['ret']} amount {st['amt']} changed {d}", None)
            if st["ret"] >= 40:
                return None
            if any(crossed(sx.q(kb[i][4][0]), l, u) for i in range(tr.n) for (l, u) in st["after"][i].values()):
                return None   # contradictory data: arresting (see C07/C16)
            converged = st["ret"]
            continue
        if t in (1, 2) and converged is not None:
            d = reads_equal(st["before"], st["after"], world)
            tol = fol_residue_tolerance(st["before"])
            if st["amt"] <= tol and reads_moved(st["before"], st["after"], world) <= tol:
                continue    # weighted KBs converge only asymptotically; infer() stops at <= 1e-7 (D9, outside "exactly representable")
            if d or st["amt"] != 0:
                return (f"after infer() converged in {converged} steps, node call #{st['n']} {st['op']} changes nothing", f"amount {st['amt']}, changed {d}", None)
    return None


def c06_fol_part(ctx):
    rng = ctx.rng("c06fol")
    scs, meta = [], []
    for _ in range(250 if ctx.quick else 3000):
        kb, worlds, roots, data, hidden = gen_consistent(rng, 3, maxar=2 if rng.random() < 0.7 else 3, weighted=rng.random() < 0.3)
        ops = [[5, -1, 40]]
        if rng.random() < 0.5:
            # a later observation (consistent with the hidden reading), then reasoning again: the new fixpoint is the one
            # the sweep below probes
            for _k in range(rng.choice([1, 2])):
                i = rng.randrange(len(kb))
                g = rng.choice(all_gnds(kb[i][3], 3))
                x = hidden[(i, g)]
                if x in G8:
                    ops.append([8, i, [[list(g), rng.choice([[x, x], [x, x], [rng.choice([v for v in G8 if v <= x]), rng.choice([v for v in G8 if v >= x])]])]]])
            ops.append([5, -1, 40])
        for i, o in enumerate(kb):
            if o[0] != 0:
                ops += [[1, i], [2, i, -1]]
        ops.append([5, -1, 40])
        scs.append([40, kb, roots, worlds, data, ops])
        hom = all(all(m == o[2][0] for m in o[2]) for o in kb if o[0] >= 2)
        meta.append({"nobj": len(kb), "kinds": sorted(set(o[0] for o in kb)), "hetero": not hom, "maxar": max(o[3] for o in kb)})
    run_fol(ctx, "K6 first-order infer-to-convergence + node-level sweep + second infer", scs, ["fol_c06"])
    ctx.cov["fol_distribution"] = fdist(meta)
    ctx.corpus(["d10_row_creation.py"])
