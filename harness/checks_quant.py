"""C11 (quantifier upward aggregation) and C12 (quantifier downward = sound instantiation)."""
from fractions import Fraction as F
import itertools, os
import sx, lib, gen_fol, gen_quant
from framework import Ctx, standard_prologue
from checks_fol import whole_error, crossed, up_oracle, all_gnds, initial_tables

MONITORS = {}
UNK = (F(0), F(1))


def monitor(name):
    def deco(f):
        MONITORS[name] = f
        return f
    return deco


def clamp(x):
    return max(F(0), min(F(1), x))


def qtabs(o):
    """observation -> (base tables, quantifier tables)"""
    base = [{tuple(r[0]): sx.bnd(r[1]) for r in t} for t in o[0]]
    qt = [{tuple(r[0]): sx.bnd(r[1]) for r in t} for t in o[1]]
    return base, qt


def walk(sc, obs):
    kb, roots, worlds, data, qobjs, ops = sc[1:7]
    nb = len(kb)
    base = initial_tables([40, kb, roots, worlds, data])
    qt = []
    for q in qobjs:
        qt.append({(): sx.bnd(q[4])} if not q[2] else {})
    for n, (op, o) in enumerate(zip(ops, obs)):
        if o and o[0] == -900:
            yield n, op, None, (base, qt), None
            return
        if o == [-995]:
            continue
        if op[0] in (20, 21, 1, 2):
            amt, (b2, q2) = sx.q(o[0]), qtabs(o[1])
        elif op[0] in (7, 8, 15, 16):
            amt, (b2, q2) = None, qtabs(o[0])
        elif op[0] == 12:
            amt, (b2, q2) = None, qtabs(o[1])
        else:
            continue
        yield n, op, amt, (base, qt), (b2, q2)
        base, qt = b2, q2


def operand_table(nb, state, j):
    base, qt = state
    return base[j] if j < nb else qt[j - nb]


@monitor("c11_up")
def mon_c11(sc, obs):
    """quantifier upward on groups that had no entry before (or a fully quantified formula): the stored bounds are the
    restricted aggregate of the Lukasiewicz conjunction / disjunction of the instance bounds"""
    if whole_error(obs):
        if obs[1] == 5:
            return None     # downward before upward of a new grounding: KeyError (recorded observation, not C11)
        return ("no exception", f"raised error class {obs[1]}", None)
    kb, qobjs = sc[1], sc[5]
    nb = len(kb)
    dirty = set()
    for n, op, amt, before, after in walk(sc, obs):
        if after is None:
            return None
        if op[0] == 21 and qobjs[op[1]][1] >= nb:
            dirty.add(qobjs[op[1]][1] - nb)
        if op[0] != 20:
            continue
        qi = op[1]
        was_dirty = qi in dirty
        dirty.discard(qi)
        kd, opd, free, full, w, ovars = qobjs[qi][:6]
        full = full == 1
        w = sx.bnd(w)
        rows = operand_table(nb, before, opd)
        if not rows:
            if after[1][qi] != before[1][qi] or amt != 0:
                return (f"op #{n}: upward over an empty table changes nothing", f"amount {amt}", None)
            continue
        groups = {}
        for g, b in rows.items():
            groups.setdefault(tuple(g[p] for p in free), []).append(b)
        for key, inst in groups.items():
            old = before[1][qi].get(key)
            if old is None:
                old = w
            elif free and was_dirty:
                continue     # an outer quantifier wrote into this quantifier's private neurons: its table does not show them
            if kd == 0:
                new = (clamp(1 - sum(1 - b[0] for b in inst)), clamp(1 - sum(1 - b[1] for b in inst)))
                exp = (max(old[0], new[0]) if full else old[0], min(old[1], new[1]))
            else:
                new = (clamp(sum(b[0] for b in inst)), clamp(sum(b[1] for b in inst)))
                exp = (max(old[0], new[0]), min(old[1], new[1]) if full else old[1])
            got = after[1][qi].get(key)
            if got != exp:
                what = "Forall: upper = Lukasiewicz conjunction of the instance uppers, lower untouched" if kd == 0 else "Exists: lower = Lukasiewicz disjunction of the instance lowers, upper untouched"
                return (f"op #{n} upward of quantifier {qi} at free-variable grounding {key} over instances {inst}: {what}{' (fully_grounded: both bounds)' if full else ''} = {exp}", f"{got}", None)
    return None


@monitor("c12_hidden")
def mon_c12(sc, obs):
    """ground-consistent tables stay consistent through quantifier downward steps"""
    if whole_error(obs):
        if obs[1] == 5:
            return None
        return ("no exception on consistent data", f"raised error class {obs[1]}", None)
    hidden = {(i, tuple(g)): sx.q(x) for i, g, x in sc[7]}
    kb = sc[1]
    for n, op, amt, before, after in walk(sc, obs):
        if after is None:
            return None
        for i, t in enumerate(after[0]):
            for g, (l, u) in t.items():
                x = hidden.get((i, g))
                if x is None:
                    continue
                tol = F(0) if (l.denominator <= 1024 and u.denominator <= 1024) else F(1, 2 ** 18)
                if not (l - tol <= x <= u + tol):
                    return (f"after op #{n} {op}: instance table of object {i} grounding {g} keeps the consistent reading {x}", f"({l}, {u})", None)
    return None


@monitor("c12_lower")
def mon_c12_lower(sc, obs):
    """a Forall's lower bound reaches every known instance; an Exists' upper bound reaches every instance"""
    if whole_error(obs):
        return None
    kb, qobjs = sc[1], sc[5]
    nb = len(kb)
    prev_op = None
    dirty = set()
    for n, op, amt, before, after in walk(sc, obs):
        if after is None:
            return None
        last, prev_op = prev_op, op
        if op[0] == 20:
            dirty.discard(op[1])
        if op[0] != 21:
            continue
        qi = op[1]
        kd, opd, free, full, w, ovars = qobjs[qi][:6]
        full = full == 1
        if opd >= nb:
            dirty.add(opd - nb)
            continue
        if qi in dirty:
            continue
        if free and last != [20, qi]:
            continue   # free-variable path: the private neuron of a grounding is re-created when its instance count changed since the last upward
        rows = before[0][opd]
        for g, b in rows.items():
            key = tuple(g[p] for p in free)
            y = before[1][qi].get(key)
            if y is None or y[0] > y[1] or any(r[0] > r[1] for r in rows.values()):
                continue
            got = after[0][opd][g]
            if kd == 0 and y[0] > 0 and got[0] < y[0]:
                return (f"op #{n} downward of Forall {qi}: instance {g} receives the lower bound {y[0]} of grounding {key}", f"{got}", None)
            if kd == 1 and y[1] < 1 and got[1] > y[1]:
                return (f"op #{n} downward of Exists {qi}: instance {g} receives the upper bound {y[1]} of grounding {key}", f"{got}", None)
    return None


@monitor("c12_forced")
def mon_c12_forced(sc, obs):
    """beyond the quantifier's own bound an instance is tightened exactly as far as the CURRENT bounds of the other
    instances force it: new row = old row met with the n-ary Lukasiewicz inverse over the rows the operand shows now"""
    from checks_fol import down_oracle
    if whole_error(obs):
        return None
    kb, qobjs = sc[1], sc[5]
    nb = len(kb)
    valid = set()
    dirty = set()      # quantifiers whose PRIVATE neurons an outer quantifier's downward has written since their last upward:
                       # their visible table no longer shows the bounds their own downward will push
    for n, op, amt, before, after in walk(sc, obs):
        if after is None:
            return None
        if op[0] == 21 and qobjs[op[1]][1] >= nb:
            dirty.add(qobjs[op[1]][1] - nb)
        if op[0] == 20:
            valid.add(op[1])
            dirty.discard(op[1])
            continue
        if op[0] in (1, 2, 8):
            valid.clear()
            continue
        if op[0] != 21:
            continue
        qi = op[1]
        kd, opd, free, full, w, ovars = qobjs[qi][:6]
        full = full == 1
        if opd >= nb or (free and qi not in valid) or qi in dirty:
            continue
        rows = before[0][opd]
        if not rows or any(r[0] > r[1] for r in rows.values()):
            continue
        groups = {}
        for g in sorted(rows):
            groups.setdefault(tuple(g[p] for p in free), []).append(g)
        for key, gs in groups.items():
            y = before[1][qi].get(key)
            if y is None or y[0] > y[1]:
                continue
            inst = [rows[g] for g in gs]
            new = down_oracle(2 if kd == 0 else 3, [0, F(1), [F(1)] * len(inst)], y, inst)
            for g, old, nw in zip(gs, inst, new):
                exp = (max(old[0], nw[0]), min(old[1], nw[1]))
                got = after[0][opd][g]
                vals = list(old) + list(y) + list(got)
                tol = F(0) if all(v.denominator <= 1024 for v in vals) else F(1, 2 ** 16)
                if abs(got[0] - exp[0]) > tol or abs(got[1] - exp[1]) > tol:
                    return (f"op #{n} downward of {'Forall' if kd == 0 else 'Exists'} {qi} with bounds {y} at {key}: instance {g} (was {old}; the instances now read {inst}) becomes {exp}", f"{got}", None)
    return None


@monitor("c05_quant")
def mon_c05_quant(sc, obs):
    """every inference call (body upward/downward, quantifier upward/downward) only tightens: every row of every base table
    and of every quantifier's table that existed before the call is at least as tight afterwards, and no row disappears"""
    if whole_error(obs):
        return None
    for n, op, amt, before, after in walk(sc, obs):
        if after is None:
            return None
        if op[0] not in (1, 2, 20, 21):
            continue
        for kind, bt, at in (("object", before[0], after[0]), ("quantifier", before[1], after[1])):
            for i, (tb, ta) in enumerate(zip(bt, at)):
                for g, (l, u) in tb.items():
                    if g not in ta:
                        return (f"op #{n} {op}: row {g} of {kind} {i} is still there", "missing", None)
                    l2, u2 = ta[g]
                    tol = F(0) if all(v.denominator <= 1024 for v in (l, u, l2, u2)) else F(1, 2 ** 18)
                    if l2 < l - tol or u2 > u + tol:
                        return (f"op #{n} {op}: {kind} {i} grounding {g} only tightens from ({l}, {u})", f"({l2}, {u2})", None)
    return None


@monitor("c16_quant")
def mon_c16_quant(sc, obs):
    """run 1 (rounds of all calls until a round is silent), reset_bounds(), run 2 (the same rounds): right after the reset every
    quantifier row reads its world default; when both runs ended in a silent round, every table reads as after run 1"""
    if whole_error(obs):
        return ("no exception", f"raised error class {obs[1]}", None)
    kb, worlds, qobjs, ops = sc[1], sc[3], sc[5], sc[6]
    k = ops.index([7])
    sts = list(walk(sc, obs))
    if len(sts) < len(ops) or any(s[4] is None for s in sts):
        return None
    after_reset = sts[k][4]
    for qi, t in enumerate(after_reset[1]):
        w = sx.bnd(qobjs[qi][4])
        for g, b in t.items():
            if b != w:
                return (f"right after reset_bounds() quantifier {qi} grounding {g} reads its world default {w}", f"{b}", None)
    rnd = sc[8]          # number of calls in one round
    if any(s[2] for s in sts[k - rnd:k]) or any(s[2] for s in sts[-rnd:]):
        return None      # a run did not reach a silent round within the budget
    run1, run2 = sts[k - 1][4], sts[-1][4]
    if any(l > u for t in run1[0] + run1[1] for (l, u) in t.values()):
        return None     # contradictory data: arresting depends on the rows that already exist (known finding of C16)
    defaults = [[sx.bnd(w) for w in worlds], [sx.bnd(q[4]) for q in qobjs]]
    # known finding: some quantifier inverted over an instance set that inference itself enlarged later within run 1
    nb = len(kb)
    site = None
    seen = {}
    for s_ in sts[:k]:
        if s_[1][0] == 21:
            qi = s_[1][1]
            opd = qobjs[qi][1]
            cnt = len(s_[3][0][opd]) if opd < nb else len(s_[3][1][opd - nb])
            if qi in seen and seen[qi] != cnt:
                site = "quantifier-downward-on-grown-instance-set"
            seen.setdefault(qi, cnt)
    for kind, a, b, dflt in (("object", run1[0], run2[0], defaults[0]), ("quantifier", run1[1], run2[1], defaults[1])):
        for i, (ta, tb) in enumerate(zip(a, b)):
            for g in set(ta) | set(tb):
                x, y = ta.get(g, dflt[i]), tb.get(g, dflt[i])
                if x != y:
                    return (f"run 2 after reset_bounds() reproduces run 1: {kind} {i} grounding {g} = {x}", f"{y}", site)
    return None


def c16_quant_part(ctx):
    rng = ctx.rng("c16q")
    scs, meta = gen_quant.gen_k50(rng, 200 if ctx.quick else 2500, downward=True, nested=0.3, fresh_only=True)
    s2, m2 = gen_quant.gen_k50_nested_full(rng, 40 if ctx.quick else 500)
    out = []
    for sc in scs + s2:
        kb, qobjs = sc[1], sc[5]
        nonleaf = [i for i, o in enumerate(kb) if o[0] != 0]
        rnd = [[1, i] for i in nonleaf] + [[20, qi] for qi in range(len(qobjs))] + [[21, qi] for qi in reversed(range(len(qobjs)))] + [[2, i, -1] for i in reversed(nonleaf)]
        sc[6] = rnd * 4 + ([[16]] if rng.random() < 0.5 else []) + [[7]] + rnd * 4      # printing and state queries before the reset must leave no trace
        while len(sc) < 8:
            sc.append([])
        sc.append(len(rnd))
        out.append(sc)
    with open(os.path.join(lib.VERIF, "harness", "corpus", "kf_c16_quant_growth.txt")) as f:
        out.insert(0, sx.loads(f.read().strip()))       # witness of the recorded known finding runs first
    run_q(ctx, "K7 quantifiers: run 1 / reset_bounds / run 2", out, ["c16_quant"], hashseeds=(0,))
    ctx.cov["quantifier_distribution"] = qdist(meta + m2)
    ctx.corpus(["d16_quantifier_reset.py"])


def c10_quant_part(ctx):
    """quantifier scenarios (instance sets and free-variable groundings growing in any order, nests) under several hash
    seeds: every run must equal the (deterministic) model, hence every other run"""
    scs, meta = gen_quant.gen_k50(ctx.rng("c10q"), 150 if ctx.quick else 2000, downward=True, nested=0.3)
    s2, m2 = gen_quant.gen_k50_interleaved(ctx.rng("c10qi"), 40 if ctx.quick else 500)
    seeds = (0, 1, 2, 3) if ctx.quick else (0, 1, 2, 3, 4, 5, 6, 7)
    m, impl, lines = run_q(ctx, "K7 quantifiers under several hash seeds", scs + s2, [], hashseeds=seeds)
    for k, line in enumerate(lines):
        base = impl[seeds[0]][k]
        for hs in seeds[1:]:
            if impl[hs][k] != base:
                a, b = sx.loads(base), sx.loads(impl[hs][k])
                pos = next((n for n, (x, y) in enumerate(zip(a, b)) if x != y), None) if isinstance(a, list) and isinstance(b, list) else None
                ctx.violation("quant_c10_seed", line, hs, f"identical tables after every call under PYTHONHASHSEED={seeds[0]} and {hs}",
                              f"first difference at op #{pos}: {sx.dumps(a[pos])[:300] if pos is not None else base[:300]} vs {sx.dumps(b[pos])[:300] if pos is not None else impl[hs][k][:300]}",
                              None, extra={"hashseed_a": seeds[0], "hashseed_b": hs})
                break
    ctx.cov["quantifier_distribution"] = qdist(meta + m2)


@monitor("c13_quant")
def mon_c13_quant(sc, obs):
    """quantifier calls: the reported amount is zero exactly when nothing the call may write changed -- upward: the
    quantifier's own table; downward into a formula or predicate: that operand's table"""
    if whole_error(obs):
        return None
    kb, qobjs = sc[1], sc[5]
    nb = len(kb)
    dirty = set()
    for n, op, amt, before, after in walk(sc, obs):
        if after is None:
            return None
        if op[0] == 21 and qobjs[op[1]][1] >= nb:
            dirty.add(qobjs[op[1]][1] - nb)      # wrote into the inner quantifier's private neurons: not visible in any table
            continue
        if op[0] == 20:
            qi = op[1]
            was_dirty = qi in dirty
            dirty.discard(qi)
            if was_dirty:
                continue
            changed = before[1][qi] != after[1][qi]
            # rows that appear with the world default are not a change of any reading
            w = sx.bnd(qobjs[qi][4])
            changed = any(after[1][qi].get(g) != before[1][qi].get(g, w) for g in set(after[1][qi]) | set(before[1][qi]))
            if (amt == 0) == changed:
                return (f"op #{n} upward of quantifier {qi}: reported amount is zero iff its table did not change (changed={changed})", f"amount {amt}", None)
        if op[0] == 21:
            qi = op[1]
            opd = qobjs[qi][1]
            if qi in dirty:
                continue
            changed = before[0][opd] != after[0][opd]
            if (amt == 0) == changed:
                return (f"op #{n} downward of quantifier {qi} into object {opd}: reported amount is zero iff that table did not change (changed={changed})", f"amount {amt}", None)
    return None


def c13_quant_part(ctx):
    scs, meta = gen_quant.gen_k50(ctx.rng("c13q"), 400 if ctx.quick else 4000, downward=True, nested=0.2)
    run_q(ctx, "K7 quantifier calls: reported amounts (instance sets growing between calls)", scs, ["c13_quant"], hashseeds=(0,))
    ctx.cov["quantifier_distribution"] = qdist(meta)


def c05_quant_part(ctx):
    scs, meta = gen_quant.gen_k50(ctx.rng("c05q"), 300 if ctx.quick else 4000, downward=True, nested=0.3)
    s2, m2 = gen_quant.gen_k50_interleaved(ctx.rng("c05qi"), 60 if ctx.quick else 800)
    scs, meta = scs + s2, meta + m2
    run_q(ctx, "K7 quantifiers whose instance sets grow during inference (add_data between calls)", scs, ["c05_quant"], hashseeds=(0,))
    ctx.cov["quantifier_distribution"] = qdist(meta)
    ctx.corpus(["d14_resized_neuron.py"])


def run_q(ctx, comp, scs, monitors, hashseeds=(0,)):
    m, impl, lines = ctx.correspond(comp, scs, hashseeds=hashseeds, per_proc=40, nontrivial=lambda s, mo: "-900" not in mo[:8])
    for hs in hashseeds:
        for sc, line, o in zip(scs, lines, impl[hs]):
            lo, oo = sx.loads(line), sx.loads(o)
            for mn in monitors:
                r = MONITORS[mn](lo, oo)
                if r:
                    ctx.violation(mn, line, hs, r[0], r[1], r[2])
    return m, impl, lines


def qdist(meta):
    h = {}
    for me in meta:
        k = f"q{me['nq']}/{'partial' if me['partial'] else 'full'}{'/nested' if me['nested'] else ''}{'/fully_grounded' if me['full'] else ''}"
        h[k] = h.get(k, 0) + 1
    return h


RULE_K7 = ("K7: random first-order KBs with 1-2 Forall/Exists objects (each binds one variable; over a unary predicate, a connective body with 1-3 variables, or another quantifier), "
           "worlds OPEN/AXIOM, fully_grounded True 20% / not passed 60% / False passed 20%, explicit same-kind nests whose inner quantifier is fully grounded, polar fact tables 40%; facts on predicates; ops: upward of the bodies, quantifier upward, then random quantifier upward/downward, body upward/downward and add_data+re-evaluation; "
           "base tables and quantifier tables compared exactly after every call")


def check_C11(ctx):
    st, pr = standard_prologue(ctx)
    scs, meta = gen_quant.gen_k50(ctx.rng("c11"), 400 if ctx.quick else 5000, downward=False, nested=0.35)
    run_q(ctx, "K7 quantifier upward (fresh, repeated, after new instances, nested)", scs, ["c11_up"], hashseeds=(0, 4))
    ctx.cov["distribution"] = qdist(meta)
    ctx.corpus(["d13_quant_rows.py", "d3_fq_forget.py"])
    ctx.assumptions.append("bounds written into a quantifier's table from outside (parent downward, add_data) are not modelled: recorded known finding partial-quantifier-two-stores (property C05)")
    return ctx.finish("proof", pr, st, rule=RULE_K7 + "; C11 monitor: independent Python oracle groups the operand rows by the free-variable positions and recomputes the restricted aggregate for every group without a previous entry (and for every fully quantified formula)")


def gen_c12(ctx, n):
    """ground-consistent quantifier scenarios"""
    import checks_fol
    rng = ctx.rng("c12")
    scs, meta = [], []
    base_scs, base_meta = gen_quant.gen_k50(rng, n, downward=True, nested=0.0)
    for sc, me in zip(base_scs, base_meta):
        kb, roots, worlds, data, qobjs, ops = sc[1:7]
        nconst = 3
        # hidden interpretation over the predicates; data = bounds around it; worlds OPEN (quantifiers OPEN too)
        worlds = [gen_fol.OPEN for _ in kb]
        hidden = {}
        data = []
        # full-domain scenarios: every grounding of every predicate is a known instance from the start (possibly UNKNOWN), so a
        # quantifier's value under the hidden reading is its value over the known instances
        fulldom = rng.random() < 0.4
        for i, o in enumerate(kb):
            if o[0] == 0:
                d = []
                for g in all_gnds(o[3], nconst):
                    x = rng.choice([F(1), F(1), F(0), F(1, 2), F(3, 4)])
                    hidden[(i, g)] = x
                    if fulldom or rng.random() < 0.5:
                        b = [x, x] if rng.random() < 0.5 else [rng.choice([v for v in gen_fol.G8 if v <= x]), rng.choice([v for v in gen_fol.G8 if v >= x])]
                        d.append([list(g), b])
                if d:
                    data.append([i, d])

        def val(i, g):
            if (i, g) in hidden:
                return hidden[(i, g)]
            kd, ops_, maps = kb[i][0], kb[i][1], kb[i][2]
            xs = [val(j, tuple(g[s] for s in m)) for j, m in zip(ops_, maps)]
            r = 1 - xs[0] if kd == 1 else up_oracle(kd, kb[i][4], [(x, x) for x in xs])[0]
            hidden[(i, g)] = r
            return r
        for i, o in enumerate(kb):
            if o[0] != 0:
                for g in all_gnds(o[3], nconst):
                    val(i, g)
        for q in qobjs:
            q[4] = gen_fol.OPEN
            if q[3] == 1 and not fulldom:
                q[3] = 0     # fully_grounded declares the instance set complete: only kept where it IS complete from the start
        # quantifier data cannot be asserted (known finding); instead make some quantifiers axioms only when the hidden reading satisfies them
        nb = len(kb)
        for q in qobjs:
            if q[1] < nb and rng.random() < 0.6:
                opd, free = q[1], q[2]
                groups = {}
                for g in all_gnds(kb[opd][3], nconst):
                    groups.setdefault(tuple(g[p] for p in free), []).append(hidden[(opd, g)])
                # worlds the hidden reading satisfies: the quantifier's own value under it lies inside the world bounds
                ok = []
                if q[0] == 0:
                    if all(v == 1 for vs in groups.values() for v in vs):
                        ok.append(gen_fol.AXIOM)
                    if fulldom and all(sum(1 - v for v in vs) >= 1 for vs in groups.values()):
                        ok.append(gen_fol.CLOSED)
                else:
                    if fulldom and all(sum(vs) >= 1 for vs in groups.values()):
                        ok.append(gen_fol.AXIOM)
                    if all(v == 0 for vs in groups.values() for v in vs):
                        ok.append(gen_fol.CLOSED)
                if ok:
                    q[4] = rng.choice(ok)
        ops2 = [op for op in ops if op[0] != 8]
        ops2 += [[21, qi] for qi in range(len(qobjs)) if qobjs[qi][1] < nb]
        if rng.random() < 0.6:
            # reset_bounds() of single objects (facts stay), possibly a fact loosened around the hidden reading, then a
            # downward-only step: the quantifier must read the rows as they are NOW
            for _k in range(rng.choice([1, 2])):
                i = rng.choice([q[1] for q in qobjs if q[1] < nb] + [rng.randrange(nb)])
                ops2.append([15, i])
                known = [tuple(r[0]) for j, d in data if j == i for r in d]
                if kb[i][0] == 0 and known and rng.random() < 0.6:
                    # only groundings that are known instances already: a quantifier declared fully_grounded has been told
                    # that its instances are complete, a NEW instance afterwards breaks that declaration, not the library
                    g = rng.choice(known)
                    x = hidden[(i, g)]
                    b = [F(0), F(1)] if rng.random() < 0.5 else [rng.choice([v for v in gen_fol.G8 if v <= x]), rng.choice([v for v in gen_fol.G8 if v >= x])]
                    ops2.append([8, i, [[list(g), b]]])      # often a retraction to UNKNOWN
            ops2 += [[21, qi] for qi in range(len(qobjs)) if qobjs[qi][1] < nb]
            if rng.random() < 0.5:
                ops2 += [[20, qi] for qi in range(len(qobjs))] + [[21, qi] for qi in range(len(qobjs)) if qobjs[qi][1] < nb]
        hid = [[i, list(g), x] for (i, g), x in hidden.items()]
        scs.append([50, kb, roots, worlds, data, qobjs, ops2, hid])
        meta.append(me)
    # the textbook case, with random variations: all instances but one decided, the quantifier refuted (Forall) / proved
    # (Exists) by its world, so the open instance IS forced; then a deciding fact is retracted and only a downward step runs:
    # nothing may be forced any more
    for _ in range(max(1, n // 8)):
        kd = rng.choice([0, 1])
        ncs = rng.choice([3, 3, 4])
        decided = [F(1), F(1)] if kd == 0 else [F(0), F(0)]
        open_i = rng.randrange(ncs)
        kb = [[0, [], [], 1, list(gen_fol.DEFP), []]]
        hidden = {(0, (c,)): (decided[0] if c != open_i else 1 - decided[0]) for c in range(ncs)}
        data = [[0, [[[c], (list(decided) if c != open_i else rng.choice([[F(0), F(1)], ([F(0), F(7, 8)] if kd == 0 else [F(1, 8), F(1)])]))] for c in range(ncs)]]]
        qobjs = [[kd, 0, [], rng.choice([0, 2]), (gen_fol.CLOSED if kd == 0 else gen_fol.AXIOM), [0]]]
        victim = rng.choice([c for c in range(ncs) if c != open_i])
        ops2 = [[20, 0], [21, 0], [15, 0], [8, 0, [[[victim], [F(0), F(1)]]]], [21, 0]]
        if rng.random() < 0.5:
            ops2 += [[20, 0], [21, 0]]
        hid = [[i, list(g), x] for (i, g), x in hidden.items()]
        scs.append([50, kb, [], [gen_fol.OPEN], data, qobjs, ops2, hid])
        meta.append({"nq": 1, "partial": False, "nested": False, "full": False})
    # nested (variadic) quantifiers, the same textbook shape one level up: Forall(x, y, not N(x, y)) refuted by its world (Exists
    # dually proved) while TWO x-groups each hold one undetermined instance: nothing is forced; the hidden reading makes one
    # group the culprit and the other one innocent
    for _ in range(max(1, n // 6)):
        ko, ki = rng.choice([0, 1]), rng.choice([0, 1])       # outer / inner kind, all four combinations
        nx = rng.choice([2, 2, 3])
        kb = [[0, [], [], 2, list(gen_fol.DEFP), []], [1, [0], [[0, 1]], 2, list(gen_fol.DEFP), [[0, 1]]]]
        neutral = F(1) if ki == 0 else F(0)       # body value of the decided instance: neutral for the inner quantifier
        target = F(0) if ko == 0 else F(1)        # value the special group must take for the outer world to hold
        special = rng.randrange(nx)
        hidden, d = {}, []
        for c in range(nx):
            hidden[(1, (c, 0))] = neutral
            d.append([[c, 0], [1 - neutral, 1 - neutral]])
            hidden[(1, (c, 1))] = target if c == special else 1 - target
            d.append([[c, 1], [F(0), F(1)]])
        for (i, g), v in list(hidden.items()):
            hidden[(0, g)] = 1 - v
        qobjs = [[ki, 1, [0], rng.choice([0, 2]), gen_fol.OPEN, [0, 1]],
                 [ko, 2, [], rng.choice([0, 2]), (gen_fol.CLOSED if ko == 0 else gen_fol.AXIOM), [0]]]
        ops2 = [[1, 1], [20, 0], [20, 1], [21, 1], [21, 0], [2, 1, -1]]
        if rng.random() < 0.5:
            ops2 += [[1, 1], [20, 0], [20, 1], [21, 1], [21, 0], [2, 1, -1]]
        hid = [[i, list(g), x] for (i, g), x in hidden.items()]
        scs.append([50, kb, [], [gen_fol.OPEN, gen_fol.OPEN], [[0, d]], qobjs, ops2, hid])
        meta.append({"nq": 2, "partial": True, "nested": True, "full": False})
    return scs, meta


def check_C12(ctx):
    st, pr = standard_prologue(ctx)
    scs, meta = gen_c12(ctx, 400 if ctx.quick else 5000)
    s2, m2 = gen_quant.gen_k50_interleaved(ctx.rng("c12i"), 60 if ctx.quick else 800)
    s3, m3 = gen_quant.gen_k50_nested_full(ctx.rng("c12n"), 80 if ctx.quick else 1000)
    s4, m4 = gen_quant.gen_k50_resize_chain(ctx.rng("c12r"), 80 if ctx.quick else 1000)
    s2, m2 = s2 + s3 + s4, m2 + m3 + m4
    for sc in s2:
        sc.append([])        # no hidden reading: these scenarios serve the exact comparison with the model
    scs, meta = scs + s2, meta + m2
    run_q(ctx, "K7 quantifier downward on ground-consistent tables", scs, ["c12_hidden", "c12_lower", "c12_forced"], hashseeds=(0, 4))
    ctx.cov["distribution"] = qdist(meta)
    ctx.corpus(["d4_fq_downward.py", "d15_nested_downward.py", "d14_resized_neuron.py"])
    return ctx.finish("proof", pr, st, rule=RULE_K7 + "; C12: facts are bounds around a hidden ground interpretation of the predicates (quantifiers OPEN, or AXIOM when the hidden reading satisfies them); "
                      "monitors: every instance row still contains the hidden value after every call; a Forall's lower / an Exists' upper bound reaches every instance of its grounding; every instance row after a downward step equals the old row met with the n-ary inverse over the rows the operand shows at that moment (also after reset_bounds() of single objects without a new upward pass)")


CHECKS = {"C11": check_C11, "C12": check_C12}
