"""Generators of first-order knowledge bases, data and operation sequences (K5/K6)."""
from fractions import Fraction as F
import itertools

G8 = [F(i, 8) for i in range(9)]
OPEN, CLOSED, AXIOM = [F(0), F(1)], [F(0), F(0)], [F(1), F(1)]
DEFP = [F(1), F(1), [], 1]


def fparams(rng, arity, weighted=True):
    al = rng.choice([a for a in (F(1), F(1), F(1), F(7, 8)) if a >= F(arity, arity + 1)])
    if weighted and rng.random() < 0.4:
        ws = [rng.choice([F(1), F(1), F(1, 2), F(2)]) for _ in range(arity)]
        b = rng.choice([F(1), F(1), F(1, 2), F(3, 2)])
    else:
        ws = [F(1)] * arity
        b = F(1)
    return [al, b, ws, rng.choice([0, 1])]


def gen_fkb(rng, npreds=None, nforms=None, weighted=True, kinds=None, maxar=3, nvars=3, hetero=0.6):
    """returns (kb, worlds, vars_of) ; kb entries: [kind, ops, maps, nv, params, ovars]"""
    npreds = npreds or rng.choice([1, 2, 2, 3])
    nforms = nforms or rng.choice([1, 1, 2, 3])
    kinds = kinds or ["And", "Or", "Implies", "Not", "And", "Implies"]
    kb, worlds, vars_of = [], [], []
    for _ in range(npreds):
        ar = rng.choice([1, 1, 2, 2, 3][:2 + 2 * (maxar >= 2) + (maxar >= 3)])
        kb.append([0, [], [], ar, list(DEFP), []])
        worlds.append(rng.choice([OPEN, OPEN, OPEN, CLOSED, AXIOM]))
        vars_of.append(None)
    forms = []
    base_vars = list(range(nvars))
    for _ in range(nforms):
        kind = rng.choice(kinds)

        def pick():
            if forms and rng.random() < 0.3:
                j = rng.choice(forms)
                return j, list(vars_of[j])
            j = rng.randrange(npreds)
            ar = kb[j][3]
            if rng.random() < hetero:
                vs = rng.sample(base_vars, ar) if ar <= nvars else None
            else:
                vs = base_vars[:ar]
            return j, vs
        if kind == "Not":
            j, vs = pick()
            if vs is None:
                continue
            kb.append([1, [j], [list(range(len(vs)))], len(vs), list(DEFP), [vs]])
            worlds.append(OPEN)
            vars_of.append(vs)
        else:
            n = 2 if kind == "Implies" else rng.choice([2, 2, 3])
            picks = [pick() for _ in range(n)]
            if any(vs is None for _, vs in picks):
                continue
            uv = []
            for _, vs in picks:
                for v in vs:
                    if v not in uv:
                        uv.append(v)
            maps = [[uv.index(v) for v in vs] for _, vs in picks]
            kb.append([{"And": 2, "Or": 3, "Implies": 4}[kind], [j for j, _ in picks], maps, len(uv), fparams(rng, n, weighted), [vs for _, vs in picks]])
            worlds.append(rng.choice([OPEN, OPEN, OPEN, AXIOM, CLOSED]))
            vars_of.append(uv)
        forms.append(len(kb) - 1)
    return kb, worlds


def froots(rng, kb):
    used = set()
    for o in kb:
        used.update(o[1])
    roots = [i for i, o in enumerate(kb) if i not in used]
    rng.shuffle(roots)
    return roots


def freachable(kb, roots):
    seen, todo = set(), list(roots)
    while todo:
        i = todo.pop()
        if i in seen:
            continue
        seen.add(i)
        todo.extend(kb[i][1])
    return seen


def frestrict(kb, worlds, roots):
    keep = sorted(freachable(kb, roots))
    ren = {o: n for n, o in enumerate(keep)}
    kb2 = []
    for i in keep:
        kd, ops, maps, nv, p, ov = kb[i]
        kb2.append([kd, [ren[j] for j in ops], maps, nv, p, ov])
    return kb2, [worlds[i] for i in keep], [ren[r] for r in roots]


def rnd_gnd(rng, ar, nconst):
    return [rng.randrange(nconst) for _ in range(ar)]


def rnd_fact(rng, classical=0.5):
    if rng.random() < classical:
        return rng.choice([[F(1), F(1)], [F(0), F(0)], [F(1), F(1)], [F(0), F(1)]])
    l, u = sorted((rng.choice(G8), rng.choice(G8)))
    return [l, u]


def gen_fdata(rng, kb, nconst=3, on_formulae=0.25, maxfacts=3):
    data = []
    for i, o in enumerate(kb):
        if o[0] == 0 or rng.random() < on_formulae:
            d = {}
            for _ in range(rng.choice(range(maxfacts + 1))):
                g = rnd_gnd(rng, o[3], nconst)
                d[tuple(g)] = rnd_fact(rng)
            if d:
                data.append([i, [[list(g), b] for g, b in d.items()]])
    return data


def gen_fops(rng, kb, roots, n, nconst=3, model_level=0.4, data_ops=0.15):
    ops = []
    nonleaf = [i for i, o in enumerate(kb) if o[0] != 0]
    for _ in range(n):
        c = rng.random()
        if c < data_ops:
            k2 = rng.random()
            i = rng.randrange(len(kb))
            if k2 < 0.4:
                g = rnd_gnd(rng, kb[i][3], nconst)
                ops.append([8, i, [[g, rnd_fact(rng)]]])
            elif k2 < 0.7:
                ops.append([12, i, rnd_gnd(rng, kb[i][3], nconst + 1)])
            elif k2 < 0.8:
                ops.append([7])
            elif k2 < 0.9:
                ops.append([9])
            elif k2 < 0.95:
                ops.append([10])
            else:
                ops.append([11, i, rng.choice([OPEN, CLOSED, AXIOM])])
            continue
        if not nonleaf:
            continue
        c = rng.random()
        if c < (1 - model_level) / 2:
            ops.append([1, rng.choice(nonleaf)])
        elif c < (1 - model_level):
            i = rng.choice(nonleaf)
            idx = -1
            if kb[i][0] in (2, 3, 4) and rng.random() < 0.3:
                idx = rng.randrange(len(kb[i][1]))
            ops.append([2, i, idx])
        else:
            src = -1
            if rng.random() < 0.2:
                src = rng.choice(nonleaf)
            t = rng.choice([3, 4, 5, 5])
            ops.append([5, src, rng.choice([1, 2, 3, 12])] if t == 5 else [t, src])
    if data_ops >= 0.3 and rng.random() < 0.4:
        ops += [[7], [5, -1, 12], [7]]     # reset / infer / reset: inferred bounds must not turn into data
    return ops


def gen_k40(rng, n, **kw):
    out, meta = [], []
    nops = kw.pop("nops", (3, 5, 8))
    nconst = kw.pop("nconst", 3)
    data_ops = kw.pop("data_ops", 0.15)
    while len(out) < n:
        kb, worlds = gen_fkb(rng, **kw)
        roots = froots(rng, kb)
        kb, worlds, roots = frestrict(kb, worlds, roots)
        if not any(o[0] != 0 for o in kb):
            continue
        data = gen_fdata(rng, kb, nconst)
        ops = gen_fops(rng, kb, roots, rng.choice(nops), nconst, data_ops=data_ops)
        out.append([40, kb, roots, worlds, data, ops])
        hom = all(all(m == o[2][0] for m in o[2]) for o in kb if o[0] >= 2)
        meta.append({"nobj": len(kb), "kinds": sorted(set(o[0] for o in kb)), "hetero": not hom,
                     "maxar": max(o[3] for o in kb)})
    return out, meta
