#!/bin/sh
# seeded_verify.sh <seeded-dir> : confirm a seeded change in a scratch worktree (tests pass, demo fails with / passes without)
D=$(cd "$1" && pwd); N=$(basename "$D"); WT=/tmp/sv_$N
git -C /repo worktree remove --force $WT 2>/dev/null
git -C /repo worktree add -q $WT HEAD || exit 2
cd $WT
(cd /tmp && PYTHONPATH=$WT /venv/bin/python $D/demo.py >/tmp/sv_$N.orig.log 2>&1); ORIG=$?
git apply $D/patch.diff || { echo "patch does not apply"; exit 2; }
(cd /tmp && PYTHONPATH=$WT /venv/bin/python $D/demo.py >/tmp/sv_$N.mut.log 2>&1); MUT=$?
TESTS=$(/venv/bin/python -m pytest -q -p no:cacheprovider --timeout=900 -n 12 2>&1 | tail -1)
cd /; git -C /repo worktree remove --force $WT
echo "$N demo_orig_exit=$ORIG demo_mut_exit=$MUT tests: $TESTS"
