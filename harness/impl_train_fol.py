"""Implementation runner for first-order training traces (tag 61): Model.train with a scripted optimiser on a first-order
knowledge base.  There is no Coq model of first-order training; the observations feed property monitors only."""
from fractions import Fraction as F
import torch
import sx
from lnn import Model, Loss
import impl_fol
from impl_fol import build, data_dict, dump, fr
from impl_train import Scripted


def params_dump(objs, kbs):
    out = []
    for o, k in zip(objs, kbs):
        if k[0] >= 2:
            out.append([[fr(w) for w in o.neuron.weights.tolist()], fr(o.neuron.bias)])
        else:
            out.append([[], F(1)])
    return out


def k61(args):
    kbs, roots, worlds, data, labs, cfgs, script, epochs, flags = args[:9]
    objs = build(kbs, worlds)
    for i, o in enumerate(kbs):
        if o[0] >= 2:
            wm, bm, ng = cfgs[i]
            if wm:
                objs[i].neuron.w_max = float(sx.q(wm[0]))
            if bm:
                objs[i].neuron.b_max = float(sx.q(bm[0]))
    model = Model()
    model.add_knowledge(*[objs[r] for r in roots])
    for i, d in data:
        model.add_data({objs[i]: data_dict(d)})
    for i, d in labs:
        model.add_labels({objs[i]: data_dict(d)})
    leaves_before = [o.neuron.leaves.detach().clone() for o in objs]
    labels_before = [{k: v.clone() for k, v in o.labels.items()} if hasattr(o, "labels") else None for o in objs]
    losses = []
    if flags[0]:
        losses.append(Loss.SUPERVISED)
    if flags[1]:
        losses.append(Loss.CONTRADICTION)
    opt = Scripted(model.parameters(), script, objs)
    (running, loss_hist), _ = model.train(losses=losses, optimizer=opt, epochs=epochs, stop_at_convergence=bool(flags[2]))

    def same_leaves(a, o):
        b = o.neuron.leaves.detach()
        n = min(a.shape[0], b.shape[0])          # inference may append rows (world default); asserted rows come first
        return torch.equal(a[:n], b[:n]) if a.dim() and b.dim() else torch.equal(a, b)
    facts_same = all(same_leaves(a, o) for a, o in zip(leaves_before, objs))
    labels_same = all((lb is None) or (set(lb) == set(o.labels) and all(torch.equal(lb[k], o.labels[k]) for k in lb)) for lb, o in zip(labels_before, objs))
    finite = all(bool(torch.isfinite(p).all()) for p in model.parameters())
    return [[fr(l) for l in running], dump(objs), params_dump(objs, kbs), [int(facts_same), int(labels_same), int(finite), len(running)]]


HANDLERS = {61: k61}
