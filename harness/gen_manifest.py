#!/usr/bin/env python3
"""Writes MANIFEST.json from the table below (kept in one place so it stays valid)."""
import json, os
HERE = os.path.dirname(os.path.dirname(os.path.abspath(__file__)))
props = [json.loads(l) for l in open(os.path.join(HERE, "properties.jsonl"))]
NOTE_TB = ("Trusted: Coq 8.16.1 kernel (coqc; coqchk in the thorough tier), no axioms (Print Assumptions must say 'Closed under the global context'), "
           "the fail-closed table extractor, ExtrOcamlBasic-only extraction + driver.ml, the correspondence harness; "
           "modelled not verified: float32 rounding (exact on the dyadic generator domain), autograd (dual numbers), networkx/pandas fragments, set order, object identity.")
CLAIMS = {
    "C17": dict(text="Theorems over the generated region/contradiction/state tables: aggregation and activations stay in [0,1], is_contradiction <-> crossed outside the classical tolerance, state() total with the documented table (all alpha in (1/2,1], all bounds in [0,1]); tie: generated tables + exhaustive K2 grid correspondence + independent state oracle on the implementation.",
                design="7/C17", technique="Coq proof over generated tables + exact differential correspondence"),
    "C19": dict(text="Theorems over a dual-number model of val_clamp and the transparent activations: value = min(1,max(0,x)), tangent passes unchanged for every direction, hence every partial derivative of a saturated And/Or/Implies equals that of the unclamped linear form (all arities/parameters); formula level (C19_formula_upper/lower_gradient, C19_forall_gradient, C19_exists_gradient): the bounds a connective formula and a Forall/Exists over it store after upward() carry the derivative of the unclamped chain whenever the aggregation's max/min does not tie with the world bound; tie: val_clamp body matched verbatim by the extractor + exact comparison with torch.autograd.grad on the activation class and through the public API (library-default activations of formulae and quantifier neurons).",
                design="7/C19", technique="Coq proof (dual numbers) + exact autograd correspondence"),
}
CLAIMS.update({
    "C01": dict(text="Theorem C01_sound: for every knowledge base (objects = indices: shared objects and structurally equal twins included), weights >= 0, any bias, both variants, alpha in (1/2,1], every interpretation consistent with the truth functions and inside the initial bounds stays inside the bounds of every object after ANY sequence of node-level upward/downward(index) and model-level upward/downward/infer calls (induction over the operation list; one-step lemmas by induction over the operand list); corollary: no contradiction. Tie: exact differential correspondence of the propositional engine (K3/K4) + hidden-interpretation monitor on the implementation. Known finding float32-rounding-amplified (the theorem is about exact arithmetic; in float32 a rounding slip amplified by a weight above 1 can drive consistent data to a contradiction once bounds have left the representable grid): replayed on every run, printed as KNOWN-FINDING.",
                design="7/C01", technique="Coq proof (invariant by induction over operations) + exact differential correspondence"),
    "C05": dict(text="Theorem C05_monotone: under Range, every sequence of public inference calls only tightens every object's bounds (aggregation = max/min + clamp). Proved for the propositional engine incl. Iff/XOr; the first-order/quantifier part is covered by the FOL model when present (see level_note).",
                design="7/C05", technique="Coq proof (monotone invariant) + exact differential correspondence",
                note=NOTE_TB + " Partial: the theorem covers the propositional engine; first-order tables and quantifiers are only monitored on the implementation until the FOL model lands."),
    "C13": dict(text="Theorems C13_node_upward/_node_downward/_model_pass: the reported amount equals the total interval width removed (potential function), hence is zero iff no bound of any object changed; for connectives, Not, Iff, XOr (with the repaired accounting of sub-formulae) and model passes; first-order: C13_fol_zero_iff (every public first-order inference operation -- node calls of every kind, passes, infer --: amount >= 0 and zero EXACTLY when no formula reads differently at any grounding; for knowledge bases passing the executable shape check shape_okb and states whose row keys have their formula's arity, an invariant every operation keeps), C13_fol_zero_means_unchanged (the soundness half without any hypothesis), C13_fol_single_row_partial / C13_fol_merged_rows_partial (amount of a row write and of merged duplicate writes).",
                design="7/C13", technique="Coq proof (potential function) + exact differential correspondence",
                note=NOTE_TB + " Quantifier amounts are monitored on the implementation and tied by the correspondence."),
})

CLAIMS.update({
    "C06": dict(text="Theorems C06_terminates (infer() returns for every propositional KB, any source/query/max_steps: the reported amount of a pass equals the interval width it removes, total width <= 2|objects|, a non-converged step removes more than the 1e-7 threshold extracted from model.py) and C06_fixpoint_partial (a step that reports exactly zero changed nothing, no single upward/downward step of any traversed formula changes anything, and the step run again reports zero again). Partial (named so): needs the last step to report EXACTLY zero, which `<= 1e-7` implies on grid-closed (unit-weight, dyadic) KBs; propositional engine only.",
                design="7/C06", technique="Coq proof (potential-function termination + fixpoint lemma) + exact differential correspondence",
                note=NOTE_TB + " Partial: weighted KBs may converge only asymptotically (D9); first-order/quantified KBs are monitored on the implementation only where the FOL check says so."),
    "C07": dict(text="Theorems C07_confluent / C07_contradiction_order_free / C07_step_monotone: for every propositional KB, ANY two sequences of public calls under ANY two root orders that end in fixpoints, one of them contradiction-free, end in the same bounds; if some schedule ends in a contradiction-free fixpoint every state reachable by any schedule is contradiction-free and never tighter (monotone primitive steps on contradiction-free states; arresting only fires on contradictory states).",
                design="7/C07", technique="Coq proof (monotonicity + confluence over arbitrary schedules) + exact differential correspondence"),
    "C20": dict(text="Theorems C20_frame / C20_node_frame (source-restricted inference and node calls write only descendants of the source, for every KB, direction, max_steps, query), C20_verdict_final (a point verdict survives every further inference on data with a consistent reading), C20_restricted_sound and C20_restricted_below_full (the restricted run is never tighter than a contradiction-free fixpoint of the full run). The hidden-interpretation monitor this check carries reports the known finding float32-rounding-amplified recorded under C01 (KNOWN-FINDING line).",
                design="7/C20", technique="Coq proof (frame rule over DFS descendants + monotone tightening) + exact differential correspondence"),
})

CLAIMS.update({
    "C04": dict(text="Theorems C04_point (after Model.upward() every traversed object holds the point value of its weighted Lukasiewicz truth function: all weights >= 0, biases, alpha, both variants, every nesting depth, shared objects/twins/Iff/XOr sub-objects; induction over the topological order of the traversal), C04_interpretation_exists (the interpretation exists: recursive evaluation), C04_upward_exact (general interval form), C04_classical_* (n-ary And/Or, Implies, Not, Iff = equivalence, XOr = exactly-one on {0,1}), C04_kleene + C04_kleene_tables (inputs from {F,U,T} stay in {F,U,T} and follow min/max/involution, any nesting), C04_dual_* (Or vs negated And of negations, Implies vs Or with negated antecedent; upward and downward, activation level).",
                design="7/C04", technique="Coq proof (induction over traversal order; finite Boolean lemmas lifted to n-ary lists) + exact differential correspondence + exhaustive classical/three-valued assignments on the implementation",
                note=NOTE_TB + " Classical/Kleene theorems are for default parameters (unit weights, bias 1). Model-level agreement of dual formulations is monitored on the implementation (pairs of KBs), the theorem is at activation level."),
    "C08": dict(text="Theorems C08_registered_exactly_once (for ANY sequence of add_knowledge calls - repeated roots, inner formulae added again, set_query on a member - every sub-formula object of every root has exactly one key in Model.nodes, that key is its formula number and lies below num_formulae), C08_numbers_stable, C08_nothing_else_registered, C08_traversal_reaches_once (every model-wide traversal visits every sub-formula object exactly once), C08_same_object (the step executed at an object writes that object and its own operand objects). Objects are identities: twins and Iff/XOr private sub-formulae are distinct. Holds for the tree after fix commits 6592514 and c4a5170.",
                design="7/C08", technique="Coq proof (registry invariant by induction over add_knowledge calls; pre-order numbering model) + exact differential correspondence of formula numbers / Model.nodes + identity census on the implementation"),
})

CLAIMS.update({
    "C02": dict(text="Theorems C02_ground_sound / C02_consistent_never_contradicts over the first-order model (tables, homogeneous union/hash-join and heterogeneous extended outer joins, nests, Not, duplicate merging, every interleaving of node- and model-level calls): every reading (a grounding without a row reads as its world default) contains the value of EVERY ground interpretation that satisfies the truth functions of all ground instances and the initial readings; so no bound is tighter than the ground theory justifies, facts cannot leak between groundings, ground-consistent data is never driven to a contradiction. Partial: the proof-theoretic comparison with the ground propagation fixpoint is checked on the implementation (ground oracle), not proved.",
                design="7/C02", technique="Coq proof (soundness invariant by induction over operations, reuse of the neuron soundness lemmas) + exact differential correspondence + ground-instance oracle on the implementation",
                note=NOTE_TB + " Partial as stated in the claim. Not modelled: bindings, propositions inside FOL connectives, repeated variables in one call."),
    "C09": dict(text="Theorems C09_homogeneous_complete, C09_heterogeneous_complete / C09_join_contains_natural_join (the natural join of the operands' groundings is contained in what the connective evaluates: list model of the pandas outer/cross joins, any number of operands, any variable pattern), C09_evaluated_rows_exist, C09_upward_value (a fresh non-arrested row holds exactly the truth function of the operand rows at its projections), C09_downward_frame (only operand tables are written) and C09_downward_at_least_inverse (every dependent operand row ends at least as tight as the inverse for that grounding, duplicates merged by max/min).",
                design="7/C09", technique="Coq proof (join completeness over the list model of pandas merge; value/frame lemmas) + exact differential correspondence + independent natural-join/inverse oracle on the implementation"),
    "C10": dict(text="Theorems C10_*_partial: the three mechanisms through which set-iteration order could become visible are order-free in the model: rows are read by key (any permutation of a table's rows gives the same readings), groundings are added by key (any order/repetition gives the same readings and key set), duplicate proposals are merged by max/min (function of the SET of proposals per row); facts listed in another order read back the same. Partial (named so): the end-to-end congruence of every operation w.r.t. order-equivalent states is not proved; it is checked on the implementation under 8 (thorough: 32) PYTHONHASHSEEDs and permuted fact lists against the deterministic model.",
                design="7/C10", technique="Coq proof (order-freeness lemmas: permutation of rows, extension order, max/min merging) + exact differential correspondence under several PYTHONHASHSEEDs and permuted fact order",
                note=NOTE_TB + " Partial as stated in the claim. The implementation is run only under the listed hash seeds."),
    "C14": dict(text="Theorems C14_unknown_reads_default, C14_query_does_not_create, C14_extension_creates_default / C14_extension_invisible / C14_new_rows_from_default (a row introduced by a join, propagation or downward step holds the world default as data and reads at least as tight, after ANY inference sequence), C14_axiom_stays_true (lower bound 1 through every inference), C14_reset_world (the add_knowledge(world=...) branch on a non-empty table is covered).",
                design="7/C14", technique="Coq proof (table/extension lemmas + monotone-read invariant over all inference operations) + exact differential correspondence + world-default monitors"),
    "C15": dict(text="Theorems C15_roundtrip, C15_other_groundings_untouched, C15_other_formulae_untouched, C15_later_overwrites, C15_reset_returns_to_data (reset_bounds after ANY inference returns every grounding to its assertion or its world default), C15_accepted_in_range and C15_rejects over the validation model (out-of-range floats/pairs, wrong length, wrong type for the formula, formula not in the model). Holds for the tree after fix commits 5319eb9 and 4270eca.",
                design="7/C15", technique="Coq proof (finite-map lemmas on tables; stored-data invariant over all inference operations; validation model) + exact differential correspondence incl. value-encoding scenarios",
                note=NOTE_TB + " Quantifier add_data is covered by the quantifier check, not by these theorems."),
})

CLAIMS.update({
    "C16": dict(text="Theorems C16_prop_history_free (propositional: reset_bounds restores exactly the data state and the engine has no other state, so inference after a reset equals inference on a fresh model whatever ran before), C16_fol_reset_reads_fresh (first-order: after ANY inference history reset_bounds leaves every (formula, grounding) reading exactly what the fresh data state reads; queries are pure), and C16_history_free_full_refuted: the unrestricted first-order statement is FALSE of the faithful model on data that reaches a contradiction (per-grounding arresting depends on pre-grown rows) - recorded as a known finding, replayed on the implementation on every run. Premature convergence on row creation (D10) was repaired (fix f489d34).",
                design="7/C16", technique="Coq proof (reset lemmas over the stored-data invariant) + refutation witness by vm_compute + exact differential correspondence (run 1 / reset / run 2 / reset / run 3)",
                note=NOTE_TB + " Partial: for first-order KBs the theorem covers the state after reset (read-equivalence), not the congruence of a whole second run; a run-2 difference without any contradiction is reported as a violation, one with a contradiction is the recorded known finding."),
})

CLAIMS.update({
    "C11": dict(text="Theorems C11_every_group_evaluated / C11_every_instance_grouped (upward stores an aggregate for every grounding of the free variables that has an instance), C11_forall (upper = min(previous upper, Lukasiewicz conjunction of the instance uppers), lower never raised unless fully_grounded), C11_exists (dual), C11_one_false_refutes_forall; nested quantifiers compose because the outer one reads the inner one's table (same theorem, rows = inner table). Holds for the tree after fix commits 1c2eb91 and 98dafca.",
                design="7/C11", technique="Coq proof (group-wise fold over the operand table, unit-weight activation lemmas) + exact differential correspondence + independent aggregation oracle",
                note=NOTE_TB + " Modelled as coded: the free-variable path re-creates a grounding's private neuron from the world default when its instance count changes; bounds written into a quantifier's table from outside are not modelled (known finding partial-quantifier-two-stores)."),
    "C12": dict(text="Theorems C12_sound_instantiation (the proposals of a quantifier's downward step are those of the n-ary unit-weight And/Or inverse over the group of instances; for any instance values inside their bounds whose conjunction/disjunction lies inside the quantifier's bounds every proposal still contains its instance's value: a consistent table keeps its reading, a FALSE Forall does not falsify all instances, a TRUE Exists does not verify all), C12_forall_lower_reaches_instances (axiom Forall makes each instance TRUE), C12_fully_quantified_is_nary. Holds for the tree after fix commit 17358dd.",
                design="7/C12", technique="Coq proof (reuse of the n-ary downward soundness lemma with unit weights) + exact differential correspondence + hidden ground interpretation monitor",
                note=NOTE_TB + " Downward through a quantifier whose operand is itself a quantifier is modelled (the proposals go into the inner quantifier's private neurons: theorem C12_nested_push_sound) and compared exactly; a downward() on a grounding that never had an upward() raises KeyError in the implementation (observed, reproduced by the model as an error outcome)."),
})

CLAIMS.update({
    "C18": dict(text="Theorems over the training state machine with an ARBITRARY optimiser (Section variable: any function returning the same formulae with other weights/biases): C18_parameters_admissible (after >= 1 epoch weights >= 0 unless negative weights were requested, within w_max, biases in [0,b_max]; projection follows every optimiser step), C18_only_parameters_move, C18_final_state (bounds left behind = reset_bounds + infer under the final parameters), C18_contradiction_loss and C18_supervised_loss (>= 0; zero iff no bounds cross / labelled bounds equal their labels), C18_fol_contradiction_loss (first-order: the loss is the sum over rows, >= 0, zero iff has_contradiction() is false), C18_fol_supervised_loss (first-order: mean squared error over the labelled groundings present in the table, >= 0, zero iff each equals its label). Facts and labels are inputs the state machine cannot write. Partial: 'all parameters are finite' is outside an exact-rational model and is only monitored on the sampled traces.",
                design="7/C18", technique="Coq proof (state machine around an optimiser oracle; projection and loss lemmas) + exact trace replay with a scripted optimiser + fresh-model re-inference on the implementation",
                note=NOTE_TB + " Partial as stated (finiteness; float arithmetic of Adam not modelled; first-order models and alpha learning not in the training model)."),
})

CLAIMS.update({
    "C03": dict(text="Theorems (alpha = 1, And and Or of every arity, Implies; weights >= 0, any bias, all operand/operator bounds in [0,1]): C03_not_tighter (every assignment satisfying all given bounds survives upward+downward, connective and every operand), C03_connective_exact (both ends of the connective's new interval are attained by feasible assignments), C03_operands_attained (both ends of the new interval of EVERY operand are attained, zero-weight operands included), C03_infeasible_contradiction (no feasible assignment => crossed bounds at the connective). Witnesses are explicit (corners of the operand box and points on segments between corners); Or and Implies follow from And by duality (truth function, upward, downward, aggregation). First-order connectives over joined groundings are checked on the implementation with a two-sided per-row oracle; an independent exact interval-arithmetic hull oracle checks every propositional scenario.",
                design="7/C03", technique="Coq proof (soundness lemmas + explicit segment witnesses instead of an intermediate value theorem) + exact differential correspondence + independent interval-arithmetic hull oracle on the implementation",
                note=NOTE_TB),
})
NA_REASON = "check not built yet in this round (planned: see DESIGN.md section 7); not claimed"
checks, na = [], []
for p in props:
    pid = p["id"]
    if pid in CLAIMS:
        c = CLAIMS[pid]
        checks.append({
            "property_id": pid,
            "quick_cmd": f"bin/check {pid} --tier quick",
            "thorough_cmd": f"bin/check {pid} --tier thorough",
            "evidence_file": f"/verif/evidence/{pid}.json",
            "replay_cmd_template": f"bin/check {pid} --replay {{path}}",
            "engine": "coq-model",
            "level_claimed": {"category": "proof", "text": c["text"], "design_ref": c["design"]},
            "level_note": c.get("note", NOTE_TB),
            "technique": c["technique"],
        })
    else:
        na.append({"property_id": pid, "reason": CLAIMS.get(pid + "_na", NA_REASON)})
m = {
    "version": 1,
    "setup_cmd": "bin/setup",
    "hooks": {"guard": "LNN_VERIF", "enable": "no hooks: the harness imports lnn from /repo's working tree (PYTHONPATH=/repo) and only reads public attributes",
              "baseline_off_cmd": "cd /repo && /venv/bin/python -m pytest -q -p no:cacheprovider --timeout=900 -n 12",
              "source_commits": ["6592514", "3aabc63", "5319eb9", "c4a5170", "993404a", "4270eca", "f489d34", "17358dd", "1c2eb91", "98dafca", "2efe2b1", "8418802", "3740954", "7da5c2a"], "add_only": True},
    "engines": [{"name": "coq-model", "path": "/verif/coq", "serves_properties": sorted(CLAIMS),
                 "kind_free_text": "hand-written executable Gallina model of LNN over Q + theorems per property (Coq 8.16.1), tied to /repo by generated tables and exact differential correspondence (model extracted to OCaml)"}],
    "checks": checks,
    "not_applicable": na,
    "notes": "All checks rebuild from /repo's working tree: tables regenerated by harness/extract_tables.py, Coq development re-made, implementation run in fresh subprocesses with PYTHONPATH=/repo.",
}
json.dump(m, open(os.path.join(HERE, "MANIFEST.json"), "w"), indent=1)
print("claimed", len(checks), "not_applicable", len(na))
