"""Generators for the numeric components K1 (neuron), K2 (node), K8 (gradients)."""
from fractions import Fraction as F
import itertools

G8 = [F(i, 8) for i in range(9)]
G16 = [F(i, 16) for i in range(17)]
WEIGHTS = [F(0), F(1, 4), F(1, 2), F(1), F(1), F(1), F(2), F(4)]
BIASES = [F(0), F(1, 2), F(1), F(1), F(1), F(3, 2), F(2)]


def alphas_for(arity):
    return [a for a in (F(1), F(1), F(7, 8), F(3, 4)) if a >= F(arity, arity + 1)]


def rnd_bnd(rng, grid=G8, crossed=0.1, classical=0.25):
    c = rng.random()
    if c < classical:
        return rng.choice([(F(0), F(0)), (F(1), F(1)), (F(0), F(1))])
    l, u = sorted((rng.choice(grid), rng.choice(grid)))
    if rng.random() < crossed:
        l, u = u, l
    return (l, u)


def gen_k1(rng, n):
    out, meta = [], []
    for _ in range(n):
        c = rng.choice([0, 0, 1, 1, 2])
        ar = 2 if c == 2 else rng.choice([2, 2, 3, 3, 4, 5])
        al = rng.choice(alphas_for(ar))
        ws = [rng.choice(WEIGHTS) for _ in range(ar)]
        b = rng.choice(BIASES)
        v = rng.choice([0, 1])
        y = rnd_bnd(rng)
        xs = [rnd_bnd(rng) for _ in range(ar)]
        out.append([1, c, [al, b, ws, v], list(y), [list(x) for x in xs]])
        meta.append({"conn": c, "arity": ar, "alpha": str(al), "zero_w": any(w == 0 for w in ws),
                     "gate_lo_open": y[0] > 1 - al, "gate_hi_open": y[1] < al, "crossed": y[0] > y[1]})
    return out, meta


def gen_k1_grid_arity2():
    """exhaustive: unit weights, bias 1, alpha 1, arity 2, all bounds on the 1/4 grid"""
    g = [F(i, 4) for i in range(5)]
    out = []
    for c in (0, 1, 2):
        for y in itertools.product(g, g):
            for x0 in itertools.product(g, g):
                for x1 in itertools.product(g, g):
                    out.append([1, c, [F(1), F(1), [F(1), F(1)], 1], list(y), [list(x0), list(x1)]])
    return out


K2_ALPHAS = [F(1), F(15, 16), F(7, 8), F(3, 4), F(5, 8), F(9, 16)]


def gen_k2(rng, full=False):
    out = []
    for al in K2_ALPHAS:
        for l in G16:
            for u in G16:
                reps = 3 if full else 1
                for _ in range(reps):
                    new = (rng.choice(G16), rng.choice(G16))
                    if rng.random() < 0.15:
                        new = (new[0] + rng.choice([-1, 1]) * F(1, 2), new[1])  # out-of-range proposals are clamped
                    out.append([2, al, rng.choice([0, 0, 1, 2]), [l, u], list(new)])
    return out


def gen_k8(rng, n):
    out, meta = [], []
    G4 = [F(i, 4) for i in range(-32, 33)]
    for _ in range(n):
        c = rng.choice([0, 1, 2])
        ar = 2 if c == 2 else rng.choice([1, 2, 3, 4])
        mode = rng.choice(["unsat", "hi", "lo", "any"])
        ws = [rng.choice([F(0), F(1, 2), F(1), F(1), F(2), F(-1), F(3, 4)]) for _ in range(ar)]
        xs = [rng.choice(G8) if rng.random() < 0.7 else rng.choice(G4) for _ in range(ar)]
        if mode == "any":
            b = rng.choice(G4)
        else:
            # choose the bias so that the pre-activation lands where we want it
            if c == 0:
                rest = -sum(w * (1 - x) for w, x in zip(ws, xs))
                sign = 1
            elif c == 1:
                rest = 1 - sum(min(w, F(0)) for w in ws) + sum(w * x for w, x in zip(ws, xs))
                sign = -1
            else:
                rest = 1 + ws[0] * (1 - xs[0]) + ws[1] * xs[1]
                sign = -1
            target = {"unsat": rng.choice([F(1, 8), F(1, 2), F(7, 8)]), "hi": rng.choice([F(1), F(5, 4), F(3)]),
                      "lo": rng.choice([F(0), F(-1, 4), F(-2)])}[mode]
            b = (target - rest) * sign
        seeds = [rng.choice([0, 0, 1, -1, 2]) for _ in range(1 + 2 * ar)]
        if rng.random() < 0.5:  # unit seed: a single partial derivative
            k = rng.randrange(len(seeds))
            seeds = [1 if i == k else 0 for i in range(len(seeds))]
        sc = [8, c, [b, F(seeds[0])], [[w, F(s)] for w, s in zip(ws, seeds[1:1 + ar])],
              [[x, F(s)] for x, s in zip(xs, seeds[1 + ar:])]]
        out.append(sc)
        meta.append({"conn": c, "arity": ar, "mode": mode})
    return out, meta


def gen_k9(rng, n):
    """formula-level gradients (tag 9): a connective formula, or a Forall / Exists over it, with dyadic bias/weights;
    facts chosen so that bodies and quantifiers are unsaturated, saturated or strictly saturated"""
    out, meta = [], []
    while len(out) < n:
        mode = rng.choice([0, 1, 1, 2, 2])
        c = rng.choice([0, 1, 2])
        ar = 2 if c == 2 else rng.choice([2, 2, 3])
        ws = [rng.choice([F(1), F(1), F(1, 2), F(2), F(3, 4), F(3, 2)]) for _ in range(ar)]
        b = rng.choice([F(1), F(1), F(1, 2), F(3, 2), F(2), F(3, 4)])
        nrows = 1 if mode == 0 else rng.choice([1, 2, 3, 4])
        polar = rng.choice([None, 1, 0])

        def fact():
            if polar is None:
                l, u = sorted((rng.choice(G8), rng.choice(G8)))
                return [l, u]
            v = rng.choice([[F(1), F(1)], [F(7, 8), F(1)], [F(3, 4), F(7, 8)], [F(1, 2), F(3, 4)]])
            return v if polar else [1 - v[1], 1 - v[0]]
        rows = [[fact() for _ in range(ar)] for _ in range(nrows)]
        lower = rng.choice([0, 1]) if mode == 0 else (1 - (mode == 1) if rng.random() < 0.9 else (mode == 1) * 1)
        seeds = [rng.choice([0, 1, -1, 2]) for _ in range(1 + ar)]
        if rng.random() < 0.5:
            k = rng.randrange(len(seeds))
            seeds = [1 if i == k else 0 for i in range(len(seeds))]
        out.append([9, mode, c, [b, F(seeds[0])], [[w, F(s)] for w, s in zip(ws, seeds[1:])], rows, int(lower)])
        meta.append({"mode": mode, "conn": c, "rows": nrows})
    return out, meta


def gen_k10(rng, n):
    """val_clamp on tensors whose entries lie on both sides of [0,1] at once (tag 10)"""
    out = []
    G4 = [F(i, 4) for i in range(-32, 33)]
    for _ in range(n):
        k = rng.choice([1, 2, 2, 3, 4, 6])
        xs = []
        for _j in range(k):
            c = rng.random()
            x = rng.choice(G8) if c < 0.3 else rng.choice([F(5, 4), F(2), F(9, 8), F(8)]) if c < 0.55 else rng.choice([F(-1, 4), F(-2), F(-1, 8), F(-8)]) if c < 0.8 else rng.choice(G4)
            xs.append([x, F(rng.choice([0, 1, 1, -1, 2]))])
        out.append([10, xs])
    return out
