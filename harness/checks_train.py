"""C18: training preserves facts, keeps parameters admissible, ends in an inferred state (trace replay)."""
from fractions import Fraction as F
import sx, lib, gen_prop
from framework import Ctx, standard_prologue

MONITORS = {}
G8 = gen_prop.G8


def monitor(name):
    def deco(f):
        MONITORS[name] = f
        return f
    return deco


def crossed(al, l, u):
    return l > u and not (l <= 1 - al and u <= 1 - al) and not (l >= al and u >= al)


def gen_train(rng, n):
    scs = []
    while len(scs) < n:
        kb = gen_prop.gen_kb(rng, weighted=rng.random() < 0.5, nforms=rng.choice([1, 2, 3]), kinds=["And", "Or", "Implies", "Not", "And"], twins=0.0)
        roots = gen_prop.roots_of(rng, kb, extra=0.0)
        kb, roots = gen_prop.restrict(kb, roots)
        neurons = [i for i, o in enumerate(kb) if o[0] >= 2]
        if not neurons:
            continue
        for o in kb:
            o[2][0] = F(1)   # alpha 1: arity-admissible for every weight vector the script may set
        data = []
        for i, o in enumerate(kb):
            if o[0] == 0 and rng.random() < 0.8:
                data.append([i, rng.choice([[F(1), F(1)], [F(0), F(0)], [F(1, 4), F(3, 4)], [F(1, 2), F(1)]])])
        labs = []
        for i in neurons:
            if rng.random() < 0.7 or i == neurons[-1]:
                labs.append([i, rng.choice([[F(1), F(1)], [F(0), F(0)], [F(1, 2), F(1)]])])
        cfgs = []
        for i, o in enumerate(kb):
            wm = [rng.choice([F(1), F(2), F(3, 2)])] if (o[0] >= 2 and rng.random() < 0.4) else []
            bm = [rng.choice([F(1), F(2)])] if (o[0] >= 2 and rng.random() < 0.3) else []
            cfgs.append([wm, bm, 0])
        epochs = rng.choice([1, 2, 3, 4])
        script = []
        for _e in range(epochs):
            step = []
            for i in neurons:
                if rng.random() < 0.8:
                    ar = len(kb[i][1])
                    ws = [rng.choice([F(1), F(1, 2), F(2), F(-1, 2), F(3), F(0), F(-2), F(5, 4)]) for _ in range(ar)]
                    b = rng.choice([F(1), F(1, 2), F(3, 2), F(-1), F(3), F(0)])
                    step.append([i, ws, b])
            script.append(step)
        flags = [1, rng.choice([0, 1]), rng.choice([0, 1, 1])]
        scs.append([60, kb, roots, data, labs, cfgs, script, epochs, flags])
    return scs


@monitor("c18_trace")
def mon_c18(sc, obs):
    if obs and obs[0] == -900:
        return ("Model.train completes", f"raised error class {obs[1]}", None)
    kb, roots, data, labs, cfgs, script, epochs, flags = sc[1:9]
    per_epoch, final, params, (facts_same, finite, nrun, nhist) = obs
    if not facts_same:
        return ("Model.train never changes asserted facts or labels", "leaves/labels differ after train()", None)
    if not finite:
        return ("all parameters finite after train()", "non-finite parameter", None)
    if nrun >= 1:
        for i, (o, p) in enumerate(zip(kb, params)):
            if o[0] < 2:
                continue
            ws, b = [sx.q(w) for w in p[0]], sx.q(p[1])
            wm, bm, ng = cfgs[i]
            if not ng and any(w < 0 for w in ws):
                return (f"after train(): weights of object {i} are non-negative (negative weights not requested)", f"{ws}", None)
            if wm and any(w > sx.q(wm[0]) for w in ws):
                return (f"after train(): weights of object {i} are within w_max {sx.q(wm[0])}", f"{ws}", None)
            if b < 0 or (bm and b > sx.q(bm[0])):
                return (f"after train(): bias of object {i} is in [0, b_max]", f"{b}", None)
    for e, (loss, _) in enumerate(per_epoch):
        if sx.q(loss) < 0:
            return (f"epoch {e}: reported loss is non-negative", f"{sx.q(loss)}", None)
    return None


def final_state_scenario(sc, params):
    """reset_bounds(); infer() under the final parameters, as a fresh propositional scenario (tag 3)"""
    kb2 = []
    for o, p in zip(sc[1], params):
        if o[0] >= 2:
            kb2.append([o[0], o[1], [o[2][0], sx.q(p[1]), [sx.q(w) for w in p[0]], o[2][3]], o[3]])
        else:
            kb2.append(o)
    return [3, kb2, sc[2], sc[3], [[5, -1, 200]]]


def check_C18(ctx):
    st, pr = standard_prologue(ctx)
    rng = ctx.rng("c18")
    scs = gen_train(rng, 250 if ctx.quick else 3000)
    m, impl, lines = ctx.correspond("K9 training traces with a scripted optimiser (per-epoch loss, parameters after projection, final bounds)", scs, per_proc=25,
                                    nontrivial=lambda s, mo: True,
                                    model_lines=None)
    fin = []
    for sc, line, o in zip(scs, lines, impl[0]):
        oo = sx.loads(o)
        r = MONITORS["c18_trace"](sx.loads(line), oo)
        if r:
            ctx.violation("c18_trace", line, 0, r[0], r[1], r[2])
        if not (oo and oo[0] == -900):
            fin.append((line, sc, oo))
    # final state == reset_bounds + infer under the final parameters: re-run on the implementation as a fresh model
    flines = [sx.dumps(final_state_scenario(sc, oo[2])) for _, sc, oo in fin]
    fout = lib.run_impl(flines, per_proc=60)
    ctx.cov["evaluations"] += len(flines)
    for (line, sc, oo), fl, fo in zip(fin, flines, fout):
        fo = sx.loads(fo)
        if fo and fo[0] == -900 or (fo and fo[0] and fo[0][0] == -900):
            continue
        want = fo[0][2]
        if want != oo[1]:
            d = [(i, a, b) for i, (a, b) in enumerate(zip(oo[1], want)) if a != b][0]
            ctx.violation("c18_final", line, 0, f"bounds left by train() equal reset_bounds()+infer() under the final parameters: object {d[0]} = {sx.bnd(d[2])} (fresh-model scenario: {fl})",
                          f"{sx.bnd(d[1])}", None)
    import checks_fol
    checks_fol.c18_fol_part(ctx)
    import checks_train_fol
    checks_train_fol.c18_fol_training_part(ctx)
    hist = {}
    for sc in scs:
        k = f"epochs{sc[7]}/neurons{sum(1 for o in sc[1] if o[0] >= 2)}/wmax{int(any(c[0] for c in sc[5]))}"
        hist[k] = hist.get(k, 0) + 1
    ctx.cov["distribution"] = hist
    ctx.assumptions.append("'all parameters are finite' is monitored on the sampled traces only: the exact-rational model has no NaN/inf and real optimisers' float arithmetic is not modelled")
    ctx.assumptions.append("the optimiser is an arbitrary oracle in the theorems; on the implementation a scripted optimiser (sets dyadic weights/biases incl. negative and oversized ones) makes every epoch exactly comparable")
    return ctx.finish("proof", pr, st, rule="K9: random propositional KBs over And/Or/Implies/Not, facts on atoms, labels on neurons, w_max/b_max on 30-40% of the neurons, 1-4 epochs of Model.train with SUPERVISED (+CONTRADICTION) losses and a scripted "
                      "optimiser that sets weights from {-2,-1/2,0,1/2,1,5/4,2,3} and biases from {-1,0,1/2,1,3/2,3}; per epoch the loss and the parameters after projection, then the final bounds and parameters are compared exactly with the model; "
                      "monitors: facts/labels untouched, parameters admissible and finite, losses >= 0, final bounds == fresh reset+infer under the final parameters (second run on the implementation); first-order part: K6 scenarios with Model.loss_fn([CONTRADICTION]) after every model-level call, compared exactly with the model's per-row sum and with an independent oracle (>= 0, zero iff no row crosses, = sum of L-U over crossing rows); per-formula supervised loss against labels listed in random order on unit-weight KBs (loss x 2n recovered exactly on the 1/8 grid) compared with the model and with an independent oracle; first-order TRAINING traces (implementation only, scripted optimiser, 1-3 epochs, labels on 1-4 groundings of every neuron): facts and labels untouched, parameters admissible and finite, losses >= 0, final bounds = fresh reset+infer under the final parameters")


@monitor("c18_final")
def mon_final(sc, obs):
    return None


CHECKS = {"C18": check_C18}
