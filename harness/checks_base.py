"""Checks for the numeric properties: C17 (range/contradiction/state), C19 (clamp), C03 (hull)."""
from fractions import Fraction as F
import itertools
import sx, lib, gen_base
from framework import Ctx, standard_prologue

MONITORS = {}


def monitor(name):
    def deco(f):
        MONITORS[name] = f
        return f
    return deco


def clamp(x):
    return max(F(0), min(F(1), x))


STATE = {"U": 0, "T": 1, "F": 2, "C": 3, "~F": 4, "~U": 5, "=U": 6, "~T": 7}


def crossed(al, l, u):
    return l > u and not (l <= 1 - al and u <= 1 - al) and not (l >= al and u >= al)


def expected_state(al, l, u):
    """the documented table, written independently of the code: classical F/T first, then
    contradiction, then the fuzzy states by position relative to 1-al, 1/2, al"""
    def reg(y):
        if y <= 1 - al:
            return 1
        if y < F(1, 2):
            return 2
        if y == F(1, 2):
            return 3
        if y < al:
            return 4
        return 5
    rl, ru = reg(l), reg(u)
    if rl == 1 and ru == 1:
        return STATE["F"]
    if rl == 5 and ru == 5:
        return STATE["T"]
    if l > u:
        return STATE["C"]
    if (rl, ru) == (1, 5):
        return STATE["U"]
    if (rl, ru) == (3, 3):
        return STATE["=U"]
    if ru == 2:
        return STATE["~F"]
    if rl == 4:
        return STATE["~T"]
    return STATE["~U"]


@monitor("c17_node")
def mon_c17_node(sc, obs):
    if obs[0] == -900:
        return ("no exception on in-range bounds", f"raised error class {obs[1]}", None)
    _, al, w, old, new = sc
    al = sx.q(al)
    l, u = sx.bnd(old)
    agg = sx.bnd(obs[0])
    rlo, rhi, c_old, s_old, c_new, s_new = obs[2:8]
    if not (0 <= agg[0] <= 1 and 0 <= agg[1] <= 1):
        return ("aggregated bounds in [0,1]", f"{agg}", None)
    if not (1 <= rlo <= 5 and 1 <= rhi <= 5):
        return ("every in-range bound falls in one of the five regions", f"regions {rlo},{rhi}", None)
    for (bl, bu), c, s, tag in (((l, u), c_old, s_old, "stored"), (agg, c_new, s_new, "aggregated")):
        if bool(c) != crossed(al, bl, bu):
            return (f"is_contradiction == crossed-outside-tolerance = {crossed(al, bl, bu)} for {tag} bounds ({bl},{bu}) alpha={al}", f"{bool(c)}", None)
        if s == -1:
            return (f"state() total on {tag} bounds ({bl},{bu}) alpha={al}", "raised / no state", None)
        e = expected_state(al, bl, bu)
        if s != e:
            return (f"state code {e} for {tag} bounds ({bl},{bu}) alpha={al}", f"{s}", None)
    return None


def check_C17(ctx):
    st, pr = standard_prologue(ctx)
    rng = ctx.rng("k2")
    scs = gen_base.gen_k2(rng, full=not ctx.quick)
    m, impl, lines = ctx.correspond("K2 node: aggregate/regions/contradiction/state", scs)
    for sc, line, o in zip(scs, lines, impl[0]):
        r = MONITORS["c17_node"](sx.loads(line), sx.loads(o))
        if r:
            ctx.violation("c17_node", line, 0, r[0], r[1], r[2])
    ctx.corpus(["d6_float_range.py"])
    ctx.cov["exhaustive"] = True
    ctx.cov["grid"] = "old bounds: full (L,U) grid of step 1/16 (17x17) x alpha in {1,15/16,7/8,3/4,5/8,9/16}; new bounds random incl. out-of-range proposals"
    # engine-level range / has_contradiction monitors are added by checks_prop when present
    try:
        import checks_prop
        checks_prop.c17_engine_part(ctx)
    except ImportError:
        pass
    try:
        import checks_fol
        checks_fol.c17_fol_part(ctx)
    except ImportError:
        pass
    return ctx.finish("proof", pr, st, rule="K2: exhaustive grid of stored bounds x alpha; non-trivial = every scenario (distinct by construction); "
                      "monitor compares the implementation with an independently written table of the documented states")


# ------------------------------------------------------------------ C19
def pre_and_tangent(c, b, ws, xs):
    """exact value and directional derivative of the unclamped pre-activation (python oracle)"""
    bv, bt = b
    if c == 0:
        v = bv - sum(w * (1 - x) for (w, _), (x, _) in zip(ws, xs))
        t = bt - sum(tw * (1 - x) - w * tx for (w, tw), (x, tx) in zip(ws, xs))
    elif c == 1:
        v = 1 - bv - sum(min(w, F(0)) for w, _ in ws) + sum(w * x for (w, _), (x, _) in zip(ws, xs))
        t = -bt - sum((tw if w < 0 else tw / 2 if w == 0 else 0) for w, tw in ws) + sum(tw * x + w * tx for (w, tw), (x, tx) in zip(ws, xs))
    else:
        (w0, tw0), (w1, tw1) = ws
        (x0, tx0), (x1, tx1) = xs
        v = 1 - bv + w0 * (1 - x0) + w1 * x1
        t = -bt + tw0 * (1 - x0) - w0 * tx0 + tw1 * x1 + w1 * tx1
    return v, t


@monitor("c19_grad")
def mon_c19(sc, obs):
    if obs[0] == -900:
        return ("no exception", f"raised error class {obs[1]}", None)
    _, c, b, ws, xs = sc
    b = (sx.q(b[0]), sx.q(b[1]))
    ws = [(sx.q(w[0]), sx.q(w[1])) for w in ws]
    xs = [(sx.q(x[0]), sx.q(x[1])) for x in xs]
    v, t = pre_and_tangent(c, b, ws, xs)
    ov, ot, cv, ct = [sx.q(o) for o in obs]
    if ov != clamp(v):
        return (f"output value = clamp(pre-activation {v}) = {clamp(v)}", f"{ov}", None)
    if ot != t:
        sat = "saturated-high" if v > 1 else "saturated-low" if v < 0 else "unsaturated"
        return (f"directional derivative of the ({sat}) output = that of the unclamped linear form = {t}", f"{ot}", None)
    if cv != clamp(b[0]):
        return (f"val_clamp({b[0]}) = {clamp(b[0])}", f"{cv}", None)
    if ct != b[1]:
        return (f"d val_clamp/dx = 1 at x={b[0]} (tangent {b[1]})", f"{ct}", None)
    return None


@monitor("c19_formula")
def mon_c19_formula(sc, obs):
    """formula level: the bound a connective formula / Forall / Exists stores after upward() is the clamp of the chain of
    linear forms, and -- wherever no max/min of the aggregation ties with the previous bound -- carries exactly the
    derivative of the UNCLAMPED chain (saturated or not)"""
    if obs[0] == -900:
        return ("no exception", f"raised error class {obs[1]}", None)
    _, mode, c, b, ws, rows, lower = sc
    b = (sx.q(b[0]), sx.q(b[1]))
    ws = [(sx.q(w[0]), sx.q(w[1])) for w in ws]
    ov, ot = sx.q(obs[0]), sx.q(obs[1])

    def body(row, low):
        r = [sx.bnd(x) for x in row]
        if c == 2:
            xs = [r[0][1], r[1][0]] if low else [r[0][0], r[1][1]]
        else:
            xs = [x[0] if low else x[1] for x in r]
        v, t = pre_and_tangent(c, b, ws, [(x, F(0)) for x in xs])
        cv = clamp(v)
        return cv, t, cv == (0 if low else 1), v
    if mode == 0:
        cv, t, tie, v = body(rows[0], bool(lower))
        what = f"{'lower' if lower else 'upper'} bound of the formula (pre-activation {v})"
        ev, et = cv, t
    else:
        is_forall = mode == 1
        if bool(lower) == is_forall:       # the bound an open-world quantifier does not compute
            ev, et, tie, what = F(0 if lower else 1), F(0), False, "the bound an open-world quantifier leaves alone"
        else:
            inst = [body(r, not is_forall) for r in rows]
            tie = any(i[2] for i in inst)
            qpre = (1 - sum(1 - i[0] for i in inst)) if is_forall else sum(i[0] for i in inst)
            ev, et = clamp(qpre), sum((i[1] for i in inst), F(0))
            tie = tie or ev == (1 if is_forall else 0)
            what = f"{'upper bound of the Forall' if is_forall else 'lower bound of the Exists'} over instance bounds {[i[0] for i in inst]} (quantifier pre-activation {qpre})"
    if ov != ev:
        return (f"{what} = {ev}", f"{ov}", None)
    if not tie and ot != et:
        return (f"directional derivative of {what} = that of the unclamped chain of linear forms = {et}", f"{ot}", None)
    return None


def check_C19(ctx):
    st, pr = standard_prologue(ctx)
    rng = ctx.rng("k8")
    scs, meta = gen_base.gen_k8(rng, 1500 if ctx.quick else 12000)
    m, impl, lines = ctx.correspond("K8 clamp & gradients vs torch.autograd", scs,
                                    nontrivial=lambda s, mo: True)
    hist = {}
    for sc, line, o, me in zip(scs, lines, impl[0], meta):
        r = MONITORS["c19_grad"](sx.loads(line), sx.loads(o))
        if r:
            ctx.violation("c19_grad", line, 0, r[0], r[1], r[2])
        k = f"conn{me['conn']}/{me['mode']}"
        hist[k] = hist.get(k, 0) + 1
    scs10 = gen_base.gen_k10(ctx.rng("k10"), 400 if ctx.quick else 4000)
    m10, impl10, lines10 = ctx.correspond("K8c val_clamp on whole tensors (entries above 1 and below 0 at once) vs torch.autograd", scs10, nontrivial=lambda s, mo: True)
    for sc, line, o in zip(scs10, lines10, impl10[0]):
        oo = sx.loads(o)
        if oo and oo[0] == -900:
            ctx.violation("c19_tensor", line, 0, "no exception", f"raised error class {oo[1]}", None)
            continue
        for j, (x, r) in enumerate(zip(sc[1], oo)):
            xv, xt = sx.q(x[0]), sx.q(x[1])
            if sx.q(r[0]) != clamp(xv) or sx.q(r[1]) != xt:
                ctx.violation("c19_tensor", line, 0, f"val_clamp of the tensor {[str(sx.q(y[0])) for y in sc[1]]}: entry {j} = min(1, max(0, {xv})) = {clamp(xv)} with derivative 1 (tangent {xt})", f"value {sx.q(r[0])} tangent {sx.q(r[1])}", None)
                break
    hist["tensor-level/val_clamp"] = len(scs10)
    scs9, meta9 = gen_base.gen_k9(ctx.rng("k9"), 400 if ctx.quick else 4000)
    m9, impl9, lines9 = ctx.correspond("K8b formula-level stored bounds & gradients (connective formulae, Forall / Exists over them) vs torch.autograd", scs9,
                                       per_proc=100, nontrivial=lambda s, mo: True)
    sat = 0
    for sc, line, o, me in zip(scs9, lines9, impl9[0], meta9):
        r = MONITORS["c19_formula"](sx.loads(line), sx.loads(o))
        if r:
            ctx.violation("c19_formula", line, 0, r[0], r[1], r[2])
        k = f"formula-level/mode{me['mode']}/conn{me['conn']}/rows{me['rows']}"
        hist[k] = hist.get(k, 0) + 1
    ctx.cov["distribution"] = hist
    ctx.assumptions.append("torch.max/torch.min split the gradient evenly at a tie (dmax2/dmin2) - tied by exact comparison on every formula-level scenario; the property monitor is silent about the gradient at such ties")
    ctx.assumptions.append("torch detach() has zero tangent (dual-number reading of autograd) - tied by exact comparison with torch.autograd.grad on every scenario")
    return ctx.finish("proof", pr, st, rule="K8: random dyadic values in [-8,8] for bias/weights/inputs (weights incl. 0 and negative), bias chosen so the "
                      "pre-activation is unsaturated / saturated high / saturated low / arbitrary; direction = unit seed (one partial derivative) or random small integer vector; "
                      "distinct = distinct scenario text; K8c: val_clamp on tensors of 1-6 dyadic entries mixing values inside [0,1], above 1 and below 0; K8b: And/Or/Implies formulae built through the public API with the library's default activation (dyadic bias/weights), "
                      "alone or under a fully quantified Forall / Exists over 1-4 groundings with mixed / near-TRUE / near-FALSE facts; after Model.upward() the stored bound and its directional derivative "
                      "w.r.t. (bias, weights) are compared exactly with the dual-number model and with an independent oracle (unclamped chain of linear forms)")


CHECKS = {"C17": check_C17, "C19": check_C19}
