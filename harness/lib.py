"""Shared machinery: running the extracted model and the implementation side by side."""
import os, sys, subprocess, time, json, random, hashlib
from fractions import Fraction as F
import sx

VERIF = os.path.dirname(os.path.dirname(os.path.abspath(__file__)))
REPO = os.environ.get("LNN_REPO", "/repo")
DRIVER = os.path.join(VERIF, "ocaml", "driver")
PY = "/venv/bin/python"
NPROC = int(os.environ.get("VERIF_NPROC", "14"))


def run_model(lines):
    """lines: list of scenario strings -> list of output strings (extracted model)."""
    if not lines:
        return []
    n = min(NPROC, max(1, len(lines) // 200))
    chunks = [lines[i::n] for i in range(n)]
    procs = []
    for ch in chunks:
        p = subprocess.Popen([DRIVER], stdin=subprocess.PIPE, stdout=subprocess.PIPE, text=True)
        procs.append((p, ch))
    outs = []
    import threading
    results = [None] * n

    def feed(i, p, ch):
        o, _ = p.communicate("\n".join(ch) + "\n")
        results[i] = o.split("\n")[:len(ch)]

    ths = [threading.Thread(target=feed, args=(i, p, ch)) for i, (p, ch) in enumerate(procs)]
    [t.start() for t in ths]
    [t.join() for t in ths]
    out = [None] * len(lines)
    for i in range(n):
        for j, o in enumerate(results[i]):
            out[i + j * n] = o.split(" ;")[0].strip()
    return out


def run_impl(lines, hashseed=0, nproc=None, env_extra=None, per_proc=600):
    """Run scenarios on the implementation in fresh subprocesses (current /repo tree)."""
    if not lines:
        return []
    n = min(nproc or NPROC, max(1, len(lines) // per_proc))
    chunks = [lines[i::n] for i in range(n)]
    env = dict(os.environ)
    env.update({"PYTHONPATH": REPO, "PYTHONHASHSEED": str(hashseed), "PYTHONDONTWRITEBYTECODE": "1",
                "OMP_NUM_THREADS": "1", "MKL_NUM_THREADS": "1"})
    if env_extra:
        env.update(env_extra)
    import threading
    results = [None] * n
    errs = [None] * n

    def feed(i, ch):
        p = subprocess.Popen([PY, os.path.join(VERIF, "harness", "impl_runner.py")], stdin=subprocess.PIPE,
                             stdout=subprocess.PIPE, stderr=subprocess.PIPE, text=True, env=env)
        o, e = p.communicate("\n".join(ch) + "\n")
        results[i] = o.split("\n")[:len(ch)]
        errs[i] = (p.returncode, e)

    ths = [threading.Thread(target=feed, args=(i, ch)) for i, ch in enumerate(chunks)]
    [t.start() for t in ths]
    [t.join() for t in ths]
    out = [None] * len(lines)
    for i in range(n):
        rc, e = errs[i]
        if rc != 0 or len(results[i]) < len(chunks[i]):
            tail = "\n".join(l for l in e.split("\n") if "WARNING" not in l)[-600:]
            raise RuntimeError(f"implementation runner failed (rc={rc}): {tail}")
        for j, o in enumerate(results[i]):
            out[i + j * n] = o.strip()
    return out


class Rng(random.Random):
    """single PRNG; every random choice of a run derives from VERIF_SEED"""
    pass


def seed_from_env():
    return int(os.environ.get("VERIF_SEED", "0"))


def sub_rng(seed, tag):
    h = hashlib.sha256(f"{seed}:{tag}".encode()).hexdigest()
    return Rng(int(h[:16], 16))


def frac_str(x):
    return f"{x.numerator}/{x.denominator}" if x.denominator != 1 else str(x.numerator)


def _inexact(o, bits=24, maxden=1 << 22):
    """does an observation contain a rational outside the float32-exact domain?"""
    if isinstance(o, int):
        return False
    if len(o) == 2 and isinstance(o[0], int) and isinstance(o[1], int) and o[1] > 0:
        n, d = o
        if d & (d - 1) != 0 or d > maxden:
            return True
        return abs(n).bit_length() > bits
    return any(_inexact(x) for x in o)


def compare_ops(model_line, impl_line):
    """Compare per-operation observation lists; stop at the first operation whose MODEL
    observation leaves the float32-exact dyadic domain (rounding is not modelled).
    Returns (equal_on_compared_prefix, n_compared, truncated)."""
    if model_line == impl_line:
        return True, None, False
    try:
        m, i = sx.loads(model_line), sx.loads(impl_line)
    except Exception:
        return False, 0, False
    if not (isinstance(m, list) and isinstance(i, list)) or (m and isinstance(m[0], int)) or (i and isinstance(i[0], int)):
        return False, 0, False
    n = 0
    for a, b in zip(m, i):
        if _inexact(a):
            return True, n, True
        if a != b:
            return False, n, False
        n += 1
    return len(m) == len(i), n, False
