"""Implementation runner for first-order scenarios (tag 40)."""
from fractions import Fraction as F
import torch
import sx
from lnn import (Model, Predicate, Variable, And, Or, Implies, Not, Fact, World, NeuralActivation)

VARIANT_ENUM = {0: NeuralActivation.Lukasiewicz, 1: NeuralActivation.LukasiewiczTransparent}
KCLS = {2: And, 3: Or, 4: Implies}


def fr(x):
    return F(float(x))


def world_of(b):
    l, u = sx.q(b[0]), sx.q(b[1])
    return {(0, 1): World.OPEN, (0, 0): World.CLOSED, (1, 1): World.AXIOM}[(int(l), int(u))]


def activation(p):
    al, b, ws, v = p
    return {"alpha": float(sx.q(al)), "bias": float(sx.q(b)), "weights": tuple(float(sx.q(w)) for w in ws),
            "type": VARIANT_ENUM[v]}


def cname(c):
    return f"c{c}"


def gkey(g):
    """grounding as the user writes it"""
    return cname(g[0]) if len(g) == 1 else tuple(cname(c) for c in g)


LAST_VARS = []


def build(kbs, worlds):
    variables = [Variable(f"x{i}") for i in range(6)]
    LAST_VARS[:] = variables
    objs = []
    for i, o in enumerate(kbs):
        kd, ops, maps, nv, p, ovars = o[:6]
        w = world_of(worlds[i])
        if kd == 0:
            al = float(sx.q(p[0]))
            objs.append(Predicate(f"p{i}", arity=nv, world=w, alpha=al) if al != 1.0 else Predicate(f"p{i}", arity=nv, world=w))
            continue
        args = []
        for j, vs in zip(ops, ovars):
            if kbs[j][0] == 0:
                args.append(objs[j](*[variables[v] for v in vs]))
            else:
                args.append(objs[j])
        if kd == 1:
            al = float(sx.q(p[0]))
            objs.append(Not(args[0], world=w, alpha=al) if al != 1.0 else Not(args[0], world=w))
        else:
            objs.append(KCLS[kd](*args, world=w, activation=activation(p)))
    return objs


def dump(objs):
    out = []
    for o in objs:
        rows = []
        for g in o.grounding_table:
            t = o.get_data(g).tolist()[0]
            rows.append([[int(c[1:]) for c in g], [fr(t[0]), fr(t[1])]])
        rows.sort(key=lambda r: r[0])
        out.append(rows)
    return out


def opt(i, objs=None):
    if i < 0:
        return None
    return objs[i] if objs is not None else i


def data_dict(d):
    return {gkey(g): (float(sx.q(b[0])), float(sx.q(b[1]))) for g, b in d}


def k40(args):
    kbs, roots, worlds, data, ops = args[:5]
    objs = build(kbs, worlds)
    model = Model()
    model.add_knowledge(*[objs[r] for r in roots])
    for i, d in data:
        model.add_data({objs[i]: data_dict(d)})
    res = []
    for op in ops:
        t = op[0]
        if t == 1:
            r = objs[op[1]].upward()
            res.append([fr(r), dump(objs)])
        elif t == 2:
            o = objs[op[1]]
            r = o.downward() if isinstance(o, Not) else o.downward(index=opt(op[2]))
            res.append([fr(r), dump(objs)])
        elif t == 3:
            steps, amt = model.upward(source=opt(op[1], objs))
            res.append([steps, fr(amt), dump(objs)])
        elif t == 4:
            steps, amt = model.downward(source=opt(op[1], objs))
            res.append([steps, fr(amt), dump(objs)])
        elif t == 5:
            steps, amt = model.infer(source=opt(op[1], objs), max_steps=op[2])
            res.append([steps, fr(amt), dump(objs)])
        elif t == 7:
            model.reset_bounds()
            res.append([dump(objs)])
        elif t == 8:
            model.add_data({objs[op[1]]: data_dict(op[2])})
            res.append([dump(objs)])
        elif t == 9:
            res.append([bool(model.has_contradiction())])
        elif t == 10:
            model.flush()
            res.append([dump(objs)])
        elif t == 11:
            model.add_knowledge(objs[op[1]], world=world_of(op[2]))
            res.append([dump(objs)])
        elif t == 17:
            # labels per object; per object the supervised loss rescaled to the sum of squared errors (exact on the 1/8 grid)
            out = []
            labs = {}
            for i, d in op[1]:
                labs.setdefault(i, []).extend(d)
            for i, d in labs.items():
                model.add_labels({objs[i]: {gkey(g): (float(sx.q(b[0])), float(sx.q(b[1]))) for g, b in d}})
            for i, o in enumerate(objs):
                d = labs.get(i, [])
                have = {tuple(int(c[1:]) for c in g) for g in o.grounding_table}
                present = [g for g, b in d if tuple(g) in have]
                v = o._supervised_loss() if d else None
                if v is None or not present:
                    out.append(-1 if v is None else [F(-2), len(present)])
                else:
                    n = len(present)
                    out.append([F(round(float(v) * 2 * n * 4096), 4096), n])
            res.append(out)
        elif t == 16:
            import io, contextlib
            with contextlib.redirect_stdout(io.StringIO()):
                model.print()
            for o in objs:
                o.state(); o.is_contradiction(); o.get_data()
            res.append([dump(objs)])
        elif t == 18:
            from lnn import Loss
            res.append([fr(model.loss_fn({Loss.UNCERTAINTY: 1})[0])])
        elif t == 14:
            from lnn import Loss
            res.append([fr(model.loss_fn([Loss.CONTRADICTION])[0])])
        elif t == 12:
            g = op[2]
            b = objs[op[1]].get_data(gkey(g) if len(g) == 1 else tuple(cname(c) for c in g)).tolist()[0]
            res.append([[fr(b[0]), fr(b[1])], dump(objs)])
        else:
            raise ValueError("unknown op")
    return res


HANDLERS = {40: k40}


# ---------------------------------------------------------------- K5 validation (tag 41)
from lnn import Proposition, And as _And
FACT_BY_BOUNDS = {(1, 1): Fact.TRUE, (0, 0): Fact.FALSE, (0, 1): Fact.UNKNOWN, (1, 0): Fact.CONTRADICTION}
WORLD_BY_BOUNDS = {(1, 1): World.AXIOM, (0, 0): World.FALSE, (0, 1): World.OPEN}
ECODE = {"TypeError": 4, "IndexError": 3, "Exception": 7}


def pyvalue(v, use_world=False):
    t = v[0]
    if t == 0:
        key = (int(sx.q(v[1])), int(sx.q(v[2])))
        return (WORLD_BY_BOUNDS if use_world and key in WORLD_BY_BOUNDS else FACT_BY_BOUNDS)[key]
    if t == 1:
        return bool(v[1])
    if t == 2:
        return float(sx.q(v[1]))
    if t == 3:
        return (float(sx.q(v[1])), float(sx.q(v[2])))
    if t == 4:
        return tuple(0.5 for _ in range(v[1]))
    if t == 5:
        return ("a", "b")
    if t == 6:
        return {f"c{n + 1}": pyvalue(x) for n, x in enumerate(v[1])}
    return [1, "x", None, [0.5, 0.5]][v[1] if len(v) > 1 else 0]


def k41(args):
    t, v = args[:2]
    before = (0.25, 0.75)
    m = Model()
    if t in (0, 1):
        A, B2 = Proposition("A"), Proposition("B")
        member = _And(A, B2)
        outsider = _And(A, B2)      # structurally equal, not in the model
        m.add_knowledge(member)
        target = member if t == 0 else outsider
        m.add_data({member: before})
        probe = lambda: member.get_data().tolist()
    else:
        member = Predicate("P")
        outsider = Predicate("P")
        m.add_knowledge(member)
        target = member if t == 2 else outsider
        m.add_data({member: {"c0": before}})
        probe = lambda: member.get_data("c0").tolist()[0]
    val = pyvalue(v, use_world=(len(v) > 3 and v[3] == 1))
    code, stored = 0, []
    try:
        m.add_data({target: val})
        if t in (0, 1):
            b = target.get_data().tolist()
            stored = [[fr(b[0]), fr(b[1])]]
        else:
            for n in range(len(v[1])):
                b = target.get_data(f"c{n + 1}").tolist()[0]
                stored.append([fr(b[0]), fr(b[1])])
    except Exception as e:
        code = ECODE.get(type(e).__name__, 99)
    p = probe()
    return [code, stored, [fr(p[0]), fr(p[1])]]


HANDLERS[41] = k41
