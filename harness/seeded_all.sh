#!/bin/sh
# seeded_all.sh: every seeded change under seeded/ against the check of the property it breaks (applies each patch to /repo,
# runs the check, undoes the patch); one line per seed in seeded/RESULTS.txt
cd /verif
: > seeded/RESULTS.txt
for d in seeded/*/; do
  n=$(basename $d)
  p=$(python3 -c "import json;print(json.load(open('$d/meta.json'))['breaks_property'])" 2>/dev/null)
  [ -z "$p" ] && continue
  out=$(harness/seeded_run.sh $d $p 2>&1 | grep "^$n" | sed 's/KNOWN-FINDING[^V\[]*//' | cut -c1-160)
  git -C /repo checkout -- . 2>/dev/null
  if echo "$out" | grep -q VIOLATION; then echo "caught   $out" >> seeded/RESULTS.txt; else echo "MISSED   $out" >> seeded/RESULTS.txt; fi
done
echo DONE >> seeded/RESULTS.txt
