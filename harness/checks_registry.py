"""C08: every sub-formula object is a full member of the model."""
from fractions import Fraction as F
import sx, lib, gen_prop
from framework import Ctx, standard_prologue
from checks_prop import states_of, whole_error, dist, MONITORS as PROP_MON, run_k3, descendants

MONITORS = {}


def monitor(name):
    def deco(f):
        MONITORS[name] = f
        return f
    return deco


@monitor("c08_census")
def mon_census(sc, obs):
    """identity census of Model.nodes against the object tree, after every add_knowledge call"""
    if whole_error(obs):
        return ("add_knowledge does not raise", f"raised error class {obs[1]}", None)
    kb, calls = sc[1], sc[2]
    seen_roots = []
    for n, (c, o) in enumerate(zip(calls, obs)):
        seen_roots += c
        members = set()
        for r in seen_roots:
            members |= descendants(kb, r)
        num, nums, nodes, nlen, pcnt = o
        for i in sorted(members):
            if nums[i] < 0:
                return (f"after call #{n} add_knowledge({c}): sub-formula object {i} has a formula number", "None", None)
            occ = [key for key, ob in enumerate(nodes) if ob == i]
            if occ != [nums[i]]:
                return (f"after call #{n} add_knowledge({c}): object {i} is registered exactly once, under its own number {nums[i]}", f"keys holding it: {occ}", None)
            if pcnt[i] != 1:
                return (f"after call #{n}: parameters of object {i} are collected exactly once by Model.parameters()", f"{pcnt[i]} times", None)
        if nlen != len(members):
            return (f"after call #{n} add_knowledge({c}): Model.nodes has one entry per member object ({len(members)})", f"{nlen} entries", None)
    return None


@monitor("c08_reach")
def mon_reach(sc, obs):
    """flush / reset_bounds reach every object; no model-wide call raises when data sits on any sub-object"""
    if whole_error(obs):
        return ("no exception from model-wide operations with data on sub-formula objects", f"raised error class {obs[1]}", None)
    kb, data = sc[1], sc[3]
    dd = {i: sx.bnd(b) for i, b in data}
    for n, (op, amt, before, after, raw) in enumerate(states_of(sc, obs)):
        if after is None:
            return (f"op #{n} {op} completes (data attached to sub-formula objects)", f"raised error class {raw[1]}", None)
        if op[0] == 8:
            dd[op[1]] = sx.bnd(op[2])
        if op[0] == 10:
            dd = {}
            for i, b in enumerate(after):
                if b != (F(0), F(1)):
                    return (f"op #{n} flush(): object {i} is reached and reads UNKNOWN", f"{b}", None)
        if op[0] == 7:
            for i, b in enumerate(after):
                e = dd.get(i, (F(0), F(1)))
                if b != e:
                    return (f"op #{n} reset_bounds(): object {i} is reached and returns to its data {e}", f"{b}", None)
    return None


def gen_calls(rng, kb):
    """sequences of add_knowledge calls: several roots per call, roots repeated, inner formulae added later"""
    roots = gen_prop.roots_of(rng, kb, extra=0.0)
    kb, roots = gen_prop.restrict(kb, roots)
    nonowned = [i for i, o in enumerate(kb) if not gen_prop.owned(kb, i)]
    calls = []
    pool = list(roots)
    rng.shuffle(pool)
    while pool:
        ncall = rng.choice([1, 1, 2, 3])
        c, pool = pool[:ncall], pool[ncall:]
        if rng.random() < 0.3:
            c.insert(rng.randrange(len(c) + 1), rng.choice(nonowned))   # an inner formula / atom / repeated root
        calls.append(c)
    for _ in range(rng.choice([0, 1, 2])):
        calls.append([rng.choice(nonowned)])                             # e.g. set_query on a member
    if rng.random() < 0.3:
        calls.insert(0, [rng.choice(nonowned)])                          # an inner formula BEFORE its parents
    # everything reachable only
    allr = [r for c in calls for r in c]
    keep = sorted(gen_prop.reachable(kb, allr))
    if len(keep) != len(kb):
        kb2, allr2 = gen_prop.restrict(kb, allr)
        it = iter(allr2)
        calls = [[next(it) for _ in c] for c in calls]
        kb = kb2
    return kb, calls


def check_C08(ctx):
    st, pr = standard_prologue(ctx)
    rng = ctx.rng("c08")
    n = 400 if ctx.quick else 5000
    scs, meta = [], []
    for _ in range(n):
        kb = gen_prop.gen_kb(rng, weighted=rng.random() < 0.3, nforms=rng.choice([2, 3, 4, 5, 6]), twins=0.45)
        kb, calls = gen_calls(rng, kb)
        scs.append([30, kb, calls])
        meta.append({"mode": "registry", "nobj": len(kb), "kinds": sorted(set(o[0] for o in kb))})
    m, impl, lines = ctx.correspond("K4 registry: add_knowledge numbering / Model.nodes / parameters census", scs, per_proc=150,
                                    nontrivial=lambda s, mo: True)
    for sc, line, o in zip(scs, lines, impl[0]):
        r = MONITORS["c08_census"](sx.loads(line), sx.loads(o))
        if r:
            ctx.violation("c08_census", line, 0, r[0], r[1], r[2])
    # model-wide operations with data on arbitrary sub-objects (twin heavy)
    scs2, meta2 = [], []
    for _ in range(300 if ctx.quick else 4000):
        kb = gen_prop.gen_kb(rng, weighted=rng.random() < 0.3, nforms=rng.choice([2, 3, 4, 5]), twins=0.45)
        roots = gen_prop.roots_of(rng, kb, extra=0.3)
        kb, roots = gen_prop.restrict(kb, roots)
        mode = rng.choice(["consistent", "free"])
        data, hidden = gen_prop.gen_data(rng, kb, mode)
        ops = []
        for _k in range(rng.choice([3, 5, 8])):
            c = rng.random()
            if c < 0.35:
                ops.append(rng.choice([[5, -1, 3], [3, -1], [4, -1], [5, -1, 30]]))
            elif c < 0.5:
                ops.append([7])
            elif c < 0.6:
                ops.append([10])
            elif c < 0.8:
                j = rng.randrange(len(kb))
                l, u = sorted((rng.choice(gen_prop.G8), rng.choice(gen_prop.G8)))
                ops.append([8, j, [l, u]])
            else:
                ops.append([9])
        scs2.append([3, kb, roots, data, ops])
        meta2.append({"mode": mode, "nobj": len(kb), "kinds": sorted(set(o[0] for o in kb))})
    m2, impl2, lines2 = ctx.correspond("K4 model-wide operations (infer/upward/downward/flush/reset_bounds/has_contradiction) with data on any sub-object", scs2, per_proc=120)
    for sc, line, o in zip(scs2, lines2, impl2[0]):
        r = MONITORS["c08_reach"](sx.loads(line), sx.loads(o))
        if r:
            ctx.violation("c08_reach", line, 0, r[0], r[1], r[2])
    ctx.corpus(["d1_twins.py", "d8_renumber.py"])
    ctx.cov["distribution"] = dist(meta + meta2)
    ctx.cov["twin_kbs"] = sum(1 for s in scs if len(set(map(lambda o: sx.dumps(o), s[1]))) < len(s[1]))
    ctx.assumptions.append("formula objects are not shared between two Model instances (not modelled)")
    ctx.assumptions.append("iteration order of Model.nodes is not modelled (compared as a key -> object map)")
    return ctx.finish("proof", pr, st, rule="registry: random KBs with 45% structurally-equal twins, Iff/XOr private sub-objects, registered through random SEQUENCES of add_knowledge calls (several roots per call, repeated roots, "
                      "inner formulae/atoms added again later or before their parents); after every call formula_number of every object, Model.nodes (by identity), len(nodes) and the parameter census are compared with the model and "
                      "checked by an identity census; model-wide ops: random infer/upward/downward/flush/reset_bounds/add_data(any object)/has_contradiction sequences, every object compared after every call")


CHECKS = {"C08": check_C08}
