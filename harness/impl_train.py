"""Implementation runner for training traces (tag 60): Model.train with a scripted optimiser."""
from fractions import Fraction as F
import torch
import sx
from lnn import Model, Proposition, And, Or, Implies, Not, Loss, NeuralActivation

VARIANT_ENUM = {0: NeuralActivation.Lukasiewicz, 1: NeuralActivation.LukasiewiczTransparent}
KCLS = {2: And, 3: Or, 4: Implies}


def fr(x):
    return F(float(x))


class Scripted(torch.optim.Optimizer):
    """an optimiser whose step() sets the parameters the script says (any optimiser is allowed by Model.train)"""

    def __init__(self, params, script, objs):
        super().__init__(params, {})
        self.script, self.objs, self.k = script, objs, 0

    @torch.no_grad()
    def step(self, closure=None):
        if self.k < len(self.script):
            for i, ws, b in self.script[self.k]:
                n = self.objs[i].neuron
                n.weights.data = torch.tensor([float(sx.q(w)) for w in ws])
                n.bias.data = torch.tensor(float(sx.q(b)))
        self.k += 1


def params_dump(objs, kbs):
    out = []
    for o, k in zip(objs, kbs):
        if k[0] >= 2:
            out.append([[fr(w) for w in o.neuron.weights.tolist()], fr(o.neuron.bias)])
        else:
            out.append([[], F(1)])
    return out


def k60(args):
    kbs, roots, data, labs, cfgs, script, epochs, flags = args[:8]
    objs = []
    for i, (kd, ops, p, aux) in enumerate(kbs):
        if kd == 0:
            objs.append(Proposition(f"p{i}"))
        elif kd == 1:
            objs.append(Not(objs[ops[0]]))
        else:
            al, b, ws, v = p
            act = {"alpha": float(sx.q(al)), "bias": float(sx.q(b)), "weights": tuple(float(sx.q(w)) for w in ws), "type": VARIANT_ENUM[v]}
            wm, bm, ng = cfgs[i]
            if wm:
                act["w_max"] = float(sx.q(wm[0]))
            if bm:
                act["b_max"] = float(sx.q(bm[0]))
            objs.append(KCLS[kd](*[objs[j] for j in ops], activation=act))
    model = Model()
    model.add_knowledge(*[objs[r] for r in roots])
    for i, b in data:
        model.add_data({objs[i]: (float(sx.q(b[0])), float(sx.q(b[1])))})
    for i, b in labs:
        model.add_labels({objs[i]: (float(sx.q(b[0])), float(sx.q(b[1])))})
    leaves_before = [o.neuron.leaves.detach().clone() for o in objs]
    labels_before = [o.labels.clone() if hasattr(o, "labels") else None for o in objs]
    hist = []
    orig = model._project_params

    def rec():
        orig()
        hist.append(params_dump(objs, kbs))
    model._project_params = rec
    losses = []
    if flags[0]:
        losses.append(Loss.SUPERVISED)
    if flags[1]:
        losses.append(Loss.CONTRADICTION)
    opt = Scripted(model.parameters(), script, objs)
    (running, loss_hist), _ = model.train(losses=losses, optimizer=opt, epochs=epochs, stop_at_convergence=bool(flags[2]))
    facts_same = all(torch.equal(a, o.neuron.leaves.detach()) for a, o in zip(leaves_before, objs)) and \
        all((lb is None) or torch.equal(lb, o.labels) for lb, o in zip(labels_before, objs))
    finite = all(bool(torch.isfinite(p).all()) for p in model.parameters())
    per_epoch = [[fr(l), h] for l, h in zip(running, hist)]
    final = []
    for o in objs:
        t = o.get_data().tolist()
        final.append([fr(t[0]), fr(t[1])])
    return [per_epoch, final, params_dump(objs, kbs), [int(facts_same), int(finite), len(running), len(hist)]]


HANDLERS = {60: k60}
