#!/usr/bin/env python3
"""Fail-closed translator of the *declarative* parts of IBM/LNN into Coq.

Reads the current working tree of /repo (never imports it) and writes
coq/Generated/Tables.v.  Anything outside the recognised syntactic patterns makes
the translator exit non-zero ("cannot translate"), which the checks report as a
broken tie, never skip silently.

Translated:
  constants.py      Fact, World, _Fact members (values as Q pairs; aliases kept)
  _utils.py         node_state dict (state string -> Fact name), val_clamp defaults
  activations/node.py   Yt/Yf definitions, output_regions (masked_fill chain),
                    is_contradiction (bool_and expression), state (np.where chain)
  parameters/node.py    default world, default alpha expression, project_params clamp
  parameters/neuron.py  default bias, default weight, project_params clamps
  model.py          convergence threshold of _infer, single-direction rule
"""
import ast, sys, os, math
from fractions import Fraction

REPO = os.environ.get("LNN_REPO", "/repo")


class CannotTranslate(Exception):
    pass


def fail(msg, node=None):
    loc = f" (line {getattr(node, 'lineno', '?')})" if node is not None else ""
    raise CannotTranslate(msg + loc)


def parse(rel):
    path = os.path.join(REPO, rel)
    with open(path) as f:
        return ast.parse(f.read(), path)


def find_class(mod, name):
    for n in mod.body:
        if isinstance(n, ast.ClassDef) and n.name == name:
            return n
    fail(f"class {name} not found")


def find_func(body, name):
    for n in body:
        if isinstance(n, ast.FunctionDef) and n.name == name:
            return n
    fail(f"function {name} not found")


def qlit(x):
    fr = Fraction(x)
    if fr.denominator == 1:
        return f"({fr.numerator})" if fr.numerator < 0 else f"{fr.numerator}"
    return f"({fr.numerator} # {fr.denominator})"


def num_const(n):
    if isinstance(n, ast.Constant) and isinstance(n.value, (int, float)) and not isinstance(n.value, bool):
        return n.value
    if isinstance(n, ast.UnaryOp) and isinstance(n.op, ast.USub):
        return -num_const(n.operand)
    fail("numeric literal expected: " + ast.dump(n), n)


# ---------------------------------------------------------------- constants.py
def enum_pairs(mod, cls):
    c = find_class(mod, cls)
    out = []
    for n in c.body:
        if isinstance(n, ast.Expr) and isinstance(n.value, ast.Constant):
            continue  # docstring
        if isinstance(n, ast.Assign) and len(n.targets) == 1 and isinstance(n.targets[0], ast.Name):
            v = n.value
            if isinstance(v, ast.Tuple) and len(v.elts) == 2:
                out.append((n.targets[0].id, (num_const(v.elts[0]), num_const(v.elts[1]))))
                continue
        fail(f"unrecognised member of enum {cls}: {ast.dump(n)[:80]}", n)
    if not out:
        fail(f"enum {cls} empty")
    return out


def enum_auto(mod, cls):
    c = find_class(mod, cls)
    out = []
    for n in c.body:
        if isinstance(n, ast.Expr) and isinstance(n.value, ast.Constant):
            continue
        if (isinstance(n, ast.Assign) and len(n.targets) == 1 and isinstance(n.targets[0], ast.Name)
                and isinstance(n.value, ast.Call) and isinstance(n.value.func, ast.Name) and n.value.func.id == "auto"):
            out.append(n.targets[0].id)
            continue
        fail(f"unrecognised member of enum {cls}", n)
    return out


# ------------------------------------------------------- boolean expression -> Coq
STATE_CTOR = {"U": "SU", "T": "ST", "F": "SF", "C": "SC", "~F": "SAF", "~U": "SAU", "=U": "SEU", "~T": "SAT"}


def region_num(n):
    """A region literal such as "1.0" -> 1"""
    if isinstance(n, ast.Constant) and isinstance(n.value, str):
        f = float(n.value)
        if f == int(f) and 1 <= int(f) <= 5:
            return int(f)
    fail("region literal expected", n)


def bexpr(n, env):
    """Translate a boolean tensor expression.  env maps python names/attrs to Coq terms
    with a sort: 'q' (rational) or 'r' (region number)."""
    if isinstance(n, ast.Call):
        f = n.func
        if isinstance(f, ast.Name) and f.id in ("bool_and", "bool_or") and not n.keywords and n.args:
            op = "andb" if f.id == "bool_and" else "orb"
            parts = [bexpr(a, env) for a in n.args]
            r = parts[-1]
            for p in reversed(parts[:-1]):
                r = f"({op} {p} {r})"
            return r
        if isinstance(f, ast.Attribute) and f.attr == "logical_not" and not n.args:
            return f"(negb {bexpr(f.value, env)})"
        fail("unrecognised call in boolean expression: " + ast.dump(n)[:80], n)
    if isinstance(n, ast.Compare) and len(n.ops) == 1:
        l, op, r = n.left, n.ops[0], n.comparators[0]
        ls, rs = term(l, env, allow_fail=True), None
        if isinstance(op, ast.In):
            if ls is None or ls[1] != "r" or not isinstance(r, ast.List) or not r.elts:
                fail("`in` only supported for region variables and lists of region literals", n)
            alts = [f"(Z.eqb {ls[0]} {region_num(e)})" for e in r.elts]
            res = alts[-1]
            for a in reversed(alts[:-1]):
                res = f"(orb {a} {res})"
            return res
        if ls is not None and ls[1] == "r":
            if not isinstance(op, ast.Eq):
                fail("only == on region variables", n)
            return f"(Z.eqb {ls[0]} {region_num(r)})"
        rs = term(r, env)
        if ls is None:
            ls = term(l, env)
        if ls[1] != "q" or rs[1] != "q":
            fail("rational comparison expected", n)
        a, b = ls[0], rs[0]
        if isinstance(op, ast.Lt):
            return f"(qltb {a} {b})"
        if isinstance(op, ast.LtE):
            return f"(qleb {a} {b})"
        if isinstance(op, ast.Gt):
            return f"(qltb {b} {a})"
        if isinstance(op, ast.GtE):
            return f"(qleb {b} {a})"
        if isinstance(op, ast.Eq):
            return f"(qeqb {a} {b})"
        fail("unsupported comparison operator", n)
    fail("unrecognised boolean expression: " + ast.dump(n)[:80], n)


def term(n, env, allow_fail=False):
    if isinstance(n, ast.Name) and n.id in env:
        return env[n.id]
    if isinstance(n, ast.Attribute) and isinstance(n.value, ast.Name) and n.value.id == "self" and ("self." + n.attr) in env:
        return env["self." + n.attr]
    if isinstance(n, ast.Constant) and isinstance(n.value, (int, float)) and not isinstance(n.value, bool):
        return (qlit(n.value), "q")
    if isinstance(n, ast.BinOp) and isinstance(n.op, (ast.Sub, ast.Add)):
        a, b = term(n.left, env), term(n.right, env)
        if a[1] == "q" and b[1] == "q":
            return (f"({a[0]} {'-' if isinstance(n.op, ast.Sub) else '+'} {b[0]})", "q")
    if allow_fail:
        return None
    fail("unrecognised term: " + ast.dump(n)[:80], n)


# ------------------------------------------------------------ activations/node.py
def translate_node_activation(out):
    mod = parse("lnn/neural/activations/node.py")
    cls = find_class(mod, "_NodeActivation")
    init = find_func(cls.body, "__init__")
    defs = {}
    for st in init.body:
        if (isinstance(st, ast.Assign) and len(st.targets) == 1 and isinstance(st.targets[0], ast.Attribute)
                and isinstance(st.targets[0].value, ast.Name) and st.targets[0].value.id == "self"
                and st.targets[0].attr in ("Yt", "Yf")):
            defs[st.targets[0].attr] = term(st.value, {"self.alpha": ("al", "q")})[0]
    if set(defs) != {"Yt", "Yf"}:
        fail("Yt/Yf definitions not found in _NodeActivation.__init__")
    out.append(f"Definition Yt_of (al : Q) : Q := {defs['Yt']}.")
    out.append(f"Definition Yf_of (al : Q) : Q := {defs['Yf']}.")

    # output_regions: result = zeros; result = result.masked_fill(COND, k) ...; raise if 0 remains
    fn = find_func(cls.body, "output_regions")
    env = {"y": ("y", "q"), "self.Yf": ("Yf", "q"), "self.Yt": ("Yt", "q")}
    rules = []
    seen_init = seen_raise = seen_ret = False
    for st in fn.body:
        if isinstance(st, ast.Expr) and isinstance(st.value, ast.Constant):
            continue
        if isinstance(st, ast.Assign) and len(st.targets) == 1 and isinstance(st.targets[0], ast.Name) and st.targets[0].id == "result":
            v = st.value
            if isinstance(v, ast.Call) and isinstance(v.func, ast.Attribute) and v.func.attr == "zeros_like":
                seen_init = True
                continue
            if (isinstance(v, ast.Call) and isinstance(v.func, ast.Attribute) and v.func.attr == "masked_fill"
                    and isinstance(v.func.value, ast.Name) and v.func.value.id == "result" and len(v.args) == 2):
                k = num_const(v.args[1])
                if k != int(k) or not 1 <= k <= 5:
                    fail("region number outside 1..5", st)
                rules.append((bexpr(v.args[0], env), int(k)))
                continue
        if isinstance(st, ast.If):
            seen_raise = any(isinstance(s, ast.Raise) for s in st.body)
            t = ast.unparse(st.test).replace(" ", "")
            if t != "(result==0).sum()>0":
                fail("output_regions: unrecognised guard " + t, st)
            continue
        if isinstance(st, ast.Return) and isinstance(st.value, ast.Name) and st.value.id == "result":
            seen_ret = True
            continue
        fail("output_regions: unrecognised statement", st)
    if not (seen_init and seen_raise and seen_ret and rules):
        fail("output_regions: structure not recognised")
    out.append("(* output_regions: later rules override earlier ones (masked_fill chain); 0 = raises *)")
    out.append("Definition region_rules (Yf Yt y : Q) : list (bool * Z) :=\n  [ "
               + ";\n    ".join(f"({c}, {k}%Z)" for c, k in rules) + " ].")

    # is_contradiction
    fn = find_func(cls.body, "is_contradiction")
    env2 = {"L": ("rl", "r"), "U": ("ru", "r"), "L_bounds": ("l", "q"), "U_bounds": ("u", "q")}
    ret = [s for s in fn.body if isinstance(s, ast.Return)]
    assigns = [s for s in fn.body if isinstance(s, ast.Assign)]
    if len(ret) != 1 or not isinstance(ret[0].value, ast.Name):
        fail("is_contradiction: return of a name expected")
    expr = None
    for a in assigns:
        if len(a.targets) == 1 and isinstance(a.targets[0], ast.Name) and a.targets[0].id == ret[0].value.id:
            expr = a.value
        elif isinstance(a.targets[0], ast.Tuple):
            names = [ast.unparse(e) for e in a.targets[0].elts]
            if names != ["*_", "L", "U", "L_bounds", "U_bounds"]:
                fail("is_contradiction: unexpected unpacking " + str(names), a)
        else:
            fail("is_contradiction: unexpected assignment", a)
    if expr is None:
        fail("is_contradiction: defining expression not found")
    out.append("Definition contra_rule (l u : Q) (rl ru : Z) : bool :=\n  " + bexpr(expr, env2) + ".")

    # state: np.where chain
    fn = find_func(cls.body, "state")
    env3 = {"L": ("rl", "r"), "U": ("ru", "r")}
    rows = []
    for st in fn.body:
        if isinstance(st, ast.Expr) and isinstance(st.value, ast.Constant):
            continue
        if isinstance(st, ast.Assign) and len(st.targets) == 1:
            tg = st.targets[0]
            if isinstance(tg, ast.Name) and tg.id == "args":
                if ast.unparse(st.value) != "self._get_state_vars(bounds)":
                    fail("state: unexpected args", st)
                continue
            if isinstance(tg, ast.Tuple):
                if [ast.unparse(e) for e in tg.elts] != ["bounds", "result", "L", "U", "*_"]:
                    fail("state: unexpected unpacking", st)
                continue
            if isinstance(tg, ast.Name) and tg.id == "result":
                v = st.value
                if (isinstance(v, ast.Call) and ast.unparse(v.func) == "np.where" and len(v.args) == 3
                        and isinstance(v.args[1], ast.Constant) and isinstance(v.args[2], ast.Name) and v.args[2].id == "result"):
                    code = v.args[1].value
                    if code not in STATE_CTOR:
                        fail(f"state: unknown state code {code!r}", st)
                    if ast.unparse(v.args[0]) == "self.is_contradiction(args=args)":
                        rows.append(("(contra_rule l u rl ru)", STATE_CTOR[code]))
                    else:
                        rows.append((bexpr(v.args[0], env3), STATE_CTOR[code]))
                    continue
        if isinstance(st, ast.If):
            if ast.unparse(st.test) != "result == '0.0'" or not any(isinstance(s, ast.Raise) for s in st.body):
                fail("state: unrecognised guard", st)
            continue
        if isinstance(st, ast.Return) and isinstance(st.value, ast.Name) and st.value.id == "result":
            continue
        fail("state: unrecognised statement " + ast.unparse(st)[:60], st)
    if not rows:
        fail("state: no rows")
    out.append("(* state(): np.where chain, later rows override earlier ones; None = raises *)")
    out.append("Definition state_rules (l u : Q) (rl ru : Z) : list (bool * scode) :=\n  [ "
               + ";\n    ".join(f"({c}, {k})" for c, k in rows) + " ].")

    # _get_state_vars: regions computed by output_regions on both bounds
    fn = find_func(cls.body, "_get_state_vars")
    src = ast.unparse(fn)
    for needle in ("self.output_regions(bounds)", "L, U = (regions[..., 0], regions[..., 1])",
                   "L_bounds, U_bounds = (bounds[..., 0], bounds[..., 1])"):
        if needle not in src:
            fail("_get_state_vars: expected `" + needle + "`")


def translate_utils(out):
    mod = parse("lnn/_utils.py")
    fn = find_func(mod.body, "node_state")
    d = None
    for st in fn.body:
        if isinstance(st, ast.Assign) and isinstance(st.value, ast.Dict):
            d = st.value
    if d is None:
        fail("node_state: dict not found")
    rows = []
    for k, v in zip(d.keys, d.values):
        if not (isinstance(k, ast.Constant) and k.value in STATE_CTOR):
            fail("node_state: unknown key", k)
        if not (isinstance(v, ast.Attribute) and isinstance(v.value, ast.Name) and v.value.id in ("Fact", "_Fact")):
            fail("node_state: unknown value", v)
        rows.append((STATE_CTOR[k.value], v.value.id + "_" + v.attr))
    out.append("Definition node_state_names : list (scode * string) :=\n  [ "
               + ";\n    ".join(f'({c}, "{n}"%string)' for c, n in rows) + " ].")
    fn = find_func(mod.body, "val_clamp")
    args = fn.args
    names = [a.arg for a in args.args]
    if names != ["x", "_min", "_max"] or len(args.defaults) != 2:
        fail("val_clamp: signature changed")
    out.append(f"Definition val_clamp_min : Q := {qlit(num_const(args.defaults[0]))}.")
    out.append(f"Definition val_clamp_max : Q := {qlit(num_const(args.defaults[1]))}.")
    body = [s for s in fn.body if not (isinstance(s, ast.Expr) and isinstance(s.value, ast.Constant))]
    got = [ast.unparse(s) for s in body]
    want = ["clamp_min = (x.detach() - _min).clamp(max=0)",
            "clamp_max = (x.detach() - _max).clamp(min=0)",
            "return x - clamp_max - clamp_min"]
    if got != want:
        fail("val_clamp: body changed: " + repr(got))
    out.append("(* val_clamp body matched verbatim: x - clamp(x.detach()-max, min=0) - clamp(x.detach()-min, max=0) *)")
    fn = find_func(mod.body, "negate_bounds")
    if "return (1 - bounds).flip(dim)" not in ast.unparse(fn):
        fail("negate_bounds: body changed")


def translate_params(out):
    mod = parse("lnn/neural/parameters/node.py")
    cls = find_class(mod, "_NodeParameters")
    init = find_func(cls.body, "__init__")
    src = ast.unparse(init)
    if "world = kwds.get('world', World.OPEN)" not in src:
        fail("_NodeParameters.__init__: default world expression changed")
    out.append('Definition default_world_name : string := "OPEN"%string.')
    want = "kwds.get('alpha', math.erf(kwds.get('alpha_sigma', 10) / math.sqrt(2)))"
    if want not in src:
        fail("_NodeParameters.__init__: default alpha expression changed")
    import struct
    a32 = struct.unpack("f", struct.pack("f", math.erf(10 / math.sqrt(2))))[0]
    out.append(f"Definition default_alpha : Q := {qlit(a32)}.  (* float32(erf(10/sqrt 2)) *)")
    pp = find_func(cls.body, "project_params")
    if "self.alpha.data = self.alpha.data.clamp(0.5, 1)" not in ast.unparse(pp):
        fail("_NodeParameters.project_params changed")
    pb = find_func(cls.body, "project_bounds")
    if "self.bounds_table.data.clamp(0, 1)" not in ast.unparse(pb):
        fail("_NodeParameters.project_bounds changed")

    mod = parse("lnn/neural/parameters/neuron.py")
    cls = find_class(mod, "_NeuronParameters")
    init = find_func(cls.body, "__init__")
    src = ast.unparse(init)
    import re
    m = re.search(r"bias = kwds\.get\('bias', ([0-9.eE+-]+)\)", src)
    if not m:
        fail("_NeuronParameters.__init__: default bias not found")
    out.append(f"Definition default_bias : Q := {qlit(float(m.group(1)))}.")
    m = re.search(r"weights = kwds\.get\('weights', \(([0-9.eE+-]+),\) \* self\.arity\)", src)
    if not m:
        fail("_NeuronParameters.__init__: default weights not found")
    out.append(f"Definition default_weight : Q := {qlit(float(m.group(1)))}.")
    pp = ast.unparse(find_func(cls.body, "project_params"))
    want_pp = ("if self.negative_weights:\n        if self.w_max:\n            self.weights.data = self.weights.data.clamp(-self.w_max, self.w_max)\n"
               "        else:\n            pass\n    else:\n        self.weights.data = self.weights.data.clamp(0, self.w_max)\n"
               "    self.bias.data = self.bias.data.clamp(0, self.b_max)")
    if want_pp not in pp:
        fail("_NeuronParameters.project_params changed:\n" + pp)
    out.append("(* project_params matched verbatim: weights.clamp(0, w_max) unless negative_weights; bias.clamp(0, b_max) *)")
    out.append("Definition project_weight_min : Q := 0.")
    out.append("Definition project_bias_min : Q := 0.")


def translate_model(out):
    mod = parse("lnn/model.py")
    cls = find_class(mod, "Model")
    fn = find_func(cls.body, "_infer")
    thr = None
    stable = False
    for n in ast.walk(fn):
        if isinstance(n, ast.Assign) and len(n.targets) == 1 and isinstance(n.targets[0], ast.Name) and n.targets[0].id == "converged_bounds":
            v = n.value
            if not (isinstance(v, ast.IfExp) and isinstance(v.body, ast.Constant) and v.body.value is True):
                fail("_infer: converged_bounds shape changed", n)
            if ast.unparse(v.test) != "direction in [[Direction.UPWARD], [Direction.DOWNWARD]]":
                fail("_infer: single-direction rule changed", n)
            c = v.orelse
            stable = False
            if isinstance(c, ast.BoolOp) and isinstance(c.op, ast.And) and len(c.values) == 2:
                # `bounds_diff <= eps and self.shape[1] == n_groundings`: no convergence while groundings were created
                if ast.unparse(c.values[1]) != "self.shape[1] == n_groundings" or "n_groundings = self.shape[1]" not in ast.unparse(fn):
                    fail("_infer: grounding-stability clause changed", n)
                stable = True
                c = c.values[0]
            if not (isinstance(c, ast.Compare) and isinstance(c.left, ast.Name) and c.left.id == "bounds_diff"
                    and len(c.ops) == 1 and isinstance(c.ops[0], ast.LtE)):
                fail("_infer: convergence comparison changed", n)
            thr = num_const(c.comparators[0])
    if thr is None:
        fail("_infer: convergence threshold not found")
    out.append(f"Definition infer_eps : Q := {qlit(thr)}.  (* {thr!r} as the exact double *)")
    out.append("Definition infer_converged (bounds_diff : Q) : bool := qleb bounds_diff infer_eps.")
    out.append(f"Definition infer_requires_stable_groundings : bool := {'true' if stable else 'false'}.")
    src = ast.unparse(fn)
    for needle in ("if max_steps and steps >= max_steps:", "facts_inferred += bounds_diff", "steps += 1",
                   "if self.query and self.query.is_classically_resolved and (not self._converge):"):
        if needle not in src:
            fail("_infer: expected `" + needle + "`")


def main(dst):
    out = ["(* GENERATED by harness/extract_tables.py from the current /repo working tree. DO NOT EDIT. *)",
           "From Coq Require Import String.", "From LNN Require Import Num StateCodes.", "Open Scope Q_scope.", ""]
    cm = parse("lnn/constants.py")
    for cls in ("Fact", "World"):
        members = enum_pairs(cm, cls)
        for name, (l, u) in members:
            out.append(f"Definition {cls}_{name} : Q * Q := ({qlit(l)}, {qlit(u)}).")
        out.append(f"Definition {cls}_members : list (string * (Q * Q)) :=\n  [ "
                   + ";\n    ".join(f'("{n}"%string, {cls}_{n})' for n, _ in members) + " ].")
    out.append("Definition Fact_private_members : list string := [ "
               + "; ".join(f'"{n}"%string' for n in enum_auto(cm, "_Fact")) + " ].")
    out.append("")
    translate_node_activation(out)
    out.append("")
    translate_utils(out)
    out.append("")
    translate_params(out)
    out.append("")
    translate_model(out)
    text = "\n".join(out) + "\n"
    old = None
    if os.path.exists(dst):
        with open(dst) as f:
            old = f.read()
    if old != text:  # keep mtime stable when nothing changed (incremental make)
        with open(dst, "w") as f:
            f.write(text)
    return 0


if __name__ == "__main__":
    dst = sys.argv[1] if len(sys.argv) > 1 else os.path.join(os.path.dirname(__file__), "..", "coq", "Generated", "Tables.v")
    try:
        sys.exit(main(dst))
    except CannotTranslate as e:
        print("CANNOT-TRANSLATE: " + str(e))
        sys.exit(3)
