"""C03: a single connective infers exactly the feasible interval hull (alpha = 1)."""
from fractions import Fraction as F
import sx, lib, gen_prop
from framework import Ctx, standard_prologue
from checks_prop import states_of, whole_error

MONITORS = {}
G8 = gen_prop.G8


def monitor(name):
    def deco(f):
        MONITORS[name] = f
        return f
    return deco


def hull_oracle(kd, b, ws, y, xs):
    """exact hull of the feasible set, from first principles (interval arithmetic over the linear pre-activation).
    Normal form: z = c0 + sum a_i t_i with a_i >= 0 over a box for t; truth value = clamp(z) in [L, U].
    And: t_i = x_i, c0 = b - sum w_i, a_i = w_i.  Or: z = 1 - b + sum w_i x_i.  Implies(x0,x1): t0 = 1 - x0.
    Returns None when infeasible, else (hull of the truth value, list of hulls of the x_i)."""
    L, U = y
    if any(l > u for l, u in xs) or L > U:
        return None
    n = len(ws)
    if kd == 2:
        c0, box, back = b - sum(ws), list(xs), [lambda t: t] * n
    elif kd == 3:
        c0, box, back = 1 - b, list(xs), [lambda t: t] * n
    else:
        c0, box, back = 1 - b, [(1 - xs[0][1], 1 - xs[0][0]), xs[1]], [lambda t: 1 - t, lambda t: t]
    zmin = c0 + sum(w * l for w, (l, u) in zip(ws, box))
    zmax = c0 + sum(w * u for w, (l, u) in zip(ws, box))
    # clamp(z) >= L  <=>  L <= 0 or z >= L ;  clamp(z) <= U  <=>  U >= 1 or z <= U
    zl = None if L <= 0 else L
    zu = None if U >= 1 else U
    lo_z = zmin if zl is None else max(zmin, zl)
    hi_z = zmax if zu is None else min(zmax, zu)
    if lo_z > hi_z:
        return None
    clamp = lambda v: max(F(0), min(F(1), v))
    yh = (max(L, clamp(lo_z)), min(U, clamp(hi_z)))
    hulls = []
    for k in range(n):
        l, u = box[k]
        w = ws[k]
        if w == 0:
            t = (l, u)
        else:
            rest_min = zmin - w * l
            rest_max = zmax - w * u
            tl = l if zl is None else max(l, (zl - rest_max) / w)
            tu = u if zu is None else min(u, (zu - rest_min) / w)
            t = (tl, tu)
        a, c = back[k](t[0]), back[k](t[1])
        hulls.append((min(a, c), max(a, c)))
    return yh, hulls


@monitor("c03_hull")
def mon_hull(sc, obs):
    if whole_error(obs):
        return ("no exception", f"raised error class {obs[1]}", None)
    kb, data = sc[1], sc[3]
    ci = len(kb) - 1
    kd, ops, p = kb[ci][0], kb[ci][1], kb[ci][2]
    b, ws = sx.q(p[1]), [sx.q(w) for w in p[2]]
    st0 = [(F(0), F(1))] * len(kb)
    for i, bb in data:
        st0[i] = sx.bnd(bb)
    sts = list(states_of(sc, obs))
    if any(x[3] is None for x in sts):
        return ("upward + downward complete", "raised", None)
    fin = sts[-1][3]
    reported = bool(obs[-1][0]) if sc[4][-1][0] == 9 else any(l > u for (l, u) in fin)
    if len(set(ops)) != len(ops):
        return None
    exp = hull_oracle(kd, b, ws, st0[ci], [st0[j] for j in ops])
    if exp is None:
        if not any(l > u for (l, u) in [fin[ci]] + [fin[j] for j in ops]):
            return (f"no assignment satisfies the given bounds: the step reports a contradiction at the connective or one of its operands", f"connective {fin[ci]}, operands {[fin[j] for j in ops]}", None)
        if not reported:
            return (f"no assignment satisfies the given bounds: has_contradiction() is True after the step", f"has_contradiction() = False with connective {fin[ci]}, operands {[fin[j] for j in ops]}", None)
        return None
    yh, hs = exp
    if fin[ci] != yh:
        return (f"connective bounds after upward+downward = hull of its feasible values {yh} (bias {b}, weights {ws}, given {st0[ci]}, operands {[st0[j] for j in ops]})", f"{fin[ci]}", None)
    for pos, j in enumerate(ops):
        if fin[j] != hs[pos]:
            return (f"operand {pos} bounds after upward+downward = hull of its feasible values {hs[pos]} (connective kind {kd}, bias {b}, weights {ws}, given {st0[ci]}, operands {[st0[k] for k in ops]})", f"{fin[j]}", None)
    return None


def gen_hull(rng, n):
    scs = []
    for _ in range(n):
        kd = rng.choice([2, 2, 3, 3, 4])
        ar = 2 if kd == 4 else rng.choice([2, 2, 3, 4])
        if rng.random() < 0.5:
            ws = [rng.choice([F(1), F(1), F(1, 2), F(2), F(0), F(1, 4)]) for _ in range(ar)]
            b = rng.choice([F(1), F(1), F(1, 2), F(3, 2), F(2)])
        else:
            ws, b = [F(1)] * ar, F(1)
        kb = [[0, [], list(gen_prop.DEFP), []] for _ in range(ar)]
        kb.append([kd, list(range(ar)), [F(1), b, ws, rng.choice([0, 1])], []])
        data = []
        for i in range(ar + 1):
            c = rng.random()
            if c < 0.25:
                continue
            if c < 0.5:
                bb = rng.choice([[F(0), F(0)], [F(1), F(1)]])
            else:
                l, u = sorted((rng.choice(G8), rng.choice(G8)))
                bb = [l, u]
            data.append([i, bb])
        scs.append([3, kb, [ar], data, [[1, ar], [2, ar, -1], [9]]])
    return scs


def check_C03(ctx):
    st, pr = standard_prologue(ctx)
    rng = ctx.rng("c03")
    scs = gen_hull(rng, 1500 if ctx.quick else 20000)
    m, impl, lines = ctx.correspond("K1/K3 single connective: upward then downward", scs, per_proc=300, nontrivial=lambda s, mo: True)
    ninf = 0
    for sc, line, o in zip(scs, lines, impl[0]):
        lo_, oo = sx.loads(line), sx.loads(o)
        r = MONITORS["c03_hull"](lo_, oo)
        if r:
            ctx.violation("c03_hull", line, 0, r[0], r[1], r[2])
    hist = {}
    for sc in scs:
        o = sc[1][-1]
        k = f"kind{o[0]}/arity{len(o[1])}/{'unit' if all(w == 1 for w in o[2][2]) and o[2][1] == 1 else 'weighted'}"
        hist[k] = hist.get(k, 0) + 1
    ctx.cov["distribution"] = hist
    import checks_fol
    checks_fol.c03_fol_part(ctx)
    ctx.assumptions.append("proved for And/Or/Implies (every arity, weights >= 0, any bias, alpha = 1): not tighter, connective interval exact, every operand interval exact (zero-weight operands included), contradiction when infeasible")
    return ctx.finish("proof", pr, st, rule="single connective (And/Or arity 2-4, Implies), alpha = 1, unit or weighted parameters (weights incl. 0, bias 1/2..2), bounds on the 1/8 grid / classical / absent for the connective and every operand; "
                      "ops = connective.upward(); connective.downward(); monitor: an independent exact interval-arithmetic oracle computes the hull of the feasible set (or its emptiness) and demands equality for the connective and for every operand, "
                      "and a crossed bound somewhere plus has_contradiction() == True when the feasible set is empty; first-order part: one And/Or/Implies over 2-3 predicates with different variable tuples (join path), complete fact tables over 2-3 constants with 0/10/25% crossed rows, facts on the connective; upward then downward(all / one operand); monitor: every operand row = old bounds met with the inverse of every non-contradictory grounding reading it (two-sided; groundings with a crossed bound or a not-yet-existing operand row may or may not contribute)")


CHECKS = {"C03": check_C03}
