#!/usr/bin/env python3
"""seed_meta.py <dir> <property> <needs> <detection>: writes meta.json for a confirmed seeded change"""
import sys, json, os
d, prop, needs, det = sys.argv[1:5]
json.dump({"breaks_property": prop, "needs_to_manifest": needs,
           "source": "fresh sub-agent given only the property text and a scratch worktree",
           "confirmed": "harness/seeded_verify.sh in a fresh scratch worktree: demo.py exits 0 on the original code, 1 with the patch; full test suite 132 passed with the patch",
           "detection": det, "how_to_run": f"harness/seeded_run.sh {d} {prop}"}, open(os.path.join(d, "meta.json"), "w"), indent=1)
