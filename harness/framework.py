"""Check framework: build, proof re-check, correspondence, monitors, evidence, exit protocol."""
import os, sys, subprocess, time, json, re, fcntl, glob, collections
import lib, sx

VERIF = lib.VERIF
COQ = os.path.join(VERIF, "coq")
OCAML = os.path.join(VERIF, "ocaml")
EVID = os.path.join(VERIF, "evidence")
REPLAYS = os.path.join(VERIF, "replays")
ALLOWED_AXIOMS = set()  # the development is axiom-free; any axiom reported is a failure

TRUSTED_BASE = [
    "Coq 8.16.1 kernel (coqc) incl. vm_compute conversion; no native_compute; thorough tier re-checks with coqchk",
    "axioms: none (every property theorem must print 'Closed under the global context')",
    "harness/extract_tables.py (fail-closed ast translator of the declarative parts of /repo into coq/Generated/Tables.v)",
    "extraction: Require Extraction + ExtrOcamlBasic only (no Extract Constant, no further Extract Inductive); ocaml/driver.ml tokeniser/printer",
    "correspondence harness (generators, impl_runner.py on /repo working tree, exact rational comparison)",
    "modelled not verified: torch float32 arithmetic (exact on the dyadic generator domain), autograd (dual numbers), networkx DFS order, pandas fragment of _gm.py, Python set order (arbitrary permutation), object identity",
]


class BuildError(Exception):
    def __init__(self, kind, msg):
        super().__init__(msg)
        self.kind = kind
        self.msg = msg


def sh(cmd, cwd=None, timeout=3000, env=None):
    p = subprocess.run(cmd, cwd=cwd, shell=isinstance(cmd, str), stdout=subprocess.PIPE, stderr=subprocess.STDOUT,
                       text=True, timeout=timeout, env=env)
    return p.returncode, p.stdout


class Lock:
    def __enter__(self):
        self.f = open(os.path.join(VERIF, ".lock"), "w")
        fcntl.flock(self.f, fcntl.LOCK_EX)
        return self

    def __exit__(self, *a):
        fcntl.flock(self.f, fcntl.LOCK_UN)
        self.f.close()


def model_files():
    """Coq files whose compiled form is extracted (no proofs)."""
    out = []
    with open(os.path.join(COQ, "_CoqProject")) as f:
        for l in f:
            l = l.strip()
            if l.endswith(".v") and not l.startswith("proofs/") and not l.startswith("Properties/"):
                out.append(l)
    return out


def build(full=True):
    """Regenerate tables from /repo, (re)build the Coq development and the extracted driver.
    Returns dict with status of each stage; never raises on proof failures (make -k)."""
    st = {"tables": "ok", "make_rc": 0, "make_log": "", "driver": "ok"}
    with Lock():
        os.makedirs(os.path.join(COQ, "Generated"), exist_ok=True)
        rc, out = sh([lib.PY, os.path.join(VERIF, "harness", "extract_tables.py")])
        if rc != 0:
            st["tables"] = out.strip()[-500:]
            return st
        if not os.path.exists(os.path.join(COQ, "Makefile")) or \
                os.path.getmtime(os.path.join(COQ, "Makefile")) < os.path.getmtime(os.path.join(COQ, "_CoqProject")):
            sh("coq_makefile -f _CoqProject -o Makefile", cwd=COQ)
        rc, out = sh("timeout 2400 make -k -j16 2>&1", cwd=COQ, timeout=2500)
        st["make_rc"] = rc
        st["make_log"] = "\n".join(l for l in out.split("\n") if not l.startswith("COQC") and not l.startswith("COQDEP"))[-3000:]
        # extraction if any model .vo is newer than the driver
        drv = os.path.join(OCAML, "driver")
        vos = [os.path.join(COQ, f[:-2] + ".vo") for f in model_files()]
        missing = [v for v in vos if not os.path.exists(v)]
        if missing:
            st["driver"] = "model does not compile: " + ", ".join(os.path.basename(m) for m in missing)
            return st
        newest = max(os.path.getmtime(v) for v in vos)
        srcs = [os.path.join(OCAML, "driver.ml"), os.path.join(COQ, "Extract.v")]
        newest = max([newest] + [os.path.getmtime(s) for s in srcs])
        if not os.path.exists(drv) or os.path.getmtime(drv) < newest:
            rc, out = sh("coqc -Q ../coq LNN ../coq/Extract.v && ocamlfind ocamlopt -w -a model.mli model.ml driver.ml -o driver.new && mv driver.new driver",
                         cwd=OCAML, timeout=600)
            if rc != 0:
                st["driver"] = out[-800:]
    return st


FORBIDDEN = re.compile(r"\b(Admitted|admit|Axiom|Parameter|Conjecture|Unset\s+Guard|bypass_check|type-in-type|impredicative-set|Admit\s+Obligations)\b")


def grep_forbidden():
    bad = []
    for path in glob.glob(os.path.join(COQ, "**", "*.v"), recursive=True):
        with open(path) as f:
            txt = f.read()
        # strip comments (non-nested good enough: our comments do not nest)
        txt2 = re.sub(r"\(\*.*?\*\)", "", txt, flags=re.S)
        for m in FORBIDDEN.finditer(txt2):
            bad.append(f"{os.path.relpath(path, COQ)}: {m.group(0)}")
    for path in [os.path.join(COQ, "_CoqProject")]:
        with open(path) as f:
            if re.search(r"type-in-type|impredicative-set|-noinit", f.read()):
                bad.append("_CoqProject: forbidden flag")
    return bad


def coq_deps(vfile):
    """transitive .v dependencies of a file inside the development"""
    seen, todo = set(), [vfile]
    while todo:
        f = todo.pop()
        if f in seen:
            continue
        seen.add(f)
        try:
            with open(os.path.join(COQ, f)) as fh:
                txt = fh.read()
        except FileNotFoundError:
            continue
        for m in re.finditer(r"From\s+LNN(\.[A-Za-z]+)?\s+Require\s+(?:Import|Export)\s+([^.]+)\.", txt):
            sub = (m.group(1) or "")[1:]
            for name in m.group(2).split():
                cand = os.path.join(sub, name + ".v") if sub else name + ".v"
                if os.path.exists(os.path.join(COQ, cand)):
                    todo.append(cand)
    return sorted(seen)


def count_obligations(files):
    n = 0
    names = []
    for f in files:
        with open(os.path.join(COQ, f)) as fh:
            txt = re.sub(r"\(\*.*?\*\)", "", fh.read(), flags=re.S)
        for m in re.finditer(r"^\s*(?:Global\s+|Local\s+)?(Lemma|Theorem|Corollary|Example|Fact|Remark|Instance)\s+([A-Za-z0-9_']+)", txt, flags=re.M):
            n += 1
            names.append(f"{f}:{m.group(2)}")
    return n, names


def coqchk_all():
    """independent re-check (coqchk -o) of the WHOLE development and everything it depends on; one run (about 17 min)
    serves every property: the result is cached against the content of the source files"""
    import hashlib
    mods, sig = [], []
    with open(os.path.join(COQ, "_CoqProject")) as f:
        for l in f:
            l = l.strip()
            if l.endswith(".v"):
                mods.append("LNN." + l[:-2].replace("/", "."))
                # the signature is the CONTENT of every source file (the .vo files are rebuilt from them on every run;
                # their mtimes change whenever a property file is recompiled)
                src = os.path.join(COQ, l)
                with open(src, "rb") as fh:
                    sig.append((l, hashlib.sha256(fh.read()).hexdigest()))
    key = hashlib.sha256(json.dumps(sig).encode()).hexdigest()
    cache = os.path.join(COQ, ".coqchk_cache.json")
    with Lock():
        if os.path.exists(cache):
            try:
                with open(cache) as f:
                    c = json.load(f)
                if c.get("key") == key:
                    c["cached"] = True
                    return c
            except Exception:
                pass
        t = time.time()
        rc, out = sh("timeout 5400 coqchk -silent -o -Q . LNN " + " ".join(mods) + " 2>&1", cwd=COQ, timeout=5500)
        m = re.search(r"\* Axioms:\s*(.*?)\n\s*\*", out + "\n *", flags=re.S)
        c = {"key": key, "rc": rc, "tail": out[-1500:], "seconds": round(time.time() - t, 1), "axioms": (m.group(1).strip() if m else ""),
             "cmd": "coqchk -silent -o -Q . LNN <all modules of _CoqProject>"}
        with open(cache, "w") as f:
            json.dump(c, f)
        return c


def check_property_file(pid, thorough=False):
    """Compile Properties/<pid>.v, parse Print Assumptions.  Returns dict."""
    rel = f"Properties/{pid}.v"
    res = {"file": rel, "ok": False, "theorems": [], "axioms": [], "log": ""}
    if not os.path.exists(os.path.join(COQ, rel)):
        res["log"] = "no property file"
        return res
    deps = coq_deps(rel)
    res["deps"] = deps
    res["obligations"], res["obligation_names"] = count_obligations(deps)
    res["discharged"] = 0
    with Lock():
        rc, out = sh(f"timeout 900 coqc -Q . LNN {rel} 2>&1", cwd=COQ, timeout=1000)
    res["log"] = out[-3000:]
    # obligations whose file compiled against the current sources
    for d in deps:
        vo = os.path.join(COQ, d[:-2] + ".vo")
        if d != rel and os.path.exists(vo) and os.path.getmtime(vo) >= os.path.getmtime(os.path.join(COQ, d)):
            res["discharged"] += count_obligations([d])[0]
    if rc != 0:
        return res
    # Print Assumptions output: either "Closed under the global context" or "Axioms:\n name : type"
    closed = out.count("Closed under the global context")
    axioms = re.findall(r"^([A-Za-z0-9_.']+)\s*:", out[out.find("Axioms:"):], flags=re.M) if "Axioms:" in out else []
    with open(os.path.join(COQ, rel)) as fh:
        txt = re.sub(r"\(\*.*?\*\)", "", fh.read(), flags=re.S)
    thms = re.findall(r"^\s*(?:Theorem|Example|Corollary)\s+([A-Za-z0-9_']+)", txt, flags=re.M)
    n_print = len(re.findall(r"Print Assumptions", txt))
    res["theorems"] = thms
    res["axioms"] = sorted(set(a for a in axioms if a not in ALLOWED_AXIOMS))
    res["n_print"] = n_print
    res["closed"] = closed
    res["ok"] = (not res["axioms"]) and closed == n_print and n_print > 0
    if res["ok"]:
        res["discharged"] += count_obligations([rel])[0]
    if thorough and res["ok"]:
        ck = coqchk_all()
        res["coqchk_rc"] = ck["rc"]
        res["coqchk_tail"] = ck["tail"]
        res["coqchk_s"] = ck["seconds"]
        res["coqchk_cached"] = ck.get("cached", False)
        if ck["rc"] != 0:
            res["ok"] = False
        else:
            res["coqchk_axioms"] = ck["axioms"]
            if ck["axioms"] and "<none>" not in ck["axioms"]:
                res["ok"] = False
    return res


class Ctx:
    """State of one check run."""

    def __init__(self, pid, tier, seed):
        self.pid, self.tier, self.seed = pid, tier, seed
        self.t0 = time.time()
        self.violations = []      # dicts with replay payload (concrete failing input on the implementation)
        self.known = []           # matched known findings
        self.broken = []          # broken proof / correspondence / tie, no concrete input (yet)
        self.cov = collections.OrderedDict()
        self.cov.update({"evaluations": 0, "distinct_nontrivial": 0, "rule": "", "samples": [], "components": {}})
        self.assumptions = []
        self.known_findings = load_known_findings()
        self._distinct = set()
        self.quick = tier == "quick"

    def rng(self, tag):
        return lib.sub_rng(self.seed, f"{self.pid}:{tag}")

    # ---- correspondence -------------------------------------------------
    def correspond(self, comp, scenarios, hashseeds=(0,), nontrivial=None, per_proc=600, describe=None, model_lines=None):
        """Run scenarios on model and implementation; record mismatches.  Returns (model_out, impl_out[hashseed])."""
        lines = [sx.dumps(s) for s in scenarios]
        m = lib.run_model(model_lines if model_lines is not None else lines)
        impl = {}
        mism = []
        for hs in hashseeds:
            impl[hs] = lib.run_impl(lines, hashseed=hs, per_proc=per_proc)
            for k, (a, b) in enumerate(zip(m, impl[hs])):
                if a != b:
                    ok, ncmp, trunc = lib.compare_ops(a, b)
                    if trunc:
                        self.cov.setdefault("float_inexact_truncated", 0)
                        self.cov["float_inexact_truncated"] += 1
                    if not ok:
                        mism.append((k, hs))
        c = self.cov["components"].setdefault(comp, {"scenarios": 0, "mismatches": 0, "hashseeds": list(hashseeds)})
        c["scenarios"] += len(lines)
        c["mismatches"] += len(mism)
        self.cov["evaluations"] += len(lines) * len(hashseeds)
        for k, l in enumerate(lines):
            if nontrivial is None or nontrivial(scenarios[k], m[k]):
                self._distinct.add(l)
        if lines and len(self.cov["samples"]) < 6:
            self.cov["samples"].append({"component": comp, "scenario": lines[0], "model": m[0], "impl": impl[hashseeds[0]][0]})
        if mism:
            k, hs = mism[0]
            self.broken.append({"kind": "correspondence", "component": comp, "scenario": lines[k], "hashseed": hs,
                                "model": m[k], "impl": impl[hs][k], "count": len(mism)})
        return m, impl, lines

    def violation(self, monitor, scenario_line, hashseed, expected, observed, site=None, extra=None):
        v = {"property": self.pid, "monitor": monitor, "scenario": scenario_line, "hashseed": hashseed,
             "expected": expected, "observed": observed, "site": site}
        if extra:
            v.update(extra)
        for kf in self.known_findings:
            if kf.get("property") == self.pid and kf.get("status", "open") == "open" and site is not None and kf.get("site") == site:
                if not any(k["site"] == site for k in self.known):
                    self.known.append({"site": site, "what": kf.get("what", ""), "example": v})
                return
        self.violations.append(v)

    def corpus(self, names):
        """witnesses of repaired defects (known_findings.json `fixed:` entries): must pass on the current tree"""
        env = dict(os.environ)
        env.update({"PYTHONPATH": lib.REPO, "PYTHONDONTWRITEBYTECODE": "1", "PYTHONHASHSEED": "0"})
        os.makedirs("/tmp/lnn_verif_scratch", exist_ok=True)
        res = {}
        for nm in names:
            path = os.path.join(VERIF, "harness", "corpus", nm)
            p = subprocess.run([lib.PY, path], cwd="/tmp/lnn_verif_scratch", env=env, stdout=subprocess.PIPE, stderr=subprocess.STDOUT, text=True, timeout=600)
            out = [l for l in p.stdout.strip().split("\n") if "WARNING" not in l]
            ok = bool(out) and out[-1].strip() == "PASS"
            res[nm] = "PASS" if ok else "FAIL"
            if not ok:
                self.violations.append({"property": self.pid, "monitor": "corpus", "scenario": f"harness/corpus/{nm}", "hashseed": 0,
                                        "expected": "witness of a repaired defect passes", "observed": "\n".join(out[-6:]), "site": None})
        self.cov["corpus"] = res
        self.cov["evaluations"] += len(names)

    def known_witness(self, site, script):
        """replay the witness of a recorded (open) known finding: still failing -> KNOWN-FINDING line, exit code unaffected"""
        kf = [k for k in self.known_findings if k.get("property") == self.pid and k.get("status", "open") == "open" and k.get("site") == site]
        if not kf:
            return
        env = dict(os.environ)
        env.update({"PYTHONPATH": lib.REPO, "PYTHONDONTWRITEBYTECODE": "1", "PYTHONHASHSEED": "0"})
        os.makedirs("/tmp/lnn_verif_scratch", exist_ok=True)
        p = subprocess.run([lib.PY, os.path.join(VERIF, "harness", "corpus", script)], cwd="/tmp/lnn_verif_scratch", env=env,
                           stdout=subprocess.PIPE, stderr=subprocess.STDOUT, text=True, timeout=600)
        out = [l for l in p.stdout.strip().split("\n") if "WARNING" not in l]
        self.cov["evaluations"] += 1
        self.cov.setdefault("known_finding_witnesses", {})[script] = out[-1].strip() if out else ""
        if out and out[-1].strip() == "FAIL" and not any(k["site"] == site for k in self.known):
            self.known.append({"site": site, "what": kf[0].get("what", ""), "example": {"scenario": f"harness/corpus/{script}", "observed": "\n".join(out[-4:])}})

    def finish(self, level="proof", prop_res=None, build_st=None, extra_cov=None, rule=""):
        os.makedirs(EVID, exist_ok=True)
        os.makedirs(REPLAYS, exist_ok=True)
        cov = self.cov
        cov["distinct_nontrivial"] = len(self._distinct)
        cov["rule"] = rule
        if prop_res is not None:
            cov["obligations"] = prop_res.get("obligations", 0)
            cov["discharged"] = prop_res.get("discharged", 0)
            cov["checker_cmd"] = f"cd /verif/coq && make -k -j16 && coqc -Q . LNN Properties/{self.pid}.v" + \
                (" && coqchk -silent -o -Q . LNN <all modules of _CoqProject> (one run serves all properties, cached per build)" if self.tier == "thorough" else "")
            cov["trusted_base"] = TRUSTED_BASE
            cov["property_theorems"] = prop_res.get("theorems", [])
            cov["print_assumptions"] = {"closed": prop_res.get("closed", 0), "expected": prop_res.get("n_print", 0),
                                        "axioms": prop_res.get("axioms", [])}
            if "coqchk_axioms" in prop_res:
                cov["coqchk_axioms"] = prop_res["coqchk_axioms"]
                cov["coqchk_s"] = prop_res.get("coqchk_s")
            cov["coq_files"] = prop_res.get("deps", [])
        if extra_cov:
            cov.update(extra_cov)
        lines_out = []
        exit_code = 0
        for k in self.known:
            lines_out.append(f"KNOWN-FINDING: property={self.pid} {k['site']}: {k['what']}")
        replay_path = None
        if self.violations:
            v = self.violations[0]
            replay_path = os.path.join(REPLAYS, f"{self.pid}_{self.tier}_{self.seed}.json")
            with open(replay_path, "w") as f:
                json.dump({"property": self.pid, "kind": "failing-input", "violation": v,
                           "other_violations": len(self.violations) - 1, "broken": self.broken[:3],
                           "replay_cmd": f"bin/check {self.pid} --replay {replay_path}"}, f, indent=1, default=str)
            lines_out.append(f"VIOLATION property={self.pid} replay={replay_path}")
            exit_code = 1
        elif self.broken:
            replay_path = os.path.join(REPLAYS, f"{self.pid}_{self.tier}_{self.seed}.json")
            with open(replay_path, "w") as f:
                json.dump({"property": self.pid, "kind": "no-failing-input-found", "no_longer_checks": self.broken[:5],
                           "note": "the theorem or correspondence component named here no longer checks; the failing-input search on the implementation found no concrete violation of the property"},
                          f, indent=1, default=str)
            lines_out.append(f"VIOLATION property={self.pid} replay={replay_path} no-failing-input-found")
            exit_code = 1
        ev = {"property_id": self.pid, "tier": self.tier, "seed": self.seed, "level": level, "coverage": cov,
              "assumptions": self.assumptions, "wall_s": round(time.time() - self.t0, 2),
              "violations": len(self.violations) + (1 if (self.broken and not self.violations) else 0)}
        if self.known:
            ev["coverage"]["known_findings_reproduced"] = [k["site"] for k in self.known]
        if self.broken:
            ev["coverage"]["broken"] = [{k: v for k, v in b.items() if k in ("kind", "component", "what", "count")} for b in self.broken[:5]]
        with open(os.path.join(EVID, f"{self.pid}.json"), "w") as f:
            json.dump(ev, f, indent=1, default=str)
        for l in lines_out:
            print(l)
        print(f"[{self.pid}] tier={self.tier} seed={self.seed} evaluations={cov['evaluations']} "
              f"violations={len(self.violations)} broken={len(self.broken)} known={len(self.known)} wall={ev['wall_s']}s")
        return exit_code


def load_known_findings():
    p = os.path.join(VERIF, "known_findings.json")
    if not os.path.exists(p):
        return []
    with open(p) as f:
        return json.load(f).get("findings", [])


def standard_prologue(ctx):
    """Build + proof re-check shared by all checks.  Returns (build_st, prop_res)."""
    st = build()
    if st["tables"] != "ok":
        ctx.broken.append({"kind": "tie", "component": "Generated/Tables.v", "what": st["tables"]})
    if st["driver"] != "ok":
        ctx.broken.append({"kind": "tie", "component": "extracted model", "what": st["driver"]})
    bad = grep_forbidden()
    if bad:
        ctx.broken.append({"kind": "proof", "component": "forbidden constructs", "what": "; ".join(bad[:5])})
    pr = check_property_file(ctx.pid, thorough=(ctx.tier == "thorough"))
    if not pr["ok"]:
        ctx.broken.append({"kind": "proof", "component": pr["file"], "what": (pr["log"] or "")[-1200:] + " axioms=" + str(pr["axioms"]) + (" coqchk: " + pr.get("coqchk_tail", "")[-400:] if pr.get("coqchk_rc") else "")})
    return st, pr
