"""C04: truth-functional on points, classical / Kleene tables, dual formulations."""
from fractions import Fraction as F
import itertools
import sx, lib, gen_prop
from framework import Ctx, standard_prologue
from checks_prop import states_of, whole_error, dist

MONITORS = {}


def monitor(name):
    def deco(f):
        MONITORS[name] = f
        return f
    return deco


# ---- independent oracles (written from the property text, not from the code) -------------
def kleene_eval(kb, atoms):
    """strong Kleene value of every object, values in {0, 1/2, 1} standing for F, U, T.
    And = min, Or = max, Not = 1 - x, Implies = max(1 - a, b), Iff = min of both implications,
    XOr = exactly-one spelled out as And(Not(And(x_i,x_j)) i<j, Or(x..)) -- which the sub-objects are."""
    vals = []
    for i, (kd, ops, p, aux) in enumerate(kb):
        xs = [vals[j] for j in ops]
        if kd == 0:
            vals.append(atoms[i])
        elif kd == 1:
            vals.append(1 - xs[0])
        elif kd in (2, 5, 6):
            vals.append(min(xs))
        elif kd == 3:
            vals.append(max(xs))
        elif kd == 4:
            vals.append(max(1 - xs[0], xs[1]))
    return vals


K2B = {F(0): (F(0), F(0)), F(1, 2): (F(0), F(1)), F(1): (F(1), F(1))}


def user_view(kb):
    """for classical oracle: Iff object = equivalence of the user operands, XOr = exactly one"""
    out = {}
    for i, (kd, ops, p, aux) in enumerate(kb):
        if kd == 5:
            out[i] = ("iff", kb[ops[0]][1])
        elif kd == 6:
            out[i] = ("xor", kb[ops[-1]][1])
    return out


@monitor("c04_point")
def mon_point(sc, obs):
    if whole_error(obs):
        return ("no exception", f"raised error class {obs[1]}", None)
    kb = sc[1]
    mode = sc[6]
    expect = [sx.bnd(b) for b in sc[5]]
    for n, (op, amt, before, after, raw) in enumerate(states_of(sc, obs)):
        if after is None:
            return (f"op #{n} completes", "raised", None)
        if n == 0:
            for i, (e, a) in enumerate(zip(expect, after)):
                if e != a:
                    what = {0: "point value of the weighted Lukasiewicz truth function", 1: "classical truth table value",
                            2: "strong Kleene value"}[mode]
                    return (f"after Model.upward(): object {i} (kind {kb[i][0]}) has the {what} {e}", f"{a}", None)
    return None


def point_scenarios(rng, n):
    scs, meta = [], []
    for _ in range(n):
        kb = gen_prop.gen_kb(rng, weighted=True, nforms=rng.choice([1, 2, 3, 4, 5, 6]), twins=0.15)
        roots = gen_prop.roots_of(rng, kb, extra=0.1)
        kb, roots = gen_prop.restrict(kb, roots)
        atoms = {i: rng.choice(gen_prop.G8) for i, o in enumerate(kb) if o[0] == 0}
        vals = gen_prop.eval_kb(kb, atoms)
        data = [[i, [atoms[i], atoms[i]]] for i in atoms]
        scs.append([3, kb, roots, data, [[3, -1], [3, -1]], [[v, v] for v in vals], 0])
        meta.append({"mode": "point", "nobj": len(kb), "kinds": sorted(set(o[0] for o in kb))})
    return scs, meta


def classical_scenarios(rng, nkb, three_valued):
    """exhaustive assignments over the atoms of random default-parameter KBs"""
    scs, meta = [], []
    for _ in range(nkb):
        kb = gen_prop.gen_kb(rng, weighted=False, natoms=rng.choice([2, 3]), nforms=rng.choice([1, 2, 3, 4]), twins=0.1)
        for o in kb:
            if o[0] != 0:
                o[2][0] = F(1)  # alpha 1 (default)
        roots = gen_prop.roots_of(rng, kb, extra=0.0)
        kb, roots = gen_prop.restrict(kb, roots)
        atoms = [i for i, o in enumerate(kb) if o[0] == 0]
        dom = [F(0), F(1, 2), F(1)] if three_valued else [F(0), F(1)]
        for asg in itertools.product(dom, repeat=len(atoms)):
            a = dict(zip(atoms, asg))
            vals = kleene_eval(kb, a)
            uv = user_view(kb)
            if not three_valued:
                # cross-check the oracle itself against the textbook reading of Iff / XOr
                for i, (t, uops) in uv.items():
                    xs = [vals[j] for j in uops]
                    exp = (F(1) if xs[0] == xs[1] else F(0)) if t == "iff" else (F(1) if sum(xs) == 1 else F(0))
                    assert vals[i] == exp, "oracle inconsistency"
            data = [[i, list(K2B[a[i]])] for i in atoms]
            scs.append([3, kb, roots, data, [[3, -1]], [list(K2B[v]) for v in vals], 2 if three_valued else 1])
            meta.append({"mode": "kleene" if three_valued else "classical", "nobj": len(kb), "kinds": sorted(set(o[0] for o in kb))})
    return scs, meta


# ---- dual formulations ---------------------------------------------------------------------
def dual_pair(rng):
    """returns (kbA, kbB, shared: list of (idxA, idxB)), both with the same atoms"""
    n = rng.choice([2, 2, 3])
    imp = rng.random() < 0.4
    if imp:
        n = 2
    p = gen_prop.params(rng, n, weighted=True)
    p[0] = F(1)
    atoms = [[0, [], list(gen_prop.DEFP), []] for _ in range(n)]
    notp = [F(1), F(1), [], 1]
    if imp:
        kbA = atoms + [[4, [0, 1], p, []]]
        kbB = [list(a) for a in atoms] + [[1, [0], notp, []], [3, [2, 1], p, []]]
        shared = [(0, 0), (1, 1), (2, 3)]
    else:
        kbA = atoms + [[3, list(range(n)), p, []]]
        kbB = [list(a) for a in atoms] + [[1, [i], notp, []] for i in range(n)] + [[2, [n + i for i in range(n)], p, []], [1, [2 * n], notp, []]]
        shared = [(i, i) for i in range(n)] + [(n, 2 * n + 1)]
    return kbA, kbB, shared, imp


def dual_scenarios(rng, n):
    scs, pairs = [], []
    for _ in range(n):
        kbA, kbB, shared, imp = dual_pair(rng)
        hidden_atoms = {i: rng.choice(gen_prop.G8) for i, o in enumerate(kbA) if o[0] == 0}
        hv = gen_prop.eval_kb(kbA, hidden_atoms)
        dataA, dataB = [], []
        for (ia, ib) in shared:
            if rng.random() < 0.7:
                x = hv[ia]
                if rng.random() < 0.8 and x in gen_prop.G8:
                    l = rng.choice([g for g in gen_prop.G8 if g <= x])
                    u = rng.choice([g for g in gen_prop.G8 if g >= x])
                else:
                    l, u = sorted((rng.choice(gen_prop.G8), rng.choice(gen_prop.G8)))
                dataA.append([ia, [l, u]])
                dataB.append([ib, [l, u]])
        ops = rng.choice([[[3, -1], [4, -1]], [[5, -1, 20]], [[3, -1], [4, -1], [3, -1], [4, -1]]])
        scs.append([3, kbA, [len(kbA) - 1], dataA, ops])
        scs.append([3, kbB, [len(kbB) - 1], dataB, ops])
        pairs.append((shared, imp))
    return scs, pairs


def crossed(l, u):
    return l > u


def check_C04(ctx):
    st, pr = standard_prologue(ctx)
    q = ctx.quick
    rng = ctx.rng("c04")
    scs, meta = point_scenarios(rng, 400 if q else 5000)
    s2, m2 = classical_scenarios(rng, 40 if q else 400, False)
    s3, m3 = classical_scenarios(rng, 25 if q else 250, True)
    allsc, allmeta = scs + s2 + s3, meta + m2 + m3
    m, impl, lines = ctx.correspond("K3 upward pass on point / classical / three-valued inputs", allsc, per_proc=150,
                                    nontrivial=lambda s, mo: True)
    for sc, line, o in zip(allsc, lines, impl[0]):
        r = MONITORS["c04_point"](sx.loads(line), sx.loads(o))
        if r:
            ctx.violation("c04_point", line, 0, r[0], r[1], r[2])
    # dual formulations
    ds, pairs = dual_scenarios(rng, 300 if q else 4000)
    m, impl, dlines = ctx.correspond("K3 dual formulations (Or vs Not(And(Not..)), Implies vs Or(Not a, b))", ds, per_proc=150)
    ndual = 0
    for n, (shared, imp) in enumerate(pairs):
        oa, ob = sx.loads(impl[0][2 * n]), sx.loads(impl[0][2 * n + 1])
        if whole_error(oa) or whole_error(ob):
            continue
        sa = list(states_of(sx.loads(dlines[2 * n]), oa))
        sb = list(states_of(sx.loads(dlines[2 * n + 1]), ob))
        if any(x[3] is None for x in sa + sb):
            continue
        fa, fb = sa[-1][3], sb[-1][3]
        if any(crossed(*b) for b in fa) or any(crossed(*b) for b in fb):
            continue  # contradictory data: arresting differs between the formulations by design of the extra nodes
        ndual += 1
        for (ia, ib) in shared:
            if fa[ia] != fb[ib]:
                what = "Implies(a,b) vs Or(Not(a),b)" if imp else "Or(x..) vs Not(And(Not(x)..))"
                ctx.violation("c04_dual", dlines[2 * n], 0, f"{what} with equal weights/bias give identical bounds on shared object {ia}: {fb[ib]} (dual scenario: {dlines[2 * n + 1]})",
                              f"{fa[ia]}", None)
                break
    ctx.cov["distribution"] = dist(allmeta)
    ctx.cov["dual_pairs_compared"] = ndual
    ctx.assumptions.append("Kleene/classical theorems are for default parameters (unit weights, bias 1); point theorem for all weights >= 0 and biases")
    ctx.assumptions.append("dualities are proved at the activation level (or_up/and_up, or_down/and_down, imp_up/or_up); the model-level agreement of the two formulations is checked on the implementation by the dual-pair monitor")
    return ctx.finish("proof", pr, st, rule="point: random weighted nested KBs (And/Or/Implies/Not/Iff/XOr, shared objects, twins), atoms at 1/8-grid points, Model.upward() twice, every object compared with the exact rational truth-function value; "
                      "classical / three-valued: EXHAUSTIVE {0,1}^n resp. {F,U,T}^n assignments over 2-3 atoms of random default-parameter KBs against an independent strong-Kleene oracle; "
                      "dual: pairs of KBs with equal weights/bias and the same data run through upward+downward passes or infer(), shared objects compared; distinct = distinct scenario text")


@monitor("c04_dual")
def mon_dual(sc, obs):
    return None  # pairwise monitor: replay re-runs the whole check component (see check_C04)


CHECKS = {"C04": check_C04}
