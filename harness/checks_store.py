"""C15 store component: value encodings / validation (tag 41) and the propositional data API (add_data / reset_bounds)."""
from fractions import Fraction as F
import sx, lib, gen_prop
from framework import Ctx, standard_prologue
from checks_prop import states_of, whole_error

MONITORS = {}


def monitor(name):
    def deco(f):
        MONITORS[name] = f
        return f
    return deco


G8 = gen_prop.G8


def rnd_value(rng, depth=0):
    c = rng.random()
    if c < 0.18:
        return [0] + rng.choice([[F(1), F(1)], [F(0), F(0)], [F(0), F(1)], [F(1), F(0)]]) + [rng.choice([0, 1])]
    if c < 0.28:
        return [1, rng.choice([0, 1])]
    if c < 0.45:
        return [2, rng.choice(G8 + [F(3, 2), F(-1, 4), F(9, 8), F(-1), F(2)])]
    if c < 0.68:
        l = rng.choice(G8 + [F(3, 2), F(-1, 4)])
        u = rng.choice(G8 + [F(5, 4), F(-1, 8)])
        return [3, l, u]
    if c < 0.76:
        return [4, rng.choice([0, 1, 3, 4])]
    if c < 0.82:
        return [5]
    if c < 0.92 and depth == 0:
        return [6, [rnd_value(rng, 1) for _ in range(rng.choice([1, 2, 3]))]]
    return [7, rng.choice([0, 1, 2, 3])]


def expected(t, v):
    """independent reading of the property: (error?, bounds list)"""
    def one(x):
        k = x[0]
        if k == 0:
            return (sx.q(x[1]), sx.q(x[2]))
        if k == 1:
            return (F(1), F(1)) if x[1] else (F(0), F(0))
        if k == 2:
            q = sx.q(x[1])
            return (q, q) if 0 <= q <= 1 else "reject"
        if k == 3:
            l, u = sx.q(x[1]), sx.q(x[2])
            return (l, u) if 0 <= l <= 1 and 0 <= u <= 1 else "reject"
        return "reject"
    if t in (1, 3):
        return "reject"
    if t == 0:
        r = one(v)
        return "reject" if r == "reject" else [r]
    if v[0] != 6:
        return "reject"
    rs = [one(x) for x in v[1]]
    return "reject" if "reject" in rs else rs


@monitor("c15_validate")
def mon_validate(sc, obs):
    t, v = sc[1], sc[2]
    if obs and obs[0] == -900:
        return ("add_data either stores the value or raises cleanly", f"harness-level error class {obs[1]}", None)
    code, stored, probe = obs[0], [sx.bnd(b) for b in obs[1]], sx.bnd(obs[2])
    e = expected(t, v)
    before = (F(1, 4), F(3, 4))
    if e == "reject":
        if code == 0:
            return (f"add_data(target kind {t}, value {v}) is rejected with an error", f"accepted, stored {stored}", None)
        if probe != before:
            return (f"rejected add_data leaves the formula's table unchanged ({before})", f"{probe}", None)
    else:
        if code != 0:
            return (f"add_data(target kind {t}, value {v}) is accepted", f"raised error class {code}", None)
        if stored != e:
            return (f"get_data returns exactly the asserted bounds {e}", f"{stored}", None)
        if t == 2 and probe != before:
            return (f"other groundings are untouched ({before})", f"{probe}", None)
    return None


@monitor("c15_prop_data")
def mon_prop_data(sc, obs):
    """propositional add_data / inference / reset_bounds sequences: read-back, locality, reset to data"""
    if whole_error(obs):
        return ("no exception on valid data", f"raised error class {obs[1]}", None)
    kb, data = sc[1], sc[3]
    dd = {i: sx.bnd(b) for i, b in data}
    for n, (op, amt, before, after, raw) in enumerate(states_of(sc, obs)):
        if after is None:
            return (f"op #{n} {op} completes", "raised", None)
        if op[0] == 8:
            i, b = op[1], sx.bnd(op[2])
            dd[i] = b
            if after[i] != b:
                return (f"op #{n} add_data on object {i}: get_data returns exactly the asserted {b}", f"{after[i]}", None)
            for j in range(len(kb)):
                if j != i and after[j] != before[j]:
                    return (f"op #{n} add_data on object {i}: object {j} untouched", f"{after[j]}", None)
        if op[0] == 10:
            dd = {}
        if op[0] == 7:
            for j, b in enumerate(after):
                e = dd.get(j, (F(0), F(1)))
                if b != e:
                    return (f"op #{n} reset_bounds(): object {j} returns to exactly its data {e}", f"{b}", None)
    return None


def c15_store_part(ctx):
    rng = ctx.rng("c15store")
    n = 600 if ctx.quick else 6000
    scs = []
    for _ in range(n):
        t = rng.choice([0, 0, 0, 1, 2, 2, 2, 3])
        scs.append([41, t, rnd_value(rng)])
    m, impl, lines = ctx.correspond("K5 add_data value encodings / validation", scs, per_proc=150, nontrivial=lambda s, mo: True)
    hist = {}
    for sc, line, o in zip(scs, lines, impl[0]):
        r = MONITORS["c15_validate"](sx.loads(line), sx.loads(o))
        if r:
            ctx.violation("c15_validate", line, 0, r[0], r[1], r[2])
        oo = sx.loads(o)
        key = f"target{sc[1]}/value{sc[2][0]}/{'rejected' if oo[0] else 'accepted'}"
        hist[key] = hist.get(key, 0) + 1
    ctx.cov["validation_distribution"] = hist
    # propositional data API
    scs2 = []
    for _ in range(300 if ctx.quick else 4000):
        kb = gen_prop.gen_kb(rng, weighted=rng.random() < 0.3, nforms=rng.choice([1, 2, 3, 4]), twins=0.2)
        roots = gen_prop.roots_of(rng, kb, extra=0.1)
        kb, roots = gen_prop.restrict(kb, roots)
        data, hidden = gen_prop.gen_data(rng, kb, rng.choice(["consistent", "free"]))
        ops = []
        for _k in range(rng.choice([4, 6, 9])):
            c = rng.random()
            if c < 0.35:
                j = rng.randrange(len(kb))
                if rng.random() < 0.5 and len(ops) and hidden:
                    b = [hidden[j], hidden[j]] if hidden[j] in G8 else [F(0), F(1)]
                else:
                    l, u = sorted((rng.choice(G8), rng.choice(G8)))
                    b = [l, u]
                ops.append([8, j, b])
            elif c < 0.6:
                ops.append(rng.choice([[5, -1, 30], [3, -1], [4, -1], [5, -1, 2]]))
            elif c < 0.85:
                ops.append([7])
            elif c < 0.92:
                ops.append([10])
            else:
                nl = [i for i, o in enumerate(kb) if o[0] != 0]
                ops.append([1, rng.choice(nl)])
        scs2.append([3, kb, roots, data, ops])
    m2, impl2, lines2 = ctx.correspond("K5 propositional add_data / inference / reset_bounds sequences", scs2, per_proc=120)
    for sc, line, o in zip(scs2, lines2, impl2[0]):
        r = MONITORS["c15_prop_data"](sx.loads(line), sx.loads(o))
        if r:
            ctx.violation("c15_prop_data", line, 0, r[0], r[1], r[2])
    ctx.corpus(["d12_not_in_model.py"])


CHECKS = {}
