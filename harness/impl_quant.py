"""Implementation runner for quantifier scenarios (tag 50)."""
from fractions import Fraction as F
import sx
from lnn import Model, Forall, Exists, Not, Fact, World
import impl_fol
from impl_fol import build, world_of, fr, gkey, cname, data_dict, opt


def qdump(q):
    rows = []
    if q.propositional:
        t = q.get_data().tolist()
        return [[[], [fr(t[0]), fr(t[1])]]]
    for g in (q.grounding_table or {}):
        t = q.get_data(g).tolist()[0]
        rows.append([[int(c[1:]) for c in g], [fr(t[0]), fr(t[1])]])
    rows.sort(key=lambda r: r[0])
    return rows


def k50(args):
    kbs, roots, worlds, data, qobjs, ops = args[:6]
    objs = build(kbs, worlds)
    nb = len(objs)
    variables = list(impl_fol.LAST_VARS)     # the SAME Variable objects the formulae were built with
    qs = []
    for q in qobjs:
        kd, op, free, full, w, ovars = q[:6]
        operand = objs[op] if op < nb else qs[op - nb]
        qvars = [variables[v] for n, v in enumerate(ovars) if n not in free]
        if op < nb and kbs[op][0] == 0:
            body = operand(*[variables[v] for v in ovars])
        else:
            body = operand
        cls = Forall if kd == 0 else Exists
        kw = {} if full == 0 else {"fully_grounded": full == 1}     # 0: the flag is not passed at all
        qs.append(cls(*qvars, body, world=world_of(w), **kw))
    used = set(q[1] for q in qobjs)
    model = Model()
    rts = [qs[i] for i in range(len(qs)) if (nb + i) not in used] + [objs[r] for r in roots if r not in used]
    model.add_knowledge(*rts)
    for i, d in data:
        model.add_data({objs[i]: data_dict(d)})

    def dump():
        return [impl_fol.dump(objs), [qdump(q) for q in qs]]
    res = []
    for op in ops:
        t = op[0]
        if t == 20:
            r = qs[op[1]].upward()
            res.append([fr(r), dump()])
        elif t == 21:
            q = qs[op[1]]
            r = q.downward()
            res.append([fr(r), dump()])
        elif t == 1:
            r = objs[op[1]].upward()
            res.append([fr(r), dump()])
        elif t == 2:
            o = objs[op[1]]
            r = o.downward() if isinstance(o, Not) else o.downward(index=opt(op[2]))
            res.append([fr(r), dump()])
        elif t == 8:
            model.add_data({objs[op[1]]: data_dict(op[2])})
            res.append([dump()])
        elif t == 16:
            import io, contextlib
            with contextlib.redirect_stdout(io.StringIO()):
                model.print()
            for o in objs:
                o.state(); o.is_contradiction(); o.get_data()
            res.append([dump()])
        elif t == 7:
            model.reset_bounds()
            res.append([dump()])
        elif t == 15:
            objs[op[1]].reset_bounds()
            res.append([dump()])
        elif t == 12:
            g = op[2]
            b = objs[op[1]].get_data(gkey(g) if len(g) == 1 else tuple(cname(c) for c in g)).tolist()[0]
            res.append([[fr(b[0]), fr(b[1])], dump()])
        else:
            raise ValueError("unknown op")
    return res


HANDLERS = {50: k50}
